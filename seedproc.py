#!/venv/bin/python
"""seedproc.py <pid-lower> <round> [<tree-prefix>] : confirm a seeded regression (demo on /repo passes, on the tree fails, 63 tests pass),
run the property's check against it in an isolated copy (seedtest.sh), and store patch/demo/meta under seeded/<PID>-<round>/ with the result.
Prints one summary line."""
import json, os, re, shutil, subprocess, sys
p = sys.argv[1]; rnd = sys.argv[2]; prefix = sys.argv[3] if len(sys.argv) > 3 else '/tmp/seed' + ('' if rnd == '1' else rnd) + '-'
P = p.upper(); tree = prefix + p; out = tree + '-out'
demo = os.path.join(out, 'demo.py'); runner = ['/venv/bin/python', demo]
if not os.path.exists(demo):
    demo = os.path.join(out, 'demo.sh'); runner = ['bash', demo]
def run(cmd, **k):
    return subprocess.run(cmd, capture_output=True, text=True, **k)
a = run(runner + ['/repo']).returncode
b = run(runner + [tree]).returncode
t = run(['/venv/bin/python', '-m', 'pytest', '-q', '-p', 'no:cacheprovider', 'auth/test'], cwd=tree).stdout.strip().splitlines()[-1]
st = run(['/verif/seedtest.sh', P, tree], env={**os.environ, 'VERIF_SEED': os.environ.get('VERIF_SEED', '0')})
txt = st.stdout + st.stderr
viol = [l for l in txt.splitlines() if l.startswith('VIOLATION')]
msg = re.search(r'"message": "(.*?)",?\n', txt)
msg = msg.group(1)[:300] if msg else ''
if st.returncode == 0:
    result = 'MISSED (exit 0)'
elif viol and 'no-failing-input-found' in viol[0]:
    result = 'caught only as VIOLATION … no-failing-input-found'
elif viol:
    result = 'exit 1, VIOLATION with a failing input'
else:
    result = f'exit {st.returncode} (machinery?)'
dst = f'/verif/seeded/{P}-{rnd}'
os.makedirs(dst, exist_ok=True)
for f in os.listdir(out):
    if f != 'PROPERTY.json':
        shutil.copy(os.path.join(out, f), dst)
mp = os.path.join(dst, 'meta.json')
m = json.load(open(mp)) if os.path.exists(mp) else {}
v = {'demo_on_pristine_repo_exit': a, 'demo_on_mutated_tree_exit': b, 'pinned_tests_on_mutated_tree': t,
     'check_cmd': f'./seedtest.sh {P} <mutated worktree>', 'check_message': msg,
     'author': 'fresh sub-agent given only the property text and a scratch worktree (no access to /verif)'}
if 'with a failing input' in result:
    v['check_result'] = result
else:
    v['check_result_first_run'] = result
m['verified_by_coordinator'] = v
json.dump(m, open(mp, 'w'), indent=1)
print(f'{P}-{rnd}: demo clean={a} mut={b} tests="{t}" check: {result} | {msg[:160]}')

#!/bin/bash
# MANIFEST.setup_cmd: offline build of the framework from files on disk only.
set -e
DIR="$(cd "$(dirname "${BASH_SOURCE[0]}")" && pwd)"
cd "$DIR"
if [ ! -d .deps/numpy ]; then
  mkdir -p .deps
  /venv/bin/pip install --quiet --no-index --find-links /opt/veriftools/wheels --target .deps numpy >/dev/null 2>&1 || echo "setup: numpy not installed (C33 ndarray cases will be skipped)"
fi
cd lean
( flock 9; lake build ) 9>.verif-lock

#!/bin/bash
# MANIFEST.setup_cmd: offline build of the framework from files on disk only.
DIR="$(cd "$(dirname "${BASH_SOURCE[0]}")" && pwd)"
cd "$DIR"
if [ ! -d .deps/numpy ]; then
  mkdir -p .deps
  /venv/bin/pip install --quiet --no-index --find-links /opt/veriftools/wheels --target .deps numpy >/dev/null 2>&1 || echo "setup: numpy not installed (ndarray cases will be skipped)"
fi
cd lean
(
  flock 9
  if ! lake build 2>&1 | tail -5; then :; fi
  # a module of a property still under construction must not block the others: build each property's theorems on its own
  for f in HailVerif/Props/*.lean; do
    m="HailVerif.Props.$(basename "$f" .lean)"
    lake build "$m" >/dev/null 2>&1 || echo "setup: $m does not build"
  done
) 9>.verif-lock
exit 0

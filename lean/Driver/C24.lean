import HailVerif.Model.RateLimit
import HailVerif.Model.DriverUtil
open HailVerif HailVerif.DriverUtil HailVerif.RateLimit

/-- What the event loop does while the clock moves to `target`: every sleeper whose sleep has ended runs one iteration
(`attempt`), then the clock jumps to the next wake-up time.  Built only from `step`, so the theorems (which hold for every
op list) cover it.  The order among sleepers due at the same instant does not influence the admission times. -/
partial def advance (c : Cfg) (s : State) (target : Int) : Except Err State :=
  match s.sleepers.find? (fun p => p.2.2 ≤ s.now) with
  | some p =>
    match step c s (.attempt p.1) with
    | .ok s' => advance c s' target
    | .error e => .error e
  | none =>
    let next := s.sleepers.foldl (fun (m : Option Int) p => match m with | none => some p.2.2 | some x => some (min x p.2.2)) none
    match next with
    | some n =>
      if n ≤ target then
        match step c s (.tick (n - s.now).toNat) with
        | .ok s' => advance c s' target
        | .error e => .error e
      else step c s (.tick (target - s.now).toNat)
    | none => step c s (.tick (target - s.now).toNat)

def showErr : Err → String
  | .indexError => "err IndexError"
  | .notDue => "err notDue"

/-- lines: `cfg count W` (new limiter, clock 0), `arrive i` (task i calls `__aenter__` now), `advance dt` -/
def handle (st : Option (Cfg × State)) (line : String) : Option (Cfg × State) × String :=
  match words line, st with
  | ["cfg", n, w], _ =>
    match n.toNat?, w.toInt? with
    | some n, some w => (some (⟨n, w⟩, init 0), "ok")
    | _, _ => (st, "bad-op")
  | ["arrive", i], some (c, s) =>
    match i.toNat? with
    | some i =>
      match step c s (.attempt i) with
      | .ok s' => (some (c, s'), if s'.log.length > s.log.length then "admit" else "sleep")
      | .error e => (st, showErr e)
    | none => (st, "bad-op")
  | ["advance", dt], some (c, s) =>
    match dt.toNat? with
    | some dt =>
      match advance c s (s.now + dt) with
      | .ok s' =>
        let adm := s'.log.drop s.log.length
        (some (c, s'), s!"t={s'.now} adm={joinWith "," (adm.map toString)} sleeping={s'.sleepers.length}")
      | .error e => (st, showErr e)
    | none => (st, "bad-op")
  | _, _ => (st, "bad-op")

def main : IO Unit := foldLines (none : Option (Cfg × State)) handle

import HailVerif.Model.RateLimit
import HailVerif.Model.DriverUtil
open HailVerif HailVerif.DriverUtil HailVerif.RateLimit

/-- driver state: the model state plus the harness's schedule of body ends (the body of an admitted entrant is
`await asyncio.sleep(d); [raise]`), which is not part of the limiter -/
structure D where
  c : Cfg
  s : State
  /-- (task, body duration, ends by exception) for every entrant that has arrived -/
  durs : List (Nat × Nat × Bool)
  /-- (task, time its body ends, by exception) for entrants that have been admitted -/
  ends : List (Nat × Int × Bool)

/-- one model step; entrants admitted by it get their body-end time -/
def dstep (d : D) (op : Op) : Except Err D :=
  match step d.c d.s op with
  | .error e => .error e
  | .ok s' =>
    let fresh := s'.inBody.filter fun i => !d.s.inBody.contains i
    let newEnds := fresh.filterMap fun i => (d.durs.find? fun p => p.1 == i).map fun p => (i, s'.now + (p.2.1 : Int), p.2.2)
    .ok { d with s := s', ends := (d.ends.filter fun p => s'.inBody.contains p.1) ++ newEnds }

/-- What the event loop does while the clock moves to `target`: every body whose time is up ends (`exit`/`fail`), every
sleeper whose sleep has ended runs one iteration (`attempt`), then the clock jumps to the next timer.  Built only from
`step`, so the theorems (which hold for every op list) cover it.  The order among timers due at the same instant does
not influence the admission times. -/
partial def advance (d : D) (target : Int) (hint : List Nat) : Except Err D :=
  match d.ends.find? (fun p => p.2.1 ≤ d.s.now) with
  | some p =>
    match dstep d (if p.2.2 then .fail p.1 else .exit p.1) with
    | .ok d' => advance d' target hint
    | .error e => .error e
  | none =>
  let due := d.s.sleepers.filter (fun p => p.2.2 ≤ d.s.now)
  -- which of several sleepers due at the same instant runs first is the event loop's choice (timer heap order): the
  -- harness passes the order it observed as a hint; it only breaks ties among sleepers that ARE due
  let pick : Option Nat := match hint.find? (fun i => due.any (·.1 == i)) with
    | some i => some i
    | none => due.head?.map (·.1)
  match pick with
  | some i =>
    match dstep d (.attempt i) with
    | .ok d' => advance d' target (hint.erase i)
    | .error e => .error e
  | none =>
    let timers := d.s.sleepers.map (·.2.2) ++ d.ends.map (·.2.1)
    let next := timers.foldl (fun (m : Option Int) x => match m with | none => some x | some y => some (min x y)) none
    let goal := match next with | some n => if n ≤ target then n else target | none => target
    match dstep d (.tick (goal - d.s.now).toNat) with
    | .error e => .error e
    | .ok d' => if goal < target ∨ next == some target then advance d' target hint else .ok d'

def showErr : Err → String
  | .indexError => "err IndexError"
  | .notDue => "err notDue"
  | .protocol => "err"

def inAenter (d : D) : Nat := d.s.sleepers.length

/-- lines: `cfg count W` (new limiter, clock 0), `arrive i d e` (task i calls `__aenter__` now; its body lasts d ticks and
ends by an exception iff e = 1), `cancel i`, `advance dt [tie-break order of task ids]`, `stall dt [tie-break order]` -/
def handle (st : Option D) (line : String) : Option D × String :=
  match words line, st with
  | ["cfg", n, w], _ =>
    match n.toNat?, w.toInt? with
    | some n, some w => (some ⟨⟨n, w⟩, init 0, [], []⟩, "ok")
    | _, _ => (st, "bad-op")
  | ["arrive", i, dur, e], some d =>
    match i.toNat?, dur.toNat? with
    | some i, some dur =>
      match dstep { d with durs := (i, dur, e == "1") :: d.durs } (.attempt i) with
      | .ok d' =>
        let admitted := d'.s.log.length > d.s.log.length
        -- a body of duration 0 ends within the same loop iteration
        match advance d' d'.s.now [] with
        | .ok d'' => (some d'', if admitted then "admit" else "sleep")
        | .error e => (st, showErr e)
      | .error e => (st, showErr e)
    | _, _ => (st, "bad-op")
  | ["cancel", i], some d =>
    match i.toNat? with
    | some i =>
      let where_ := if d.s.inBody.contains i then "cancel body" else "cancel wait"
      match dstep d (.cancel i) with
      | .ok d' => (some d', where_)
      | .error e => (st, showErr e)
    | none => (st, "bad-op")
  | "advance" :: dt :: hint, some d =>
    match dt.toNat?, nats? hint with
    | some dt, some hint =>
      match advance d (d.s.now + dt) hint with
      | .ok d' =>
        let adm := d'.s.log.drop d.s.log.length
        (some d', s!"t={d'.s.now} adm={joinWith "," (adm.map toString)} sleeping={inAenter d'} body={d'.s.inBody.length}")
      | .error e => (st, showErr e)
    | _, _ => (st, "bad-op")
  | "stall" :: dt :: hint, some d =>
    -- the loop is busy for dt ticks: real time passes (`tick dt`) and nobody runs; sleeps and bodies that ended meanwhile are
    -- served LATE, at the new time (`attempt` only requires now ≥ the requested wake-up time)
    match dt.toNat?, nats? hint with
    | some dt, some hint =>
      match dstep d (.tick dt) with
      | .error e => (st, showErr e)
      | .ok d1 =>
        match advance d1 d1.s.now hint with
        | .ok d' =>
          let adm := d'.s.log.drop d.s.log.length
          (some d', s!"t={d'.s.now} adm={joinWith "," (adm.map toString)} sleeping={inAenter d'} body={d'.s.inBody.length}")
        | .error e => (st, showErr e)
    | _, _ => (st, "bad-op")
  | _, _ => (st, "bad-op")

def main : IO Unit := foldLines (none : Option D) handle

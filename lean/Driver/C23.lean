import HailVerif.Model.RangeRead
import HailVerif.Model.DriverUtil
open HailVerif HailVerif.DriverUtil HailVerif.RangeRead

def natList? (s : String) : Option (List Nat) :=
  if s == "-" then some [] else (s.splitOn ",").mapM String.toNat?

def optNat? (s : String) : Option (Option Nat) :=
  if s == "-" then some none else s.toNat?.map some

def backend? : String → Option Backend
  | "local" => some .localfs | "gs" => some .gs | "s3" => some .s3 | "azure" => some .azure | _ => none

def op? (s : String) : Option Op :=
  if s == "a" then some (.call .readAll)
  else
    let n? := (s.drop 1).toString.toNat?
    match s.front, n? with
    | 'r', some n => some (.call (.read n))
    | 'x', some n => some (.call (.exactly n))
    | 'd', some n => some (.drain n)
    | _, _ => none

def ops? (s : String) : Option (List Op) :=
  if s == "-" then some [] else (s.splitOn ",").mapM op?

def showBytes (b : Blob) : String := if b.isEmpty then "-" else joinWith "," (b.map toString)

def showStatus : Status → String
  | .ok => "ok" | .eof => "eof" | .http416 => "http416" | .assertion => "assert" | .fuel => "fuel"

def showRes (r : Status × Blob × Option String × List (Nat × Option Nat)) : String :=
  let req := r.2.2.1.getD "-"
  let log := if r.2.2.2.isEmpty then "-" else
    joinWith ";" (r.2.2.2.map fun p => toString p.1 ++ ":" ++ (match p.2 with | none => "-" | some l => toString l))
  s!"{req} {log} {showStatus r.1} {showBytes r.2.1}"

/-- lines: `<backend> <bytes> <chunk> open <start> <len|-> <ops>` | `… from <start>` | `… range <start> <end> <0|1>` -/
def handle (line : String) : String :=
  match words line with
  | be :: bytes :: chunk :: rest =>
    match backend? be, natList? bytes, chunk.toNat? with
    | some be, some blob, some c =>
      let ch := pieces c
      match rest with
      | ["open", start, len, ops] =>
        match start.toNat?, optNat? len, ops? ops with
        | some start, some len, some ops => showRes (openRun ch be blob start len ops)
        | _, _, _ => "bad-op"
      | ["from", start] =>
        match start.toNat? with
        | some start => showRes (readFrom ch be blob start)
        | none => "bad-op"
      | ["range", start, end_, incl] =>
        match start.toNat?, end_.toInt?, incl.toNat? with
        | some start, some e, some i => showRes (readRange ch be blob start e (i != 0))
        | _, _, _ => "bad-op"
      | _ => "bad-op"
    | _, _, _ => "bad-op"
  | _ => "bad-op"

def main : IO Unit := mapLines handle

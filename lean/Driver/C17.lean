import HailVerif.Model.BatchOrder
import HailVerif.Model.DriverUtil
open HailVerif HailVerif.DriverUtil HailVerif.BatchOrder

/-- split `k d₁ … d_k` groups -/
def groups : Nat → List Nat → List (List Nat)
  | 0, _ => []
  | n + 1, k :: rest => rest.take k :: groups n (rest.drop k)
  | _ + 1, [] => []

mutual
/-- argument trees in prefix form: `R <job>` resource of a job | `N` resource without source (input file) | `V` value |
`L <k>` list/tuple of the next k trees | `D <k>` dict whose values are the next k trees -/
partial def parseArg : List String → Option (Arg × List String)
  | "R" :: s :: rest => s.toNat?.map fun n => (.res (some n), rest)
  | "N" :: rest => some (.res none, rest)
  | "V" :: rest => some (.value, rest)
  | "L" :: k :: rest => k.toNat?.bind fun k => (parseArgs k rest).map fun r => (.seq r.1, r.2)
  | "D" :: k :: rest => k.toNat?.bind fun k => (parseArgs k rest).map fun r => (.dict r.1, r.2)
  | _ => none
partial def parseArgs : Nat → List String → Option (List Arg × List String)
  | 0, rest => some ([], rest)
  | k + 1, rest => (parseArg rest).bind fun r => (parseArgs k r.2).map fun r' => (r.1 :: r'.1, r'.2)
end

def insertSorted (k : Nat) : List Nat → List Nat
  | [] => [k]
  | x :: t => if k < x then k :: x :: t else if k = x then x :: t else x :: insertSorted k t

/-- `deps <self> E <k> <explicit…> C <k> <command sources…> A <k> <trees…> K <k> <trees…>` → the sorted members of
`j._dependencies` per `jobDeps` (all calls of the job pooled: positional trees after `A`, keyword values after `K`) -/
def handleDeps (ws : List String) : String :=
  match ws with
  | self :: "E" :: ke :: rest =>
    match self.toNat?, ke.toNat? with
    | some self, some ke =>
      match nats? (rest.take ke), (rest.drop ke) with
      | some ex, "C" :: kc :: rest =>
        match kc.toNat? with
        | some kc =>
          match nats? (rest.take kc), (rest.drop kc) with
          | some cs, "A" :: ka :: rest =>
            match ka.toNat?.bind fun ka => parseArgs ka rest with
            | some (args, "K" :: kk :: rest) =>
              match kk.toNat?.bind fun kk => parseArgs kk rest with
              | some (kws, []) =>
                let d : JobDecl := { explicit := ex, cmdSources := cs, calls := [(args, kws.map fun a => ("k", a))] }
                joinWith "," (((jobDeps self d).foldl (fun acc x => insertSorted x acc) []).map toString)
              | _ => "bad-op"
            | _ => "bad-op"
          | _, _ => "bad-op"
        | none => "bad-op"
      | _, _ => "bad-op"
    | _, _ => "bad-op"
  | _ => "bad-op"

/-- line: `n  ar₀ … ar_{n-1}  f₀ … f_{n-1}  c₀ … c_{n-1}  (k_j d … d)  for j = 0 … n-1` — always_run flags, fails flags,
has-a-command flags (`exec`/`skip` list only jobs with commands: whether the empty block of a command-less job is spawned
is not an observable), and for every
job its dependency list in the iteration order of the real `_dependencies` set.
answer: `cycle` | `assert` | `keyerror` | `order=<jobs> exec=<jobs run, in order> skip=<jobs not run> exc=<0|1>` -/
def handle (line : String) : String :=
  match words line with
  | "deps" :: ws => handleDeps ws
  | _ =>
  match nats? (words line) with
  | some (n :: rest) =>
    let ar := rest.take n
    let fl := (rest.drop n).take n
    let hc := (rest.drop (2 * n)).take n
    let hasCmd := fun j => hc.getD j 1 == 1
    let ds := groups n (rest.drop (3 * n))
    let g : Pipe := { n, deps := fun j => ds.getD j [], alwaysRun := fun j => ar.getD j 0 == 1 }
    let fails := fun j => fl.getD j 0 == 1
    match accept g with
    | .cycle => "cycle"
    | .assertFail => "assert"
    | .keyError => "keyerror"
    | .ok ord =>
      let r := runLocal g fails ord
      let sh := fun (l : List Nat) => joinWith "," (l.map toString)
      s!"order={sh ord} exec={sh (r.1.filter hasCmd)} skip={sh (ord.filter fun j => !r.1.contains j && hasCmd j)} exc={if r.2 then 1 else 0}"
  | _ => "bad-op"

def main : IO Unit := mapLines handle

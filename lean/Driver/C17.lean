import HailVerif.Model.BatchOrder
import HailVerif.Model.DriverUtil
open HailVerif HailVerif.DriverUtil HailVerif.BatchOrder

/-- split `k d₁ … d_k` groups -/
def groups : Nat → List Nat → List (List Nat)
  | 0, _ => []
  | n + 1, k :: rest => rest.take k :: groups n (rest.drop k)
  | _ + 1, [] => []

/-- line: `n  ar₀ … ar_{n-1}  f₀ … f_{n-1}  (k_j d … d)  for j = 0 … n-1` — always_run flags, fails flags, and for every
job its dependency list in the iteration order of the real `_dependencies` set.
answer: `cycle` | `assert` | `keyerror` | `order=<jobs> exec=<jobs run, in order> skip=<jobs not run> exc=<0|1>` -/
def handle (line : String) : String :=
  match nats? (words line) with
  | some (n :: rest) =>
    let ar := rest.take n
    let fl := (rest.drop n).take n
    let ds := groups n (rest.drop (2 * n))
    let g : Pipe := { n, deps := fun j => ds.getD j [], alwaysRun := fun j => ar.getD j 0 == 1 }
    let fails := fun j => fl.getD j 0 == 1
    match accept g with
    | .cycle => "cycle"
    | .assertFail => "assert"
    | .keyError => "keyerror"
    | .ok ord =>
      let r := runLocal g fails ord
      let sh := fun (l : List Nat) => joinWith "," (l.map toString)
      s!"order={sh ord} exec={sh r.1} skip={sh (ord.filter fun j => !r.1.contains j)} exc={if r.2 then 1 else 0}"
  | _ => "bad-op"

def main : IO Unit := mapLines handle

import HailVerif.Model.Copy
import HailVerif.Model.DriverUtil
open HailVerif HailVerif.DriverUtil HailVerif.Copy

def hexVal (c : Char) : Option Nat :=
  if c.isDigit then some (c.toNat - 48) else if 'a' ≤ c ∧ c ≤ 'f' then some (c.toNat - 87) else none

/-- hex of UTF-8 bytes -/
def unhex (s : String) : Option (List Char) :=
  if s == "-" then some [] else
  let rec go : List Char → Option (List UInt8)
    | [] => some []
    | [_] => none
    | a :: b :: r =>
      match hexVal a, hexVal b, go r with
      | some x, some y, some t => some (UInt8.ofNat (16 * x + y) :: t)
      | _, _, _ => none
  match go s.toList with
  | some bytes => (String.fromUTF8? (ByteArray.mk bytes.toArray)).map String.toList
  | none => none

def hexDigit (n : Nat) : Char := if n < 10 then Char.ofNat (48 + n) else Char.ofNat (87 + n)

def hex (s : String) : String :=
  String.ofList (s.toUTF8.toList.map fun b => [hexDigit (b.toNat / 16), hexDigit (b.toNat % 16)]).flatten

/-- a tree path given as hex of `a/b/c` -/
def splitPath (s : String) : Path := ((unhex s).map comps).getD []

def loc (s : String) : Loc := { raw := (unhex s).getD [] }

def showPath (p : Path) : String := hex (joinWith "/" p)

/-- `T path=id.size … D path …` up to the first `X` -/
def parseTree (ws : List String) : Option (List (Path × Node) × List String) :=
  let rec go (ws : List String) (isDir : Bool) (acc : List (Path × Node)) : Option (List (Path × Node) × List String) :=
    match ws with
    | [] => some (acc.reverse, [])
    | "X" :: _ => some (acc.reverse, ws)
    | "T" :: r => go r false acc
    | "D" :: r => go r true acc
    | w :: r =>
      if isDir then go r true ((splitPath w, .dir) :: acc)
      else match w.splitOn "=" with
        | [p, c] =>
          match (c.splitOn ".").mapM String.toNat? with
          | some cs => go r false ((splitPath p, .file cs) :: acc)
          | none => none
        | _ => none
  go ws false []

/-- the listed entries; every ancestor of a listed path is a directory -/
def mkTree (entries : List (Path × Node)) : Tree :=
  let anc : List (Path × Node) := (entries.map fun e => (List.range e.1.length).map fun k => (e.1.take k, Node.dir)).flatten
  let all := entries ++ anc
  { get := fun q => if q = [] then some .dir else (all.find? (·.1 = q)).map (·.2), dom := all.map (·.1) }

def mode? : String → Option Mode
  | "dest_dir" => some .destDir | "dest_is_target" => some .destIsTarget | "infer_dest" => some .inferDest | _ => none

/-- `X mode s|l dest src…` repeated -/
partial def parseXfers (ws : List String) : Option (List Transfer) :=
  match ws with
  | [] => some []
  | "X" :: m :: sl :: dest :: rest =>
    let srcs := rest.takeWhile (· ≠ "X")
    let tail := rest.dropWhile (· ≠ "X")
    match mode? m, parseXfers tail with
    | some m, some xs => some ({ srcs := srcs.map loc, single := sl == "s", dest := loc dest, mode := m } :: xs)
    | _, _ => none
  | _ => none

def showErr : Err → String
  | .notFound => "FileNotFoundError" | .isADir => "IsADirectoryError" | .notADir => "NotADirectoryError"
  | .fileAndDir => "FileAndDirectoryError"

def showTree (t : Tree) : String :=
  let keys := (t.dom.map showPath).toArray.qsort (· < ·) |>.toList.eraseDups
  let items := keys.filterMap fun k =>
    if k == "" then none else
    match t.get (splitPath k) with
    | some (.file c) => some (k ++ "=" ++ joinWith "." (c.map toString))
    | some .dir => some (k ++ "/")
    | none => none
  "ok " ++ joinWith " " items

def showPlan : Option (List Part) → String
  | none => "single"
  | some ps =>
    let parts := joinWith "," (ps.map fun p => s!"{p.number}:{p.start}:{p.size}")
    let reads := joinWith "," ((ps.map (·.reads)).flatten.map fun r => s!"{r.1}:{r.2}")
    s!"parts={parts} reads={reads}"

def handle (line : String) : String :=
  match words line with
  | ["plan", size, part, buf] =>
    match size.toNat?, part.toNat?, buf.toNat? with
    | some size, some part, some buf => showPlan (partPlan size part buf)
    | _, _, _ => "bad-op"
  | "copy" :: rest =>
    match parseTree rest with
    | some (entries, rest') =>
      match parseXfers rest' with
      | some xs =>
        match copyAll (mkTree entries) xs with
        | .ok t => showTree t
        | .error e => "err " ++ showErr e
      | none => "bad-op"
    | none => "bad-op"
  | _ => "bad-op"

def main : IO Unit := mapLines handle

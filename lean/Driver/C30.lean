import HailVerif.Model.CI
import HailVerif.Model.DriverUtil
open HailVerif HailVerif.DriverUtil HailVerif.CI

def showSt : GhStatus → String
  | .success => "success" | .pending => "pending" | .failure => "failure"

def rawOf : String → Option RawState
  | "PENDING" => some .PENDING | "EXPECTED" => some .EXPECTED | "ACTION_REQUIRED" => some .ACTION_REQUIRED | "STALE" => some .STALE
  | "FAILURE" => some .FAILURE | "ERROR" => some .ERROR | "TIMED_OUT" => some .TIMED_OUT | "CANCELLED" => some .CANCELLED
  | "STARTUP_FAILURE" => some .STARTUP_FAILURE | "SKIPPED" => some .SKIPPED | "SUCCESS" => some .SUCCESS | "NEUTRAL" => some .NEUTRAL
  | _ => none

def decisionOf : String → Option ReviewDecision
  | "APPROVED" => some .APPROVED | "CHANGES_REQUESTED" => some .CHANGES_REQUESTED | "REVIEW_REQUIRED" => some .REVIEW_REQUIRED
  | "NONE" => some .apiNone | "OTHER" => some .other | _ => none

def bitOf : String → Option Bool
  | "1" => some true | "0" => some false | _ => none

def labelsOf (s : String) : Option Labels :=
  match s.toList with
  | [a, b, c, d, e] =>
    let f (c : Char) := c == '1'
    some { highPrio := f a, wip := f b, stacked := f c, doNotTest := f d, other := f e }
  | _ => none

def showLabels (l : Labels) : String :=
  String.ofList ([l.highPrio, l.wip, l.stacked, l.doNotTest, l.other].map fun b => if b then '1' else '0')

/-- parse `n` checks `<ctx> <req> <state>` -/
def parseChecks : Nat → List String → Option (List Check × List String)
  | 0, ws => some ([], ws)
  | n + 1, c :: r :: s :: ws => do
    let ctx ← c.toNat?
    let req ← bitOf r
    let st ← (if s == "NULL" then some none else (rawOf s).map some)
    let (cs, rest) ← parseChecks n ws
    pure ({ ctx := ctx, required := req, state := st } :: cs, rest)
  | _, _ => none

/-- parse `n` PR snapshots `<number> <head> <auth> <labels> <decision> <nchecks> checks…` -/
def parsePRs : Nat → List String → Option (List PRSnap × List String)
  | 0, ws => some ([], ws)
  | n + 1, num :: head :: auth :: lab :: dec :: nc :: ws => do
    let num ← num.toNat?
    let head ← head.toNat?
    let auth ← bitOf auth
    let lab ← labelsOf lab
    let dec ← decisionOf dec
    let nc ← nc.toNat?
    let (cs, rest) ← parseChecks nc ws
    let (ps, rest') ← parsePRs n rest
    pure ({ number := num, headSha := head, authorized := auth, labels := lab, decision := dec, checks := cs } :: ps, rest')
  | _, _ => none

def parseBools : Nat → List String → Option (List Bool × List String)
  | 0, ws => some ([], ws)
  | n + 1, w :: ws => do
    let b ← bitOf w
    let (bs, rest) ← parseBools n ws
    pure (b :: bs, rest)
  | _, _ => none

def parseEvent (ws : List String) : Option Event :=
  match ws with
  | "ghpartial" :: k :: t :: n :: rest => do
    let k ← k.toNat?
    let t ← t.toNat?
    let n ← n.toNat?
    let (ps, _) ← parsePRs n rest
    pure (.githubPartial { targetSha := t, prs := ps } k)
  | "gh" :: t :: n :: rest => do
    let t ← t.toNat?
    let n ← n.toNat?
    let (ps, _) ← parsePRs n rest
    pure (.github { targetSha := t, prs := ps })
  | ["batch"] => some .batch
  | ["ghfail"] => some .githubFailed
  | ["batchfail"] => some .batchFailed
  | ["flag", "g"] => some (.flag .github)
  | ["flag", "b"] => some (.flag .batch)
  | ["flag", "all"] => some (.flag .all)
  | "heal" :: nb :: rest => do
    let nb ← nb.toNat?
    let (bs, rest) ← parseBools nb rest
    match rest with
    | nm :: rest => do
      let nm ← nm.toNat?
      let (ms, _) ← parseBools nm rest
      pure (.heal { builds := bs, merges := ms })
    | [] => none
  | ["done", id, ok] => do
    let id ← id.toNat?
    let ok ← bitOf ok
    pure (.done id ok)
  | _ => none

def optNat : Option Nat → String
  | none => "N" | some n => toString n

def showPR (p : PR) : String :=
  let rev := match p.review with
    | none => "N" | some .approved => "approved" | some .changesRequested => "changes_requested" | some .pending => "pending"
  let b := match p.batch with
    | .none => "N" | .real id t => s!"B{id}:{t}" | .mergeFailure t => s!"F{t}"
  let bs := match p.buildState with
    | none => "N" | some .success => "success" | some .failure => "failure" | some .error => "error"
  let st := joinWith "," (p.statuses.map fun kv => s!"{kv.1}:{showSt kv.2}")
  s!"#{p.number} src={p.sourceSha} auth={if p.authorized then 1 else 0} lab={showLabels p.labels} rev={rev} b={b} bs={bs} int={showSt p.intended} st={st}"

def showB (b : BatchRec) : String :=
  let s := match b.state with
    | .running => "running" | .success => "success" | .failure => "failure" | .cancelled => "cancelled"
  s!"{b.id}:{b.sourceSha}:{b.targetSha}:{b.pr}:{s}"

def showOut : Out → String
  | .post n sha st => s!"post:{n}:{sha}:{showSt st}"
  | .start n id s t => s!"start:{n}:{id}:{s}:{t}"
  | .startFailed n => s!"startfailed:{n}"
  | .cancel id => s!"cancel:{id}"
  | .merge n sha ok => s!"merge:{n}:{sha}:{if ok then 1 else 0}"
  | .assertFailed n => s!"assert:{n}"

def showState (s : State) (o : List Out) : String :=
  let fl := String.ofList ([s.githubChanged, s.batchChanged, s.stateChanged].map fun b => if b then '1' else '0')
  s!"sha={optNat s.sha} fl={fl} nrun={s.nRunning} cand={optNat s.mergeCandidate} prs=[{joinWith "; " (s.prs.map showPR)}] svc=[{joinWith "," (s.svc.map showB)}] out=[{joinWith "," (o.map showOut)}]"

def stepLine (s : State) (line : String) : State × String :=
  match parseEvent (words line) with
  | some e =>
    let (s', o) := step true s e
    (s', showState s' o)
  | none => (s, "bad-op")

def main : IO Unit := foldLines CI.init stepLine

import HailVerif.Model.ExprIR
import HailVerif.Model.ExprIRRead
import HailVerif.Model.DriverUtil
open HailVerif HailVerif.DriverUtil HailVerif.ExprIR HailVerif.ExprIR.Read

/-!
Lines (fields separated by ` ||| `):
* `val ||| x,y,… ||| <rendered> ||| <plain>` — the translation validator on one program.  `x,y,…` (or `-`) are the free
  variables of the DAG.  Answer `v=<validate> s=<scopeOk rendered> p=<scopeOk plain> g=<branchLocal rendered>
  b=<name:uses,…>` (the `__cse` binders in prefix order with the number of references to each).
* `eval ||| ((x v) …) ||| <ir>` — the value of the program in that environment (no aggregation scope).
* `echo ||| text` — answers `text` (the real renderer raised: nothing to validate; the harness oracle judges it).
-/

def b2s (b : Bool) : String := if b then "1" else "0"

def handle (line : String) : String :=
  match line.splitOn " ||| " with
  | ["val", vars, r, p] =>
    let Γ : List Name := if vars == "-" then [] else (vars.splitOn ",").map mkName
    match readIR r, readIR p with
    | .ok R, .ok P =>
      let bs := cseBinders R
      let btxt := if bs.isEmpty then "-" else ",".intercalate (bs.map fun q => s!"{showName q.1}:{q.2}")
      s!"v={b2s (validate R P)} s={b2s (scopeOk Γ none R)} p={b2s (scopeOk Γ none P)} g={b2s (branchLocal R)} b={btxt}"
    | .error e, _ => s!"parse-error rendered {e}"
    | _, .error e => s!"parse-error plain {e}"
  | ["skel", r, p] =>
    -- relational skeleton (value children replaced by `_`): the rendering of a relational tree is that tree, never a value `Let` around it
    b2s (r == p && !(r.startsWith "(Let "))
  | ["eval", env, t] =>
    match readSexp env >>= toEnv, readIR t with
    | .ok ρ, .ok T => showVal (eval ρ [] T)
    | .error e, _ => s!"parse-error env {e}"
    | _, .error e => s!"parse-error ir {e}"
  | ["echo", t] => t
  | _ => "bad-op"

def main : IO Unit := mapLines handle

import HailVerif.Model.FifoSem
import HailVerif.Model.DriverUtil
open HailVerif HailVerif.DriverUtil HailVerif.FifoSem

/-- canonical state line: free value, ids in the body (sorted), queue ids (queue order), ids that entered the body during
this group (in order of entry) -/
def showState (s : State) (e : List Ev) : String :=
  let hs := (ids s.holders).toArray.qsort (· < ·) |>.toList
  let g := e.filterMap fun | .grantNow i => some i | .resumed i => some i | _ => none
  let f := fun (l : List Nat) => joinWith "," (l.map toString)
  s!"v={s.value} h={f hs} q={f (ids s.queue)} g={f g}"

def parseOp (ws : List String) : Option Op :=
  match ws with
  | ["acquire", i, w] => do some (.acquire (← i.toNat?) (← w.toNat?))
  | ["release", i] => do some (.release (← i.toNat?))
  | _ => none

/-- the atomic blocks of one group run back to back inside one loop iteration (no woken waiter runs in between); then the
loop runs to quiescence: every woken waiter resumes, in the order in which it was woken (`settleOps`) -/
def runGroup (s : State) (ops : List Op) : Option (State × List Ev) :=
  match run s ops with
  | none => none
  | some (s1, e1) =>
    match run s1 (settleOps s1) with
    | none => none
    | some (s2, e2) => some (s2, e1 ++ e2)

/-- lines: `cap N` (new semaphore) or a group `op;op;…` with op = `acquire i w` | `release i`; `err` = not a behaviour -/
def handle (st : Option State) (line : String) : Option State × String :=
  match words line, st with
  | ["cap", n], _ =>
    match n.toNat? with
    | some c => (some (init c), showState (init c) [])
    | none => (st, "bad-op")
  | _, some s =>
    match (line.splitOn ";").mapM (fun t => parseOp (words t)) with
    | none => (st, "bad-op")
    | some ops =>
      match runGroup s ops with
      | some (s', e) => (some s', showState s' e)
      | none => (st, "err")
  | _, none => (st, "bad-op")

def main : IO Unit := foldLines (none : Option State) handle

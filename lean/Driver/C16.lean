import HailVerif.Model.FifoSem
import HailVerif.Model.DriverUtil
open HailVerif HailVerif.DriverUtil HailVerif.FifoSem

/-- canonical state line: free value, holder ids (sorted), queue ids (queue order), ids granted by this step (grant order) -/
def showState (s : State) (e : List Ev) : String :=
  let hs := (ids s.holders).toArray.qsort (· < ·) |>.toList
  let g := e.filterMap fun | .grantNow i => some i | .grantQueued i => some i | .enqueue _ => none
  let f := fun (l : List Nat) => joinWith "," (l.map toString)
  s!"v={s.value} h={f hs} q={f (ids s.queue)} g={f g}"

/-- lines: `cap N` (new semaphore), `acquire i w`, `release i`; `err` = not a behaviour of the protocol -/
def handle (st : Option State) (line : String) : Option State × String :=
  match words line, st with
  | ["cap", n], _ =>
    match n.toNat? with
    | some c => (some (init c), showState (init c) [])
    | none => (st, "bad-op")
  | ["acquire", i, w], some s =>
    match i.toNat?, w.toNat? with
    | some i, some w =>
      match step s (.acquire i w) with
      | some (s', e) => (some s', showState s' e)
      | none => (st, "err")
    | _, _ => (st, "bad-op")
  | ["release", i], some s =>
    match i.toNat? with
    | some i =>
      match step s (.release i) with
      | some (s', e) => (some s', showState s' e)
      | none => (st, "err")
    | none => (st, "bad-op")
  | _, _ => (st, "bad-op")

def main : IO Unit := foldLines (none : Option State) handle

import HailVerif.Model.TxRetry
import HailVerif.Model.DriverUtil
open HailVerif HailVerif.DriverUtil HailVerif.TxRetry

/-! line: `<init> | <body> | <scripts>` with
  init    = `k=v` tokens (initial rows),
  body    = `n` (nop) | `u:k:d` (upsert) | `i:k:v` (insert) | `w:k:d` (update) | `r:k:0` / `a:k:0` (select through
            execute_and_fetchone / execute_and_fetchall) | `m:k:d:n` (execute_many with n argument rows) tokens; a 4th component `:q` = the statement is issued with a query_name,
  scripts = per attempt `-` (no fault) or `idx:cls:code`,
answer: `attempts=N result=ok|err:cls:code db=k=v,k=v` -/

def clsOf : String → Option ErrClass
  | "op" => some .operational | "int" => some .internal | "integ" => some .integrity | "prog" => some .programming
  | "data" => some .data | "nosup" => some .notSupported | "iface" => some .interface | "other" => some .other
  | "base" => some .base
  | _ => none

def clsName : ErrClass → String
  | .operational => "op" | .internal => "int" | .integrity => "integ" | .programming => "prog"
  | .data => "data" | .notSupported => "nosup" | .interface => "iface" | .other => "other" | .base => "base"

def parseKind (kind k d : String) : Option KV.Stmt :=
  match kind with
  | "u" => do some (.upsert (← k.toNat?) (← d.toInt?))
  | "i" => do some (.insert (← k.toNat?) (← d.toInt?))
  | "w" => do some (.update (← k.toNat?) (← d.toInt?))
  | "r" => do some (.select (← k.toNat?))
  | "a" => do some (.select (← k.toNat?))
  | _ => none

def parseStmt1 (parts : List String) : Option (Bool × KV.Stmt) :=
  match parts with
  | ["n"] => some (false, .nop)
  | ["m", k, d, n] => do some (false, .upsertMany (← k.toNat?) (← d.toInt?) (← n.toNat?))
  | ["m", k, d, n, "q"] => do some (true, .upsertMany (← k.toNat?) (← d.toInt?) (← n.toNat?))
  | [kind, k, d] => do some (false, ← parseKind kind k d)
  | [kind, k, d, "q"] => do some (true, ← parseKind kind k d)
  | _ => none

/-- a trailing `:from` / `:raise` (the body turns the statement's MySQL errors into its own error) or `:reraise` component guards the statement -/
def parseStmt (t : String) : Option (Bool × KV.Stmt) :=
  let parts := t.splitOn ":"
  match parts.getLast? with
  | some "from" | some "raise" => (parseStmt1 parts.dropLast).map fun p => (p.1, .guarded true p.2)
  | some "reraise" => (parseStmt1 parts.dropLast).map fun p => (p.1, .guarded false p.2)
  | _ => parseStmt1 parts

def parseScript (t : String) : Option (Option (Nat × Err)) :=
  if t == "-" then some none else
  match t.splitOn ":" with
  | [i, c, n] => do some (some (← i.toNat?, ⟨← clsOf c, ← n.toNat?⟩))
  | _ => none

def parseRow (t : String) : Option (Nat × Int) :=
  match t.splitOn "=" with
  | [k, v] => do some (← k.toNat?, ← v.toInt?)
  | _ => none

def showDb (db : KV.DB) : String := joinWith "," (db.map fun p => s!"{p.1}={p.2}")

def handle (line : String) : String :=
  match line.splitOn "|" with
  | [a, b, c] =>
    match (words a).mapM parseRow, (words b).mapM parseStmt, (words c).mapM parseScript with
    | some rows, some body, some scripts =>
      let db0 : KV.DB := rows.foldl (fun d p => KV.put p.1 p.2 d) []
      let r := run KV.step KV.handler db0 body scripts
      let res := match r.error with
        | none => "ok"
        | some e => s!"err:{clsName e.cls}:{e.code}"
      s!"attempts={r.attempts} result={res} db={showDb r.db}"
    | _, _, _ => "bad-op"
  | _ => "bad-op"

def main : IO Unit := mapLines handle

import HailVerif.Model.BatchDsl
import HailVerif.Model.DriverUtil
open HailVerif HailVerif.DriverUtil HailVerif.BatchDsl

def hexVal (c : Char) : Option Nat :=
  if c.isDigit then some (c.toNat - 48) else if 'a' ≤ c ∧ c ≤ 'f' then some (c.toNat - 87) else none

/-- hex of UTF-8 bytes, `-` = empty -/
def unhex (s : String) : Option Str :=
  if s == "-" then some [] else
  let rec go : List Char → Option (List UInt8)
    | [] => some []
    | [_] => none
    | a :: b :: r =>
      match hexVal a, hexVal b, go r with
      | some x, some y, some t => some (UInt8.ofNat (16 * x + y) :: t)
      | _, _, _ => none
  match go s.toList with
  | some bytes => (String.fromUTF8? (ByteArray.mk bytes.toArray)).map String.toList
  | none => none

def hexDigit (n : Nat) : Char := if n < 10 then Char.ofNat (48 + n) else Char.ofNat (87 + n)

def hex (s : Str) : String :=
  if s.isEmpty then "-" else
  String.ofList ((String.ofList s).toUTF8.toList.map fun b => [hexDigit (b.toNat / 16), hexDigit (b.toNat % 16)]).flatten

def pairList? (s : String) : Option (List (Str × Str)) :=
  if s == "-" then some [] else
  (s.splitOn ",").mapM fun kv =>
    match kv.splitOn "=" with
    | [k, v] => match unhex k, unhex v with
      | some k, some v => some (k, v)
      | _, _ => none
    | _ => none

def ref? (s : String) : Option Ref :=
  let body := (s.drop 1).toString
  match s.front, body.splitOn "." with
  | 'H', [k] => k.toNat?.map Ref.handle
  | 'M', [k, i] => match k.toNat?, unhex i with
    | some k, some i => some (.handleMember k i)
    | _, _ => none
  | 'A', [j, n] => match j.toNat?, unhex n with
    | some j, some n => some (.jobAttr j n)
    | _, _ => none
  | 'X', [j, k, c] =>
    let conv : Option Conv := if c == "j" then some .json else if c == "s" then some .str else if c == "r" then some .repr else none
    match j.toNat?, k.toNat?, conv with
    | some j, some k, some c => some (.conv j k c)
    | _, _, _ => none
  | 'B', [j, n, i] => match j.toNat?, unhex n, unhex i with
    | some j, some n, some i => some (.jobMember j n i)
    | _, _, _ => none
  | _, _ => none

def piece? (s : String) : Option Piece :=
  if s.front == 'T' then (unhex (s.drop 1).toString).map Piece.text else (ref? s).map Piece.ref

/-- `R<ref>` | `L<ref>,<ref>…` | `K<hexkey>=<ref>,…` | `V<hex>` -/
def pyArg? (s : String) : Option PyArg :=
  let body := (s.drop 1).toString
  match s.front with
  | 'R' => (ref? body).map PyArg.res
  | 'L' => if body == "" then some (.list []) else ((body.splitOn ",").mapM ref?).map PyArg.list
  | 'K' => if body == "" then some (.dict []) else
    ((body.splitOn ",").mapM fun (kv : String) => match kv.splitOn "=" with
      | [k, r] => match unhex k, ref? r with
        | some k, some r => some (k, r)
        | _, _ => none
      | _ => none).map PyArg.dict
  | 'V' => (unhex body).map PyArg.value
  | _ => none

def stmt? (ws : List String) : Option Stmt :=
  match ws with
  | ["I", p] => (unhex p).map Stmt.input
  | ["G", fs] => (pairList? fs).map Stmt.igroup
  | ["J", n] => if n == "-" then some (.job none) else (unhex n).map fun s => Stmt.job (some s)
  | ["D", j, g, fs] => match j.toNat?, unhex g, pairList? fs with
    | some j, some g, some fs => some (.rgroup j g fs)
    | _, _, _ => none
  | "C" :: j :: ps => match j.toNat?, ps.mapM piece? with
    | some j, some ps => some (.cmd j ps)
    | _, _ => none
  | ["E", j, n, e] => match j.toNat?, unhex n, unhex e with
    | some j, some n, some e => some (.ext j n e)
    | _, _, _ => none
  | ["N", j, n] => match j.toNat? with
    | some j => if n == "-" then some (.rename j none) else (unhex n).map fun s => Stmt.rename j (some s)
    | none => none
  | ["P", n] => if n == "-" then some (.pyjob none) else (unhex n).map fun s => Stmt.pyjob (some s)
  | "Y" :: j :: rs => match j.toNat?, rs.mapM pyArg? with
    | some j, some rs => some (.pycall j rs)
    | _, _ => none
  | ["W", r, d] => match ref? r, unhex d with
    | some r, some d => some (.out r d)
    | _, _ => none
  | _ => none

def sortStrs (l : List String) : List String := l.toArray.qsort (· < ·) |>.toList

def showPairs (ps : List (Str × Str)) : String :=
  if ps.isEmpty then "-" else joinWith "," (sortStrs (ps.map fun p => String.ofList p.1 ++ ">" ++ String.ofList p.2))

def showPrepared1 : Prepared1 → String
  | .path p => "p:" ++ String.ofList p
  | .dictPath kvs => "d:{" ++ joinWith "&" (kvs.map fun kv => String.ofList kv.1 ++ "=" ++ String.ofList kv.2) ++ "}"

def showPrepared : Prepared → String
  | .one p => showPrepared1 p
  | .list ps => "l:[" ++ joinWith "|" (ps.map showPrepared1) ++ "]"
  | .dict kvs => "m:{" ++ joinWith "|" (kvs.map fun kv => String.ofList kv.1 ++ "=" ++ showPrepared1 kv.2) ++ "}"
  | .value v => "v:" ++ String.ofList v

def showCalls (st : St) (j : Nat) : String :=
  let cs := preparedCalls st "$L".toList j
  if cs.isEmpty then "-" else joinWith ";" (cs.map fun args => joinWith "," (args.map showPrepared))

def showPlan (st : St) (j : Nat) : String :=
  let p := jobPlan st "$R".toList "$L".toList j
  let cmds := if p.commands.isEmpty then "-" else joinWith "," (p.commands.map hex)
  let par := if p.parents.isEmpty then "-" else joinWith "," (sortStrs (p.parents.map toString))
  s!"job{j} cmds={cmds} in={showPairs p.inputs} out={showPairs p.outputs} par={par} sym={showPairs p.symlinks} args={showCalls st j}"

def handle (line : String) : String :=
  let stmts := (line.splitOn ";").map fun s => words s
  match (stmts.filter (· ≠ [])).mapM stmt? with
  | none => "bad-op"
  | some prog =>
    match run prog with
    | .error .batchException => "err BatchException"
    | .error .notDsl => "err notDsl"
    | .ok st =>
      joinWith " | " (s!"ok xin={showPairs (externalInputs st)} xup={showPairs (localUploads st "$R".toList)}" :: (List.range st.nJobs).map (showPlan st))

def main : IO Unit := mapLines handle

import HailVerif.Model.SizeParse
import HailVerif.Model.DriverUtil
open HailVerif HailVerif.DriverUtil HailVerif.SizeParse

def hexDigit? (c : Char) : Option Nat :=
  if '0' ≤ c ∧ c ≤ '9' then some (c.toNat - 48)
  else if 'a' ≤ c ∧ c ≤ 'f' then some (c.toNat - 87)
  else none

def hex? (s : String) : Option Nat :=
  if s.isEmpty then none else s.toList.foldlM (fun acc c => (hexDigit? c).map (acc * 16 + ·)) 0

/-- lone surrogates (not Lean `Char`s) are read as U+FFFD: like them not in any character class of the patterns -/
def toChar (n : Nat) : Char := if h : n.isValidChar then Char.ofNatAux n h else '�'

def showO (o : Outcome) : String :=
  match o with
  | .noMatch => "none"
  | .value n => toString n
  | .keyError => "keyerror"

def b (x : Bool) : String := if x then "1" else "0"

/-- `p <hex code point>*` ↦ `cpu=<n|none> mem=<n|none> sto=<n|none> srv=<cpu><mem><sto> cfg=<driver_cores><worker_cores><driver_memory><worker_memory>` -/
def handle (line : String) : String :=
  match words line with
  | "p" :: cps =>
    match cps.mapM hex? with
    | some ns =>
      let s := ns.map toChar
      s!"cpu={showO (parseCpu s)} mem={showO (parseMemory s)} sto={showO (parseStorage s)} srv={b (serverAcceptsCpu s)}{b (serverAcceptsMemory s)}{b (serverAcceptsStorage s)} cfg={b (configAcceptsCores s)}{b (configAcceptsCores s)}{b (configAcceptsMemory s)}{b (configAcceptsMemory s)}"
    | none => "bad-op"
  | _ => "bad-op"

def main : IO Unit := mapLines handle

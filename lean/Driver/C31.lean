import HailVerif.Model.EngineLexer
import HailVerif.Generated.UnicodeClasses
import HailVerif.Model.DriverUtil
open HailVerif HailVerif.DriverUtil HailVerif.TypeStr HailVerif.EngineLexer

/-! line protocol of the C31 model.  Strings are code points in hex joined by `.` (`-` = empty string); types are prefix
token sequences: `void i32 i64 f32 f64 bool call str rng | locus <s> | array T | ndarray <n> T | set T | stream T | dict K V |
struct <n> (<s> T)* | tuple <n> T* | interval T`. -/

def cc := Generated.UnicodeClasses.pyClasses
def jc := Generated.UnicodeClasses.javaClasses

def hexCharVal (c : Char) : Option Nat :=
  if '0' ≤ c ∧ c ≤ '9' then some (c.toNat - 48)
  else if 'a' ≤ c ∧ c ≤ 'f' then some (c.toNat - 87)
  else none

def parseHex (s : String) : Option Nat :=
  if s.isEmpty then none else s.toList.foldlM (fun acc c => (hexCharVal c).map (acc * 16 + ·)) 0

def parseStr (tok : String) : Option Str :=
  if tok == "-" then some [] else (tok.splitOn ".").mapM parseHex

def hexOf (n : Nat) : String := String.ofList (Nat.toDigits 16 n)

def showStr (s : Str) : String := if s.isEmpty then "-" else ".".intercalate (s.map hexOf)

partial def parseTy : List String → Option (HType × List String)
  | "void" :: r => some (.void, r)
  | "i32" :: r => some (.int32, r)
  | "i64" :: r => some (.int64, r)
  | "f32" :: r => some (.float32, r)
  | "f64" :: r => some (.float64, r)
  | "bool" :: r => some (.bool, r)
  | "call" :: r => some (.call, r)
  | "str" :: r => some (.str, r)
  | "rng" :: r => some (.rngState, r)
  | "locus" :: n :: r => (parseStr n).map fun s => (.locus s, r)
  | "array" :: r => (parseTy r).map fun (t, r) => (.array t, r)
  | "set" :: r => (parseTy r).map fun (t, r) => (.set t, r)
  | "stream" :: r => (parseTy r).map fun (t, r) => (.stream t, r)
  | "interval" :: r => (parseTy r).map fun (t, r) => (.interval t, r)
  | "ndarray" :: n :: r => do
    let n ← n.toNat?
    let (t, r) ← parseTy r
    pure (.ndarray t n, r)
  | "dict" :: r => do
    let (k, r) ← parseTy r
    let (v, r) ← parseTy r
    pure (.dict k v, r)
  | "struct" :: n :: r => do
    let n ← n.toNat?
    let rec go : Nat → List String → List (Str × HType) → Option (List (Str × HType) × List String)
      | 0, r, acc => some (acc.reverse, r)
      | k + 1, nm :: r, acc => do
        let s ← parseStr nm
        let (t, r) ← parseTy r
        go k r ((s, t) :: acc)
      | _, _, _ => none
    let (fs, r) ← go n r []
    pure (.struct fs, r)
  | "tuple" :: n :: r => do
    let n ← n.toNat?
    let rec goT : Nat → List String → List HType → Option (List HType × List String)
      | 0, r, acc => some (acc.reverse, r)
      | k + 1, r, acc => do
        let (t, r) ← parseTy r
        goT k r (t :: acc)
    let (ts, r) ← goT n r []
    pure (.tuple ts, r)
  | _ => none

partial def showTy : HType → List String
  | .void => ["void"] | .int32 => ["i32"] | .int64 => ["i64"] | .float32 => ["f32"] | .float64 => ["f64"]
  | .bool => ["bool"] | .call => ["call"] | .str => ["str"] | .rngState => ["rng"]
  | .locus s => ["locus", showStr s]
  | .array t => "array" :: showTy t
  | .set t => "set" :: showTy t
  | .stream t => "stream" :: showTy t
  | .interval t => "interval" :: showTy t
  | .ndarray t n => "ndarray" :: toString n :: showTy t
  | .dict k v => "dict" :: (showTy k ++ showTy v)
  | .struct fs => "struct" :: toString fs.length :: (fs.map fun (n, t) => showStr n :: showTy t).flatten
  | .tuple ts => "tuple" :: toString ts.length :: (ts.map showTy).flatten

/-- canonical form of a printed type: white space outside backticked identifiers removed (layout is not an observable) -/
def stripWs : Bool → Str → Str
  | _, [] => []
  | true, 92 :: d :: r => 92 :: d :: stripWs true r
  | true, c :: r => c :: stripWs (c != 96) r
  | false, c :: r => if c == 96 then c :: stripWs true r else if cc.isSpace c then stripWs false r else c :: stripWs false r

def bit (b : Bool) : String := if b then "1" else "0"

def handle (line : String) : String :=
  match words line with
  | ["esc", s] => match parseStr s with
    | some s => showStr (escapeParsable s)
    | none => "bad-op"
  | ["unesc", s] => match parseStr s with
    | some s => match unescapeParsable s with
      | some r => showStr r
      | none => "err"
    | none => "bad-op"
  | ["eid", s] => match parseStr s with
    | some s => showStr (escapeId s)
    | none => "bad-op"
  | "str" :: ty => match parseTy ty with
    | some (t, []) => showStr (stripWs false (str cc t))
    | _ => "bad-op"
  | "par" :: ty => match parseTy ty with
    | some (t, []) => showStr (stripWs false (parsable cc t))
    | _ => "bad-op"
  | ["dtype", s] => match parseStr s with
    | some s => match dtype cc s with
      | some t => " ".intercalate (showTy t)
      | none => "err"
    | none => "bad-op"
  | ["lex", s] => match parseStr s with
    | some s => match identifier jc s with
      | some (n, r) => s!"ok {showStr n} {showStr r}"
      | none => "fail"
    | none => "bad-op"
  | ["cls", c] => match parseHex c with
    | some c => s!"{bit (cc.isWord c)}{bit (cc.isSpace c)}{bit (jc.start c)}{bit (jc.part c)}"
    | none => "bad-op"
  | _ => "bad-op"

def main : IO Unit := mapLines handle

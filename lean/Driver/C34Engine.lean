import HailVerif.Model.CallEngine
import HailVerif.Model.DriverUtil
open HailVerif HailVerif.DriverUtil HailVerif.CallPack HailVerif.CallEngine

/-- the engine side of C34, evaluated on the functions translated from Scala (never the real engine)
* `eng <phased 0|1> <allele>*` → signed value of the word `CallN.apply(alleles, phased)` returns, or `err`
  (alleles must already be in the front end's normalised order)
* `engu <int32>`              → `<phased> <allele>*` of `Call.alleles` / `Call.isPhased`, or `err` -/
def handle (line : String) : String :=
  match words line with
  | "eng" :: ph :: rest =>
    match nats? rest with
    | some al =>
      match enginePack ⟨al, ph == "1"⟩ with
      | some w => toString w.toInt
      | none => "err"
    | none => "bad-op"
  | ["engu", v] =>
    match v.toInt? with
    | some v => match engineUnpack (BitVec.ofInt 32 v) with
      | some c => joinWith " " ((if c.phased then "1" else "0") :: c.alleles.map toString)
      | none => "err"
    | none => "bad-op"
  | _ => "bad-op"

def main : IO Unit := mapLines handle

import HailVerif.Model.Retry
import HailVerif.Model.DriverUtil
open HailVerif HailVerif.DriverUtil HailVerif.Retry

/-- exception syntax: `N` = None, `[f0,…,f17|OS|CAUSE]` with integer fields in the order of `Desc`
(aiohttp status or -1, httpx status or -1, bodyRateLimit, bodyRetryOnce, gcpQuota, serverTimeout, serverDisconnected, timeoutError,
connector, ClientPayloadError message shape (-1 not one, 0 no args, 1 first arg not a str, 2 str without / 3 str with the marker text), sslBadRecordMac, isOSError, errnoPresent, errno, gaierror, transientError, connReset, connRefused, numeric Retry-After header in seconds or -1) -/
partial def parseExc : List Char → Option (Exc × List Char)
  | 'N' :: r => some (.nil, r)
  | '[' :: r =>
    let fieldChars := r.takeWhile (· ≠ '|')
    let r1 := (r.dropWhile (· ≠ '|')).drop 1
    match ints? ((String.ofList fieldChars).splitOn ","), parseExc r1 with
    | some [a, h, rl, ro, g, st, sd, to, c, p, ssl, isos, ep, en, gai, tr, cr, cf, ra], some (os, r2) =>
      match r2 with
      | '|' :: r3 =>
        match parseExc r3 with
        | some (cause, ']' :: r4) =>
          let b := fun (x : Int) => x != 0
          let d : Desc := {
            aiohttpStatus := if a < 0 then none else some a.toNat
            httpxStatus := if h < 0 then none else some h.toNat
            bodyRateLimit := b rl, bodyRetryOnce := b ro, gcpQuotaExceeded := b g, serverTimeout := b st,
            serverDisconnected := b sd, timeoutError := b to, connector := b c, payload := (if p < 0 then none else some (if p == 0 then .noArgs else if p == 1 then .notStr else .text (p == 3))),
            sslBadRecordMac := b ssl
            osErrno := if b isos then some (if b ep then some en else none) else none
            gaierror := b gai, transientError := b tr, connReset := b cr, connRefused := b cf
            retryAfter := if ra < 0 then none else some ra.toNat }
          some (.mk d os cause, r4)
        | _ => none
      | _ => none
    | _, _ => none
  | _ => none

def parseExcStr (s : String) : Option Exc :=
  match parseExc s.toList with
  | some (e, []) => some e
  | _ => none

def parseAttempt (t : String) : Option Attempt :=
  match t.toList with
  | 'K' :: d => (String.ofList d).toNat?.map Attempt.ok
  | 'F' :: d =>
    let rs := d.takeWhile (· ≠ '=')
    let es := (d.dropWhile (· ≠ '=')).drop 1
    match (String.ofList rs).toNat?, parseExcStr (String.ofList es) with
    | some r, some e => some (.fail e r)
    | _, _ => none
  | _ => none

def b01 (b : Bool) : String := if b then "1" else "0"
def showSleeps (s : List Nat) : String := joinWith "," (s.map toString)

/-- lines: `classify EXC`, `run ATT…` (`F<draw>=EXC` | `K<value>`), `delay tries base max draw` -/
def handle (line : String) : String :=
  match words line with
  | ["classify", e] =>
    match parseExcStr e with
    | some e => s!"lim={b01 (isLimited e)} rate={b01 (isRateLimit e)} trans={b01 (isTransient e)}"
    | none => "bad-op"
  | "run" :: atts =>
    match atts.mapM parseAttempt with
    | some script =>
      match retryTransientErrors script with
      | .returned v c s => s!"ret {v} calls={c} sleeps={showSleeps s}"
      | .raised _ c s => s!"raise calls={c} sleeps={showSleeps s}"
      | .scriptEnded c s => s!"ended calls={c} sleeps={showSleeps s}"
    | none => "bad-op"
  | ["delay", t, b, m, r] =>
    match nats? [t, b, m, r] with
    | some [t, b, m, r] => toString (delayMs t b m r)
    | _ => "bad-op"
  | _ => "bad-op"

def main : IO Unit := mapLines handle

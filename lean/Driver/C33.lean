import HailVerif.Model.ValueEnc
import HailVerif.Model.ValueIO
import HailVerif.Model.DriverUtil
open HailVerif HailVerif.DriverUtil HailVerif.Values HailVerif.ValueEnc HailVerif.ValueIO

/-! line protocol of the C33 model: `enc <type> | <value>` → the bytes of `_to_encoding` in hex, or `err`;
`rt <type> | <value>` → canonical text of `_from_encoding(_to_encoding(v))`, or `err`;
`dec <type> | <hex bytes>` → canonical text of `_from_encoding(bytes)` followed by the number of unread bytes, or `err`. -/

def hexByte (b : Nat) : String := hexPad 2 b

def showBytes (bs : Bytes) : String := if bs.isEmpty then "-" else String.join (bs.map hexByte)

def parseBytes (s : String) : Option Bytes :=
  if s == "-" then some [] else
  let rec go : List Char → Option Bytes
    | [] => some []
    | a :: b :: r => do
      let x ← hexCharVal a
      let y ← hexCharVal b
      let rest ← go r
      pure ((x * 16 + y) :: rest)
    | _ => none
  go s.toList

def handle (line : String) : String :=
  match words line with
  | "enc" :: r => match parseTyVal r with
    | some (t, v) => match toEncoding t v with
      | some bs => showBytes bs
      | none => "err"
    | none => "bad-op"
  | "rt" :: r => match parseTyVal r with
    | some (t, v) => match (toEncoding t v).bind (fromEncoding t) with
      | some v' => canon t v'
      | none => "err"
    | none => "bad-op"
  | "dec" :: r => match parseTy r with
    | some (t, ["|", hex]) => match parseBytes hex with
      | some bs => match decode t bs with
        | some (v, rest) => s!"{canon t v} {rest.length}"
        | none => "err"
      | none => "bad-op"
    | _ => "bad-op"
  | _ => "bad-op"

def main : IO Unit := mapLines handle

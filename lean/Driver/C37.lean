import HailVerif.Generated.ScalaStats
import HailVerif.Model.StatsSpec
import HailVerif.Model.DriverUtil
/-!
Line-protocol driver of C37 (TEST part, not proof): runs, on the same input,
* `F` — the Float model translated from the Scala text (`Generated.ScalaStats.Flt`), values printed as IEEE bit patterns,
* `X` — the exact model translated from the same text at τ = 0 (`Generated.ScalaStats.Exact`), small inputs only,
* `S` — the closed-form specification (`Model/StatsSpec.lean`), small inputs only,
and `ok` = every F value is within 1e-9 (relative, floor 1e-300) of its S value, X = S exactly, and every p-value is in [0, 1].
The harness re-derives all of this independently in Python from the closed forms, for all sizes.

Library stand-ins (Float side; the real commons-math3 / jdistlib code is not available): the hypergeometric pmf is computed by
the ratio recurrence from the mode and normalised; the chi-squared upper tail with 1 degree of freedom is `erfc(sqrt(x/2))` and the
standard normal cdf is `erfc(-x/sqrt 2)/2`, with `erfc` accurate in the tails (positive series below 2, continued fraction above).
On the exact side (`X`) `chisqTail x df := x`, `sqrt := id`, `normCdf := id`: the slot of the p-value carries the statistic itself when
the code hands it to `pchisqtail`.

lines:  hwe r h v oneSided(0|1) | lh n nA k | fet a b c d (two.sided|less|greater) | chi a b c d | ctt a b c d minCellCount
-/
open HailVerif HailVerif.DriverUtil HailVerif.StatsLib HailVerif.StatsSpec HailVerif.Generated.ScalaStats

/-- exact value of a finite double -/
def floatToRat? (f : Float) : Option Rat :=
  let b := f.toBits.toNat
  let sign : Int := if b / 2 ^ 63 = 1 then -1 else 1
  let e := (b / 2 ^ 52) % 2048
  let m : Nat := b % 2 ^ 52
  if e = 2047 then none
  else if e = 0 then some ((sign * (m : Int) : Int) / (2 : Rat) ^ 1074)
  else
    let mant : Int := ((m + 2 ^ 52 : Nat) : Int)
    if e ≥ 1075 then some ((sign * mant : Int) * (2 : Rat) ^ (e - 1075)) else some ((sign * mant : Int) / (2 : Rat) ^ (1075 - e))

def fstr (f : Float) : String := toString f.toBits
def rstr (r : Rat) : String := s!"{r.num}/{r.den}"
def absR (r : Rat) : Rat := if r < 0 then -r else r

def close (f : Float) (e : Rat) : Bool :=
  match floatToRat? f with
  | none => false
  | some q => absR (q - e) ≤ (max (absR e) (1 / (10 : Rat) ^ 300)) / (10 : Rat) ^ 9

def unit01 (f : Float) : Bool := 0.0 ≤ f && f ≤ 1.0

/-! ### Float stand-in for `HypergeometricDistribution` -/

structure HTab where
  lo : Int
  hi : Int
  pmf : Array Float

def hyperTable (h : Hgd) : HTab :=
  let N := h.popSize; let m := h.nSuccess; let n := h.sampleSize
  let lo := max 0 (n + m - N)
  let hi := min n m
  if hi < lo then { lo := lo, hi := hi, pmf := #[] } else
  let mode0 := ((n + 1) * (m + 1)) / (N + 2)
  let mode := max lo (min hi mode0)
  let up := unfold (fun (k : Int) (w : Float) =>
    (k + 1, w * Float.ofInt (m - k) * Float.ofInt (n - k) / (Float.ofInt (k + 1) * Float.ofInt (N - m - n + k + 1)))) (hi - mode + 1).toNat mode 1.0
  let down := unfold (fun (k : Int) (w : Float) =>
    (k - 1, w * Float.ofInt k * Float.ofInt (N - m - n + k) / (Float.ofInt (m - k + 1) * Float.ofInt (n - k + 1)))) (mode - lo + 1).toNat mode 1.0
  let ws := (down.tail.reverse ++ up).toArray
  let tot := (down.tail.reverse.foldl (· + ·) 0.0) + (up.reverse.foldl (· + ·) 0.0)
  { lo := lo, hi := hi, pmf := ws.map (· / tot) }

def HTab.get (t : HTab) (k : Int) : Float := if k < t.lo || k > t.hi then 0.0 else t.pmf[(k - t.lo).toNat]!

def HTab.sumFrom (t : HTab) (a b : Int) : Float :=
  (rangeIncl (max a t.lo) (min b t.hi)).foldl (fun s k => s + t.get k) 0.0

/-! ### Float stand-ins for jdistlib `ChiSquare.cumulative` (1 d.f.) and `Normal.cumulative` -/

def sqrtPi : Float := 1.7724538509055160272981674833411

/-- `erfc(sqrt h)`, `h ≥ 0`, relative accuracy ≈ 1e-15 also in the far tail (`exp (-h)` is taken of `h` itself) -/
def erfcSqrt (h : Float) : Float :=
  let t := h.sqrt
  if h < 4.0 then
    -- erf t = 2/sqrt(pi) * exp(-t^2) * sum_{n>=0} 2^n t^(2n+1) / (1*3*...*(2n+1))   (all terms positive)
    let (sum, _) := (List.range 120).foldl (fun (acc : Float × Float) n =>
      let term := acc.2
      (acc.1 + term, term * 2.0 * h / (2.0 * n.toFloat + 3.0))) ((0.0 : Float), t)
    1.0 - 2.0 / sqrtPi * Float.exp (-h) * sum
  else
    -- erfc t = exp(-t^2) / (t sqrt(pi)) * 1 / (1 + (1/2h) / (1 + (2/2h) / (1 + (3/2h) / ...)))
    let f := (List.range 120).foldl (fun (f : Float) i => 1.0 + ((120 - i).toFloat / (2.0 * h)) / f) (1.0 : Float)
    Float.exp (-h) / (t * sqrtPi) / f

def erfcF (y : Float) : Float := if y.isNaN then y else if y ≥ 0.0 then erfcSqrt (y * y) else 2.0 - erfcSqrt (y * y)

/-- P(chi-squared with `df` degrees of freedom > x); only `df = 1` is implemented (the only use in the translated code) -/
def chisqTailF (x df : Float) : Float :=
  if x.isNaN || !(df == 1.0) then 0.0 / 0.0 else if x ≤ 0.0 then 1.0 else erfcSqrt (x / 2.0)

def normCdfF (x : Float) : Float := 0.5 * erfcF (-x / Float.sqrt 2.0)

def libF : Lib Float where
  hyperLogPmf := fun h k => Float.log ((hyperTable h).get k)
  hyperPmf := fun h k => (hyperTable h).get k
  hyperCdf := fun h k => (hyperTable h).sumFrom (hyperTable h).lo k
  hyperUpper := fun h k => let t := hyperTable h; t.sumFrom k t.hi
  chisqTail := chisqTailF
  normCdf := normCdfF
  sqrt := Float.sqrt
  dnhyper := fun h lo hi ncp => let t := hyperTable h; dnhyperF (fun k => Float.log (t.get k)) lo hi ncp

def libX : Lib Rat := libQ (fun x _ => x) id id

/-! ### printing -/

def showF (o : Out (List Float)) : String :=
  match o with
  | .fatal => "fatal" | .nan => "nan"
  | .val l => "val:" ++ joinWith "," (l.map fstr)

def showR (o : Out (List Rat)) : String :=
  match o with
  | .fatal => "fatal" | .nan => "nan"
  | .val l => "val:" ++ joinWith "," (l.map rstr)

def okAll (f : Out (List Float)) (x : Out (List Rat)) (s : Out (List Rat)) (pIdx : List Nat) : String :=
  match f, x, s with
  | .val fl, .val xl, .val sl =>
    let agree := fl.length == sl.length && (fl.zip sl).all fun p => close p.1 p.2
    let same := xl == sl
    let rng := pIdx.all fun i => unit01 (fl.getD i 2.0)
    if agree && same && rng then "1" else "0"
  | .fatal, .fatal, .fatal => "1"
  | .nan, .nan, .nan => "1"
  | _, _, _ => "0"

def line (f : Out (List Float)) (xs : Option (Out (List Rat) × Out (List Rat))) (pIdx : List Nat) (extra : String := "") : String :=
  match xs with
  | none => s!"F={showF f} X=- S=- ok=-{extra}"
  | some (x, s) => s!"F={showF f} X={showR x} S={showR s} ok={okAll f x s pIdx}{extra}"

/-! ### the five line kinds -/

def lhAllF (n nA k : Int) : Out (List Float) × String :=
  match Flt.LeveneHaldane_apply_2 n nA with
  | .val d => (.val [Flt.LeveneHaldane_probability d k, Flt.LeveneHaldane_cumulativeProbability_1 d k, Flt.LeveneHaldane_survivalFunction d k,
      Flt.LeveneHaldane_rightMidP d k, Flt.LeveneHaldane_leftMidP d k, Flt.LeveneHaldane_exactMidP d k], toString d.mode)
  | .fatal => (.fatal, "-") | .nan => (.nan, "-")

def lhAllX (n nA k : Int) : Out (List Rat) × String :=
  match Exact.LeveneHaldane_apply_2 0 n nA with
  | .val d => (.val [Exact.LeveneHaldane_probability 0 d k, Exact.LeveneHaldane_cumulativeProbability_1 0 d k, Exact.LeveneHaldane_survivalFunction 0 d k,
      Exact.LeveneHaldane_rightMidP 0 d k, Exact.LeveneHaldane_leftMidP 0 d k, Exact.LeveneHaldane_exactMidP 0 d k], toString d.mode)
  | .fatal => (.fatal, "-") | .nan => (.nan, "-")

def lhAllS (n nA k : Int) : Out (List Rat) :=
  if nA < 0 || nA > n then .fatal else
  let n' := n.toNat; let a := nA.toNat
  .val [lhPmf n' a k, lhCdf n' a k, lhSf n' a k, lhRightMidP n' a k, lhLeftMidP n' a k, lhExactMidP n' a k]

def hweS (r h v : Int) (os : Bool) : Out (List Rat) :=
  if r < 0 || h < 0 || v < 0 then .fatal else
  let n := hweN r.toNat h.toNat v.toNat
  let a := hweNA r.toNat h.toNat v.toNat
  .val [lhMean n a / (n : Rat), if os then lhRightMidP n a h else lhExactMidP n a h]

def fetS (a b c d : Int) (alt : String) : Out (List Rat) :=
  if a < 0 || b < 0 || c < 0 || d < 0 then .fatal
  else if alt != "two.sided" && alt != "less" && alt != "greater" then .fatal
  else if a + b = 0 || c + d = 0 || a + c = 0 || b + d = 0 then .nan
  else
    let N := (a + b + c + d).toNat; let m := (a + c).toNat; let n := (a + b).toNat
    .val [if alt == "less" then hyperCdf N m n a else if alt == "greater" then hyperUpper N m n a else fisherTwoSided N m n a]

def chiS (a b c d : Int) : Out (List Rat) :=
  if a < 0 || b < 0 || c < 0 || d < 0 then .fatal else
  .val [pearson a b c d, ((a : Rat) * d) / ((b : Rat) * c)]

def smallLH : Int := 120
def smallFET : Int := 160

def handle (ln : String) : String :=
  match words ln with
  | ["hwe", r, h, v, os] =>
    match ints? [r, h, v, os] with
    | some [r, h, v, os] =>
      let f := Flt.stats_hardyWeinbergTest r h v (os == 1)
      let small := r + h + v ≤ smallLH && r + h + v > 0 && r ≥ 0 && h ≥ 0 && v ≥ 0
      line f (if small || r < 0 || h < 0 || v < 0 then some (Exact.stats_hardyWeinbergTest 0 r h v (os == 1), hweS r h v (os == 1)) else none) [1]
    | _ => "bad-op"
  | ["lh", n, nA, k] =>
    match ints? [n, nA, k] with
    | some [n, nA, k] =>
      let (f, mf) := lhAllF n nA k
      if n ≤ smallLH then
        let (x, mx) := lhAllX n nA k
        line f (some (x, lhAllS n nA k)) [0, 1, 2, 3, 4, 5] s!" mode={mf},{mx}"
      else line f none [] s!" mode={mf},-"
    | _ => "bad-op"
  | ["fet", a, b, c, d, alt] =>
    match ints? [a, b, c, d] with
    | some [a, b, c, d] =>
      let f := Flt.stats_fisherExactTest_7 libF a b c d 1.0 0.95 alt
      let small := a + b + c + d ≤ smallFET
      line f (if small || a < 0 || b < 0 || c < 0 || d < 0 then some (Exact.stats_fisherExactTest_7 0 libX a b c d 1 (19 / 20) alt, fetS a b c d alt) else none) [0]
    | _ => "bad-op"
  | ["chi", a, b, c, d] =>
    match ints? [a, b, c, d] with
    | some [a, b, c, d] =>
      let f := Flt.stats_chiSquaredTest libF a b c d
      let dg := a + b = 0 || c + d = 0 || a + c = 0 || b + d = 0 || b * c = 0
      if dg && a ≥ 0 && b ≥ 0 && c ≥ 0 && d ≥ 0 then line f none []
      else s!"F={showF f} X={showR (Exact.stats_chiSquaredTest 0 libX a b c d)} S={showR (chiS a b c d)} ok=-"
    | _ => "bad-op"
  | ["ctt", a, b, c, d, m] =>
    match ints? [a, b, c, d, m] with
    | some [a, b, c, d, m] => s!"F={showF (Flt.stats_contingencyTableTest libF a b c d m)} X=- S=- ok=-"
    | _ => "bad-op"
  | _ => "bad-op"

def main : IO Unit := mapLines handle

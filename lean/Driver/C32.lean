import HailVerif.Model.ValueIO
import HailVerif.Model.DriverUtil
open HailVerif HailVerif.DriverUtil HailVerif.Values HailVerif.ValueJson HailVerif.ValueIO

/-! line protocol of the C32 model: `json <type> | <value>` → canonical JSON tree of `_convert_to_json_na`, or `err`;
`rt <type> | <value>` → canonical text of `_from_json(_to_json(v))`, or `err`. -/

def handle (line : String) : String :=
  match words line with
  | "json" :: r => match parseTyVal r with
    | some (t, v) => match toJsonNa t v with
      | some j => canonJsonT t j
      | none => "err"
    | none => "bad-op"
  | "rt" :: r => match parseTyVal r with
    | some (t, v) => match roundTrip t v with
      | some v' => canon t v'
      | none => "err"
    | none => "bad-op"
  | _ => "bad-op"

def main : IO Unit := mapLines handle

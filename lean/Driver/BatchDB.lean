import HailVerif.Model.BatchDB
import HailVerif.Model.DriverUtil
open HailVerif HailVerif.DriverUtil HailVerif.BatchDB
open HailVerif.Generated.AttemptsTrigger (Row)

/-!
Line protocol of the BatchDB model (one transaction per line, `dump` prints every table canonically).
See harness/batchdb/protocol.py for the Python side that produces exactly the same text from the minisql tables.
-/

def jstate? : String → Option JState
  | "Pending" => some .Pending | "Ready" => some .Ready | "Creating" => some .Creating | "Running" => some .Running
  | "Success" => some .Success | "Failed" => some .Failed | "Error" => some .Error | "Cancelled" => some .Cancelled
  | _ => none

def showJ : JState → String
  | .Pending => "Pending" | .Ready => "Ready" | .Creating => "Creating" | .Running => "Running"
  | .Success => "Success" | .Failed => "Failed" | .Error => "Error" | .Cancelled => "Cancelled"
def showG : GState → String | .running => "running" | .complete => "complete"
def showI : IState → String | .pending => "pending" | .active => "active" | .inactive => "inactive" | .deleted => "deleted"
def showB (b : Bool) : String := if b then "1" else "0"
def showON : Option Nat → String | none => "N" | some x => toString x
def showOI : Option Int → String | none => "N" | some x => toString x
def showOS : Option String → String | none => "N" | some x => x

def optNat? (s : String) : Option (Option Nat) := if s == "N" then some none else s.toNat?.map some
def optInt? (s : String) : Option (Option Int) := if s == "N" then some none else s.toInt?.map some
def natList? (s : String) : Option (List Nat) := if s == "" || s == "-" then some [] else (s.splitOn ",").mapM String.toNat?

/-- job spec token: `relId;absParents;relParents;absGroup|N;relGroup;alwaysRun;cores;ic` -/
def jobSpec? (t : String) : Option JobSpec :=
  match t.splitOn ";" with
  | [a, b, c, d, e, f, g, h] => do
    let relId ← a.toNat?
    -- `L<ids>` = the parents were sent under the deprecated key `parent_ids`, which validate.py renames to `absolute_parent_ids`
    let ap ← natList? (if b.startsWith "L" then (b.drop 1).toString else b)
    let rp ← natList? c
    let ag ← optNat? d
    let rg ← e.toNat?
    let cores ← g.toInt?
    let ic ← h.toNat?
    pure ⟨relId, ap, rp, ag, rg, f == "1", cores, ic⟩
  | _ => none

/-- group spec token: `relId;absParent|N;relParent` -/
def groupSpec? (t : String) : Option GroupSpec :=
  match t.splitOn ";" with
  | [a, b, c] => do
    let relId ← a.toNat?
    let ap ← optNat? b
    let rp ← c.toNat?
    pure ⟨relId, ap, rp⟩
  | _ => none

def triple? (t : String) : Option (Nat × Nat × Nat) :=
  match t.splitOn ":" with
  | [a, b, c] => do pure (← a.toNat?, ← b.toNat?, ← c.toNat?)
  | _ => none

def resq? (t : String) : Option (Nat × Int) :=
  match t.splitOn ":" with
  | [a, b] => do pure (← a.toNat?, ← b.toInt?)
  | _ => none

def parseOp (ws : List String) : Option Op :=
  match ws with
  | ["createBatch", u, bp, t] => do pure (.createBatch (← u.toNat?) (← bp.toNat?) (← t.toNat?))
  -- optional 4th field: the `n_jobs` the client's batch spec announces; `_create_batch` ignores it (the row starts with n_jobs 0, complete)
  | ["createBatch", u, bp, t, _n] => do pure (.createBatch (← u.toNat?) (← bp.toNat?) (← t.toNat?))
  | ["createUpdate", b, t, nj, ng, u] => do
    pure (.createUpdate (← b.toNat?) (← t.toNat?) (← nj.toNat?) (← ng.toNat?) (← u.toNat?))
  | "insertGroups" :: b :: u :: usr :: specs => do
    pure (.insertGroups (← b.toNat?) (← u.toNat?) (← usr.toNat?) (← specs.mapM groupSpec?))
  | "insertJobs" :: b :: u :: usr :: specs => do
    pure (.insertJobs (← b.toNat?) (← u.toNat?) (← usr.toNat?) (← specs.mapM jobSpec?))
  | ["commit", b, u] => do pure (.commitUpdate (← b.toNat?) (← u.toNat?))
  | ["cancel", b, g] => do pure (.cancelGroup (← b.toNat?) (← g.toNat?))
  | ["delete", b] => do pure (.deleteBatch (← b.toNat?))
  | ["newInstance", n, c, p] => do pure (.newInstance (← n.toNat?) (← c.toInt?) (p == "1"))
  | ["activate", n] => do pure (.activate (← n.toNat?))
  | ["deactivate", n, r, ts, d] => do pure (.deactivate (← n.toNat?) r (← ts.toInt?) (← d.toNat?))
  | ["markDeleted", n] => do pure (.markDeleted (← n.toNat?))
  | ["schedule", b, j, a, i] => do pure (.schedule (← b.toNat?) (← j.toNat?) (← a.toNat?) (← i.toNat?))
  | ["creating", b, j, a, i, ts, d] => do
    pure (.creating (← b.toNat?) (← j.toNat?) (← a.toNat?) (← i.toNat?) (← ts.toInt?) (← d.toNat?))
  | ["started", b, j, a, i, ts, d] => do
    pure (.started (← b.toNat?) (← j.toNat?) (← a.toNat?) (← i.toNat?) (← ts.toInt?) (← d.toNat?))
  | ["complete", b, j, a, i, st, s0, e0, r, d] => do
    pure (.complete (← b.toNat?) (← j.toNat?) (← optNat? a) (← optNat? i) (← jstate? st) (← optInt? s0) (← optInt? e0) r (← d.toNat?))
  | ["unschedule", b, j, a, i, e0, r, d] => do
    pure (.unschedule (← b.toNat?) (← j.toNat?) (← a.toNat?) (← i.toNat?) (← e0.toInt?) r (← d.toNat?))
  | "addResources" :: b :: j :: a :: d :: res => do
    pure (.addResources (← b.toNat?) (← j.toNat?) (← a.toNat?) (← res.mapM resq?) (← d.toNat?))
  | "heartbeat" :: ts :: d :: atts => do pure (.heartbeat (← atts.mapM triple?) (← ts.toInt?) (← d.toNat?))
  | ["cleanupStaging"] => some .cleanupStaging
  | ["cleanupCancellable"] => some .cleanupCancellable
  | ["compact"] => some .compact
  | _ => none

def showKey : CKey → String
  | .uReady u ic => s!"uReady({u},{ic})" | .uReadyCores u ic => s!"uReadyCores({u},{ic})"
  | .uRunning u ic => s!"uRunning({u},{ic})" | .uRunningCores u ic => s!"uRunningCores({u},{ic})"
  | .uCreating u ic => s!"uCreating({u},{ic})" | .uCancReady u ic => s!"uCancReady({u},{ic})"
  | .uCancRunning u ic => s!"uCancRunning({u},{ic})" | .uCancCreating u ic => s!"uCancCreating({u},{ic})"
  | .cReady b u g ic => s!"cReady({b},{u},{g},{ic})" | .cReadyCores b u g ic => s!"cReadyCores({b},{u},{g},{ic})"
  | .cCreating b u g ic => s!"cCreating({b},{u},{g},{ic})" | .cRunning b u g ic => s!"cRunning({b},{u},{g},{ic})"
  | .cRunningCores b u g ic => s!"cRunningCores({b},{u},{g},{ic})"
  | .sJobs b u g ic => s!"sJobs({b},{u},{g},{ic})" | .sReady b u g ic => s!"sReady({b},{u},{g},{ic})"
  | .sReadyCores b u g ic => s!"sReadyCores({b},{u},{g},{ic})"
  | .aJob b j r => s!"aJob({b},{j},{r})" | .aGroup b g r => s!"aGroup({b},{g},{r})"
  | .aBpUser bp u r => s!"aBpUser({bp},{u},{r})" | .aByDate d bp u r => s!"aByDate({d},{bp},{u},{r})"

def sortStrings (xs : List String) : List String := (xs.toArray.qsort (· < ·)).toList

def dump (s : State) : String :=
  let sec (tag : String) (rows : List String) : String := tag ++ ":" ++ joinWith ";" (sortStrings rows)
  let keys := (s.ctr.map (·.1)).eraseDups
  joinWith "|" [
    sec "B" (s.batches.map fun b => s!"{b.id},{b.user},{b.bp},{showG b.state},{b.nJobs},{showB b.deleted}"),
    sec "U" (s.updates.map fun u => s!"{u.batch},{u.id},{u.startJob},{u.nJobs},{u.startGroup},{u.nGroups},{showB u.committed}"),
    sec "G" (s.groups.map fun g =>
      s!"{g.batch},{g.id},{joinWith "-" (g.ancestors.map toString)},{showON g.update},{showG g.state},{g.nJobs},{g.nCompleted},{g.nSucceeded},{g.nFailed},{g.nCancelled}"),
    sec "X" (s.cancelled.map fun c => s!"{c.1},{c.2}"),
    sec "J" (s.jobs.map fun j =>
      s!"{j.batch},{j.id},{j.update},{j.group},{showJ j.state},{showB j.alwaysRun},{j.cores},{j.ic},{j.npp},{showB j.cancelled},{showON j.attempt}"),
    sec "P" (s.parents.map fun p => s!"{p.1},{p.2.1},{p.2.2}"),
    sec "A" (s.attempts.map fun a =>
      s!"{a.batch},{a.job},{a.id},{showON a.inst},{showOI a.row.start_time},{showOI a.row.rollup_time},{showOI a.row.end_time},{showOS a.row.reason}"),
    sec "R" (s.attemptRes.map fun r => s!"{r.batch},{r.job},{r.attempt},{r.res},{r.qty}"),
    sec "I" (s.instances.map fun i => s!"{i.name},{showI i.state},{i.cores},{i.free},{showB i.isPool}"),
    sec "C" ((keys.filterMap fun k => let v := get s.ctr k; if v = 0 then none else some s!"{showKey k}={v}"))
  ]

def showOut : Out → String
  | .ok rc => s!"ok {rc}"
  | .err _ => "err"

/-- `compact <ts> <date> <b:j:a>…`: the compaction loops run while billing updates for those attempts are committed by another
connection between their transactions, the last one with timestamp ts + 3.  Whole transactions commute with that as far as the dump
can see (usage sums per key): the model applies the last billing update, then `compact`. -/
def compactWithHeartbeat? (ws : List String) : Option (Op × Op) :=
  match ws with
  | "compact" :: ts :: d :: atts@(_ :: _) => do
    pure (.heartbeat (← atts.mapM triple?) ((← ts.toInt?) + 3) (← d.toNat?), .compact)
  | _ => none

def stepLine (s : State) (line : String) : State × String :=
  if line == "dump" then (s, dump s) else
  match compactWithHeartbeat? (words line) with
  | some (hb, c) => let (s1, _) := step s hb; let (s2, o) := step s1 c; (s2, showOut o)
  | none =>
  match parseOp (words line) with
  | none => (s, "bad-op")
  | some op =>
    let (s', o) := step s op
    match op, o with
    | .createUpdate b _ _ _ _, .ok rc =>
      -- the real `_create_batch_update` answers (update_id, start_job_group_id, start_job_id): the client derives the absolute ids
      -- of its jobs / groups from them (C09 client_ids_agree); they are read off the update row
      match s'.updates.find? (fun u => u.batch = b ∧ (u.id : Int) = rc) with
      | some u => (s', s!"ok {rc} {u.startJob} {u.startGroup}")
      | none => (s', showOut o)
    | _, _ => (s', showOut o)

def main : IO Unit := foldLines init stepLine

import HailVerif.Model.ExprTyping
import HailVerif.Model.PyImpute
import HailVerif.Model.TableType
import HailVerif.Model.MatrixType
import HailVerif.Model.ExprIRRead
import HailVerif.Model.DriverUtil
open HailVerif HailVerif.DriverUtil HailVerif.ExprIR HailVerif.ExprIR.Read HailVerif.PyImpute

/-!
Lines (fields separated by ` ||| `):
* `infer ||| x:T,y:U (or -) ||| <ir text>` — `inferType` of the IR the front end emitted, in `_parsable_string` syntax, or `none`
* `impute ||| <python value>` — `t=<imputeType v, struct fields sorted by name | none> ok=<checkPy t v>`
* `table ||| op ; op ; …` — the table type after a sequence of Table API calls starting from `range_table`:
  `annotate x=T&y=U`, `annotate_globals g=T`, `select a,b|z=T&w=U`, `drop a,b`, `key_by a,b`, `filter`, `order_by`, `rename a=b,c=d`,
  `explode a`; answer `g=<globals struct> r=<row struct> k=<key fields>` or `none` (the front end refuses a call)
* `tunion-reported ||| <unify 0/1> ||| pipeline ||| pipeline …` — the type `t0.union(t1, …, unify=…)` reports; `tunion-ir ||| …` — the
  type the emitted `TableUnion` implies (`ill-typed` when its children disagree); `tjoin-reported` / `tjoin-ir ||| pipeline ||| pipeline` — `l.join(r)` (reported type / type the emitted `TableJoin` implies, `ill-typed` on a duplicate name)
* `matrix ||| <view: matrix|rows|cols|entries> ||| op ; op …` — the MatrixTable type after the calls from `range_matrix_table`
  (`annotate rows x=T&y=U`, `select cols a,b|z=T`, `drop a,b`, `key_cols_by [a,b]`, `key_rows_by [a,b]`, `filter rows`), seen as a matrix
  table or through `.rows()` / `.cols()` / `.entries()`; `munion` / `munion-ir ||| view ||| left ||| right ||| post` — `left.union_cols(right)` then `post` (reported / engine rule)
* `check ||| <type> ||| <python value>` — `checkPy` of a value against a given type (the type the real `hl.literal` reported)
Python values: `(none) (b 1) (i 5) (f 2) (s "x") (list v…) (tuple v…) (set v…) (dict (k v)…) (struct (name v)…)`.
-/

mutual
partial def toPy : Sexp → Except String PyVal
  | .list [.atom "none"] => .ok .none
  | .list [.atom "b", .atom "1"] => .ok (.bool true)
  | .list [.atom "b", .atom "0"] => .ok (.bool false)
  | .list [.atom "i", .atom n] => match n.toInt? with | some k => .ok (.int k) | none => .error "py int"
  | .list [.atom "f", .atom n] => match n.toInt? with | some k => .ok (.float k) | none => .error "py float"
  | .list [.atom "s", .str s] => .ok (.str s)
  | .list (.atom "list" :: xs) => do pure (.list (← toPys xs))
  | .list (.atom "tuple" :: xs) => do pure (.tuple (← toPys xs))
  | .list (.atom "set" :: xs) => do pure (.set (← toPys xs))
  | .list (.atom "dict" :: ps) => do pure (.dict (← toPairs ps))
  | .list (.atom "struct" :: fs) => do pure (.struct (← toFields fs))
  | _ => .error "malformed python value"
partial def toPys : List Sexp → Except String PyVals
  | [] => .ok .nil
  | x :: r => do pure (.cons (← toPy x) (← toPys r))
partial def toPairs : List Sexp → Except String PyPairs
  | [] => .ok .nil
  | .list [k, v] :: r => do pure (.cons (← toPy k) (← toPy v) (← toPairs r))
  | _ => .error "malformed dict item"
partial def toFields : List Sexp → Except String PyFields
  | [] => .ok .nil
  | .list [.atom n, v] :: r => do pure (.cons n (← toPy v) (← toFields r))
  | _ => .error "malformed struct field"
end

def readCtx (s : String) : Except String Ctx :=
  if s == "-" then .ok [] else
    (s.splitOn ";").mapM fun b => match b.splitOn "=" with
      | [x, t] => do pure (mkName x, ← readType t)
      | _ => .error "ctx"

def b2s (b : Bool) : String := if b then "1" else "0"

open HailVerif.TableType in
def readNamed (s : String) : Except String FieldList :=
  if s == "" then .ok [] else
    (s.splitOn "&").mapM fun b => match b.splitOn "=" with
      | [x, t] => do pure (x, ← readType t)
      | _ => .error "named"

def namesOf (s : String) : List String := if s == "" then [] else s.splitOn ","

def fieldsOfList : List (String × HType) → Fields
  | [] => .nil
  | (n, t) :: r => .cons n t (fieldsOfList r)

open HailVerif.TableType in
def applyOp (t : TType) (op : String) : Except String (Option TType) :=
  match (op.trimAscii.toString.splitOn " ") with
  | ["annotate", a] => do pure (annotate t (← readNamed a))
  | ["annotate_globals", a] => do pure (annotateGlobals t (← readNamed a))
  | ["select", a] => match a.splitOn "|" with
    | [keep, named] => do pure (select t (namesOf keep) (← readNamed named))
    | _ => .error "select"
  | ["drop", a] => .ok (TableType.drop t (namesOf a))
  | ["key_by", a] => .ok (keyBy t (namesOf a))
  | ["key_by"] => .ok (keyBy t [])
  | ["filter"] => .ok (some (TableType.filter t))
  | ["order_by"] => .ok (some (orderBy t))
  | ["rename", a] => do
    let m ← (a.splitOn ",").mapM fun b => match b.splitOn "=" with
      | [x, y] => pure (x, y)
      | _ => throw "rename"
    pure (rename t m)
  | ["explode", a] => .ok (explode t a)
  | _ => .error s!"table op {op}"

open HailVerif.TableType in
def showTT (t : TType) : String :=
  s!"g={showType (.struct (fieldsOfList t.globals))} r={showType (.struct (fieldsOfList t.row))} k={",".intercalate t.key}"

open HailVerif.TableType in
/-- a pipeline `range ; op ; op …` -/
def runOps (txt : String) : Except String (Option TType) :=
  let ops := ((txt.splitOn ";").map (·.trimAscii.toString)).filter (fun o => o != "range" && o != "")
  let rec go (t : TType) : List String → Except String (Option TType)
    | [] => .ok (some t)
    | op :: r => match applyOp t op with
      | .ok (some t') => go t' r
      | .ok none => .ok none
      | .error e => .error e
  go range ops

open HailVerif.TableType in
def runTable (txt : String) : String :=
  match runOps txt with
  | .ok (some t) => showTT t
  | .ok none => "none"
  | .error e => s!"parse-error {e}"

open HailVerif.TableType in
/-- branches -> their table types (`none` if the front end refuses one of the pipelines) -/
def runBranches (bs : List String) : Except String (Option (List TType)) := do
  let rs ← bs.mapM runOps
  pure (rs.mapM id)

open HailVerif.MatrixType in
def readAxis : String → Option Axis
  | "rows" => some .rows | "cols" => some .cols | "entries" => some .entries | "globals" => some .globals
  | _ => none

open HailVerif.MatrixType in
def applyMOp (m : MType) (op : String) : Except String (Option MType) :=
  match (op.trimAscii.toString.splitOn " ") with
  | ["annotate", ax, a] => match readAxis ax with
    | some x => do pure (MatrixType.annotate m x (← readNamed a))
    | none => .error "axis"
  | ["select", ax, a] => match readAxis ax, a.splitOn "|" with
    | some x, [keep, named] => do pure (MatrixType.select m x (namesOf keep) (← readNamed named))
    | _, _ => .error "select"
  | ["drop", a] => .ok (MatrixType.drop m (namesOf a))
  | ["key_cols_by", a] => .ok (keyColsBy m (namesOf a))
  | ["key_cols_by"] => .ok (keyColsBy m [])
  | ["key_rows_by", a] => .ok (keyRowsBy m (namesOf a))
  | ["key_rows_by"] => .ok (keyRowsBy m [])
  | ["filter", _] => .ok (some (MatrixType.filter m))
  | _ => .error s!"matrix op {op}"

open HailVerif.MatrixType in
def runMOps (start : MType) (txt : String) : Except String (Option MType) :=
  let ops := ((txt.splitOn ";").map (·.trimAscii.toString)).filter (fun o => o != "range" && o != "")
  let rec go (m : MType) : List String → Except String (Option MType)
    | [] => .ok (some m)
    | op :: r => match applyMOp m op with
      | .ok (some m') => go m' r
      | .ok none => .ok none
      | .error e => .error e
  go start ops

open HailVerif.MatrixType in
def showMT (view : String) (m : MType) : String :=
  match view with
  | "rows" => showTT (rowsTable m)
  | "cols" => showTT (colsTable m)
  | "entries" => showTT (entriesTable m)
  | _ => s!"g={showType (.struct (fieldsOfList m.globals))} c={showType (.struct (fieldsOfList m.col))} ck={",".intercalate m.colKey} r={showType (.struct (fieldsOfList m.row))} rk={",".intercalate m.rowKey} e={showType (.struct (fieldsOfList m.entry))}"

def munion (u : MatrixType.MType → MatrixType.MType → Option MatrixType.MType) (view l r post : String) : String :=
  match runMOps MatrixType.range l, runMOps MatrixType.range r with
  | .ok (some ml), .ok (some mr) => match u ml mr with
    | some m => match runMOps m post with
      | .ok (some m') => showMT view m'
      | .ok none => "none"
      | .error e => s!"parse-error {e}"
    | none => "none"
  | .error e, _ => s!"parse-error {e}"
  | _, .error e => s!"parse-error {e}"
  | _, _ => "none"

def handle (line : String) : String :=
  match line.splitOn " ||| " with
  | ["infer", ctx, t] =>
    match readCtx ctx, readIR t with
    | .ok Γ, .ok e => match inferType Γ none e with
      | some ty => showType ty
      | none => "none"
    | .error e, _ => s!"parse-error ctx {e}"
    | _, .error e => s!"parse-error ir {e}"
  | ["impute", v] =>
    match readSexp v >>= toPy with
    | .ok pv => match imputeType pv with
      | some ty => s!"t={showType (normType ty)} ok={b2s (checkPy ty pv)}"
      | none => "t=none ok=0"
    | .error e => s!"parse-error value {e}"
  | ["check", ty, v] =>
    match readType ty, readSexp v >>= toPy with
    | .ok t, .ok pv => b2s (checkPy t pv)
    | .error e, _ => s!"parse-error type {e}"
    | _, .error e => s!"parse-error value {e}"
  | ["table", ops] => runTable ops
  | "tunion-reported" :: u :: branches =>
    match runBranches branches with
    | .ok (some ts) => match TableType.unionReported (u == "1") ts with
      | some t => showTT t
      | none => "none"
    | .ok none => "none"
    | .error e => s!"parse-error {e}"
  | "tunion-ir" :: u :: branches =>
    match runBranches branches with
    | .ok (some ts) => match TableType.unionReported (u == "1") ts, TableType.unionIR (u == "1") ts with
      | some _, some t => showTT t
      | some _, none => "ill-typed"
      | none, _ => "none"
    | .ok none => "none"
    | .error e => s!"parse-error {e}"
  | ["tjoin-reported", l, r] =>
    match runBranches [l, r] with
    | .ok (some [tl, tr]) => match TableType.joinReported tl tr with
      | some t => showTT t
      | none => "none"
    | .ok _ => "none"
    | .error e => s!"parse-error {e}"
  | ["tjoin-ir", l, r] =>
    match runBranches [l, r] with
    | .ok (some [tl, tr]) => match TableType.joinReported tl tr, TableType.joinIR tl tr with
      | some _, some t => showTT t
      | some _, none => "ill-typed"
      | none, _ => "none"
    | .ok _ => "none"
    | .error e => s!"parse-error {e}"
  | [kind, am, len, ets, name, l, r] =>
    if kind != "tindex-reported" && kind != "tindex-ir" then "bad-op" else
    match runBranches [l, r], (if ets == "" then .ok [] else (ets.splitOn "&").mapM readType) with
    | .ok (some [tl, tr]), .ok et =>
      match TableType.indexAnnotate TableType.rootReported tl tr et (am == "1") (len == "1") name,
            TableType.indexAnnotate TableType.rootIR tl tr et (am == "1") (len == "1") name with
      | some t, some t' => showTT (if kind == "tindex-ir" then t' else t)
      | some _, none => if kind == "tindex-ir" then "ill-typed" else "none"
      | none, _ => "none"
    | .ok _, .ok _ => "none"
    | .error e, _ => s!"parse-error {e}"
    | _, .error e => s!"parse-error {e}"
  | [kind, ax, am, len, ets, name, view, l, r] =>
    if kind != "mindex-reported" && kind != "mindex-ir" then "bad-op" else
    match runMOps MatrixType.range l, runOps r, readAxis ax, (if ets == "" then .ok [] else (ets.splitOn "&").mapM readType) with
    | .ok (some ml), .ok (some tr), some a, .ok et =>
      match MatrixType.indexAnnotate TableType.rootReported ml a tr et (am == "1") (len == "1") name,
            MatrixType.indexAnnotate TableType.rootIR ml a tr et (am == "1") (len == "1") name with
      | some t, some t' => showMT view (if kind == "mindex-ir" then t' else t)
      | some _, none => if kind == "mindex-ir" then "ill-typed" else "none"
      | none, _ => "none"
    | .error e, _, _, _ => s!"parse-error {e}"
    | _, .error e, _, _ => s!"parse-error {e}"
    | _, _, _, .error e => s!"parse-error {e}"
    | _, _, _, _ => "none"
  | ["matrix", view, ops] =>
    match runMOps MatrixType.range ops with
    | .ok (some m) => showMT view m
    | .ok none => "none"
    | .error e => s!"parse-error {e}"
  | ["munion", view, l, r, post] => munion MatrixType.unionCols view l r post
  | ["munion-ir", view, l, r, post] =>
    match munion MatrixType.unionCols view l r post, munion MatrixType.unionColsStrict view l r post with
    | "none", _ => "none"
    | _, "none" => "ill-typed"
    | _, s => s
  | ["ndmatmul", l, r] => match l.toNat?, r.toNat? with
    | some a, some b => toString (HailVerif.FnRegistry.matMulNDims a b)
    | _, _ => "parse-error rank"
  | ["echo", t] => t
  | _ => "bad-op"

def main : IO Unit := mapLines handle

import HailVerif.Model.ResourceRequest
import HailVerif.Model.DriverUtil
open HailVerif HailVerif.DriverUtil HailVerif.Resources

/-- `=text` (possibly empty) or `~` for an absent key -/
def optStr (t : String) : Option (Option String) :=
  if t == "~" then some none
  else if t.startsWith "=" then some (some (t.drop 1).toString)
  else none

def str! (t : String) : Option String := if t.startsWith "=" then some (t.drop 1).toString else none

def cloud? : String → Option Cloud
  | "gcp" => some .gcp
  | "azure" => some .azure
  | _ => none

def bool? : String → Option Bool
  | "0" => some false
  | "1" => some true
  | _ => none

def optNat (t : String) : Option (Option Nat) := if t == "~" then some none else t.toNat?.map some
def optBool (t : String) : Option (Option Bool) := if t == "~" then some none else (bool? t).map some

def mem? (t : String) : Option MemReq :=
  if t.startsWith "s=" then some (.sym (t.drop 2).toString)
  else if t.startsWith "b" then (t.drop 1).toString.toNat?.map .bytes
  else none

def optMem (t : String) : Option (Option MemReq) := if t == "~" then some none else (mem? t).map some

/-- parse `n` pools, each `name cloud wt cores pre label price*nlocs`; returns pools with their price rows and the rest -/
def pools? (nlocs : Nat) : Nat → List String → Option (List (Pool × List Nat) × List String)
  | 0, ts => some ([], ts)
  | n + 1, name :: cl :: wt :: cores :: pre :: label :: ts => do
    let name ← str! name
    let cl ← cloud? cl
    let wt ← str! wt
    let cores ← cores.toNat?
    let pre ← bool? pre
    let label ← str! label
    let prices ← (ts.take nlocs).mapM String.toNat?
    if prices.length ≠ nlocs then none
    let (rest, ts') ← pools? nlocs n (ts.drop nlocs)
    pure ((⟨name, cl, wt, cores, pre, label⟩, prices) :: rest, ts')
  | _, _ => none

def render (a : Answer) : String :=
  match a with
  | .placed g => s!"ok {g.coll} {g.coresMcpu} {g.memBytes} {g.storageGiB}"
  | .invalid => "reject invalid"
  | .unsatisfiable => "reject unsatisfiable"
  | .err => "err"

def handle (line : String) : String :=
  match words line with
  | cl :: jn :: jc :: "D" :: dcpu :: dmem :: dsto :: dpre :: "L" :: nl :: "P" :: np :: rest =>
    (do
      let cloud ← cloud? cl
      let jn ← str! jn
      let jc ← cloud? jc
      let d : Defaults := ⟨← dcpu.toNat?, ← mem? dmem, ← dsto.toNat?, ← bool? dpre⟩
      let nl ← nl.toNat?
      let np ← np.toNat?
      let (pps, rest) ← pools? nl np rest
      match rest with
      | ["R", mt, label, pre, cpu, mem, sto, pvc] =>
        let r : Request := ⟨← optStr mt, ← optStr label, ← optBool pre, ← optNat cpu, ← optMem mem, ← optNat sto⟩
        let pvc ← optNat pvc
        let locs := (List.range nl).map fun i => s!"l{i}"
        let price : Pool → String → Nat × Nat × Nat → Nat := fun p l _ =>
          match pps.find? (fun (q : Pool × List Nat) => q.1.name == p.name) with
          | some q => (q.2.getD ((l.drop 1).toString.toNat?.getD 0) 0)
          | none => 0
        pure (render (frontEndJob price locs (pps.map Prod.fst) ⟨jn, jc⟩ d cloud pvc r))
      | _ => none).getD "bad-op"
  | _ => "bad-op"

def main : IO Unit := mapLines handle

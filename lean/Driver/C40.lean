import HailVerif.Model.WSem
import HailVerif.Model.DriverUtil
open HailVerif HailVerif.DriverUtil HailVerif.WSem

/-- an op of a group, and for an acquire optionally the number j: the task is cancelled at its j-th suspension -/
def parseOp (ws : List String) : Option (Op × Option Nat) :=
  match ws with
  | ["acquire", i, w] => do some (.acquire (← i.toNat?) (← w.toNat?), none)
  | ["acquire", i, w, j] => do some (.acquire (← i.toNat?) (← w.toNat?), some (← j.toNat?))
  | ["release", i] => do some (.release (← i.toNat?), none)
  | ["fail", i] => do some (.fail (← i.toNat?), none)
  | ["cancel", i] => do some (.cancel (← i.toNat?), none)
  | _ => none

/-- canonical state: free value, holder ids (sorted), waiter ids in `self.events` order, ids whose acquire hit the assertion -/
def showState (s : State) (asserted : List Nat) : String :=
  let hs := (ids s.holders).toArray.qsort (· < ·) |>.toList
  let f := fun (l : List Nat) => joinWith "," (l.map toString)
  s!"v={s.value} h={f hs} q={f (ids s.waiters)} a={f asserted}"

/-- driver state: the model state and, for tasks with an injected cancellation, how many more suspensions they go through
before it is delivered.  In the model a task suspends (1) in `event.wait()` when it has to queue, (2) at the gate inside
the body; the fast path of `acquire` has NO suspension point. -/
structure D where
  s : State
  cnt : List (Nat × Nat)

/-- the loop runs to quiescence: injected cancellations that are due are delivered, woken waiters resume in the order in
which they were woken (a resumed task is then suspended inside its body: one more suspension).  Built from `step` only. -/
partial def settle (d : D) (late : List Nat) : Option D :=
  match late with
  | i :: rest =>
    if active d.s i then
      match step d.s (.cancel i) with
      | .ok s' => settle { d with s := s' } rest
      | .error _ => none
    else settle d rest
  | [] =>
    match d.s.granted with
    | [] => some d
    | (_, i) :: _ =>
      match step d.s (.resume i) with
      | .error _ => none
      | .ok s' =>
        match d.cnt.find? (·.1 == i) with
        | some (_, n) =>
          let cnt' := d.cnt.filter (·.1 != i)
          if n ≤ 1 then settle ⟨s', cnt'⟩ [i] else settle ⟨s', (i, n - 1) :: cnt'⟩ []
        | none => settle { d with s := s' } []

/-- the atomic blocks of one group, in order, then `settle`.  An acquire that hits the assertion leaves the state untouched
(the AssertionError kills the task before anything is modified). -/
def runGroup (d : D) : List (Op × Option Nat) → List Nat → List Nat → Option (D × List Nat)
  | [], a, late => (settle d late).map fun d' => (d', a)
  | (op, j) :: ops, a, late =>
    match step d.s op with
    | .ok s' =>
      match op, j with
      | .acquire i _, some j =>
        let cnt' := d.cnt.filter (·.1 != i)
        -- after its first block the task is suspended for the first time (queued, or at the gate)
        if j == 1 then runGroup ⟨s', cnt'⟩ ops a (late ++ [i])
        else if j == 0 then runGroup ⟨s', cnt'⟩ ops a late
        else runGroup ⟨s', (i, j - 1) :: cnt'⟩ ops a late
      | .acquire i _, none => runGroup ⟨s', d.cnt.filter (·.1 != i)⟩ ops a late
      | _, _ => runGroup { d with s := s' } ops a late
    | .error .assertion => (match op with | .acquire i _ => runGroup d ops (a ++ [i]) late | _ => none)
    | .error .protocol => none

/-- lines: `max N` (new semaphore) or a group `op;op;…` of blocks executed in one loop iteration followed by settling -/
def handle (st : Option D) (line : String) : Option D × String :=
  match words line, st with
  | ["max", n], _ =>
    match n.toNat? with
    | some c => (some ⟨init c, []⟩, showState (init c) [])
    | none => (st, "bad-op")
  | _, some d =>
    match (line.splitOn ";").mapM (fun t => parseOp (words t)) with
    | none => (st, "bad-op")
    | some ops =>
      match runGroup d ops [] [] with
      | some (d', a) => (some d', showState d'.s a)
      | none => (st, "err")
  | _, none => (st, "bad-op")

def main : IO Unit := foldLines (none : Option D) handle

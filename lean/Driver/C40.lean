import HailVerif.Model.WSem
import HailVerif.Model.DriverUtil
open HailVerif HailVerif.DriverUtil HailVerif.WSem

def parseOp (ws : List String) : Option Op :=
  match ws with
  | ["acquire", i, w] => do some (.acquire (← i.toNat?) (← w.toNat?))
  | ["release", i] => do some (.release (← i.toNat?))
  | ["fail", i] => do some (.fail (← i.toNat?))
  | ["cancel", i] => do some (.cancel (← i.toNat?))
  | _ => none

/-- canonical state: free value, holder ids (sorted), waiter ids in `self.events` order, ids whose acquire hit the assertion -/
def showState (s : State) (asserted : List Nat) : String :=
  let hs := (ids s.holders).toArray.qsort (· < ·) |>.toList
  let f := fun (l : List Nat) => joinWith "," (l.map toString)
  s!"v={s.value} h={f hs} q={f (ids s.waiters)} a={f asserted}"

/-- the atomic blocks of one group, in order, then the loop runs to quiescence (`settleOps`).  An acquire that hits the
assertion leaves the state untouched (the AssertionError kills the task before anything is modified). -/
def runGroup (s : State) : List Op → List Nat → Option (State × List Nat)
  | [], a =>
    match run s (settleOps s) with
    | .ok s' => some (s', a)
    | .error _ => none
  | op :: ops, a =>
    match step s op with
    | .ok s' => runGroup s' ops a
    | .error .assertion => (match op with | .acquire i _ => runGroup s ops (a ++ [i]) | _ => none)
    | .error .protocol => none

/-- lines: `max N` (new semaphore) or a group `op;op;…` of blocks executed in one loop iteration followed by settling -/
def handle (st : Option State) (line : String) : Option State × String :=
  match words line, st with
  | ["max", n], _ =>
    match n.toNat? with
    | some c => (some (init c), showState (init c) [])
    | none => (st, "bad-op")
  | _, some s =>
    match (line.splitOn ";").mapM (fun t => parseOp (words t)) with
    | none => (st, "bad-op")
    | some ops =>
      match runGroup s ops [] with
      | some (s', a) => (some s', showState s' a)
      | none => (st, "err")
  | _, none => (st, "bad-op")

def main : IO Unit := foldLines (none : Option State) handle

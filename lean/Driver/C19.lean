import HailVerif.Model.Bunch
import HailVerif.Model.Submit
import HailVerif.Model.DriverUtil
open HailVerif HailVerif.DriverUtil HailVerif.Submit

/-- line: `maxBytes maxN nGroups size*`; answer: bunches of spec indices `0,1|2|...`, `empty`, or `err` -/
def handlePure (line : String) : String :=
  match nats? (words line) with
  | some (maxBytes :: maxN :: nGroups :: sizes) =>
    let specs : List (Nat × Nat) := sizes.zipIdx
    let groups := specs.take nGroups
    let jobs := specs.drop nGroups
    match Bunch.createBunches (fun p => p.1) groups jobs maxBytes maxN with
    | none => "err"
    | some [] => "empty"
    | some bs => joinWith "|" (bs.map fun b => joinWith "," (b.map fun p => toString p.2))
  | _ => "bad-op"

/-- a spec of the caller-level cases: (uid, byte size) -/
abbrev Spec := Nat × Nat

structure DState where
  st : St Spec
  next : Nat          -- next uid

def uids (xs : List (Typ × Spec)) (t : Typ) : List (Typ × Spec) := xs.filter fun p => p.1 == t
def ids (xs : List (Typ × Spec)) : String := joinWith "," (xs.map fun p => toString p.2.1)
def nbytes (xs : List (Typ × Spec)) : Nat := (xs.map fun p => p.2.2).sum

/-- the requests of one submit: one bunch → the fast route `F[g:…|j:…]@bytes`; several → job-group posts of every
bunch in order, then job posts (`G[…]@b … J[…]@b …`); none → `open` (first submit) -/
def render (wasCreated : Bool) (w : Wire Spec) : String :=
  let head := s!"{if wasCreated then "upd" else "new"} n={w.announcedGroups},{w.announcedJobs}"
  match w.bunches with
  | [] => head ++ " open"
  | [b] => head ++ s!" F[g:{ids (uids b .group)}|j:{ids (uids b .job)}]@{nbytes b}"
  | bs =>
    let gs := (bs.map fun b => uids b .group).filter (· ≠ [])
    let js := (bs.map fun b => uids b .job).filter (· ≠ [])
    head ++ " " ++ joinWith " " ((gs.map fun b => s!"G[{ids b}]@{nbytes b}") ++ (js.map fun b => s!"J[{ids b}]@{nbytes b}"))

/-- `round <maxBytes> <maxN> [f<k>] <g<size>|j<size>>*`: create the job groups / jobs in that order, then `submit`; with `f<k>` the
k-th request of that submit is answered with an error -/
def handleRound (d : DState) (ws : List String) : Option (DState × String) := do
  match ws with
  | mb :: mn :: ops =>
    let maxBytes ← mb.toNat?
    let maxN ← mn.toNat?
    let failAt : Option Nat := match ops with
      | o :: _ => if o.startsWith "f" then (o.drop 1).toNat? else none
      | [] => none
    let ops := if failAt.isSome then ops.drop 1 else ops
    let d ← ops.foldlM (fun (d : DState) (o : String) => do
      let size ← (o.drop 1).toNat?
      let spec : Spec := (d.next, size)
      if o.startsWith "g" then pure { st := (step (fun p : Spec => p.2) d.st (.createGroup spec)).1, next := d.next + 1 }
      else if o.startsWith "j" then pure { st := (step (fun p : Spec => p.2) d.st (.createJob spec)).1, next := d.next + 1 }
      else none) d
    let (st', r) := step (fun p : Spec => p.2) d.st
      (match failAt with | some k => .submitFailing maxBytes maxN k | none => .submit maxBytes maxN)
    let out := match r with
      | some .raised => "raised"
      | some .quiet => "quiet"
      | some .failed => s!"failed c={if st'.created then 1 else 0}"
      | some (.sent w) => render d.st.created w
      | none => "bad-op"
    pure ({ d with st := st' }, out)
  | _ => none

def stepLine (d : DState) (line : String) : DState × String :=
  match words line with
  | "round" :: rest =>
    match handleRound d rest with
    | some r => r
    | none => (d, "bad-op")
  | _ => (d, handlePure line)

def main : IO Unit := foldLines ({ st := St.init, next := 1 } : DState) stepLine

import HailVerif.Model.Bunch
import HailVerif.Model.DriverUtil
open HailVerif HailVerif.DriverUtil

/-- line: `maxBytes maxN nGroups size*`; answer: bunches of spec indices `0,1|2|...`, `empty`, or `err` -/
def handle (line : String) : String :=
  match nats? (words line) with
  | some (maxBytes :: maxN :: nGroups :: sizes) =>
    let specs : List (Nat × Nat) := sizes.zipIdx
    let groups := specs.take nGroups
    let jobs := specs.drop nGroups
    match Bunch.createBunches (fun p => p.1) groups jobs maxBytes maxN with
    | none => "err"
    | some [] => "empty"
    | some bs => joinWith "|" (bs.map fun b => joinWith "," (b.map fun p => toString p.2))
  | _ => "bad-op"

def main : IO Unit := mapLines handle

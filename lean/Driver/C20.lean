import HailVerif.Model.Gather
import HailVerif.Model.DriverUtil
open HailVerif HailVerif.DriverUtil HailVerif.Gather

def showRes : Res → String
  | .ok v => s!"ok:{v}"
  | .err e => s!"err:{e}"
  | .cancelled => "X"
  | .okObj .none => "ok:None"
  | .okObj (.exn (.code e)) => s!"ok:E{e}"
  | .okObj (.exn .cancelled) => "ok:EX"

def showT : TSt → String
  | .queued => "Q"
  | .running => "R"
  | .done r => showRes r

def showH : HSt → String
  | .active => "active"
  | .exiting => "exiting"
  | .returned sl => "ret:" ++ joinWith ";" (sl.map showRes)
  | .raised (.code e) => s!"exc:{e}"
  | .raised .cancelled => "exc:X"
  | .exitCancelled => "exc:X"

/-- canonical line: task states in submission order, free permits, helper state, tasks unfinished at the moment the helper
returned/raised, peak number of running bodies during the step -/
def showState (before : Nat) (s : State) : String :=
  s!"s={joinWith "," (s.st.map showT)} f={s.free} h={showH s.helper} p={s.pendingAtReturn} m={max before (nRunning s.st)}"

def parseOutcome (t : String) : Option Outcome :=
  match t.toList with
  | 'r' :: d => (String.ofList d).toNat?.map Outcome.ret
  | 'e' :: d => (String.ofList d).toNat?.map Outcome.raise
  | 'c' :: _ => some Outcome.cancel
  | 'n' :: _ => some (Outcome.retObj .none)
  | 'v' :: d => (String.ofList d).toNat?.map fun e => Outcome.retObj (.exn (.code e))
  | 'w' :: _ => some (Outcome.retObj (.exn .cancelled))
  | _ => none

def parseFlavour : String → Option Flavour
  | "rx" => some .returnExceptions
  | "rf" => some .raiseFirst
  | "rc" => some .raiseCancel
  | "on" => some .online
  | _ => none

/-- lines: `start FLAVOUR ENTRY N o0 o1 …` (`ENTRY` = `hold` | `bg`; outcomes `r<v>` | `e<e>`), `finish i`, `body r0|e<e>`, `cancel` (outcomes also `c0` = the body ends in CancelledError, `n0` / `v<e>` / `w0` = the body RETURNS None / an exception instance / a CancelledError instance) -/
def handle (st : Option State) (line : String) : Option State × String :=
  match words line, st with
  | "start" :: fl :: en :: n :: os, _ =>
    match parseFlavour fl, n.toNat?, os.mapM parseOutcome with
    | some fl, some n, some os =>
      let entry := if en == "bg" then Entry.boundedGather else Entry.holdingPermit
      let s := start fl entry n os
      (some s, showState 0 s)
    | _, _, _ => (st, "bad-op")
  | ["finish", i], some s =>
    match i.toNat? with
    | some i =>
      match step s (.finish i) with
      | some s' => (some s', showState (nRunning s.st) s')
      | none => (st, "err")
    | none => (st, "bad-op")
  | ["cancel"], some s =>
    match step s .cancelCaller with
    | some s' => (some s', showState (nRunning s.st) s')
    | none => (st, "err")
  | ["body", o], some s =>
    match parseOutcome o with
    | some o =>
      match step s (.body o) with
      | some s' => (some s', showState (nRunning s.st) s')
      | none => (st, "err")
    | none => (st, "bad-op")
  | _, _ => (st, "bad-op")

def main : IO Unit := foldLines (none : Option State) handle

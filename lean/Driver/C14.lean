import HailVerif.Generated.BatchRoutes
import HailVerif.Model.DriverUtil
import HailVerif.Model.SessionCache
open HailVerif HailVerif.DriverUtil HailVerif.Access

def showOutcome : Outcome → String
  | .allow => "allow"
  | .redirectLogin => "redirect"
  | .unauthorized => "401"
  | .forbidden => "403"
  | .notFound => "404"
  | .serverError => "500"

def showClass : Class → String
  | .pub => "pub" | .user => "user" | .member => "member" | .owner => "owner" | .admin => "admin"

def showMethod : Method → String
  | .get => "GET" | .post => "POST" | .put => "PUT" | .patch => "PATCH" | .delete => "DELETE" | .head => "HEAD" | .options => "OPTIONS"

/-- session schedule tokens: `r` request, `a<ms>` advance, `s0|s1|s2` auth service says active | inactive | revoked -/
def sessOp (w : String) : Option SessionCache.Op :=
  if w == "r" then some .request
  else if w == "s0" then some (.setSvc .active)
  else if w == "s1" then some (.setSvc .inactive)
  else if w == "s2" then some (.setSvc .revoked)
  else if w.startsWith "a" then (w.drop 1).toNat?.map .advance
  else none

def bit (s : String) : Option Bool := if s == "1" then some true else if s == "0" then some false else none

def mutOf : String → Option Mutator
  | "createUpdate" => some .createUpdate | "updateFast" => some .updateFast | "createJobs" => some .createJobs
  | "createJobGroups" => some .createJobGroups | "commitUpdate" => some .commitUpdate | "closeBatch" => some .closeBatch
  | _ => none

/-- `guard <route index> <hasSession> <active> <developer> <isAuth> <member> <owner> <batchIdOk> <serviceAccount>` → `<METHOD> <path> <outcome> <class>`;
`mut <mutator> <isOwner> <tokenKnown> <emptyPayload> <namesake>` → `<ok|error> <changed|unchanged>`; `list <memberOrOwner> <namesake>` → `listed|hidden`; `count` → number of routes -/
def handle (line : String) : String :=
  match words line with
  | ["count"] => toString Generated.BatchRoutes.routes.length
  | ["guard", i, a, b, c, d, e, f, g, h] =>
    match i.toNat?, bit a, bit b, bit c, bit d, bit e, bit f, bit g, bit h with
    | some i, some a, some b, some c, some d, some e, some f, some g, some h =>
      match Generated.BatchRoutes.routes[i]? with
      | some r =>
        let cl : Caller := { hasSession := a, active := b, developer := c, isAuth := d, serviceAccount := h, member := e, owner := f, batchIdOk := g }
        s!"{showMethod r.method} {r.path} {showOutcome (decision r.decorators r.isApi cl)} {showClass (required r.method r.segs)}"
      | none => "no-such-route"
    | _, _, _, _, _, _, _, _, _ => "bad-op"
  | ["adm", a, b] =>
    match bit a, bit b with
    | some a, some b => match adminOnly a b with
      | none => "admin-caller"
      | some r => s!"{if r.ok then "ok" else "error"} {if r.changed then "changed" else "unchanged"}"
    | _, _ => "bad-op"
  | ["mut", m, a, b, c, d] =>
    match mutOf m, bit a, bit b, bit c, bit d with
    | some m, some a, some b, some c, some d =>
      let r := mutate m { isOwner := a, tokenKnown := b, emptyPayload := c, namesake := d }
      s!"{if r.ok then "ok" else "error"} {if r.changed then "changed" else "unchanged"}"
    | _, _, _, _, _ => "bad-op"
  | ["list", a, b] =>
    match bit a, bit b with
    | some a, some b => if listed a b then "listed" else "hidden"
    | _, _ => "bad-op"
  | "sess" :: lt :: ws =>
    match lt.toNat?, ws.mapM sessOp with
    | some lt, some ops => joinWith "," ((SessionCache.run false lt SessionCache.init ops).2.map toString)
    | _, _ => "bad-op"
  | ["rows"] => "only-permitted-rows"      -- `listed_jobs_belong_to_batch` / the listings' membership filters
  | ["filtercol"] => Generated.BatchRoutes.userCanAccessColumn
  | _ => "bad-op"

def main : IO Unit := mapLines handle

import HailVerif.Model.Cache
import HailVerif.Model.DriverUtil
open HailVerif HailVerif.DriverUtil HailVerif.Cache

/-- values: `N` = Python's None, a number = any other value (the harness encodes '' as 900001 and [] as 900002) -/
def showVal : Val → String
  | none => "N"
  | some n => toString n

def parseVal (t : String) : Option Val := if t == "N" then some none else t.toNat?.map some

def insertBy {α : Type} (lt : α → α → Bool) (x : α) : List α → List α
  | [] => [x]
  | y :: r => if lt x y then x :: y :: r else y :: insertBy lt x r

def sortBy {α : Type} (lt : α → α → Bool) (l : List α) : List α := l.foldr (insertBy lt) []

/-- canonical line: clock, cache entries sorted by key (`key:value:expiry`), keys with a load in flight (sorted), waiting callers
sorted by caller (`caller:key`), then what this step did: loads started (sorted), caller outcomes sorted by caller -/
def showState (s : State) (e : List Ev) : String :=
  let ents := sortBy (fun (a b : Entry) => a.key < b.key) s.entries
  let c := joinWith "," (ents.map fun x => s!"{x.key}:{showVal x.val}:{x.expiry}")
  let f := joinWith "," ((sortBy (· < ·) (ikeys s.inflight)).map toString)
  let ws : List (Nat × Nat) := s.inflight.flatMap fun p => p.2.map fun c => (c, p.1)
  let w := joinWith "," ((sortBy (fun (a b : Nat × Nat) => a.1 < b.1) ws).map fun p => s!"{p.1}:{p.2}")
  let starts := sortBy (· < ·) (e.filterMap fun | .started k => some k | _ => none)
  let outs : List (Nat × String) := e.filterMap fun
    | .hit c _ v _ => some (c, s!"hit:{c}:{showVal v}")
    | .joined c _ => some (c, s!"wait:{c}")
    | .loaded c _ v _ => some (c, s!"got:{c}:{showVal v}")
    | .failed c _ => some (c, s!"fail:{c}")
    | .cancelled c => some (c, s!"cancel:{c}")
    | _ => none
  let ev := joinWith "," (starts.map (fun k => s!"start:{k}") ++ (sortBy (fun (a b : Nat × String) => a.1 < b.1) outs).map (·.2))
  s!"t={s.now} c={c} f={f} w={w} i=ok e={ev}"

def parseOp : List String → Option Op
  | ["lookup", c, k] => match c.toNat?, k.toNat? with
    | some c, some k => some (.lookup c k)
    | _, _ => none
  | ["ok", k, v] => match k.toNat?, parseVal v with
    | some k, some v => some (.loadOk k v)
    | _, _ => none
  | ["fail", k] => k.toNat?.map .loadFail
  | ["cancel", c] => c.toNat?.map .cancelCaller
  | ["adv", dt] => dt.toNat?.map .advance
  | _ => none

/-- split a token list at the token ";" -/
def splitSemi : List String → List (List String)
  | [] => [[]]
  | ";" :: r => [] :: splitSemi r
  | t :: r => match splitSemi r with
    | [] => [[t]]
    | g :: gs => (t :: g) :: gs

/-- driver state: one cache, or several instances (`mcfg`) -/
inductive DS where
  | none
  | one (cfg : Config) (s : State)
  | many (m : Multi)

def showMulti (m : Multi) (j : Nat) (e : List Ev) : String :=
  joinWith " || " ((List.range m.length).map fun i =>
    match m[i]? with
    | some (_, s, _) => showState s (if i == j then e else [])
    | Option.none => "?")

def pairs : List Nat → Option (List Config)
  | [] => some []
  | l :: n :: r => (pairs r).map (⟨l, n⟩ :: ·)
  | _ => Option.none

/-- lines: `cfg LIFETIME SLOTS` (one cache) | `mcfg L0 S0 L1 S1 …` (several instances, answers are the instances' lines joined by
` || `), then `lookup c k`, `ok k v`, `fail k`, `cancel c`, `adv dt`, `group OP ; OP ; …` (one loop turn); with several instances
every op but `adv` is addressed: `at J OP…`; `err` = not a behaviour -/
def handle (st : DS) (line : String) : DS × String :=
  match words line, st with
  | "cfg" :: [l, n], _ =>
    match l.toNat?, n.toNat? with
    | some l, some n => (.one ⟨l, n⟩ init, showState init [])
    | _, _ => (st, "bad-op")
  | "mcfg" :: r, _ =>
    match (nats? r).bind pairs with
    | some cfgs => let m := Multi.start cfgs; (.many m, showMulti m cfgs.length [])
    | Option.none => (st, "bad-op")
  | "group" :: toks, .one cfg s =>
    match (splitSemi toks).mapM parseOp with
    | some ops =>
      match turn cfg s s ops with
      | some (s', e) => (.one cfg s', showState s' e)
      | Option.none => (st, "err")
    | Option.none => (st, "bad-op")
  | toks, .one cfg s =>
    match parseOp toks with
    | some op =>
      match step cfg s op with
      | some (s', e) => (.one cfg s', showState s' e)
      | Option.none => (st, "err")
    | Option.none => (st, "bad-op")
  | ["adv", dt], .many m =>
    match dt.toNat? with
    | some dt =>
      match mstep m (.advance dt) with
      | some (m', _) => (.many m', showMulti m' m.length [])
      | Option.none => (st, "err")
    | Option.none => (st, "bad-op")
  | "at" :: j :: "group" :: toks, .many m =>
    match j.toNat?, (splitSemi toks).mapM parseOp with
    | some j, some ops =>
      match m[j]? with
      | some (cfg, s, tr) =>
        let busy := ops.any fun | .lookup c _ => m.busy c | _ => false
        if busy then (st, "err") else
        match turn cfg s s ops with
        | some (s', e) => let m' := m.set j (cfg, s', tr ++ e); (.many m', showMulti m' j e)
        | Option.none => (st, "err")
      | Option.none => (st, "err")
    | _, _ => (st, "bad-op")
  | "at" :: j :: toks, .many m =>
    match j.toNat?, parseOp toks with
    | some j, some op =>
      match mstep m (.at j op) with
      | some (m', e) => (.many m', showMulti m' j e)
      | Option.none => (st, "err")
    | _, _ => (st, "bad-op")
  | _, _ => (st, "bad-op")

def main : IO Unit := foldLines DS.none handle

import HailVerif.Model.Cache
import HailVerif.Model.DriverUtil
open HailVerif HailVerif.DriverUtil HailVerif.Cache

/-- values: `N` = Python's None, a number = any other value (the harness encodes '' as 900001 and [] as 900002) -/
def showVal : Val → String
  | none => "N"
  | some n => toString n

def parseVal (t : String) : Option Val := if t == "N" then some none else t.toNat?.map some

def insertBy {α : Type} (lt : α → α → Bool) (x : α) : List α → List α
  | [] => [x]
  | y :: r => if lt x y then x :: y :: r else y :: insertBy lt x r

def sortBy {α : Type} (lt : α → α → Bool) (l : List α) : List α := l.foldr (insertBy lt) []

/-- canonical line: clock, cache entries sorted by key (`key:value:expiry`), keys with a load in flight (sorted), waiting callers
sorted by caller (`caller:key`), then what this step did: loads started (sorted), caller outcomes sorted by caller -/
def showState (s : State) (e : List Ev) : String :=
  let ents := sortBy (fun (a b : Entry) => a.key < b.key) s.entries
  let c := joinWith "," (ents.map fun x => s!"{x.key}:{showVal x.val}:{x.expiry}")
  let f := joinWith "," ((sortBy (· < ·) (ikeys s.inflight)).map toString)
  let ws : List (Nat × Nat) := s.inflight.flatMap fun p => p.2.map fun c => (c, p.1)
  let w := joinWith "," ((sortBy (fun (a b : Nat × Nat) => a.1 < b.1) ws).map fun p => s!"{p.1}:{p.2}")
  let starts := sortBy (· < ·) (e.filterMap fun | .started k => some k | _ => none)
  let outs : List (Nat × String) := e.filterMap fun
    | .hit c _ v _ => some (c, s!"hit:{c}:{showVal v}")
    | .joined c _ => some (c, s!"wait:{c}")
    | .loaded c _ v _ => some (c, s!"got:{c}:{showVal v}")
    | .failed c _ => some (c, s!"fail:{c}")
    | .cancelled c => some (c, s!"cancel:{c}")
    | _ => none
  let ev := joinWith "," (starts.map (fun k => s!"start:{k}") ++ (sortBy (fun (a b : Nat × String) => a.1 < b.1) outs).map (·.2))
  s!"t={s.now} c={c} f={f} w={w} i=ok e={ev}"

def parseOp : List String → Option Op
  | ["lookup", c, k] => match c.toNat?, k.toNat? with
    | some c, some k => some (.lookup c k)
    | _, _ => none
  | ["ok", k, v] => match k.toNat?, parseVal v with
    | some k, some v => some (.loadOk k v)
    | _, _ => none
  | ["fail", k] => k.toNat?.map .loadFail
  | ["cancel", c] => c.toNat?.map .cancelCaller
  | ["adv", dt] => dt.toNat?.map .advance
  | _ => none

/-- split a token list at the token ";" -/
def splitSemi : List String → List (List String)
  | [] => [[]]
  | ";" :: r => [] :: splitSemi r
  | t :: r => match splitSemi r with
    | [] => [[t]]
    | g :: gs => (t :: g) :: gs

/-- lines: `group OP ; OP ; …` (one loop turn), `cfg LIFETIME SLOTS` (new cache), `lookup c k`, `ok k v`, `fail k`, `cancel c`, `adv dt`; `err` = not a behaviour -/
def handle (st : Option (Config × State)) (line : String) : Option (Config × State) × String :=
  let go (cfg : Config) (s : State) (op : Op) : Option (Config × State) × String :=
    match step cfg s op with
    | some (s', e) => (some (cfg, s'), showState s' e)
    | none => (st, "err")
  match words line, st with
  | "group" :: toks, some (cfg, s) =>
    match (splitSemi toks).mapM parseOp with
    | some ops =>
      match turn cfg s s ops with
      | some (s', e) => (some (cfg, s'), showState s' e)
      | none => (st, "err")
    | none => (st, "bad-op")
  | ["cfg", l, n], _ =>
    match l.toNat?, n.toNat? with
    | some l, some n => (some (⟨l, n⟩, init), showState init [])
    | _, _ => (st, "bad-op")
  | [cmd, a, b], some (cfg, s) =>
    match cmd, a.toNat?, b.toNat?, parseVal b with
    | "lookup", some c, some k, _ => go cfg s (.lookup c k)
    | "ok", some k, _, some v => go cfg s (.loadOk k v)
    | _, _, _, _ => (st, "bad-op")
  | [cmd, a], some (cfg, s) =>
    match cmd, a.toNat? with
    | "fail", some k => go cfg s (.loadFail k)
    | "cancel", some c => go cfg s (.cancelCaller c)
    | "adv", some dt => go cfg s (.advance dt)
    | _, _ => (st, "bad-op")
  | _, _ => (st, "bad-op")

def main : IO Unit := foldLines (none : Option (Config × State)) handle

import HailVerif.Model.Billing
import HailVerif.Model.DriverUtil
open HailVerif HailVerif.DriverUtil HailVerif.Billing

def cloud? : String → Option Cloud
  | "gcp" => some .gcp
  | "azure" => some .azure
  | _ => none

def bool? : String → Option Bool
  | "0" => some false
  | "1" => some true
  | _ => none

/-- split `key=value` at the first `=` -/
def kv (t : String) : String × String :=
  match t.splitOn "=" with
  | k :: rest => (k, "=".intercalate rest)
  | [] => (t, "")

/-- fold the `key=value` tokens of one resource into an `RDict`; `none` on a malformed token -/
def rdict? (typ : String) (toks : List String) : Option RDict :=
  toks.foldlM (fun (d : RDict) t =>
    if t == "ldv" then some { d with latestDiskVersions := some (d.latestDiskVersions.getD []) }
    else if t.startsWith "ldv:" then
      let (k, v) := kv (t.drop 4).toString
      some { d with latestDiskVersions := some (d.latestDiskVersions.getD [] ++ [(k, v)]) }
    else
      let (k, v) := kv t
      match k with
      | "name" => some { d with name := some v }
      | "storage_in_gib" => v.toNat?.map fun n => { d with storageInGib := some n }
      | "number" => v.toNat?.map fun n => { d with number := some n }
      | "version" => v.toNat?.map fun n => { d with version := some n }
      | "format_version" => v.toNat?.map fun n => { d with formatVersion := some n }
      | "disk_type" => some { d with diskType := some v }
      | "location" => some { d with location := some v }
      | _ => none) { typ := typ }

def resources? : Nat → List String → Option (List RDict × List String)
  | 0, ts => some ([], ts)
  | n + 1, typ :: k :: ts => do
    let k ← k.toNat?
    let d ← rdict? typ (ts.take k)
    if (ts.take k).length ≠ k then none
    let (rest, ts') ← resources? n (ts.drop k)
    pure (d :: rest, ts')
  | _, _ => none

def cdict? : List String → Option (CDict × List String)
  | cl :: ver :: mt :: pre :: ssd :: data :: boot :: jp :: nres :: ts => do
    let cl ← cloud? cl
    let ver ← ver.toNat?
    let pre ← bool? pre
    let ssd ← bool? ssd
    let data ← data.toNat?
    let boot ← boot.toNat?
    let jp ← bool? jp
    if nres == "~" then
      pure (⟨ver, cl, mt, pre, ssd, data, boot, jp, none⟩, ts)
    else
      let (rs, ts') ← resources? (← nres.toNat?) ts
      pure (⟨ver, cl, mt, pre, ssd, data, boot, jp, some rs⟩, ts')
  | _ => none

def b01 (b : Bool) : String := if b then "1" else "0"

def renderR (d : RDict) : String :=
  let f (k : String) (o : Option String) : List String := match o with | some v => [s!"{k}={v}"] | none => []
  let ldv : List String := match d.latestDiskVersions with
    | none => []
    | some vs => "ldv" :: vs.map fun p => s!"ldv:{p.1}={p.2}"
  joinWith " " ([d.typ] ++ f "disk_type" d.diskType ++ f "format_version" (d.formatVersion.map toString) ++ ldv
    ++ f "location" d.location ++ f "name" d.name ++ f "number" (d.number.map toString)
    ++ f "storage_in_gib" (d.storageInGib.map toString) ++ f "version" (d.version.map toString))

def renderC (d : CDict) : String :=
  let cl := match d.cloud with | .gcp => "gcp" | .azure => "azure"
  let head := s!"{cl} {d.version} {d.machineType} {b01 d.jobPrivate}"
  match d.resources with
  | none => head ++ " ~"
  | some rs => joinWith " | " (head :: rs.map renderR)

/-- the cloud token `terra` = an azure dict read by `TerraAzureSlimInstanceConfig.from_dict` -/
def untag (rest : List String) : List String × Bool :=
  match rest with
  | "terra" :: ts => ("azure" :: ts, true)
  | ts => (ts, false)

def load (d : CDict) (terra : Bool) : Option Config := if terra then Config.fromDictTerra d else Config.fromDict d

def handle (line : String) : String :=
  match words line with
  | "q" :: rest0 =>
    let (rest, terra) := untag rest0
    (do
      let (d, rest) ← cdict? rest
      match rest with
      | ["J", cpu, mem, ext] =>
        let cpu ← cpu.toNat?
        let mem ← mem.toNat?
        let ext ← ext.toNat?
        match load d terra with
        | none => pure "err"
        | some c =>
          match c.quantifiedResources cpu mem ext with
          | none => pure "err"
          | some qs => pure (joinWith " " ("ok" :: qs.map fun (p : String × Nat) => s!"{p.1}:{p.2}"))
      | _ => none).getD "bad-op"
  | "d" :: rest0 =>
    let (rest, terra) := untag rest0
    (do
      let (d, rest) ← cdict? rest
      if rest ≠ [] then none
      match load d terra with
      | none => pure "err"
      | some c => pure (renderC c.toDict)).getD "bad-op"
  | _ => "bad-op"

def main : IO Unit := mapLines handle

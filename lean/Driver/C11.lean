import HailVerif.Model.FairShare
import HailVerif.Model.DriverUtil
open HailVerif HailVerif.DriverUtil HailVerif.FairShare

def pairs : List Int → Nat → Option (List User)
  | [], _ => some []
  | r :: d :: rest, i =>
    if r < 0 ∨ d < 0 then none
    else (pairs rest (i + 1)).map fun us => { id := i, running := r.toNat, ready := d.toNat } :: us
  | _, _ => none

/-- line: `free running0 ready0 running1 ready1 …`; answer: `alloc0 alloc1 …` in input order, `none` for no users,
`fuel` if the model ran out of fuel -/
def handle (line : String) : String :=
  match ints? (words line) with
  | some (free :: rest) =>
    match pairs rest 0 with
    | none => "bad-op"
    | some us =>
      match fairShare us free with
      | none => "fuel"
      | some res =>
        if us.isEmpty then "none"
        else joinWith " " (us.map fun u =>
          match res.find? (fun p => p.1.id == u.id) with
          | some p => toString p.2
          | none => "missing")
  | _ => "bad-op"

def main : IO Unit := mapLines handle

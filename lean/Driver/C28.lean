import HailVerif.Model.Names
import HailVerif.Model.DriverUtil
open HailVerif HailVerif.DriverUtil HailVerif.Names

def hexDigit? (c : Char) : Option Nat :=
  if '0' ≤ c ∧ c ≤ '9' then some (c.toNat - 48)
  else if 'a' ≤ c ∧ c ≤ 'f' then some (c.toNat - 87)
  else none

def hex? (s : String) : Option Nat :=
  if s.isEmpty then none else s.toList.foldlM (fun acc c => (hexDigit? c).map (acc * 16 + ·)) 0

/-- a code point of a Python `str`; lone surrogates (not Unicode scalar values, so not a Lean `Char`) are read as
U+FFFD — like them non-ASCII, which is all either validator can observe -/
def toChar (n : Nat) : Char := if h : n.isValidChar then Char.ofNatAux n h else '�'

def b (x : Bool) : String := if x then "1" else "0"

def chars? (cps : List String) : Option (List Char) := (cps.mapM hex?).map (·.map toChar)

/-- `s <hex code point>*` ↦ `u=<0|1> s=<0|1>`;  `none` ↦ `s=<0|1>` (secret name `None`);
`flow <dev 0|1> <sa 0|1> <login n|e|v> <hex>* | none` / `… | s <hex>*` ↦ `inserted` / `refused` -/
def handle (line : String) : String :=
  match words line with
  | "flow" :: dev :: sa :: login :: rest =>
    let flag? (t : String) : Option Bool := if t == "1" then some true else if t == "0" then some false else none
    let login? : Option LoginId :=
      if login == "n" then some .none else if login == "e" then some .empty else if login == "v" then some .value else none
    let u := rest.takeWhile (· ≠ "|")
    let sec : Option (Option (List Char)) :=
      match rest.dropWhile (· ≠ "|") with
      | ["|", "none"] => some none
      | "|" :: "s" :: cps => (chars? cps).map some
      | _ => none
    match chars? u, sec, flag? dev, flag? sa, login? with
    | some u, some sec, some dev, some sa, some l => if insertReachedFor u l dev sa sec then "inserted" else "refused"
    | _, _, _, _, _ => "bad-op"
  | ["none"] => s!"s={b (validSecretNameInput none)}"
  | "s" :: cps =>
    match cps.mapM hex? with
    | some ns =>
      let cs := ns.map toChar
      s!"u={b (validUsername cs)} s={b (validSecretNameInput (some cs))}"
    | none => "bad-op"
  | _ => "bad-op"

def main : IO Unit := mapLines handle

import HailVerif.Model.Combiner
import HailVerif.Model.DriverUtil
open HailVerif HailVerif.DriverUtil HailVerif.Combiner

structure St where
  plan : Option Plan
  anomalies : List (Nat × Nat)

def showDS (d : DS) : String := joinWith "+" (d.leaves.map toString) ++ "/" ++ toString d.n

def insertKey (k : Nat) : List Nat → List Nat
  | [] => [k]
  | x :: t => if k < x then k :: x :: t else if k = x then x :: t else x :: insertKey k t

def dump (s : Plan) : String :=
  let keys := s.vdses.foldl (fun acc p => insertKey p.1 acc) []
  let bins := keys.map fun k =>
    toString k ++ ":" ++ joinWith "|" ((s.vdses.filter (·.1 == k)).map fun p => showDS p.2)
  "g=" ++ joinWith "," (s.gvcfs.map toString)
    ++ " n=" ++ (match s.names with | none => "-" | some ns => joinWith "," (ns.map toString))
    ++ " b=" ++ joinWith ";" bins
    ++ " f=" ++ joinWith "|" (s.finals.map showDS)
    ++ (if finished s then " done" else "")

def showIv (i : Iv) : String :=
  s!"{i.startContig}:{i.startPos}-{i.endContig}:{i.endPos}{if i.includesStart then "[" else "("}{if i.includesEnd then "]" else ")"}"

def ivsOf : List Nat → List Iv
  | a :: b :: c :: d :: e :: f :: t => ⟨a, b, c, d, e == 1, f == 1⟩ :: ivsOf t
  | _ => []

def pairs : List Nat → List (Nat × Nat)
  | a :: b :: t => (a, b) :: pairs t
  | _ => []

/-- lines
* `part <L> <size>` → `s-e,s-e,…` of `calc_parts` for a contig of length `L`, or `err`
* `init <bf> <batch> <hasNames 0|1> G <gvcf id>* V (<id> <n_samples>)* F (<n> <floor(log(n, bf)) as computed by Python>)*`
  → dump of the constructed plan, or `err` (ValueError)
* `setbatch <len(import intervals)> <value>` → dump after `combiner.gvcf_batch_size = value`, plus ` batch=<effective>`
* `step` / `reload` → dump after `step()` / after `save()`; `load()`
* `ivrt (<startContig> <startPos> <endContig> <endPos> <includesStart> <includesEnd>)*` → the import intervals after
  `save()`; `load()`, as `c:p-c:p` followed by `[`/`(` and `]`/`)` -/
def stepLine (st : St) (line : String) : St × String :=
  match words line with
  | ["part", l, sz] =>
    match l.toNat?, sz.toNat? with
    | some l, some sz =>
      (st, match evenPartition l sz with
        | none => "err"
        | some ivs => joinWith "," (ivs.map fun p => toString p.1 ++ "-" ++ toString p.2))
    | _, _ => (st, "bad-op")
  | "init" :: bf :: batch :: hn :: "G" :: rest =>
    let gs := rest.takeWhile (· ≠ "V")
    let rest := (rest.dropWhile (· ≠ "V")).drop 1
    let vs := rest.takeWhile (· ≠ "F")
    let fs := (rest.dropWhile (· ≠ "F")).drop 1
    match bf.toNat?, batch.toNat?, nats? gs, nats? vs, nats? fs with
    | some bf, some batch, some gs, some vs, some fs =>
      let anomalies := pairs fs
      let flog := flogWith anomalies bf
      let vd := (pairs vs).map fun p => DS.mk [p.1] p.2
      let names := if hn == "1" then some gs else none
      match mkPlan flog gs names vd bf batch with
      | some p => ({ plan := some p, anomalies }, dump p)
      | none => ({ plan := none, anomalies }, "err")
    | _, _, _, _, _ => (st, "bad-op")
  | "ivrt" :: rest =>
    match nats? rest with
    | some ns => (st, joinWith "," ((reloadIntervals (ivsOf ns)).map showIv))
    | none => (st, "bad-op")
  | ["setbatch", nIv, v] =>
    match st.plan, nIv.toNat?, v.toNat? with
    | some p, some nIv, some v => let p' := setBatch nIv v p; ({ st with plan := some p' }, dump p' ++ s!" batch={p'.batch}")
    | _, _, _ => (st, "err")
  | ["step"] =>
    match st.plan with
    | some p => let p' := step (flogWith st.anomalies p.bf) p; ({ st with plan := some p' }, dump p')
    | none => (st, "err")
  | ["reload"] =>
    match st.plan with
    | some p => let p' := reload (flogWith st.anomalies p.bf) p; ({ st with plan := some p' }, dump p')
    | none => (st, "err")
  | _ => (st, "bad-op")

def main : IO Unit := foldLines { plan := none, anomalies := [] } stepLine

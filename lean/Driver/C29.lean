import HailVerif.Model.NextUrl
import HailVerif.Model.DriverUtil
open HailVerif HailVerif.DriverUtil HailVerif.NextUrl

/-- strings travel as comma-separated decimal code points; `e` = empty string -/
def decStr (t : String) : Option Str :=
  if t == "e" then some [] else (t.splitOn ",").mapM fun w => w.toNat?.map Char.ofNat

def encStr (s : Str) : String := if s.isEmpty then "e" else joinWith "," (s.map fun c => toString c.toNat)

def showNetloc : PyNetloc → String
  | .ok n => "ok:" ++ encStr n
  | .exotic => "exotic"

def showVerdict : Verdict → String
  | .accept => "accept"
  | .deny => "deny"
  | .unmodelled => "unmodelled"

def showDest : Dest → String
  | .host sch h none => s!"host:{encStr sch}:{encStr h}:default"
  | .host sch h (some p) => s!"host:{encStr sch}:{encStr h}:{p}"
  | .blocked sch => s!"blocked:{encStr sch}"
  | .failure => "failure"
  | .unmodelledHost raw => s!"unmodelled:{encStr raw}"

def showResp : Resp → String
  | .redirect .idp => "redirect:idp"
  | .redirect .authHome => "redirect:home"
  | .redirect .creatingPage => "redirect:creating"
  | .redirect .next => "redirect:next"
  | .badRequest => "400"
  | .unauthorized => "401"
  | .page => "page"
  | .serverError => "500"

def acctOf : String → Option Account
  | "none" => some .none | "creating" => some .creating | "active" => some .active | "inactive" => some .inactive
  | "deleting" => some .deleting | "deleted" => some .deleted | _ => none

def callerOf : String → Option Caller
  | "login" => some .login | "signup" => some .signup | _ => none

def flagOf : String → Option Bool
  | "1" => some true | "0" => some false | _ => none

/-- `flow <domain> <basePath | N> <next | N> entry` | `… cb <hasFlow> <caller> <account> <signupOk>` | `… cr <pending> <account>` -/
def handleFlow (d bp nx : String) (rest : List String) : String :=
  match decStr d, (if bp == "N" then some none else (decStr bp).map some), (if nx == "N" then some none else (decStr nx).map some) with
  | some d, some bp, some nx =>
    let cfg : DeployCfg := { domain := d, basePath := bp }
    -- `request.query.get('next', deploy_config.external_url('auth', '/user'))` / `session.pop('next', …)`
    let next := nx.getD (externalUrl cfg ['a', 'u', 't', 'h'] ['/', 'u', 's', 'e', 'r'])
    let ok := validate cfg next == .accept
    match rest with
    | ["entry"] => showResp (entryResp ok)
    | ["cb", hf, c, a, so] =>
      match flagOf hf, callerOf c, acctOf a, flagOf so with
      | some hf, some c, some a, some so => showResp (callbackResp hf c ok a so)
      | _, _, _, _ => "bad-op"
    | ["cr", pe, a] =>
      match flagOf pe, acctOf a with
      | some pe, some a => showResp (creatingResp pe ok a)
      | _, _ => "bad-op"
    | _ => "bad-op"
  | _, _, _ => "bad-op"

/-- line: `<domain> <basePath | N> <url>`; answer: `py=<netloc> verdict=<…> dest=<…>` (base host = host of the auth service) -/
def handle (line : String) : String :=
  match words line with
  | "flow" :: d :: bp :: nx :: rest => handleFlow d bp nx rest
  | [d, bp, u] =>
    match decStr d, (if bp == "N" then some none else (decStr bp).map some), decStr u with
    | some d, some bp, some u =>
      let cfg : DeployCfg := { domain := d, basePath := bp }
      let baseHost := match bp with
        | none => ['a', 'u', 't', 'h', '.'] ++ d
        | some _ => d
      s!"py={showNetloc (pyNetloc u)} verdict={showVerdict (validate cfg u)} dest={showDest (browserDest baseHost u)}"
    | _, _, _ => "bad-op"
  | _ => "bad-op"

def main : IO Unit := mapLines handle

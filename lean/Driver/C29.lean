import HailVerif.Model.NextUrl
import HailVerif.Model.DriverUtil
open HailVerif HailVerif.DriverUtil HailVerif.NextUrl

/-- strings travel as comma-separated decimal code points; `e` = empty string -/
def decStr (t : String) : Option Str :=
  if t == "e" then some [] else (t.splitOn ",").mapM fun w => w.toNat?.map Char.ofNat

def encStr (s : Str) : String := if s.isEmpty then "e" else joinWith "," (s.map fun c => toString c.toNat)

def showNetloc : PyNetloc → String
  | .ok n => "ok:" ++ encStr n
  | .exotic => "exotic"

def showVerdict : Verdict → String
  | .accept => "accept"
  | .deny => "deny"
  | .unmodelled => "unmodelled"

def showDest : Dest → String
  | .host sch h none => s!"host:{encStr sch}:{encStr h}:default"
  | .host sch h (some p) => s!"host:{encStr sch}:{encStr h}:{p}"
  | .blocked sch => s!"blocked:{encStr sch}"
  | .failure => "failure"
  | .unmodelledHost raw => s!"unmodelled:{encStr raw}"

/-- line: `<domain> <basePath | N> <url>`; answer: `py=<netloc> verdict=<…> dest=<…>` (base host = host of the auth service) -/
def handle (line : String) : String :=
  match words line with
  | [d, bp, u] =>
    match decStr d, (if bp == "N" then some none else (decStr bp).map some), decStr u with
    | some d, some bp, some u =>
      let cfg : DeployCfg := { domain := d, basePath := bp }
      let baseHost := match bp with
        | none => ['a', 'u', 't', 'h', '.'] ++ d
        | some _ => d
      s!"py={showNetloc (pyNetloc u)} verdict={showVerdict (validate cfg u)} dest={showDest (browserDest baseHost u)}"
    | _, _, _ => "bad-op"
  | _ => "bad-op"

def main : IO Unit := mapLines handle

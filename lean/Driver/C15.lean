import Lean.Data.Json
import HailVerif.Model.SpecFormat
import HailVerif.Model.DriverUtil
open HailVerif HailVerif.DriverUtil HailVerif.SpecFormat

/-- JSON text → `J` (integers only; the checks never send floats) -/
partial def ofJson : Lean.Json → Option J
  | .null => some .null
  | .bool b => some (.bool b)
  | .num n => if n.exponent = 0 then some (.int n.mantissa) else none
  | .str s => some (.str s)
  | .arr xs => (xs.toList.mapM ofJson).map .arr
  | .obj kvs => (kvs.toList.mapM fun (p : String × Lean.Json) => (ofJson p.2).map fun j => (p.1, j)).map .obj

def hexStr (s : String) : String :=
  ".".intercalate (s.toList.map fun c => String.ofList (Nat.toDigits 16 c.toNat))

/-- canonical text: `n`, `t`/`f`, decimal, `s:<hex code points>`, `[a,b]`, `{<hex key>=v,...}` with keys sorted -/
partial def canon : J → String
  | .null => "n"
  | .bool b => if b then "t" else "f"
  | .int n => toString n
  | .str s => "s:" ++ hexStr s
  | .arr xs => "[" ++ ",".intercalate (xs.map canon) ++ "]"
  | .obj kvs =>
    let sorted := (kvs.toArray.qsort fun a b => a.1 < b.1).toList
    "{" ++ ",".intercalate (sorted.map fun (k, v) => hexStr k ++ "=" ++ canon v) ++ "}"

def showJ (o : Option J) : String := match o with | some j => canon j | none => "err"
def showB (o : Option Bool) : String := match o with | some true => "t" | some false => "f" | none => "err"

/-- `spec <v> <json>` ↦ `db=… secrets=… sa=… in=… out=… ms=…` (getters applied to `db_spec(spec)`; `err` = raises)
    `bits <json [[region,idx],…]> <json [region,…]>` ↦ `bits=<n> regions=<list>`;  `bitsnone <mapping>` ↦ `regions=n` -/
def handle (line : String) : String :=
  match words line with
  | ["spec", v, js] =>
    match v.toNat?, (Lean.Json.parse js).toOption.bind ofJson with
    | some v, some spec =>
      let db := dbSpec v spec
      s!"db={showJ db} secrets={showJ (db.bind (getSecrets v))} sa={showJ (db.bind (getServiceAccount v))} in={showB (db.bind (getHasInputFiles v))} out={showB (db.bind (getHasOutputFiles v))} ms={showJ (db.bind (getMachineSpec v))}"
    | _, _ => "bad-op"
  | ["bunch", mjs, jjs] =>
    -- `bunch <json [[region,idx],…]> <json [[region,…]|null, …]>` ↦ `rejected` | one `n_regions/bits/decoded` per job, `;`-joined
    match (Lean.Json.parse mjs).toOption.bind ofJson, (Lean.Json.parse jjs).toOption.bind ofJson with
    | some (.arr ms), some (.arr js) =>
      let mapping := ms.filterMap fun
        | .arr [.str r, .int i] => if i ≥ 0 then some (r, i.toNat) else none
        | _ => none
      let jobs : List (Option (Option (List String))) := js.map fun
        | .null => some none
        | .arr rs => (rs.mapM fun (x : J) => match x with | J.str r => some r | _ => none).map some
        | _ => none
      match jobs.mapM id with
      | none => "bad-op"
      | some jobs =>
        if mapping.length ≠ ms.length then "bad-op"
        else
          match bunchRegions mapping jobs with
          | none => "rejected"
          | some rows =>
            let o (x : Option Nat) : String := match x with | some n => toString n | none => "-"
            joinWith ";" (rows.map fun (n, b) =>
              let dec := match bitsToRegionsOpt b mapping with
                | some none => "n"
                | some (some rs) => canon (.arr (rs.map .str))
                | none => "err"
              s!"{o n}/{o b}/{dec}")
    | _, _ => "bad-op"
  | ["bitsnone", mjs] =>
    match (Lean.Json.parse mjs).toOption.bind ofJson with
    | some (.arr ms) =>
      let mapping := ms.filterMap fun
        | .arr [.str r, .int i] => if i ≥ 0 then some (r, i.toNat) else none
        | _ => none
      match bitsToRegionsOpt none mapping with
      | some none => "regions=n"
      | some (some rs) => s!"regions={canon (.arr (rs.map .str))}"
      | none => "regions=err"
    | _ => "bad-op"
  | ["bits", mjs, sjs] =>
    match (Lean.Json.parse mjs).toOption.bind ofJson, (Lean.Json.parse sjs).toOption.bind ofJson with
    | some (.arr ms), some (.arr ss) =>
      let mapping := ms.filterMap fun
        | .arr [.str r, .int i] => if i ≥ 0 then some (r, i.toNat) else none
        | _ => none
      let sel := ss.filterMap fun | .str r => some r | _ => none
      if mapping.length ≠ ms.length ∨ sel.length ≠ ss.length then "bad-op"
      else
        match regionsToBits sel mapping with
        | none => "bits=err"
        | some b =>
          match bitsToRegions b mapping with
          | none => s!"bits={b} regions=err"
          | some rs => s!"bits={b} regions={canon (.arr (rs.map .str))}"
    | _, _ => "bad-op"
  | _ => "bad-op"

def main : IO Unit := mapLines handle

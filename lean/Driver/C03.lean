import HailVerif.Generated.AttemptsTrigger
import HailVerif.Model.DriverUtil
open HailVerif HailVerif.DriverUtil HailVerif.Generated.AttemptsTrigger

def optI (s : String) : Option (Option Int) := if s == "N" then some none else s.toInt?.map some
def optS (s : String) : Option String := if s == "N" then none else some s
def showI : Option Int → String | none => "N" | some x => toString x
def showS : Option String → String | none => "N" | some x => x

/-- `upd os oro oe ors ns nro ne nrs` → accepted row `s ro e reason` -/
def handle (line : String) : String :=
  match words line with
  | ["upd", a, b, c, d, e, f, g, h] =>
    match optI a, optI b, optI c, optI e, optI f, optI g with
    | some a, some b, some c, some e, some f, some g =>
      let r := attemptsBeforeUpdate ⟨a, b, c, optS d⟩ ⟨e, f, g, optS h⟩
      s!"{showI r.start_time} {showI r.rollup_time} {showI r.end_time} {showS r.reason}"
    | _, _, _, _, _, _ => "bad-op"
  | _ => "bad-op"

def main : IO Unit := mapLines handle

import HailVerif.Generated.AttemptsTrigger
import HailVerif.Model.AttemptBilling
import HailVerif.Model.DriverUtil
open HailVerif HailVerif.DriverUtil HailVerif.Generated.AttemptsTrigger HailVerif.AttemptBilling

def optI (s : String) : Option (Option Int) := if s == "N" then some none else s.toInt?.map some
def optS (s : String) : Option String := if s == "N" then none else some s
def showI : Option Int → String | none => "N" | some x => toString x
def showS : Option String → String | none => "N" | some x => x

def showUsage (rs : List Res) : String := joinWith "," (rs.map fun r => toString r.usage)

/-- `upd os oro oe ors ns nro ne nrs` → accepted row `s ro e reason`
`bill os oro oe ors ns nro ne nrs q…` → `ins=u,… upd=u,…`: resources of the given quantities are registered while the stored row is
   `old` (attempt_resources_after_insert), then the report `new` arrives (before + after update triggers); usage per resource
`delta os oro as aro q…` → amount attempts_after_update adds per resource when the stored row goes from (os, oro) to the accepted (as, aro)
`ins s ro q…` → amount attempt_resources_after_insert bills per resource for an attempt whose stored times are (s, ro) -/
def handle (line : String) : String :=
  match words line with
  | "bill" :: a :: b :: c :: d :: e :: f :: g :: h :: qs =>
    match optI a, optI b, optI c, optI e, optI f, optI g, qs.mapM String.toInt? with
    | some a, some b, some c, some e, some f, some g, some qs =>
      let a0 := run ⟨⟨a, b, c, optS d⟩, []⟩ (qs.map .addResource)
      let a1 := a0.step (.report ⟨e, f, g, optS h⟩)
      s!"ins={showUsage a0.res} upd={showUsage a1.res}"
    | _, _, _, _, _, _, _ => "bad-op"
  | "delta" :: a :: b :: c :: d :: qs =>
    match optI a, optI b, optI c, optI d, qs.mapM String.toInt? with
    | some a, some b, some c, some d, some qs => joinWith "," (qs.map fun q => toString (added q (msecDiffRollup a b c d)))
    | _, _, _, _, _ => "bad-op"
  | "ins" :: a :: b :: qs =>
    match optI a, optI b, qs.mapM String.toInt? with
    | some a, some b, some qs => joinWith "," (qs.map fun q => toString (added q (billedAtInsert a b)))
    | _, _, _ => "bad-op"
  | ["upd", a, b, c, d, e, f, g, h] =>
    match optI a, optI b, optI c, optI e, optI f, optI g with
    | some a, some b, some c, some e, some f, some g =>
      let r := attemptsBeforeUpdate ⟨a, b, c, optS d⟩ ⟨e, f, g, optS h⟩
      s!"{showI r.start_time} {showI r.rollup_time} {showI r.end_time} {showS r.reason}"
    | _, _, _, _, _, _ => "bad-op"
  | _ => "bad-op"

def main : IO Unit := mapLines handle

import HailVerif.Model.CallPack
import HailVerif.Model.DriverUtil
open HailVerif HailVerif.DriverUtil HailVerif.CallPack

def showCall (c : Call) : String :=
  joinWith " " ((if c.phased then "1" else "0") :: c.alleles.map toString)

/-- lines
* `enc <phased 0|1> <allele>*` → the int32 `_convert_to_encoding` writes for `Call(alleles, phased)`, or `err`
* `dec <int32>`               → `<phased> <allele>*` of `_convert_from_encoding`, or `err`
* `gt <phased 0|1> <allele>*`  → `Call(alleles, phased).unphased_diploid_gt_index()`, or `err`
* `sqrt <i>`                  → `j k` of `allele_pair_sqrt(i)`, or `err`
* `json <phased 0|1> <allele>*` → `<phased> <allele>*` of `_convert_from_json(_convert_to_json(Call(alleles, phased)))`
  (the JSON text is `str(call)`; the model of that round trip is the identity on the constructed call), or `err` -/
def handle (line : String) : String :=
  match words line with
  | "enc" :: ph :: rest =>
    match nats? rest with
    | some al =>
      match (mkCall al (ph == "1")).bind encodeCall with
      | some v => toString v
      | none => "err"
    | none => "bad-op"
  | ["dec", v] =>
    match v.toInt? with
    | some v => match decodeCall v with
      | some c => showCall c
      | none => "err"
    | none => "bad-op"
  | "gt" :: ph :: rest =>
    match nats? rest with
    | some al =>
      match (mkCall al (ph == "1")).bind unphasedDiploidGtIndex with
      | some v => toString v
      | none => "err"
    | none => "bad-op"
  | "json" :: ph :: rest =>
    match nats? rest with
    | some al =>
      match mkCall al (ph == "1") with
      | some c => showCall c
      | none => "err"
    | none => "bad-op"
  | ["sqrt", i] =>
    match i.toNat? with
    | some i => match allelePairSqrt i with
      | some p => s!"{apJ p} {apK p}"
      | none => "err"
    | none => "bad-op"
  | _ => "bad-op"

def main : IO Unit := mapLines handle

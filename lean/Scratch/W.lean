import HailVerif.Proofs.BatchDBCancel
open HailVerif.BatchDB

def W1 : List Op :=
  [.createBatch 7 1 100, .createUpdate 1 200 2 0 7,
   .insertJobs 1 1 7 [⟨1, [], [], some 0, 0, false, 1000, 0⟩, ⟨2, [], [], some 0, 0, false, 1000, 0⟩],
   .commitUpdate 1 1, .createUpdate 1 201 1 0 7,
   .insertJobs 1 2 7 [⟨1, [1], [], some 0, 0, false, 500, 0⟩],
   .complete 1 1 none none .Success none none "done" 0]
#eval (run W1).jobs.map fun j => (j.id, j.update, j.state, j.cancelled)
#eval (run W1).updates.map fun u => (u.id, u.committed, u.startJob, u.nJobs)
#eval get (run W1).ctr (.uReady 7 0)
#eval get (run W1).ctr (.uReadyCores 7 0)

def W2 : List Op :=
  [.createBatch 7 1 100, .createUpdate 1 200 1 0 7,
   .insertJobs 1 1 7 [⟨1, [], [], some 0, 0, false, 1000, 0⟩],
   .cancelGroup 1 0, .commitUpdate 1 1]
#eval (run W2).jobs.map fun j => (j.id, j.update, j.state, j.cancelled, jobCancelled (run W2) j)
#eval (run W2).updates.map fun u => (u.id, u.committed, u.startJob, u.nJobs)
#eval (get (run W2).ctr (.uReady 7 0), get (run W2).ctr (.uCancReady 7 0), get (run W2).ctr (.cReady 1 1 0 0))
#eval (step (run (W2.take 4)) (.commitUpdate 1 1)).2
#eval (step (run (W2.take 3)) (.cancelGroup 1 0)).2

/-!
# Model of the Python front end's genotype-call packing (C34)

Models, definition by definition,
* `hail/python/hail/genetics/call.py` — `Call.__init__`, `Call.unphased_diploid_gt_index`
* `hail/python/hail/expr/types.py` — `allele_pair`, `allele_pair_sqrt`, `small_allele_pair`,
  `_tcall._convert_to_encoding`, `_tcall._convert_from_encoding`
* `hail/python/hail/utils/byte_reader.py` — `ByteWriter.write_int32` (`struct.pack('=i', v)`)

Python `int`s are unbounded: non-negative ones are `Nat` here (bit operations `|||`, `<<<`, `>>>`,
`&&&` of core Lean), the signed value handed to `write_int32` is an `Int`.  Every `assert`,
`ValueError`, `NotImplementedError`, `struct.error` of the real code is the outcome `none`.

The only inexact step of the real code is `int(math.sqrt(8 * float(i) + 1) / 2 - 0.5)`; the model
uses the exact value `(Nat.sqrt (8 * i + 1) - 1) / 2` (`triRoot`).  Agreement of the IEEE-754
expression with the exact one is an assumption, checked by the correspondence run on every
triangular-number boundary below `2^29`.
-/
namespace HailVerif.CallPack

/-- `hail.genetics.Call` after `__init__`: `_alleles`, `_phased`. -/
structure Call where
  alleles : List Nat
  phased : Bool
deriving DecidableEq, Repr

/-- `Call.__init__(alleles, phased)`: more than two alleles raise `NotImplementedError`; an unphased
diploid call stores its alleles sorted. -/
def mkCall (alleles : List Nat) (phased : Bool) : Option Call :=
  if alleles.length > 2 then none
  else match alleles, phased with
    | [a0, a1], false => some ⟨if a1 < a0 then [a1, a0] else [a0, a1], false⟩
    | _, _ => some ⟨alleles, phased⟩

/-- VCF genotype index of the unordered pair `j ≤ k`: `k * (k + 1) // 2 + j`. -/
def gtIndex (j k : Nat) : Nat := k * (k + 1) / 2 + j

/-- `Call.unphased_diploid_gt_index`: `FatalError` unless unphased diploid; `assert a0 <= a1`.
(The real method computes `a1 * (a1 + 1) / 2 + a0` with true division, i.e. returns a `float` that is
numerically this integer; the correspondence compares numerically.) -/
def unphasedDiploidGtIndex (c : Call) : Option Nat :=
  match c.alleles, c.phased with
  | [a0, a1], false => if a0 ≤ a1 then some (gtIndex a0 a1) else none
  | _, _ => none

/-! ## `_tcall._convert_to_encoding` -/

/-- local `diploid_gt_index(j, k)`: `assert j <= k`. -/
def diploidGtIndex (j k : Nat) : Option Nat := if j ≤ k then some (gtIndex j k) else none

/-- local `allele_pair_rep(c)`: `[j, k] = c.alleles` (ValueError otherwise); phased calls are stored as
the pair `(j, j + k)`. -/
def allelePairRep (c : Call) : Option Nat :=
  match c.alleles with
  | [j, k] => if c.phased then diploidGtIndex j (j + k) else diploidGtIndex j k
  | _ => none

/-- `int_rep = 0; int_rep |= value.ploidy << 1; if value.phased: int_rep |= 1` -/
def tagBits (ploidy : Nat) (phased : Bool) : Nat :=
  let r := 0 ||| (ploidy <<< 1)
  if phased then r ||| 1 else r

/-- `int_rep` just before the signed wrap (a non-negative unbounded Python int). -/
def encodeRaw (c : Call) : Option Nat :=
  let ploidy := c.alleles.length
  let r := tagBits ploidy c.phased
  if ploidy ≤ 2 then        -- `assert value.ploidy <= 2`
    match c.alleles with
    | [a] => some (r ||| (a <<< 3))
    | [_, _] => (allelePairRep c).map fun p => r ||| (p <<< 3)
    | _ => some r
  else none

/-- `int_rep if 0 <= int_rep < 2**31 - 1 else int_rep - 2**32` (the bound really is `2**31 - 1`). -/
def wrapInt32 (r : Nat) : Int := if r < 2 ^ 31 - 1 then (r : Int) else (r : Int) - 2 ^ 32

/-- `ByteWriter.write_int32`: `struct.pack('=i', v)` raises `struct.error` outside the int32 range. -/
def writeInt32 (v : Int) : Option Int := if -(2 ^ 31) ≤ v ∧ v < 2 ^ 31 then some v else none

/-- `_tcall._convert_to_encoding`: the int32 written for `c`, or `none` when the real code raises. -/
def encodeCall (c : Call) : Option Int := (encodeRaw c).bind fun r => writeInt32 (wrapInt32 r)

/-! ## `_tcall._convert_from_encoding` -/

/-- `allele_pair(j, k)`: both components are asserted to fit 16 bits. -/
def allelePairPack (j k : Nat) : Option Nat :=
  if j ≤ 0xFFFF ∧ k ≤ 0xFFFF then some (j ||| (k <<< 16)) else none

def apJ (p : Nat) : Nat := p &&& 0xFFFF
def apK (p : Nat) : Nat := (p >>> 16) &&& 0xFFFF

/-- exact value of `int(math.sqrt(8 * float(i) + 1) / 2 - 0.5)` -/
def triRoot (i : Nat) : Nat := (Nat.sqrt (8 * i + 1) - 1) / 2

/-- `allele_pair_sqrt(i)`: `assert k * (k + 1) // 2 <= i`. -/
def allelePairSqrt (i : Nat) : Option Nat :=
  let k := triRoot i
  if k * (k + 1) / 2 ≤ i then allelePairPack (i - k * (k + 1) / 2) k else none

/-- unchecked `j | k << 16`, used only to write the literal table below -/
def ap (j k : Nat) : Nat := j ||| (k <<< 16)

/-- `small_allele_pair` (36 entries, as listed in types.py) -/
def smallAllelePair : List Nat :=
  [ap 0 0, ap 0 1, ap 1 1, ap 0 2, ap 1 2, ap 2 2, ap 0 3, ap 1 3, ap 2 3, ap 3 3,
   ap 0 4, ap 1 4, ap 2 4, ap 3 4, ap 4 4, ap 0 5, ap 1 5, ap 2 5, ap 3 5, ap 4 5, ap 5 5,
   ap 0 6, ap 1 6, ap 2 6, ap 3 6, ap 4 6, ap 5 6, ap 6 6,
   ap 0 7, ap 1 7, ap 2 7, ap 3 7, ap 4 7, ap 5 7, ap 6 7, ap 7 7]

/-- local `gt_allele_pair(i)` (`i >= 0` holds for every `Nat`) -/
def gtAllelePair (i : Nat) : Option Nat :=
  if i < smallAllelePair.length then smallAllelePair[i]? else allelePairSqrt i

/-- local `call_allele_pair(int_rep)`; `k - j` on Python ints may be negative, in which case
`allele_pair` fails its assertion. -/
def callAllelePair (rep : Nat) (phased : Bool) : Option Nat :=
  if phased then
    (gtAllelePair (rep >>> 3)).bind fun p =>
      let j := apJ p
      let k := apK p
      if k < j then none else allelePairPack j (k - j)
  else gtAllelePair (rep >>> 3)

/-- `_tcall._convert_from_encoding` applied to the int32 `v` returned by `read_int32`. -/
def decodeCall (v : Int) : Option Call :=
  let rep : Nat := (if v ≥ 0 then v else v + 2 ^ 32).toNat
  let ploidy := (rep >>> 1) &&& 0x3
  let phased := (rep &&& 1) == 1
  if ploidy = 0 then mkCall [] phased
  else if ploidy = 1 then mkCall [rep >>> 3] phased
  else if ploidy = 2 then
    (callAllelePair rep phased).bind fun p => mkCall [apJ p, apK p] phased
  else none   -- `ValueError("Unsupported Ploidy")`

/-! ## The calls the property quantifies over -/

/-- A (normalised) call is in range when its allele representation is below the engine's limit `2^29`
(`Call.scala`: `if ((ar >>> 29) != 0) fatal(...)`). -/
def InRange (c : Call) : Prop :=
  match c.alleles, c.phased with
  | [], _ => True
  | [a], _ => a < 2 ^ 29
  | [j, k], false => j ≤ k ∧ gtIndex j k < 2 ^ 29
  | [j, k], true => gtIndex j (j + k) < 2 ^ 29
  | _, _ => False

instance (c : Call) : Decidable (InRange c) := by
  unfold InRange; split <;> infer_instance

/-- allele pair of a genotype index as a pair of naturals (exact arithmetic) -/
def allelePair (i : Nat) : Nat × Nat := (i - triRoot i * (triRoot i + 1) / 2, triRoot i)

end HailVerif.CallPack

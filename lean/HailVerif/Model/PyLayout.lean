/-!
# The layout table of Python-encoded values (property C33)

`EType.fromPythonTypeEncoding` (`/repo/hail/hail/src/is/hail/types/encoded/EType.scala`) tells the engine how to read the bytes
`HailType._convert_to_encoding` writes: which `EType` constructor per type and which parts are *required* (a required
element / field has no missing bit).  `Generated/PyEType.lean` holds the table extracted from the Scala text on every run;
`modelLayout` is the table the model `Model/ValueEnc.lean` was written to; `C33.layout_matches_table` says they are the same.
-/
namespace HailVerif.PyLayout

/-- the cases of the Scala `match`, in the order they are tried -/
inductive TCase where
  | TInt32 | TInt64 | TFloat32 | TFloat64 | TBoolean | TBinary | TString | TLocus | TCall | TInterval | TDict | TSet
  | TIterable | TBaseStruct | TNDArray
deriving DecidableEq, Repr

inductive ECtor where
  | EInt32 | EInt64 | EFloat32 | EFloat64 | EBoolean | EBinary | EBaseStruct | EDictAsUnsortedArrayOfPairs | EUnsortedSet
  | EArray | ENDArrayColumnMajor
deriving DecidableEq, Repr

/-- the encoding of a field: a fixed constructor, or the recursive call on a component of the type -/
inductive FieldKind where
  | ctor (c : ECtor)
  | recur
deriving DecidableEq, Repr

structure FieldRow where
  name : List Nat            -- code points
  kind : FieldKind
  required : Bool
deriving DecidableEq, Repr

inductive Fields where
  | none                                   -- not a struct
  | fixed (fs : List FieldRow)             -- `ArraySeq(EField(…), …)`
  | ownFields                              -- `ArraySeq.tabulate(t.size)`: the type's own fields, each by the recursive call
deriving DecidableEq, Repr

structure Row where
  tcase : TCase
  ctor : ECtor
  required : Bool
  elemRequired : Option Bool               -- containers: is `.setRequired(true)` applied to the element encoding?
  fields : Fields
  ndims : Bool                             -- takes `t.nDims`
deriving DecidableEq, Repr

/-- the layout the model encodes to (each row is the clause of `ValueEnc.encode` / `decode` it describes):
* primitives: fixed width / length-prefixed bytes, nothing required at top level (`false`);
* `TString` ↦ `EBinary`: `writeStr` — int32 byte length + UTF-8;
* `TLocus` ↦ struct `(contig: EBinary, position: EInt32)`, both nullable: one missing-bit byte (`0 :: …`);
* `TCall` ↦ `EInt32`: `callEnc`;
* `TInterval` ↦ struct `(start, end, includesStart, includesEnd)`, all nullable: one missing-bit byte;
* `TDict` ↦ array of REQUIRED `(key, value)` structs: int32 length and the entries, no missing bits for the entries;
* `TSet`, `TIterable` ↦ array of NULLABLE elements: int32 length, ⌈len/8⌉ missing-bit bytes, present elements;
* `TBaseStruct` (struct, tuple) ↦ the type's own fields, nullable: ⌈n/8⌉ missing-bit bytes, present fields;
* `TNDArray` ↦ column-major, REQUIRED elements: int64 dimensions, elements without missing bits.
`TBinary` has no Python type; its row is kept so that the tables can be compared as a whole. -/
def modelLayout : List Row := [
  ⟨.TInt32, .EInt32, false, none, .none, false⟩,
  ⟨.TInt64, .EInt64, false, none, .none, false⟩,
  ⟨.TFloat32, .EFloat32, false, none, .none, false⟩,
  ⟨.TFloat64, .EFloat64, false, none, .none, false⟩,
  ⟨.TBoolean, .EBoolean, false, none, .none, false⟩,
  ⟨.TBinary, .EBinary, false, none, .none, false⟩,
  ⟨.TString, .EBinary, false, none, .none, false⟩,
  ⟨.TLocus, .EBaseStruct, false, none,
    Fields.fixed [FieldRow.mk [99, 111, 110, 116, 105, 103] (.ctor .EBinary) false,                     -- "contig"
            FieldRow.mk [112, 111, 115, 105, 116, 105, 111, 110] (.ctor .EInt32) false], false⟩,   -- "position"
  ⟨.TCall, .EInt32, false, none, .none, false⟩,
  ⟨.TInterval, .EBaseStruct, false, none,
    Fields.fixed [FieldRow.mk [115, 116, 97, 114, 116] .recur false,                                                     -- "start"
            FieldRow.mk [101, 110, 100] .recur false,                                                               -- "end"
            FieldRow.mk [105, 110, 99, 108, 117, 100, 101, 115, 83, 116, 97, 114, 116] (.ctor .EBoolean) false,     -- "includesStart"
            FieldRow.mk [105, 110, 99, 108, 117, 100, 101, 115, 69, 110, 100] (.ctor .EBoolean) false], false⟩,     -- "includesEnd"
  ⟨.TDict, .EDictAsUnsortedArrayOfPairs, false, some true, .none, false⟩,
  ⟨.TSet, .EUnsortedSet, false, some false, .none, false⟩,
  ⟨.TIterable, .EArray, false, some false, .none, false⟩,
  ⟨.TBaseStruct, .EBaseStruct, false, none, .ownFields, false⟩,
  ⟨.TNDArray, .ENDArrayColumnMajor, false, some true, .none, true⟩]

end HailVerif.PyLayout

import HailVerif.Model.TableType
/-!
# MatrixTable types as transformed by the MatrixTable API (property C36, matrix-table half)

Python side: `hail/matrixtable.py` (`annotate_rows/cols/entries/globals`, `select_rows/cols/entries`, `drop`, `key_cols_by`,
`key_rows_by`, `filter_*`, `rename`, `union_cols`, `rows()`, `cols()`, `entries()`) and `hail/ir/matrix_ir.py`, `hail/ir/table_ir.py`
(`MatrixMapRows`, `MatrixMapCols`, `MatrixMapEntries`, `MatrixMapGlobals`, `MatrixKeyRowsBy`, `MatrixFilter*`, `MatrixUnionCols`,
`MatrixRowsTable`, `MatrixColsTable`, `MatrixEntriesTable`).  Engine side (text only, nothing Scala is run): the `typ` of the
same nodes in `hail/hail/src/is/hail/expr/ir/MatrixIR.scala` and `types/virtual/MatrixType.scala`:
* `MatrixMapCols(child, newCol, newKey)`: `colKey = newKey.getOrElse(child.typ.colKey)` — an EMPTY new key is a key;
* `MatrixKeyRowsBy`: `rowKey = keys`, the row type is unchanged;
* `MatrixUnionCols`: row type = left key fields ++ left value fields ++ right value fields;
* `rowsTableType = (rowType, rowKey)`, `colsTableType = (colType, colKey)`,
  `entriesTableType = (rowType ++ colType ++ entryType, rowKey ++ colKey)`.
`none` = the front end refuses the call.
-/
namespace HailVerif.MatrixType
open HailVerif.ExprIR (HType)
open HailVerif.TableType

structure MType where
  globals : FieldList
  col : FieldList
  colKey : List String
  row : FieldList
  rowKey : List String
  entry : FieldList
  deriving DecidableEq

/-- all field names share one namespace -/
def allNames (m : MType) : List String := names m.globals ++ names m.col ++ names m.row ++ names m.entry

/-- `hl.utils.range_matrix_table(n_rows, n_cols)` -/
def range : MType := ⟨[], [("col_idx", .int32)], ["col_idx"], [("row_idx", .int32)], ["row_idx"], []⟩

inductive Axis where
  | globals | cols | rows | entries
  deriving DecidableEq

def fieldsOf (m : MType) : Axis → FieldList
  | .globals => m.globals | .cols => m.col | .rows => m.row | .entries => m.entry

def keyOf (m : MType) : Axis → List String
  | .cols => m.colKey | .rows => m.rowKey | _ => []

def withFields (m : MType) (a : Axis) (fs : FieldList) : MType :=
  match a with
  | .globals => { m with globals := fs } | .cols => { m with col := fs } | .rows => { m with row := fs }
  | .entries => { m with entry := fs }

/-- the names of the other three axes -/
def otherNames (m : MType) (a : Axis) : List String :=
  ([Axis.globals, .cols, .rows, .entries].filter (· != a)).flatMap fun b => names (fieldsOf m b)

/-- `annotate_rows / annotate_cols / annotate_entries / annotate_globals(**named)`: `InsertFields` on that axis; a key field of
the axis cannot be assigned, a name of another axis cannot be reused -/
def annotate (m : MType) (a : Axis) (named : FieldList) : Option MType :=
  if (names named).any (fun n => (keyOf m a).contains n || (otherNames m a).contains n) then none
  else some (withFields m a (insertFields (fieldsOf m a) named))

/-- `select_rows / select_cols / select_entries / select_globals(*fields, **named)`: the key fields of the axis (in key order),
the selected fields, the new fields -/
def select (m : MType) (a : Axis) (keep : List String) (named : FieldList) : Option MType :=
  let key := keyOf m a
  let fs := fieldsOf m a
  if keep.any (fun n => key.contains n || (lookupF fs n).isNone) then none
  else if (names named).any (fun n => key.contains n || keep.contains n || (otherNames m a).contains n) then none
  else
    let keyFs := key.filterMap (fun k => (lookupF fs k).map (fun ty => (k, ty)))
    let kept := keep.filterMap (fun n => (lookupF fs n).map (fun ty => (n, ty)))
    some (withFields m a (keyFs ++ kept ++ named))

/-- `drop(*fields)`: non-key fields of any axis -/
def drop (m : MType) (fields : List String) : Option MType :=
  if fields.any (fun n => m.colKey.contains n || m.rowKey.contains n || !(allNames m).contains n) then none
  else
    let f := fun (fs : FieldList) => fs.filter (fun p => !fields.contains p.1)
    some { m with globals := f m.globals, col := f m.col, row := f m.row, entry := f m.entry }

/-- `key_cols_by(*fields)` (existing column fields; possibly none): `MatrixMapCols(child, col, new_key = fields)` -/
def keyColsBy (m : MType) (fields : List String) : Option MType :=
  if fields.any (fun n => (lookupF m.col n).isNone) then none else some { m with colKey := fields }

/-- `key_rows_by(*fields)`: `MatrixKeyRowsBy` -/
def keyRowsBy (m : MType) (fields : List String) : Option MType :=
  if fields.any (fun n => (lookupF m.row n).isNone) then none else some { m with rowKey := fields }

/-- `filter_rows / filter_cols / filter_entries` -/
def filter (m : MType) : MType := m

/-- `union_cols(other)` (inner or outer row join, right row fields kept): same entry type, column type and column key names,
same row key types.  The front end first renames (`deduplicate`, as `Table.join` does) every non-key row field of the right
dataset whose name is a field name of the left one — ANY field: a row key, a global…  (/repo before the repair looked at the left
row-VALUE fields only; a right field named like the left row key then overwrote the key's type.)  The row type the ENGINE
computes: left key fields, left value fields, right value fields — a struct concatenation that is fatal on a duplicate name;
`unionColsStrict` is that rule, `unionCols` the reported type. -/
def unionColsWith (concat : FieldList → FieldList → Option FieldList) (l r : MType) : Option MType :=
  let keyT (m : MType) := m.rowKey.filterMap (fun k => lookupF m.row k)
  let valueF (m : MType) := m.row.filter (fun p => !m.rowKey.contains p.1)
  if l.entry != r.entry || l.col != r.col || l.colKey != r.colKey || keyT l != keyT r
      || (keyT l).length != l.rowKey.length then none
  else
    match dedupAll (names l.globals ++ names l.col ++ names l.row ++ names l.entry) (names (valueF r)) with
    | none => none
    | some new =>
      let keyFs := l.rowKey.filterMap (fun k => (lookupF l.row k).map (fun ty => (k, ty)))
      (concat (keyFs ++ valueF l) (renameFields (valueF r) new)).map fun row => { l with row := row }

def unionCols : MType → MType → Option MType := unionColsWith concatPy
def unionColsStrict : MType → MType → Option MType := unionColsWith concatStrict

/-- `mt.annotate_rows / annotate_cols (m = use(right.index(key exprs, all_matches)))` with the key fields of that axis as the
expressions: `MatrixAnnotateRowsTable(child, table, root, product)` / `MatrixAnnotateColsTable(child, table, root)`.  A column
lookup into an interval-keyed table with `all_matches` is not implemented by the front end. -/
def indexAnnotate (root : TType → List HType → Bool → Option HType) (m : MType) (a : Axis) (r : TType) (exprTypes : List HType)
    (allMatches len : Bool) (name : String) : Option MType :=
  if a == .cols && isIntervalIndex r exprTypes && allMatches then none
  else match root r exprTypes allMatches with
    | none => none
    | some t => match useRoot len t with
      | none => none
      | some u => annotate m a [(name, u)]

/-- `mt.rows()`: `rowsTableType` -/
def rowsTable (m : MType) : TType := ⟨m.globals, m.row, m.rowKey⟩
/-- `mt.cols()`: `colsTableType` -/
def colsTable (m : MType) : TType := ⟨m.globals, m.col, m.colKey⟩
/-- `mt.entries()`: `entriesTableType` -/
def entriesTable (m : MType) : TType := ⟨m.globals, m.row ++ m.col ++ m.entry, m.rowKey ++ m.colKey⟩

end HailVerif.MatrixType

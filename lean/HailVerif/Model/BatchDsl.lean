/-
Model of the resource plumbing of the Batch DSL (C18):
* `hailtop/batch/resource.py` — uids (`_uid_prefix ++ str(counter)`), `_get_path`, `ResourceGroup`, `add_extension`
* `hailtop/batch/job.py`      — `Job._get_resource`, `_add_resource_to_set`, `Job._interpolate_command` (regex + handler),
                                 `BashJob.declare_resource_group`, `BashJob.command`
* `hailtop/batch/batch.py`    — `_new_job_resource_file`, `_new_input_resource_file`, `_new_resource_group`, `read_input`,
                                 `read_input_group`, `write_output`
* `hailtop/batch/backend.py`  — `ServiceBackend._async_run`: `copy_input`, `copy_internal_output`, `copy_external_output`,
                                 `symlink_input_resource_group`, parents

Strings are `List Char` (the driver converts).  `secret_alnum_string` is the deterministic `"tk" ++ n` of the harness.
Python sets are lists without duplicates; the check compares them sorted.
-/
namespace HailVerif.BatchDsl

abbrev Str := List Char

/-! ## uids and the regular expression of `_interpolate_command` -/

inductive UKind where
  | rf | rg | pr | job | batch
  deriving DecidableEq, Repr

def uprefix : UKind → Str
  | .rf => ['_', '_', 'R', 'E', 'S', 'O', 'U', 'R', 'C', 'E', '_', 'F', 'I', 'L', 'E', '_', '_']
  | .rg => ['_', '_', 'R', 'E', 'S', 'O', 'U', 'R', 'C', 'E', '_', 'G', 'R', 'O', 'U', 'P', '_', '_']
  | .pr => ['_', '_', 'P', 'Y', 'T', 'H', 'O', 'N', '_', 'R', 'E', 'S', 'U', 'L', 'T', '_', '_']
  | .job => ['_', '_', 'J', 'O', 'B', '_', '_']
  | .batch => ['_', '_', 'B', 'A', 'T', 'C', 'H', '_', '_']

/-- `cls._uid_prefix + str(cls._counter)` -/
def uid (k : UKind) (n : Nat) : Str := uprefix k ++ Nat.toDigits 10 n

def stripPrefix : Str → Str → Option Str
  | [], s => some s
  | _ :: _, [] => none
  | a :: p, b :: s => if a = b then stripPrefix p s else none

/-- the alternatives in the order of `regexes` -/
def ukinds : List UKind := [.rf, .rg, .pr, .job, .batch]

/-- one alternative `PREFIX\d+` tried at the start of `s`: the digits matched (greedy) -/
def matchKind (k : UKind) (s : Str) : Option Str :=
  match stripPrefix (uprefix k) s with
  | some r => let ds := r.takeWhile Char.isDigit; if ds = [] then none else some ds
  | none => none

/-- `re` tries the alternatives left to right at one position -/
def matchUid (s : Str) : Option (UKind × Str) :=
  ukinds.findSome? fun k => (matchKind k s).map fun ds => (k, ds)

inductive Tok where
  | chr (c : Char)
  /-- a match of `PREFIX\d+`: the family and the digits -/
  | ref (k : UKind) (digits : Str)
  deriving DecidableEq, Repr

/-- `re.sub` scanning: leftmost match at each position, else copy the character; `skip` = characters of the current match
still to be skipped -/
def tokenize : Str → Nat → List Tok
  | [], _ => []
  | _ :: s, skip + 1 => tokenize s skip
  | c :: s, 0 =>
    match matchUid (c :: s) with
    | some (k, ds) => .ref k ds :: tokenize s ((uprefix k).length + ds.length - 1)
    | none => .chr c :: tokenize s 0

/-! ## `shlex.quote` -/

def safeChar (c : Char) : Bool :=
  c.isAlphanum || c = '_' || c = '@' || c = '%' || c = '+' || c = '=' || c = ':' || c = ',' || c = '.' || c = '/' || c = '-'

/-- `shlex.quote` (ASCII input) -/
def shq (s : Str) : Str :=
  if s = [] then ['\'', '\'']
  else if s.all safeChar then s
  else ['\''] ++ (s.map fun c => if c = '\'' then ['\'', '"', '\'', '"', '\''] else [c]).flatten ++ ['\'']

/-! ## resources -/

inductive FileRes where
  /-- `InputResourceFile`: `_value`, `_input_path`, resource group number -/
  | input (value inputPath : Str) (group : Option Nat)
  /-- `JobResourceFile`: source job, `_value`, resource group number, `_has_extension` -/
  | jobFile (job : Nat) (value : Str) (group : Option Nat) (hasExt : Bool)
  deriving DecidableEq, Repr

structure GroupRes where
  /-- `_source` -/
  job : Option Nat
  root : Str
  /-- `_resources`: identifier → file number -/
  members : List (Str × Nat)
  deriving DecidableEq, Repr

/-- a resource object: file number or group number (the `n` of its uid) -/
inductive Rid where
  | file (n : Nat)
  | group (n : Nat)
  deriving DecidableEq, Repr

/-- an argument of `PythonJob.call` after Python evaluated it: a resource, a list / dict of resources, or a plain value -/
inductive PyArgR where
  | res (r : Rid)
  | list (rs : List Rid)
  | dict (kvs : List (Str × Rid))
  | value (v : Str)
  deriving DecidableEq, Repr

structure JobSt where
  dirname : Str
  /-- `_resources`: attribute name → resource -/
  resources : List (Str × Rid)
  inputs : List Nat
  internalOut : List Nat
  externalOut : List Nat
  mentioned : List Rid
  valid : List Rid
  deps : List Nat
  /-- `_command`: the interpolated commands -/
  commands : List Str
  /-- a `PythonJob` (else a `BashJob`) -/
  python : Bool := false
  /-- `_function_calls`: the (resolved) arguments of every `call` -/
  calls : List (List PyArgR) := []
  deriving Repr

def JobSt.empty (dirname : Str) (python : Bool := false) : JobSt := ⟨dirname, [], [], [], [], [], [], [], [], python, []⟩

structure St where
  /-- `_resource_map`, file part: number ↦ object (creation order) -/
  files : List (Nat × FileRes)
  groups : List (Nat × GroupRes)
  rfCount : Nat
  rgCount : Nat
  tokCount : Nat
  nJobs : Nat
  job : Nat → JobSt
  /-- what the program's handles `h0, h1, …` (results of read_input / read_input_group) denote -/
  handles : List Rid
  /-- `_output_paths` of every file, as (file number, destination) -/
  outputPaths : List (Nat × Str)

def St.init : St := ⟨[], [], 0, 0, 0, 0, fun _ => JobSt.empty [], [], []⟩

inductive Err where
  /-- BatchException -/
  | batchException
  /-- AssertionError / AttributeError / IndexError: the program is not a use of the DSL -/
  | notDsl
  deriving DecidableEq, Repr

def St.file? (st : St) (n : Nat) : Option FileRes := st.files.lookup n
def St.group? (st : St) (n : Nat) : Option GroupRes := st.groups.lookup n

def FileRes.source : FileRes → Option Nat
  | .input _ _ _ => none
  | .jobFile j _ _ _ => some j

def FileRes.group : FileRes → Option Nat
  | .input _ _ g => g
  | .jobFile _ _ g _ => g

def FileRes.value : FileRes → Str
  | .input v _ _ => v
  | .jobFile _ v _ _ => v

def St.source (st : St) : Rid → Option Nat
  | .file n => (st.file? n).bind FileRes.source
  | .group n => (st.group? n).bind (·.job)

/-- first path component below the directory: `inputs` or the source job's `_dirname` -/
def St.subdir (st : St) : Option Nat → Str
  | none => ['i', 'n', 'p', 'u', 't', 's']
  | some j => (st.job j).dirname

/-- `r._get_path(dir)` -/
def St.path (st : St) (dir : Str) : Rid → Str
  | .file n =>
    match st.file? n with
    | some f => dir ++ ['/'] ++ st.subdir f.source ++ ['/'] ++ f.value
    | none => []
  | .group n =>
    match st.group? n with
    | some g => dir ++ ['/'] ++ st.subdir g.job ++ ['/'] ++ g.root
    | none => []

def insertNew {α : Type} [DecidableEq α] (l : List α) (x : α) : List α := if x ∈ l then l else l ++ [x]
def unionNew {α : Type} [DecidableEq α] (l xs : List α) : List α := xs.foldl insertNew l

/-- the files `_add_resource_to_set` adds for a resource: the file itself and the files of its group; for a group its files -/
def St.expandFiles (st : St) : Rid → List Nat
  | .file n =>
    match (st.file? n).bind FileRes.group with
    | some g => n :: ((st.group? g).map fun gr => gr.members.map (·.2)).getD []
    | none => [n]
  | .group g => ((st.group? g).map fun gr => gr.members.map (·.2)).getD []

/-- `_add_resource_to_set(s, r, include_rg=True)` on a set of resources -/
def St.addToSet (st : St) (s : List Rid) (r : Rid) : List Rid :=
  let withSelf := match r with
    | .group _ => insertNew s r
    | .file _ => s
  unionNew withSelf ((st.expandFiles r).map Rid.file)

def St.updJob (st : St) (j : Nat) (f : JobSt → JobSt) : St :=
  { st with job := fun k => if k = j then f (st.job k) else st.job k }

/-! ## `Job._interpolate_command` -/

/-- `self._batch._resource_map.get(r_uid)`: the dict is keyed by the uid *string* `PREFIX ++ digits` -/
def lookupUid (st : St) (k : UKind) (digits : Str) : Option Rid :=
  if k = .rf then (st.files.find? fun e => Nat.toDigits 10 e.1 = digits).map fun e => Rid.file e.1
  else (st.groups.find? fun e => Nat.toDigits 10 e.1 = digits).map fun e => Rid.group e.1

/-- the bookkeeping of the handler for resource `r` mentioned by job `c`:
```
source = r.source()
if source != self:
    self._add_inputs(r)
    if source is not None:
        if r not in source._valid: raise BatchException(...)
        self._dependencies.add(source)
        source._add_internal_outputs(r)
else:
    _add_resource_to_set(self._valid, r)
self._mentioned.add(r)
``` -/
def applyRef (st : St) (c : Nat) (r : Rid) : Except Err St :=
  let src := st.source r
  let st1? : Except Err St :=
    if src ≠ some c then
      let st1 := st.updJob c fun js => { js with inputs := unionNew js.inputs (st.expandFiles r) }
      match src with
      | some p =>
        if r ∈ (st.job p).valid then
          .ok ((st1.updJob c fun js => { js with deps := insertNew js.deps p }).updJob p fun js =>
            { js with internalOut := unionNew js.internalOut (st.expandFiles r) })
        else .error .batchException                    -- undefined resource '<name>'
      | none => .ok st1
    else .ok (st.updJob c fun js => { js with valid := st.addToSet js.valid r })
  match st1? with
  | .error e => .error e
  | .ok st1 => .ok (st1.updJob c fun js => { js with mentioned := insertNew js.mentioned r })

/-- `'${BATCH_TMPDIR}' + shq(r._get_path(''))` -/
def replacement (st : St) (r : Rid) : Str :=
  ['$', '{', 'B', 'A', 'T', 'C', 'H', '_', 'T', 'M', 'P', 'D', 'I', 'R', '}'] ++ shq (st.path [] r)

/-- the regex handler for one match in a command of job `c`: state effects and the replacement text -/
def handleRef (st : St) (c : Nat) (k : UKind) (digits : Str) : Except Err (St × Str) :=
  match k with
  | .job | .batch | .pr => .error .batchException
  | .rf | .rg =>
    match lookupUid st k digits with
    | none => .error .batchException                       -- undefined resource
    | some r =>
      match applyRef st c r with
      | .error e => .error e
      | .ok st2 => .ok (st2, replacement st r)

/-- `re.sub(pattern, handler, command)` -/
def interpolateToks (st : St) (c : Nat) : List Tok → Str → Except Err (St × Str)
  | [], acc => .ok (st, acc)
  | .chr ch :: ts, acc => interpolateToks st c ts (acc ++ [ch])
  | .ref k ds :: ts, acc =>
    match handleRef st c k ds with
    | .error e => .error e
    | .ok (st', s) => interpolateToks st' c ts (acc ++ s)

def interpolate (st : St) (c : Nat) (command : Str) : Except Err (St × Str) :=
  interpolateToks st c (tokenize command 0) []

/-! ## the DSL statements the check generates -/

/-- `PythonResult.as_json / as_str / as_repr` -/
inductive Conv where
  | json | str | repr
  deriving DecidableEq, Repr

/-- the stem suffix of the converted file: `self._value + '-json'` / `'-str'` / `'-repr'` -/
def Conv.stem : Conv → Str
  | .json => ['-', 'j', 's', 'o', 'n']
  | .str => ['-', 's', 't', 'r']
  | .repr => ['-', 'r', 'e', 'p', 'r']

/-- `jrf.add_extension('.json')` / `'.txt'` / `'.txt'` -/
def Conv.ext : Conv → Str
  | .json => ['.', 'j', 's', 'o', 'n']
  | .str => ['.', 't', 'x', 't']
  | .repr => ['.', 't', 'x', 't']

/-- `f'result{self.n_results}'` of the `k`-th call (k = 0, 1, …) -/
def resultName (k : Nat) : Str := ['r', 'e', 's', 'u', 'l', 't'] ++ Nat.toDigits 10 (k + 1)

/-- the key under which the converted file is registered in the job's `_resources` -/
def convKey (k : Nat) (c : Conv) : Str := resultName k ++ c.stem

/-- the `_value` of the converted file: stem **and** conversion-specific extension -/
def convValue (k : Nat) (c : Conv) : Str := convKey k c ++ c.ext

/-- how a command names a resource -/
inductive Ref where
  /-- handle `h k` (result of read_input / read_input_group) -/
  | handle (k : Nat)
  /-- `h.ident` on an input group -/
  | handleMember (k : Nat) (ident : Str)
  /-- `j.name` -/
  | jobAttr (j : Nat) (name : Str)
  /-- `j.name.ident` -/
  | jobMember (j : Nat) (name ident : Str)
  /-- `result.as_json()` / `.as_str()` / `.as_repr()` where `result` is what the `k`-th `call` of python job `j` returned -/
  | conv (j k : Nat) (c : Conv)
  deriving DecidableEq, Repr

inductive Piece where
  | text (s : Str)
  | ref (r : Ref)
  deriving DecidableEq, Repr

/-- an argument expression of `PythonJob.call` -/
inductive PyArg where
  | res (r : Ref)
  | list (rs : List Ref)
  | dict (kvs : List (Str × Ref))
  | value (v : Str)
  deriving DecidableEq, Repr

inductive Stmt where
  /-- `b.read_input(path)` -/
  | input (path : Str)
  /-- `b.read_input_group(**{ident: path})` -/
  | igroup (files : List (Str × Str))
  /-- `b.new_job(name)` -/
  | job (name : Option Str)
  /-- `j.declare_resource_group(gname={ident: template})` -/
  | rgroup (j : Nat) (gname : Str) (files : List (Str × Str))
  /-- `j.command(f'…')` -/
  | cmd (j : Nat) (pieces : List Piece)
  /-- `j.name.add_extension(ext)` -/
  | ext (j : Nat) (name : Str) (ext : Str)
  /-- `b.write_output(ref, dest)` -/
  | out (r : Ref) (dest : Str)
  /-- `b.new_python_job(name)` -/
  | pyjob (name : Option Str)
  /-- `j.call(f, *args)` on a PythonJob with resource arguments -/
  | pycall (j : Nat) (args : List PyArg)
  /-- `j.name = …` (also `j.always_run()`, `j.image(…)`, `j.attributes = …`: what a user may set after the fact) -/
  | rename (j : Nat) (name : Option Str)
  deriving Repr

def token (n : Nat) : Str := ['t', 'k'] ++ Nat.toDigits 10 n

/-- `os.path.basename(path.rstrip('/'))` -/
def basename (p : Str) : Str :=
  let q := (p.reverse.dropWhile (· = '/')).reverse
  (q.reverse.takeWhile (· ≠ '/')).reverse

/-- `safe_str` in `Job.__init__` (ASCII names) -/
def safeStr (s : Str) : Str := s.map fun c => if c.isAlphanum || c = '-' then c else '_'

/-- `Job.__init__`: the job's scratch directory.  The *name* is truncated, the unique token is appended afterwards and in full:
```
maxnamelen = 250 - len(self._token)
self._dirname = f'{safe_str(name)[:maxnamelen]}-{self._token}' if name else self._token
``` -/
def jobDirname (name : Option Str) (tok : Str) : Str :=
  match name with
  | some nm => (safeStr nm).take (250 - tok.length) ++ ['-'] ++ tok
  | none => tok

/-- replace every `{root}` in a `declare_resource_group` template (the only f-string field the check uses) -/
def substRoot (root : Str) : Str → Nat → Str
  | [], _ => []
  | _ :: s, skip + 1 => substRoot root s skip
  | c :: s, 0 =>
    match stripPrefix ['{', 'r', 'o', 'o', 't', '}'] (c :: s) with
    | some _ => root ++ substRoot root s 5
    | none => c :: substRoot root s 0

/-- `Job._get_resource(item)` -/
def getJobResource (st : St) (j : Nat) (name : Str) : St × Rid :=
  match (st.job j).resources.lookup name with
  | some r => (st, r)
  | none =>
    let n := st.rfCount
    let st1 : St := { st with files := st.files ++ [(n, FileRes.jobFile j name none false)], rfCount := n + 1 }
    (st1.updJob j fun js => { js with resources := js.resources ++ [(name, Rid.file n)] }, Rid.file n)

/-- evaluate a reference as Python does when the f-string is built -/
def resolve (st : St) : Ref → Except Err (St × Rid)
  | .handle k =>
    match st.handles[k]? with
    | some r => .ok (st, r)
    | none => .error .notDsl
  | .handleMember k ident =>
    match st.handles[k]? with
    | some (.group g) =>
      match (st.group? g).bind fun gr => gr.members.lookup ident with
      | some n => .ok (st, .file n)
      | none => .error .batchException                     -- "'ident' not found in the resource group"
    | _ => .error .notDsl
  | .jobAttr j name => if j < st.nJobs then .ok (getJobResource st j name) else .error .notDsl
  | .jobMember j name ident =>
    if j < st.nJobs then
      match getJobResource st j name with
      | (st1, .group g) =>
        match (st1.group? g).bind fun gr => gr.members.lookup ident with
        | some n => .ok (st1, .file n)
        | none => .error .batchException
      | _ => .error .notDsl
    else .error .notDsl
  | .conv j k c =>
    -- `if self._json is None: jrf = self._add_converted_resource(self._value + '-json'); jrf.add_extension('.json'); self._json = jrf`
    if j < st.nJobs ∧ (st.job j).python ∧ k < (st.job j).calls.length then
      match (st.job j).resources.lookup (convKey k c) with
      | some r => .ok (st, r)
      | none =>
        let n := st.rfCount
        let st1 : St := { st with files := st.files ++ [(n, FileRes.jobFile j (convValue k c) none true)], rfCount := n + 1 }
        .ok (st1.updJob j fun js =>
          { js with resources := js.resources ++ [(convKey k c, Rid.file n)], valid := insertNew js.valid (Rid.file n),
                    mentioned := insertNew js.mentioned (Rid.file n) }, Rid.file n)
    else .error .notDsl

/-- `str(resource)` -/
def Rid.render : Rid → Str
  | .file n => uid UKind.rf n
  | .group n => uid UKind.rg n

/-- build the command string: references are evaluated left to right, `str(resource)` is its uid -/
def renderPieces (st : St) : List Piece → Str → Except Err (St × Str)
  | [], acc => .ok (st, acc)
  | .text s :: ps, acc => renderPieces st ps (acc ++ s)
  | .ref r :: ps, acc =>
    match resolve st r with
    | .error e => .error e
    | .ok (st', rid) => renderPieces st' ps (acc ++ rid.render)

/-- the argument expressions of `j.call(f, a₁, a₂, …)` are evaluated left to right before the call -/
def resolveAll (st : St) : List Ref → Except Err (St × List Rid)
  | [] => .ok (st, [])
  | r :: rs =>
    match resolve st r with
    | .error e => .error e
    | .ok (st1, rid) =>
      match resolveAll st1 rs with
      | .error e => .error e
      | .ok (st2, rids) => .ok (st2, rid :: rids)

def resolveArg (st : St) : PyArg → Except Err (St × PyArgR)
  | .res r => match resolve st r with
    | .error e => .error e
    | .ok (st1, rid) => .ok (st1, .res rid)
  | .list rs => match resolveAll st rs with
    | .error e => .error e
    | .ok (st1, rids) => .ok (st1, .list rids)
  | .dict kvs => match resolveAll st (kvs.map (·.2)) with
    | .error e => .error e
    | .ok (st1, rids) => .ok (st1, .dict ((kvs.map (·.1)).zip rids))
  | .value v => .ok (st, .value v)

def resolveArgs (st : St) : List PyArg → Except Err (St × List PyArgR)
  | [] => .ok (st, [])
  | a :: as =>
    match resolveArg st a with
    | .error e => .error e
    | .ok (st1, ar) =>
      match resolveArgs st1 as with
      | .error e => .error e
      | .ok (st2, ars) => .ok (st2, ar :: ars)

/-- the resources `handle_args` visits, in order (lists element by element, dicts value by value) -/
def PyArgR.rids : PyArgR → List Rid
  | .res r => [r]
  | .list rs => rs
  | .dict kvs => kvs.map (·.2)
  | .value _ => []

/-- `handle_args(args)` of `PythonJob.call`: `handle_arg` is the bookkeeping of the command handler (`applyRef`) without a
replacement text.  (The `PythonResult` the call creates only enters the job's own `_valid`/`_mentioned`; it is not modelled.) -/
def applyRefs (st : St) (c : Nat) : List Rid → Except Err St
  | [] => .ok st
  | r :: rs =>
    match applyRef st c r with
    | .error e => .error e
    | .ok st1 => applyRefs st1 c rs

def addInputFiles (st : St) (root : Str) (g : Option Nat) : List (Str × Str) → St × List (Str × Nat)
  | [] => (st, [])
  | (ident, path) :: rest =>
    let n := st.rfCount
    let st1 : St := { st with files := st.files ++ [(n, FileRes.input (root ++ ['/'] ++ basename path) path g)], rfCount := n + 1 }
    let r := addInputFiles st1 root g rest
    (r.1, (ident, n) :: r.2)

def addJobFiles (st : St) (j : Nat) (gname : Str) (g : Nat) : List (Str × Str) → St × List (Str × Nat)
  | [] => (st, [])
  | (ident, template) :: rest =>
    let n := st.rfCount
    let st1 : St :=
      { st with files := st.files ++ [(n, FileRes.jobFile j (substRoot gname template 0) (some g) false)], rfCount := n + 1 }
    let r := addJobFiles st1 j gname g rest
    (r.1, (ident, n) :: r.2)

/-- `Resource._add_output_path(dest)` -/
def addOutputPath (st : St) (r : Rid) (dest : Str) : St :=
  let one (st : St) (n : Nat) (d : Str) : St :=
    let st1 := { st with outputPaths := insertNew st.outputPaths (n, d) }
    match (st.file? n).bind FileRes.source with
    | some p => st1.updJob p fun js => { js with externalOut := insertNew js.externalOut n }
    | none => st1
  match r with
  | .file n => one st n dest
  | .group g =>
    ((st.group? g).map fun gr => gr.members.foldl (fun st m => one st m.2 (dest ++ ['.'] ++ m.1)) st).getD st

def step (st : St) : Stmt → Except Err St
  | .input path =>
    let root := token (st.tokCount + 1)
    let r := addInputFiles { st with tokCount := st.tokCount + 1 } root none [([], path)]
    .ok { r.1 with handles := r.1.handles ++ (r.2.map fun m => Rid.file m.2) }
  | .igroup files =>
    let root := token (st.tokCount + 1)
    let g := st.rgCount
    let r := addInputFiles { st with tokCount := st.tokCount + 1 } root (some g) files
    .ok { r.1 with groups := r.1.groups ++ [(g, (⟨none, root, r.2⟩ : GroupRes))], rgCount := g + 1,
                   handles := r.1.handles ++ [Rid.group g] }
  | .job name =>
    let tok := token (st.tokCount + 1)
    let dirname := jobDirname name tok
    let j := st.nJobs
    .ok { st with tokCount := st.tokCount + 1, nJobs := j + 1, job := fun k => if k = j then JobSt.empty dirname else st.job k }
  | .rgroup j gname files =>
    if j < st.nJobs ∧ ¬ (st.job j).python then
      if ((st.job j).resources.lookup gname).isSome then .error .notDsl      -- `assert name not in self._resources`
      else
        let g := st.rgCount
        let r := addJobFiles st j gname g files
        let st1 : St := { r.1 with groups := r.1.groups ++ [(g, (⟨some j, gname, r.2⟩ : GroupRes))], rgCount := g + 1 }
        .ok (st1.updJob j fun js =>
          { js with resources := js.resources ++ [(gname, Rid.group g)], valid := st1.addToSet js.valid (Rid.group g) })
    else .error .notDsl
  | .cmd j pieces =>
    if j < st.nJobs ∧ ¬ (st.job j).python then      -- `command` exists on BashJob only
      match renderPieces st pieces [] with
      | .error e => .error e
      | .ok (st1, command) =>
        if command.all Char.isWhitespace then .ok st1          -- `if command.strip() == '': warn; return self`
        else match interpolate st1 j command with
        | .error e => .error e
        | .ok (st2, s) => .ok (st2.updJob j fun js => { js with commands := js.commands ++ [s] })
    else .error .notDsl
  | .ext j name e =>
    if j < st.nJobs then
      match getJobResource st j name with
      | (st1, .file n) =>
        match st1.file? n with
        | some (.jobFile jj v g false) =>
          .ok { st1 with files := st1.files.map fun en => if en.1 = n then (n, .jobFile jj (v ++ e) g true) else en }
        | some (.jobFile _ _ _ true) => .error .batchException      -- "Resource already has a file extension added."
        | _ => .error .notDsl
      | _ => .error .notDsl                                         -- a ResourceGroup has no add_extension
    else .error .notDsl
  | .pyjob name =>
    let tok := token (st.tokCount + 1)
    let j := st.nJobs
    .ok { st with tokCount := st.tokCount + 1, nJobs := j + 1,
                  job := fun k => if k = j then JobSt.empty (jobDirname name tok) true else st.job k }
  | .pycall j args =>
    if j < st.nJobs ∧ (st.job j).python then
      match resolveArgs st args with
      | .error e => .error e
      | .ok (st1, argsR) =>
        match applyRefs st1 j (argsR.map PyArgR.rids).flatten with
        | .error e => .error e
        | .ok st2 => .ok (st2.updJob j fun js => { js with calls := js.calls ++ [argsR] })
    else .error .notDsl
  | .rename j _ =>
    -- `_dirname` was fixed in `Job.__init__` from the name the job was created with: a later `j.name = …` changes the
    -- `name` attribute submitted with the job and nothing else
    if j < st.nJobs then .ok st else .error .notDsl
  | .out r dest =>
    match resolve st r with
    | .error e => .error e
    | .ok (st1, rid) =>
      -- a JobResourceFile of a BashJob must have been mentioned by its source
      let bad := match rid with
        | .file n => match (st1.file? n).bind FileRes.source with
          | some p => !(st1.job p).python && decide (rid ∉ (st1.job p).mentioned)
          | none => false
        | .group _ => false
      if bad then .error .batchException else .ok (addOutputPath st1 rid dest)

def run (prog : List Stmt) : Except Err St := prog.foldlM step St.init

/-! ## `ServiceBackend._async_run`: what each job is submitted with -/

structure JobPlan where
  commands : List Str
  /-- `input_files`: (source, local destination) -/
  inputs : List (Str × Str)
  /-- `output_files`: (local source, destination) -/
  outputs : List (Str × Str)
  parents : List Nat
  /-- the `ln -sf src dest` pairs for mentioned input groups -/
  symlinks : List (Str × Str)
  deriving Repr

/-- `urlparse(path).scheme in ('', 'file')`: a scheme is `[A-Za-z][A-Za-z0-9+.-]*` before the first `:` -/
def isLocalInput (path : Str) : Bool :=
  if ':' ∈ path then
    let sch := path.takeWhile (· ≠ ':')
    let valid := (match sch with | c :: _ => c.isAlpha | [] => false) && sch.all fun c => c.isAlphanum || c = '+' || c = '.' || c = '-'
    if valid then sch.map Char.toLower == ['f', 'i', 'l', 'e'] else true
  else true

/-- where a local input is uploaded for one consuming job: `r._get_path(batch_remote_tmpdir + '/' + uuid.uuid4().hex[:8])`;
the fresh 8-hex directory is written `@U` (the check canonicalises it the same way) -/
def uploadDest (st : St) (remote : Str) (n : Nat) : Str := st.path (remote ++ ['/', '@', 'U']) (.file n)

/-- `copy_input`: an input given by URL is downloaded from there; a local input is first uploaded (once per consuming job, to a
fresh directory) and downloaded from that upload — in both cases to the resource's **own** local path -/
def copyInput (st : St) (remote loc : Str) (n : Nat) : List (Str × Str) :=
  match st.file? n with
  | some (.input _ ip _) =>
    if isLocalInput ip then [(uploadDest st remote n, st.path loc (.file n))] else [(ip, st.path loc (.file n))]
  | some (.jobFile _ _ _ _) => [(st.path remote (.file n), st.path loc (.file n))]
  | none => []

/-- `local_input_file_transfers`, handed to `copy_from_dict` before the batch is submitted -/
def localUploads (st : St) (remote : Str) : List (Str × Str) :=
  ((List.range st.nJobs).map fun j => (st.job j).inputs.filterMap fun n =>
    match st.file? n with
    | some (.input _ ip _) => if isLocalInput ip then some (ip, uploadDest st remote n) else none
    | _ => none).flatten

/-- `copy_internal_output` -/
def copyInternalOutput (st : St) (remote loc : Str) (n : Nat) : List (Str × Str) :=
  [(st.path loc (.file n), st.path remote (.file n))]

/-- `copy_external_output` for a job's file -/
def copyExternalOutput (st : St) (loc : Str) (n : Nat) : List (Str × Str) :=
  (st.outputPaths.filter (·.1 = n)).map fun e => (st.path loc (.file n), e.2)

def symlinksOf (st : St) (loc : Str) : Rid → List (Str × Str)
  | .group g =>
    match st.group? g with
    | some gr => if gr.job = none then gr.members.map fun m => (st.path loc (.file m.2), st.path loc (.group g) ++ ['.'] ++ m.1) else []
    | none => []
  | .file _ => []

def jobPlan (st : St) (remote loc : Str) (j : Nat) : JobPlan :=
  let js := st.job j
  { commands := js.commands
    inputs := (js.inputs.map (copyInput st remote loc)).flatten
    outputs := (js.internalOut.map (copyInternalOutput st remote loc)).flatten ++
      (js.externalOut.map (copyExternalOutput st loc)).flatten
    parents := js.deps
    symlinks := (js.mentioned.map (symlinksOf st loc)).flatten }

/-! ### what a PythonJob's function is handed (`PythonJob._compile`, `preserialize`) -/

/-- `('path', r._get_path(local_tmpdir))` for a file; for a group `('dict_path', {identifier: member._get_path(local_tmpdir)})` —
every member is asked for *its own* path -/
inductive Prepared1 where
  | path (p : Str)
  | dictPath (kvs : List (Str × Str))
  deriving DecidableEq, Repr

inductive Prepared where
  | one (p : Prepared1)
  | list (ps : List Prepared1)
  | dict (kvs : List (Str × Prepared1))
  | value (v : Str)
  deriving DecidableEq, Repr

def prepare1 (st : St) (loc : Str) : Rid → Prepared1
  | .file n => .path (st.path loc (.file n))
  | .group g => .dictPath (((st.group? g).map fun gr => gr.members.map fun m => (m.1, st.path loc (.file m.2))).getD [])

def prepare (st : St) (loc : Str) : PyArgR → Prepared
  | .res r => .one (prepare1 st loc r)
  | .list rs => .list (rs.map (prepare1 st loc))
  | .dict kvs => .dict (kvs.map fun kv => (kv.1, prepare1 st loc kv.2))
  | .value v => .value v

/-- the pickled positional arguments of every call of job `j` -/
def preparedCalls (st : St) (loc : Str) (j : Nat) : List (List Prepared) :=
  (st.job j).calls.map fun args => args.map (prepare st loc)

/-- `write_external_inputs`: input files that are themselves written out -/
def externalInputs (st : St) : List (Str × Str) :=
  st.outputPaths.filterMap fun e =>
    match st.file? e.1 with
    | some (.input _ ip _) => some (ip, e.2)
    | _ => none

end HailVerif.BatchDsl

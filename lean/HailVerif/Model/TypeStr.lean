/-!
# Model of Hail type strings (property C31)

Python side (`/repo/hail/python/hail`):
* `expr/types.py`       — `HailType.__str__`, `_parsable_string`, `dtype`
* `expr/type_parsing.py`— `type_grammar` (a parsimonious PEG) and the visitor `TypeConstructor`
* `utils/java.py`       — `escape_parsable`, `unescape_parsable` (CPython's `unicode_escape` codec + backtick handling)
* `utils/misc.py`       — `escape_id` / `escape_str` (the identifier escaper of the IR renderer)

Strings are lists of Unicode code points (`Nat`), so that every Python `str` — including ones holding astral characters —
has a representation.  `cp% "…"` writes the code points of a literal.

Outside the model (the functions answer `none`, the correspondence never generates them): the function-signature type
variables `?T`, `?T:cond` and `?nat`; `\N{name}` escapes of the `unicode_escape` decoder.
-/
namespace HailVerif.TypeStr

abbrev Str := List Nat

open Lean in
/-- `cp% "abc"` is the list of the code points of the string literal: `[97, 98, 99]` -/
macro "cp%" s:str : term => do
  let cs : Array (TSyntax `term) :=
    (s.getString.toList.map fun c => (Syntax.mkNumLit (toString c.toNat) : TSyntax `term)).toArray
  `([$cs,*])

/-! ## Character classes of CPython's `re` (str patterns) -/

/-- `\w` and `\s` outside ASCII (tables generated from CPython: `Generated/UnicodeClasses.lean`) -/
structure Classes where
  word : Nat → Bool
  space : Nat → Bool

def asciiLetter (c : Nat) : Bool := (65 ≤ c && c ≤ 90) || (97 ≤ c && c ≤ 122)
def asciiDigit (c : Nat) : Bool := 48 ≤ c && c ≤ 57
def asciiWord (c : Nat) : Bool := asciiLetter c || asciiDigit c || c == 95
/-- `str.isspace` on ASCII: TAB LF VT FF CR, FS GS RS US, SPACE -/
def asciiSpace (c : Nat) : Bool := (9 ≤ c && c ≤ 13) || (28 ≤ c && c ≤ 31) || c == 32

/-- membership in a table of inclusive ranges -/
def inRanges (t : List (Nat × Nat)) (c : Nat) : Bool := t.any fun p => p.1 ≤ c && c ≤ p.2

/-- `\w` -/
def Classes.isWord (cc : Classes) (c : Nat) : Bool := if c < 128 then asciiWord c else cc.word c
/-- `\s` -/
def Classes.isSpace (cc : Classes) (c : Nat) : Bool := if c < 128 then asciiSpace c else cc.space c

/-! ## hexadecimal digits -/

/-- lower-case hexadecimal digit -/
def hexDigit (d : Nat) : Nat := if d < 10 then 48 + d else 87 + d

def hex4 (c : Nat) : Str := [hexDigit (c / 4096 % 16), hexDigit (c / 256 % 16), hexDigit (c / 16 % 16), hexDigit (c % 16)]
/-! ## `escape_parsable` (utils/java.py) -/

/-- `_escape_parsable_char(c)`: only the escapes the IR lexer admits in a backtick literal — `\\ \t \n \r` and `\uXXXX`, one
per UTF-16 code unit (a surrogate pair for a code point above U+FFFF); printable ASCII (the backtick too: the caller escapes
it) stays -/
def parsableEscapeChar (c : Nat) : Str :=
  if c = 92 then cp% "\\\\"
  else if c = 9 then cp% "\\t"
  else if c = 10 then cp% "\\n"
  else if c = 13 then cp% "\\r"
  else if 32 ≤ c ∧ c < 127 then [c]
  else if c < 65536 then 92 :: 117 :: hex4 c
  else 92 :: 117 :: (hex4 (55296 + (c - 65536) / 1024) ++ 92 :: 117 :: hex4 (56320 + (c - 65536) % 1024))

/-- `''.join(map(_escape_parsable_char, s))` -/
def parsableEscape (s : Str) : Str := s.flatMap parsableEscapeChar

/-- `_parsable_str.fullmatch(s)` for `_parsable_str = re.compile(r'[_a-zA-Z][_a-zA-Z0-9]*')` -/
def isParsable : Str → Bool
  | [] => false
  | c :: r => (c == 95 || asciiLetter c) && r.all asciiWord

/-- `.replace('`', '\\`')` -/
def replaceBacktick (s : Str) : Str := s.flatMap fun c => if c = 96 then [92, 96] else [c]

/-- `escape_parsable(s)` -/
def escapeParsable (s : Str) : Str :=
  if isParsable s then s else 96 :: (replaceBacktick (parsableEscape s) ++ [96])

/-! ## `unescape_parsable` (utils/java.py): `bytes(s.replace('\\`', '`'), 'utf-8').decode('unicode_escape')`, then
`.encode('utf-16-le', 'surrogatepass').decode('utf-16-le', 'surrogatepass')` -/

/-- `.replace('\\`', '`')`: leftmost non-overlapping occurrences of backslash-backtick -/
def unreplaceBacktick : Str → Str
  | [] => []
  | [c] => [c]
  | c :: d :: r => if c = 92 ∧ d = 96 then 96 :: unreplaceBacktick r else c :: unreplaceBacktick (d :: r)

/-- UTF-8 bytes of one code point; `none` = `UnicodeEncodeError` (surrogates) / not a code point -/
def utf8Char (c : Nat) : Option (List Nat) :=
  if c < 128 then some [c]
  else if c < 2048 then some [192 + c / 64, 128 + c % 64]
  else if 55296 ≤ c ∧ c < 57344 then none
  else if c < 65536 then some [224 + c / 4096, 128 + c / 64 % 64, 128 + c % 64]
  else if c < 1114112 then some [240 + c / 262144, 128 + c / 4096 % 64, 128 + c / 64 % 64, 128 + c % 64]
  else none

/-- `bytes(s, 'utf-8')` -/
def utf8 : Str → Option (List Nat)
  | [] => some []
  | c :: r => match utf8Char c, utf8 r with
    | some a, some b => some (a ++ b)
    | _, _ => none

def hexVal (b : Nat) : Option Nat :=
  if 48 ≤ b ∧ b ≤ 57 then some (b - 48)
  else if 97 ≤ b ∧ b ≤ 102 then some (b - 87)
  else if 65 ≤ b ∧ b ≤ 70 then some (b - 55)
  else none

/-- exactly `n` hexadecimal digits; `none` = "truncated \xXX escape" -/
def takeHex : Nat → Nat → List Nat → Option (Nat × List Nat)
  | 0, acc, r => some (acc, r)
  | _ + 1, _, [] => none
  | n + 1, acc, b :: r => match hexVal b with
    | some v => takeHex n (acc * 16 + v) r
    | none => none

def octVal (b : Nat) : Option Nat := if 48 ≤ b ∧ b ≤ 55 then some (b - 48) else none

/-- up to `n` further octal digits -/
def takeOct : Nat → Nat → List Nat → Nat × List Nat
  | 0, acc, r => (acc, r)
  | _ + 1, acc, [] => (acc, [])
  | n + 1, acc, b :: r => match octVal b with
    | some v => takeOct n (acc * 8 + v) r
    | none => (acc, b :: r)

/-- the decoder loop of `unicode_escape` over bytes (non-escape bytes are Latin-1); `none` = `UnicodeDecodeError`
(truncated escape, trailing backslash, code point above 0x10FFFF) or the unmodelled `\N{…}`; the fuel is the input
length + 1 and is never exhausted -/
def decodeLoop : Nat → List Nat → Option Str
  | 0, _ => none
  | _ + 1, [] => some []
  | f + 1, b :: r =>
    if b ≠ 92 then (decodeLoop f r).map (b :: ·)
    else match r with
      | [] => none                                            -- "\ at end of string"
      | e :: r =>
        let lit (c : Nat) : Option Str := (decodeLoop f r).map (c :: ·)
        if e = 10 then decodeLoop f r                         -- backslash-newline is dropped
        else if e = 92 ∨ e = 39 ∨ e = 34 then lit e
        else if e = 98 then lit 8
        else if e = 102 then lit 12
        else if e = 116 then lit 9
        else if e = 110 then lit 10
        else if e = 114 then lit 13
        else if e = 118 then lit 11
        else if e = 97 then lit 7
        else if e = 120 then match takeHex 2 0 r with
          | some (v, r') => (decodeLoop f r').map (v :: ·)
          | none => none
        else if e = 117 then match takeHex 4 0 r with
          | some (v, r') => (decodeLoop f r').map (v :: ·)
          | none => none
        else if e = 85 then match takeHex 8 0 r with
          | some (v, r') => if v < 1114112 then (decodeLoop f r').map (v :: ·) else none
          | none => none
        else if e = 78 then none                              -- \N{name}: not modelled
        else match octVal e with
          | some v => let (w, r') := takeOct 2 v r; (decodeLoop f r').map (w :: ·)
          | none => (decodeLoop f r).map (92 :: e :: ·)       -- unknown escape: kept (DeprecationWarning)

/-- `bs.decode('unicode_escape')` -/
def unicodeEscapeDecode (bs : List Nat) : Option Str := decodeLoop (bs.length + 1) bs

/-- `.encode('utf-16-le', 'surrogatepass').decode('utf-16-le', 'surrogatepass')`: a high surrogate followed by a low surrogate
becomes the code point they encode; lone surrogates stay -/
def recombine : Str → Str
  | [] => []
  | [c] => [c]
  | h :: l :: r =>
    if 55296 ≤ h ∧ h < 56320 ∧ 56320 ≤ l ∧ l < 57344 then (65536 + (h - 55296) * 1024 + (l - 56320)) :: recombine r
    else h :: recombine (l :: r)

/-- `unescape_parsable(s)` -/
def unescapeParsable (s : Str) : Option Str := ((utf8 (unreplaceBacktick s)).bind unicodeEscapeDecode).map recombine

/-! ## `escape_id` / `escape_str` (utils/misc.py) -/

/-- upper-case hexadecimal digit -/
def hexDigitU (d : Nat) : Nat := if d < 10 then 48 + d else 55 + d

/-- digits of `"{0:X}".format(n)`, most significant first (fuel `n + 1` is never exhausted) -/
def upperHexAux : Nat → Nat → Str → Str
  | 0, _, acc => acc
  | f + 1, n, acc => if n < 16 then hexDigitU n :: acc else upperHexAux f (n / 16) (hexDigitU (n % 16) :: acc)

/-- `upper_hex(n, 4)` = `"{0:04X}".format(n)`: at least four digits, more when `n > 0xFFFF` -/
def upperHex4 (n : Nat) : Str :=
  let d := upperHexAux (n + 1) n []
  List.replicate (4 - d.length) 48 ++ d

/-- one character of `escape_str(s, backticked=True)` -/
def escapeStrChar (c : Nat) : Str :=
  if c > 65535 then
    92 :: 117 :: (upperHex4 (55296 + (c - 65536) / 1024) ++ 92 :: 117 :: upperHex4 (56320 + (c - 65536) % 1024))
  else if c > 127 then 92 :: 117 :: upperHex4 c
  else if c < 32 then
    if c = 8 then cp% "\\b" else if c = 10 then cp% "\\n" else if c = 9 then cp% "\\t"
    else if c = 12 then cp% "\\f" else if c = 13 then cp% "\\r"
    else 92 :: 117 :: upperHex4 c                     -- "\\u00" + upper_hex / "\\u000" + upper_hex
  else if c = 34 then [34]                            -- backticked: '"' stays
  else if c = 96 then cp% "\\`"
  else if c = 92 then cp% "\\\\"
  else [c]

/-- `re.fullmatch(r'[_a-zA-Z][_a-zA-Z0-9]*', s)` -/
def isPlainId : Str → Bool
  | [] => false
  | c :: r => (c == 95 || asciiLetter c) && r.all asciiWord

/-- `escape_id(s)` -/
def escapeId (s : Str) : Str :=
  if isPlainId s then s else 96 :: (s.flatMap escapeStrChar ++ [96])

/-! ## Types and their printed forms -/

/-- `hail.expr.types`: the concrete types a value can have (`tvariable` is a signature pattern, not a type) -/
inductive HType where
  | void | int32 | int64 | float32 | float64 | bool | call | str | rngState
  | locus (rg : Str)
  | array (t : HType)
  | ndarray (t : HType) (ndim : Nat)
  | set (t : HType)
  | stream (t : HType)
  | dict (k v : HType)
  | struct (fields : List (Str × HType))
  | tuple (types : List HType)
  | interval (point : HType)
deriving Repr, Inhabited

/-- decimal digits (fuel `n + 1` is never exhausted) -/
def natDigitsAux : Nat → Nat → Str → Str
  | 0, _, acc => acc
  | f + 1, n, acc => if n < 10 then (48 + n) :: acc else natDigitsAux f (n / 10) ((48 + n % 10) :: acc)

/-- `str(n)` -/
def natDigits (n : Nat) : Str := natDigitsAux (n + 1) n []

mutual
/-- `HailType.__str__` -/
def str (cc : Classes) : HType → Str
  | .void => cp% "void"
  | .int32 => cp% "int32"
  | .int64 => cp% "int64"
  | .float32 => cp% "float32"
  | .float64 => cp% "float64"
  | .bool => cp% "bool"
  | .call => cp% "call"
  | .str => cp% "str"
  | .rngState => cp% "rng_state"
  | .locus rg => cp% "locus<" ++ escapeParsable rg ++ cp% ">"
  | .array t => cp% "array<" ++ str cc t ++ cp% ">"
  | .ndarray t n => cp% "ndarray<" ++ str cc t ++ cp% ", " ++ natDigits n ++ cp% ">"
  | .set t => cp% "set<" ++ str cc t ++ cp% ">"
  | .stream t => cp% "stream<" ++ str cc t ++ cp% ">"
  | .dict k v => cp% "dict<" ++ str cc k ++ cp% ", " ++ str cc v ++ cp% ">"
  | .struct fs => cp% "struct{" ++ strFields cc fs ++ cp% "}"
  | .tuple ts => cp% "tuple(" ++ strTypes cc ts ++ cp% ")"
  | .interval t => cp% "interval<" ++ str cc t ++ cp% ">"
/-- `', '.join('{}: {}'.format(escape_parsable(f), str(t)) for f, t in self.items())` -/
def strFields (cc : Classes) : List (Str × HType) → Str
  | [] => []
  | [(n, t)] => escapeParsable n ++ cp% ": " ++ str cc t
  | (n, t) :: f :: r => escapeParsable n ++ cp% ": " ++ str cc t ++ cp% ", " ++ strFields cc (f :: r)
/-- `", ".join([str(t) for t in self.types])` -/
def strTypes (cc : Classes) : List HType → Str
  | [] => []
  | [t] => str cc t
  | t :: u :: r => str cc t ++ cp% ", " ++ strTypes cc (u :: r)
end

mutual
/-- `HailType._parsable_string` (the form sent to the engine inside IR text) -/
def parsable (cc : Classes) : HType → Str
  | .void => cp% "Void"
  | .int32 => cp% "Int32"
  | .int64 => cp% "Int64"
  | .float32 => cp% "Float32"
  | .float64 => cp% "Float64"
  | .bool => cp% "Boolean"
  | .call => cp% "Call"
  | .str => cp% "String"
  | .rngState => cp% "RNGState"
  | .locus rg => cp% "Locus(" ++ escapeParsable rg ++ cp% ")"
  | .array t => cp% "Array[" ++ parsable cc t ++ cp% "]"
  | .ndarray t n => cp% "NDArray[" ++ parsable cc t ++ cp% "," ++ natDigits n ++ cp% "]"
  | .set t => cp% "Set[" ++ parsable cc t ++ cp% "]"
  | .stream t => cp% "Stream[" ++ parsable cc t ++ cp% "]"
  | .dict k v => cp% "Dict[" ++ parsable cc k ++ cp% "," ++ parsable cc v ++ cp% "]"
  | .struct fs => cp% "Struct{" ++ parsableFields cc fs ++ cp% "}"
  | .tuple ts => cp% "Tuple[" ++ parsableTypes cc ts ++ cp% "]"
  | .interval t => cp% "Interval[" ++ parsable cc t ++ cp% "]"
def parsableFields (cc : Classes) : List (Str × HType) → Str
  | [] => []
  | [(n, t)] => escapeParsable n ++ cp% ":" ++ parsable cc t
  | (n, t) :: f :: r => escapeParsable n ++ cp% ":" ++ parsable cc t ++ cp% "," ++ parsableFields cc (f :: r)
def parsableTypes (cc : Classes) : List HType → Str
  | [] => []
  | [t] => parsable cc t
  | t :: u :: r => parsable cc t ++ cp% "," ++ parsableTypes cc (u :: r)
end

/-! ## `dtype`: the PEG `type_grammar` and the visitor `TypeConstructor`, fused

A PEG expression at a position has at most one result, so each rule is a function `Str → Option (value × rest)`;
sequence is `bind`, ordered choice `a / b` is `a <|> b`, regex tokens are greedy scanners.  `none` = the real `dtype` raises
(`ParseError`, or `VisitationError` when an escaped identifier does not decode). -/

/-- a string literal of the grammar -/
def pLit : Str → Str → Option Str
  | [], s => some s
  | _ :: _, [] => none
  | a :: l, b :: s => if a = b then pLit l s else none

/-- `("tfoo" / "foo")` -/
def pLit2 (a b : Str) (s : Str) : Option Str := (pLit a s).orElse fun _ => pLit b s

/-- `_ = ~r"\s*"` -/
def skipWs (cc : Classes) : Str → Str
  | [] => []
  | c :: r => if cc.isSpace c then skipWs cc r else c :: r

/-- `~r"\w+"` without the non-emptiness check: (matched, rest) -/
def spanWord (cc : Classes) : Str → Str × Str
  | [] => ([], [])
  | c :: r => if cc.isWord c then let (w, r') := spanWord cc r; (c :: w, r') else ([], c :: r)

/-- `simple_identifier = ~r"\w+"` -/
def pSimpleIdentifier (cc : Classes) (s : Str) : Option (Str × Str) :=
  match spanWord cc s with
  | ([], _) => none
  | (w, r) => some (w, r)

/-- the regex ``([^`\\]|\\.)*` `` after the opening backtick: (text between the backticks, rest after the closing one).
The two alternatives are exclusive on their first character and no iteration starts with a backtick, so the
backtracking matcher finds exactly this left-to-right scan. `.` does not match a newline. -/
def scanEscaped : Str → Option (Str × Str)
  | [] => none
  | [c] => if c = 96 then some ([], []) else none
  | c :: d :: r =>
    if c = 96 then some ([], d :: r)
    else if c = 92 then
      if d = 10 then none else (scanEscaped r).map fun (b, r') => (92 :: d :: b, r')
    else (scanEscaped (d :: r)).map fun (b, r') => (c :: b, r')

/-- ``escaped_identifier = ~"`([^`\\\\]|\\\\.)*`"`` + `visit_escaped_identifier`: `unescape_parsable(node.text[1:-1])` -/
def pEscapedIdentifier : Str → Option (Str × Str)
  | 96 :: s => match scanEscaped s with
    | some (body, r) => (unescapeParsable body).map fun n => (n, r)
    | none => none
  | _ => none

/-- `identifier = _ (simple_identifier / escaped_identifier) _` -/
def pIdentifier (cc : Classes) (s : Str) : Option (Str × Str) :=
  match (pSimpleIdentifier cc (skipWs cc s)).orElse fun _ => pEscapedIdentifier (skipWs cc s) with
  | some (n, r) => some (n, skipWs cc r)
  | none => none

/-- `~"[0-9]+"` + `int(node.text)` -/
def spanDigits : Str → Nat → Nat × Str
  | [], acc => (acc, [])
  | c :: r, acc => if asciiDigit c then spanDigits r (acc * 10 + (c - 48)) else (acc, c :: r)

/-- `nat = _ (nat_literal / nat_variable) _` (`?nat` is outside the model) -/
def pNat (cc : Classes) (s : Str) : Option (Nat × Str) :=
  match skipWs cc s with
  | c :: r => if asciiDigit c then let (n, r') := spanDigits (c :: r) 0; some (n, skipWs cc r') else none
  | [] => none

/-- `dict(fields)` as used by `tstruct(**dict(fields))`: a later duplicate key overwrites the value in place -/
def dictSet : List (Str × HType) → Str → HType → List (Str × HType)
  | [], n, t => [(n, t)]
  | (m, u) :: r, n, t => if m = n then (m, t) :: r else (m, u) :: dictSet r n t

def dictOf (fs : List (Str × HType)) : List (Str × HType) := fs.foldl (fun d (p : Str × HType) => dictSet d p.1 p.2) []

section
variable (cc : Classes) (rec : Str → Option (HType × Str))

/-- `"<" type ">"` after the keyword -/
def pAngle1 (s : Str) : Option (HType × Str) :=
  match pLit (cp% "<") (skipWs cc s) with
  | some s1 => match rec s1 with
    | some (t, s2) => (pLit (cp% ">") s2).map fun s3 => (t, s3)
    | none => none
  | none => none

/-- `field = identifier ":" type` -/
def pField (s : Str) : Option ((Str × HType) × Str) :=
  match pIdentifier cc s with
  | some (n, s1) => match pLit (cp% ":") s1 with
    | some s2 => (rec s2).map fun (t, s3) => ((n, t), s3)
    | none => none
  | none => none

/-- `("," field)*` (an iteration that fails part-way is undone) -/
def pFieldsLoop : Nat → Str → List (Str × HType) × Str
  | 0, s => ([], s)
  | k + 1, s => match pLit (cp% ",") s with
    | some s1 => match pField cc rec s1 with
      | some (f, s2) => let (more, s3) := pFieldsLoop k s2; (f :: more, s3)
      | none => ([], s)
    | none => ([], s)

/-- `("," type)*` -/
def pTypesLoop : Nat → Str → List HType × Str
  | 0, s => ([], s)
  | k + 1, s => match pLit (cp% ",") s with
    | some s1 => match rec s1 with
      | some (t, s2) => let (more, s3) := pTypesLoop k s2; (t :: more, s3)
      | none => ([], s)
    | none => ([], s)

/-- `struct = ("tstruct" / "struct") _ "{" (fields / _) "}"` + `visit_struct` -/
def pStruct (k : Nat) (s : Str) : Option (HType × Str) :=
  match pLit2 (cp% "tstruct") (cp% "struct") s with
  | some s0 => match pLit (cp% "{") (skipWs cc s0) with
    | some s1 =>
      match pField cc rec s1 with
      | some (f, s2) =>
        let (more, s3) := pFieldsLoop cc rec k s2
        (pLit (cp% "}") s3).map fun s4 => (.struct (dictOf (f :: more)), s4)
      | none => (pLit (cp% "}") (skipWs cc s1)).map fun s4 => (.struct [], s4)
    | none => none
  | none => none

/-- `tuple = ("ttuple" / "tuple") _ "(" ((type ("," type)*) / _) ")"` + `visit_tuple` -/
def pTuple (k : Nat) (s : Str) : Option (HType × Str) :=
  match pLit2 (cp% "ttuple") (cp% "tuple") s with
  | some s0 => match pLit (cp% "(") (skipWs cc s0) with
    | some s1 =>
      match rec s1 with
      | some (t, s2) =>
        let (more, s3) := pTypesLoop rec k s2
        (pLit (cp% ")") s3).map fun s4 => (.tuple (t :: more), s4)
      | none => (pLit (cp% ")") (skipWs cc s1)).map fun s4 => (.tuple [], s4)
    | none => none
  | none => none

/-- `dict = ("tdict" / "dict") _ "<" type "," type ">"` -/
def pDict (s : Str) : Option (HType × Str) :=
  match pLit2 (cp% "tdict") (cp% "dict") s with
  | some s0 => match pLit (cp% "<") (skipWs cc s0) with
    | some s1 => match rec s1 with
      | some (k, s2) => match pLit (cp% ",") s2 with
        | some s3 => match rec s3 with
          | some (v, s4) => (pLit (cp% ">") s4).map fun s5 => (.dict k v, s5)
          | none => none
        | none => none
      | none => none
    | none => none
  | none => none

/-- `ndarray = ("tndarray" / "ndarray") _ "<" type "," nat ">"` -/
def pNDArray (s : Str) : Option (HType × Str) :=
  match pLit2 (cp% "tndarray") (cp% "ndarray") s with
  | some s0 => match pLit (cp% "<") (skipWs cc s0) with
    | some s1 => match rec s1 with
      | some (t, s2) => match pLit (cp% ",") s2 with
        | some s3 => match pNat cc s3 with
          | some (n, s4) => (pLit (cp% ">") s4).map fun s5 => (.ndarray t n, s5)
          | none => none
        | none => none
      | none => none
    | none => none
  | none => none

/-- `locus = ("tlocus" / "locus") _ "<" identifier ">"` (the visitor looks the name up with `hl.get_reference`; the
model assumes it is registered) -/
def pLocus (s : Str) : Option (HType × Str) :=
  match pLit2 (cp% "tlocus") (cp% "locus") s with
  | some s0 => match pLit (cp% "<") (skipWs cc s0) with
    | some s1 => match pIdentifier cc s1 with
      | some (n, s2) => (pLit (cp% ">") s2).map fun s3 => (.locus n, s3)
      | none => none
    | none => none
  | none => none

/-- a keyword-only rule such as `int32 = "int32" / "tint32" / "int" / "tint"` -/
def pKeyword (alts : List Str) (t : HType) (s : Str) : Option (HType × Str) :=
  match alts with
  | [] => none
  | a :: more => match pLit a s with
    | some r => some (t, r)
    | none => pKeyword more t s

/-- ordered choice `a / b / …` -/
def firstOf {α : Type} : List (Str → Option α) → Str → Option α
  | [], _ => none
  | p :: more, s => match p s with
    | some r => some r
    | none => firstOf more s

/-- `("tfoo" / "foo") _ "<" type ">"` -/
def pUnary (a b : Str) (mk : HType → HType) (s : Str) : Option (HType × Str) :=
  match pLit2 a b s with
  | some s0 => (pAngle1 cc rec s0).map fun (t, r) => (mk t, r)
  | none => none

/-- the ordered choice inside `type` (the final alternative `variable` is outside the model) -/
def pAlternatives (k : Nat) : Str → Option (HType × Str) :=
  firstOf [
    pUnary cc rec (cp% "tarray") (cp% "array") .array,
    pKeyword [cp% "tbool", cp% "bool"] .bool,
    pKeyword [cp% "tcall", cp% "call"] .call,
    pDict cc rec,
    pUnary cc rec (cp% "tinterval") (cp% "interval") .interval,
    pKeyword [cp% "int64", cp% "tint64"] .int64,
    pKeyword [cp% "int32", cp% "tint32", cp% "int", cp% "tint"] .int32,
    pKeyword [cp% "float32", cp% "tfloat32"] .float32,
    pKeyword [cp% "float64", cp% "tfloat64", cp% "tfloat", cp% "float"] .float64,
    pLocus cc,
    pNDArray cc rec,
    pKeyword [cp% "rng_state"] .rngState,
    pUnary cc rec (cp% "tset") (cp% "set") .set,
    pUnary cc rec (cp% "tstream") (cp% "stream") .stream,
    pStruct cc rec k,
    pKeyword [cp% "tstr", cp% "str"] .str,
    pTuple cc rec k,
    pKeyword [cp% "void", cp% "tvoid"] .void]

end

/-- `type = _ ( array / bool / … / void / variable ) _`; the fuel bounds the nesting depth and the repetition counts
(`dtype` uses input length + 1, which is never exhausted) -/
def pType (cc : Classes) : Nat → Str → Option (HType × Str)
  | 0, _ => none
  | f + 1, s => match pAlternatives cc (pType cc f) f (skipWs cc s) with
    | some (t, r) => some (t, skipWs cc r)
    | none => none

/-- `dtype(s)`: the whole text must be consumed -/
def dtype (cc : Classes) (s : Str) : Option HType :=
  match pType cc (s.length + 1) s with
  | some (t, []) => some t
  | _ => none

/-! ## Well-formed types: what Python can construct -/

/-- a Python `str` of Unicode scalar values: every element is a code point and none is a surrogate (a name with two adjacent
lone surrogates would be read back as one astral character) -/
def ValidStr (s : Str) : Prop := ∀ c ∈ s, c < 1114112 ∧ ¬ (55296 ≤ c ∧ c < 57344)

mutual
/-- names are Python strings and the field names of a struct are distinct (`tstruct(**field_types)`) -/
def WF : HType → Prop
  | .array t | .ndarray t _ | .set t | .stream t | .interval t => WF t
  | .dict k v => WF k ∧ WF v
  | .locus rg => ValidStr rg
  | .struct fs => (fs.map Prod.fst).Nodup ∧ WFFields fs
  | .tuple ts => WFTypes ts
  | _ => True
def WFFields : List (Str × HType) → Prop
  | [] => True
  | (n, t) :: r => ValidStr n ∧ WF t ∧ WFFields r
def WFTypes : List HType → Prop
  | [] => True
  | t :: r => WF t ∧ WFTypes r
end

end HailVerif.TypeStr

/-!
# Model of the GVCF/VDS combiner's planning code (C38)

* Part A — `hail/python/hail/vds/combiner/combine.py`: `calculate_even_genome_partitioning.calc_parts`
* Part B — `hail/python/hail/vds/combiner/variant_dataset_combiner.py`:
  `VariantDatasetCombiner.__init__` (binning of the input datasets), `finished`, `step`, `_step_gvcfs`,
  `_step_vdses`, `to_dict`/`save` + `Decoder`/`load` (on the planning fields)

The engine work (reading, merging, writing datasets) is abstracted to *which inputs a dataset is built from*:
a dataset is `DS.mk leaves n` where `leaves` are the ids of the original GVCF/VDS inputs merged into it, in merge
order, and `n` is its `n_samples`.

`floor(log(n_samples, branch_factor))` is a floating-point expression in the real code; the model takes it as a
parameter `flog : Nat → Nat` and every theorem holds for every `flog` (so for whatever the float computation yields).
-/
namespace HailVerif.Combiner

/-! ## Part A — even genome partitioning of one contig -/

/-- `math.ceil(a / b)` for positive `b` (the float division is exact enough below `2^53`, see Props/C38) -/
def ceilDiv (a b : Nat) : Nat := (a + b - 1) / b

/-- the `while n <= contig_length` loop of `calc_parts`; `fuel` bounds the iterations (`contig_length` suffices
because every iteration advances `n` by `real_size ≥ 1`; `Props/C38.partition_tiles` shows the loop ends by itself) -/
def partLoop (L realSize : Nat) : Nat → Nat → List (Nat × Nat)
  | 0, _ => []
  | fuel + 1, n =>
    if n ≤ L then
      let e := min (n + realSize - 1) L
      (n, e) :: partLoop L realSize fuel (e + 1)
    else []

/-- `calc_parts(contig)` for a contig of length `L`: inclusive `(start, end)` pairs.
`none` = `ZeroDivisionError` (`interval_size = 0`, or `contig_length = 0` which makes `n_parts = 0`). -/
def evenPartition (L size : Nat) : Option (List (Nat × Nat)) :=
  if size = 0 then none
  else
    let nParts := ceilDiv L size
    if nParts = 0 then none
    else
      let realSize := ceilDiv L nParts
      some (partLoop L realSize L 1)

/-- the arithmetic before the repair (`while n < contig_length`, `end = min(n + real_size, contig_length)`),
kept to document the defect that was fixed in the repository -/
def partLoopOld (L realSize : Nat) : Nat → Nat → List (Nat × Nat)
  | 0, _ => []
  | fuel + 1, n =>
    if n < L then
      let e := min (n + realSize) L
      (n, e) :: partLoopOld L realSize fuel (e + 1)
    else []

def evenPartitionOld (L size : Nat) : Option (List (Nat × Nat)) :=
  if size = 0 then none
  else
    let nParts := ceilDiv L size
    if nParts = 0 then none
    else some (partLoopOld L (ceilDiv L nParts) L 1)

/-! ## Part B — the merge plan -/

/-- a dataset: the original inputs it is built from (in merge order) and its `n_samples` (`VDSMetadata`) -/
structure DS where
  leaves : List Nat
  n : Nat
deriving DecidableEq, Repr

/-- the planning fields of `VariantDatasetCombiner`.
`vdses` is the `defaultdict(list)` `_vdses` as the list of `(bin, dataset)` pairs in insertion order: the list of
bin `b` is the sub-list of entries with key `b` (appending to a bin = appending a pair; a bin exists iff it has an
entry — the real code deletes a bin when it empties it). `finals` = datasets written to `output_path`. -/
structure Plan where
  gvcfs : List Nat
  names : Option (List Nat)
  vdses : List (Nat × DS)
  bf : Nat
  batch : Nat
  finals : List DS
deriving DecidableEq, Repr

/-- `max(1, floor(log(n_samples, branch_factor)))` -/
def natBin (flog : Nat → Nat) (n : Nat) : Nat := max 1 (flog n)

/-- `gvcf_sample_names is None or len(gvcf_sample_names) == len(gvcfs)` -/
def namesOk (names : Option (List Nat)) (n : Nat) : Bool :=
  match names with
  | some ns => ns.length == n
  | none => true

/-- `__init__`: `branch_factor < 2` / `gvcf_batch_size < 1` / mismatching `gvcf_sample_names` raise `ValueError`;
the input datasets are binned in the given order. -/
def mkPlan (flog : Nat → Nat) (gvcfs : List Nat) (names : Option (List Nat)) (vdses : List DS) (bf batch : Nat) :
    Option Plan :=
  if bf < 2 ∨ batch < 1 then none
  else if !namesOk names gvcfs.length then none
  else some { gvcfs, names, vdses := vdses.map fun d => (natBin flog d.n, d), bf, batch, finals := [] }

/-- `finished`: `not self._gvcfs and not self._vdses` -/
def finished (s : Plan) : Bool := s.gvcfs.isEmpty && s.vdses.isEmpty

/-- `min(self._vdses)` -/
def minBin : List (Nat × DS) → Option Nat
  | [] => none
  | (k, _) :: t => match minBin t with
    | none => some k
    | some m => some (min k m)

/-- remove the first `m` entries of bin `b`: `(self._vdses[b][:m], what is left)` -/
def takeFront (b : Nat) : Nat → List (Nat × DS) → List DS × List (Nat × DS)
  | _, [] => ([], [])
  | m, (k, d) :: t =>
    if k = b ∧ 0 < m then
      let r := takeFront b (m - 1) t
      (d :: r.1, r.2)
    else
      let r := takeFront b m t
      (r.1, (k, d) :: r.2)

/-- remove the last `m` entries of bin `b`: `(self._vdses[b][-m:], what is left)` (`m > 0`) -/
def takeBack (b m : Nat) (l : List (Nat × DS)) : List DS × List (Nat × DS) :=
  let r := takeFront b m l.reverse
  (r.1.reverse, r.2.reverse)

/-- `range(0, len(l), k)` slices; `fuel = len(l)` suffices for `k ≥ 1` -/
def chunksAux {α : Type} (k : Nat) : Nat → List α → List (List α)
  | 0, _ => []
  | _ + 1, [] => []
  | fuel + 1, l => l.take k :: chunksAux k fuel (l.drop k)

def chunks {α : Type} (k : Nat) (l : List α) : List (List α) := chunksAux k l.length l

/-- `_step_gvcfs`: the first `gvcf_batch_size * branch_factor` GVCFs are merged `branch_factor` at a time; the single
result is the final dataset when nothing else is left, otherwise the results join their natural bins. -/
def stepGvcfs (flog : Nat → Nat) (s : Plan) : Plan :=
  let m := s.batch * s.bf
  let files := s.gvcfs.take m
  let rest := s.gvcfs.drop m
  let names' := s.names.map (·.drop m)
  let merged := (chunks s.bf files).map fun c => DS.mk c c.length
  if rest.isEmpty && s.vdses.isEmpty && merged.length == 1 then
    { s with gvcfs := rest, names := names', finals := s.finals ++ merged }
  else
    { s with gvcfs := rest, names := names', vdses := s.vdses ++ merged.map fun d => (natBin flog d.n, d) }

/-- the `while self._num_vdses > 0 and remaining > 0` loop of `_step_vdses`: top up from the *end* of the smallest
remaining bin, prepending. `fuel = branch_factor` iterations suffice (every iteration adds at least one file). -/
def pullLoop (bf : Nat) : Nat → List DS → List (Nat × DS) → List DS × List (Nat × DS)
  | 0, files, rest => (files, rest)
  | fuel + 1, files, rest =>
    let remaining := bf - files.length
    if !rest.isEmpty && 0 < remaining then
      match minBin rest with
      | none => (files, rest)
      | some b =>
        let r := takeBack b remaining rest
        pullLoop bf fuel (r.1 ++ files) r.2
    else (files, rest)

/-- `_step_vdses` -/
def stepVdses (flog : Nat → Nat) (s : Plan) : Plan :=
  match minBin s.vdses with
  | none => s     -- `min()` of an empty dict raises; `step` never calls `_step_vdses` then
  | some b0 =>
    let r := takeFront b0 s.bf s.vdses
    let r := pullLoop s.bf s.bf r.1 r.2
    let files := r.1
    let rest := r.2
    let newN := (files.map (·.n)).sum
    let combined := DS.mk (files.flatMap (·.leaves)) newN
    if s.gvcfs.isEmpty && rest.isEmpty then      -- `if self.finished: self._write_final(combined); return`
      { s with vdses := rest, finals := s.finals ++ [combined] }
    else
      let nb := flog newN
      let nb := if nb ≤ b0 then b0 + 1 else nb
      { s with vdses := rest ++ [(nb, combined)] }

/-- `step` (the `_job_id` counter only names temporary paths and is not modelled) -/
def step (flog : Nat → Nat) (s : Plan) : Plan :=
  if finished s then s
  else if !s.gvcfs.isEmpty then stepGvcfs flog s
  else stepVdses flog s

/-- `_gvcf_merge_task_limit` -/
def mergeTaskLimit : Nat := 150000

/-- the public `gvcf_batch_size` setter: `if value * len(intervals) > limit: value = max(1, limit // len(intervals))`
(`nIv` = `len(self._gvcf_import_intervals)`; the constructor does *not* go through it, it writes `_gvcf_batch_size`) -/
def clampBatch (nIv value : Nat) : Nat :=
  if value * nIv > mergeTaskLimit then max 1 (mergeTaskLimit / nIv) else value

/-- the setter before the repair 79521ff4e (`value = limit // len(intervals)`, no lower bound), kept to document the defect -/
def clampBatchOld (nIv value : Nat) : Nat :=
  if value * nIv > mergeTaskLimit then mergeTaskLimit / nIv else value

/-- `combiner.gvcf_batch_size = value` -/
def setBatch (nIv value : Nat) (s : Plan) : Plan := { s with batch := clampBatch nIv value }

/-- stable insertion by descending bin: after every entry whose bin is `≥` -/
def insertDesc (x : Nat × DS) : List (Nat × DS) → List (Nat × DS)
  | [] => [x]
  | y :: t => if x.1 ≤ y.1 then y :: insertDesc x t else x :: y :: t

/-- `[md for i in sorted(self._vdses, reverse=True) for md in self._vdses[i]]` (`to_dict`) -/
def sortDesc (l : List (Nat × DS)) : List (Nat × DS) := l.foldl (fun acc x => insertDesc x acc) []

/-- `load(save(s))` on the planning fields: `to_dict` flattens the bins in descending order and the constructor
re-bins every dataset into its *natural* bin (the bump `new_bin = original_bin + 1` of `_step_vdses` is not stored). -/
def reload (flog : Nat → Nat) (s : Plan) : Plan :=
  { s with vdses := (sortDesc s.vdses).map fun p => (natBin flog p.2.n, p.2) }

/-- every original input still in the plan or already in the output, with multiplicity -/
def allLeaves (s : Plan) : List Nat :=
  s.gvcfs ++ s.vdses.flatMap (·.2.leaves) ++ s.finals.flatMap (·.leaves)

/-- total number of samples accounted for -/
def totalN (s : Plan) : Nat :=
  s.gvcfs.length + (s.vdses.map (·.2.n)).sum + (s.finals.map (·.n)).sum

/-- termination measure -/
def planMeasure (s : Plan) : Nat := 2 * s.gvcfs.length + s.vdses.length

/-- the constructor's guarantees that `step` relies on -/
def WF (s : Plan) : Prop := 2 ≤ s.bf ∧ 1 ≤ s.batch

/-- `n` steps, reloading (save → load) before step `i` when `resume i` -/
def runWith (flog : Nat → Nat) (resume : Nat → Bool) : Nat → Nat → Plan → Plan
  | 0, _, s => s
  | n + 1, i, s => runWith flog resume n (i + 1) (step flog (if resume i then reload flog s else s))

/-! ### the import intervals in the saved plan

`to_dict` stores `gvcf_import_intervals` through `tarray(tinterval(tlocus(rg)))._convert_to_json`, `Decoder` reads them
back with `_convert_from_json` (types.py: `tinterval`, `tlocus`). -/

/-- `hl.Interval` of two `hl.Locus` (contigs as indices into the reference genome's contig list) -/
structure Iv where
  startContig : Nat
  startPos : Nat
  endContig : Nat
  endPos : Nat
  includesStart : Bool
  includesEnd : Bool
deriving DecidableEq, Repr

/-- the JSON object `{"start": {"contig", "position"}, "end": {"contig", "position"}, "includeStart", "includeEnd"}` -/
structure IvJson where
  start : Nat × Nat
  stop : Nat × Nat
  includeStart : Bool
  includeEnd : Bool
deriving DecidableEq, Repr

/-- `tinterval._convert_to_json` -/
def encodeIv (i : Iv) : IvJson :=
  { start := (i.startContig, i.startPos), stop := (i.endContig, i.endPos),
    includeStart := i.includesStart, includeEnd := i.includesEnd }

/-- `tinterval._convert_from_json`: `Interval(start, end, includes_start=x['includeStart'], includes_end=x['includeEnd'])` -/
def decodeIv (j : IvJson) : Iv :=
  { startContig := j.start.1, startPos := j.start.2, endContig := j.stop.1, endPos := j.stop.2,
    includesStart := j.includeStart, includesEnd := j.includeEnd }

/-- the intervals of `load(save(combiner))` -/
def reloadIntervals (ivs : List Iv) : List Iv := (ivs.map encodeIv).map decodeIv

/-- the closed interval `[s, e]` of contig `c`, as `calculate_even_genome_partitioning` builds it -/
def closedIv (c : Nat) (p : Nat × Nat) : Iv := ⟨c, p.1, c, p.2, true, true⟩

/-- base `p` of contig `c` lies in the interval (honouring the two `includes_*` flags) -/
def Iv.covers (i : Iv) (c p : Nat) : Bool :=
  i.startContig == c && i.endContig == c &&
    (if i.includesStart then decide (i.startPos ≤ p) else decide (i.startPos < p)) &&
    (if i.includesEnd then decide (p ≤ i.endPos) else decide (p < i.endPos))

/-! ### `run()` with failures inside steps

`run()` is `while not self.finished: self.save(); self.step()` followed by a last `save()`.  A step removes its inputs
from the in-memory plan before the merged dataset is written and registered, so an exception (or Ctrl-C) inside
`step()` leaves a half-updated plan **in memory only**: the plan on disk is the one saved just before the step.  The
user restarts with `load(save_path)` and calls `run()` again. -/

/-- how one iteration of the loop ends -/
inductive Outcome where
  | done      -- `step()` returned
  | fault     -- an engine call inside `step()` raised; the process is restarted from the saved plan
deriving DecidableEq, Repr

/-- the in-memory plan and the plan stored at `save_path` -/
structure RunSt where
  mem : Plan
  saved : Plan

/-- one iteration: `self.save()` then `self.step()`; on a fault the in-memory state is lost and the restarted process
holds `load(save_path)` -/
def iter (flog : Nat → Nat) (o : Outcome) (r : RunSt) : RunSt :=
  match o with
  | .done => { mem := step flog r.mem, saved := r.mem }
  | .fault => { mem := reload flog r.mem, saved := r.mem }

/-- a whole history of iterations (over any number of restarts) -/
def runFaulty (flog : Nat → Nat) : List Outcome → RunSt → RunSt
  | [], r => r
  | o :: os, r => runFaulty flog os (iter flog o r)

/-! ### executable floor-log for the driver (no theorem depends on it) -/

def ilogAux (b : Nat) : Nat → Nat → Nat
  | 0, _ => 0
  | fuel + 1, n => if n < b then 0 else 1 + ilogAux b fuel (n / b)

/-- exact `⌊log_b n⌋` for `b ≥ 2`, `n ≥ 1` -/
def ilog (b n : Nat) : Nat := ilogAux b n n

/-- the float `floor(log(n, b))`: exact value except at the listed anomalies (measured on the Python side) -/
def flogWith (anomalies : List (Nat × Nat)) (b n : Nat) : Nat :=
  match anomalies.lookup n with
  | some v => v
  | none => ilog b n

end HailVerif.Combiner

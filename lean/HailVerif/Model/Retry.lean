/-
Model of the retry policy of hail/python/hailtop/utils/utils.py: `is_limited_retries_error`, `is_rate_limit_error`,
`is_transient_error`, `delay_ms_for_try`, and the loop of `retry_transient_errors_with_debug_string` (which
`retry_transient_errors` and `retry_transient_errors_with_delayed_warnings` call).

An exception is a tree of descriptors: the facts about one exception object that the classifiers test (`isinstance` results and
the attributes they read), its `os_error` (only `aiohttp.ClientConnectorError` has one) and its `__cause__`.  `__context__` is
not followed by the code and is not part of the model.  The classifiers copy the branch order of the Python functions; the
literal tables (`RETRYABLE_HTTP_STATUS_CODES`, `RETRYABLE_ERRNOS` with their Linux numbers, `tries <= 5`, `1 << min(tries, 30)`,
1 000 ms / 60 000 ms) are the code's definition of "transient" — the correspondence check is what detects an edit.
Branches testing classes of libraries that are absent from the sandbox (aiodocker, urllib3, requests, botocore) are not modelled:
no exception is an instance of those classes.
-/
namespace HailVerif.Retry

/-- the `args` of an `aiohttp.ClientPayloadError`, as far as `is_transient_error` looks at them -/
inductive PayloadMsg where
  /-- `e.args == ()` (constructed without a message) -/
  | noArgs
  /-- `e.args[0]` is not a `str` (`None`, a number, bytes, …) -/
  | notStr
  /-- `e.args[0]` is a `str`; does it contain "Response payload is not completed"? -/
  | text (notCompleted : Bool)
  deriving DecidableEq, Repr

/-- what the classifiers can observe about one exception object -/
structure Desc where
  /-- `isinstance(e, aiohttp.ClientResponseError)` → `e.status` (hailtop.httpx.ClientResponseError is a subclass) -/
  aiohttpStatus : Option Nat
  /-- `isinstance(e, hailtop.httpx.ClientResponseError)` → `e.status` -/
  httpxStatus : Option Nat
  /-- `'rateLimitExceeded' in e.body` -/
  bodyRateLimit : Bool
  /-- `any(msg in e.body for msg in RETRY_ONCE_BAD_REQUEST_ERROR_MESSAGES)` -/
  bodyRetryOnce : Bool
  /-- `isinstance(e, GCPOperationError) and e.error_codes is not None and 'QUOTA_EXCEEDED' in e.error_codes` -/
  gcpQuotaExceeded : Bool
  /-- `isinstance(e, aiohttp.ServerTimeoutError)` -/
  serverTimeout : Bool
  /-- `isinstance(e, aiohttp.ServerDisconnectedError)` -/
  serverDisconnected : Bool
  /-- `isinstance(e, asyncio.TimeoutError)` (= builtin `TimeoutError` = `socket.timeout`) -/
  timeoutError : Bool
  /-- `isinstance(e, aiohttp.ClientConnectorError)` -/
  connector : Bool
  /-- `isinstance(e, aiohttp.ClientPayloadError)` → the shape of its message -/
  payload : Option PayloadMsg
  /-- `isinstance(e, aiohttp.ClientOSError) and e.strerror and 'sslv3 alert bad record mac' in e.strerror` -/
  sslBadRecordMac : Bool
  /-- `isinstance(e, OSError)` → `e.errno` (`none` inside = `errno is None`) -/
  osErrno : Option (Option Int)
  /-- `isinstance(e, socket.gaierror)` -/
  gaierror : Bool
  /-- `isinstance(e, TransientError)` -/
  transientError : Bool
  /-- `isinstance(e, ConnectionResetError)` -/
  connReset : Bool
  /-- `isinstance(e, ConnectionRefusedError)` -/
  connRefused : Bool
  /-- a numeric `Retry-After` header of the failed response (`e.headers['Retry-After']`, seconds), if it carries one.  The code
  does NOT read it: the wait depends only on the number of tries and the random draw (see `C21.every_sleep_within_bounds`) -/
  retryAfter : Option Nat
  deriving DecidableEq, Repr

/-- an exception: `nil` stands for `None` (no `os_error`, no `__cause__`) -/
inductive Exc where
  | nil
  | mk (d : Desc) (osError : Exc) (cause : Exc)
  deriving DecidableEq, Repr

/-- `RETRYABLE_HTTP_STATUS_CODES` (with `HAIL_DONT_RETRY_500` unset) -/
def retryableStatus (s : Nat) : Bool := s == 408 || s == 429 || s == 500 || s == 502 || s == 503 || s == 504

/-- `RETRYABLE_ERRNOS`: EADDRNOTAVAIL 99, ETIMEDOUT 110, ECONNREFUSED 111, EHOSTUNREACH 113, ECONNRESET 104, ENETUNREACH 101,
EPIPE 32 (Linux numbers) -/
def retryableErrno (e : Int) : Bool := e == 99 || e == 110 || e == 111 || e == 113 || e == 104 || e == 101 || e == 32

/-- `e.errno in (socket.EAI_AGAIN, socket.EAI_NONAME)` = (-3, -2) on Linux -/
def gaiRetryable (e : Int) : Bool := e == -3 || e == -2

/-- `is_limited_retries_error` -/
def isLimited : Exc → Bool
  | .nil => false
  | .mk d _ cause =>
    match d.httpxStatus with
    | some st => st == 400 && d.bodyRetryOnce                 -- `return e.status == 400 and any(msg in e.body …)`
    | none =>
      if d.connReset then true
      else if d.connRefused then true
      else isLimited cause                                     -- `if e.__cause__ is not None: return is_limited_retries_error(e.__cause__)`

/-- `is_rate_limit_error` (does not follow `__cause__`) -/
def isRateLimit : Exc → Bool
  | .nil => false
  | .mk d _ _ =>
    if d.aiohttpStatus == some 429 then true
    else match d.httpxStatus with
      | some st => st == 429 || (st == 403 && d.bodyRateLimit)
      | none => false

/-- `is_transient_error` -/
def isTransient : Exc → Bool
  | .nil => false
  | .mk d os cause =>
    if (match d.aiohttpStatus with | some st => retryableStatus st | none => false) then true
    else if d.gcpQuotaExceeded then true
    else if (match d.httpxStatus with | some st => retryableStatus st || (st == 403 && d.bodyRateLimit) | none => false) then true
    else if d.serverTimeout then true
    else if d.serverDisconnected then true
    else if d.timeoutError then true
    else if d.connector && isTransient os then true            -- `isinstance(e, ClientConnectorError) and is_transient_error(e.os_error)`
    else if d.payload == some (.text true) then true         -- `e.args and isinstance(e.args[0], str) and "Response payload is not completed" in e.args[0]`
    else if d.sslBadRecordMac then true
    else if (match d.osErrno with | some (some n) => retryableErrno n | _ => false) then true
    else if d.gaierror && (match d.osErrno with | some (some n) => gaiRetryable n | _ => false) then true
    else if d.transientError then true
    else isTransient cause                                     -- `if e.__cause__ is not None: return is_transient_error(e.__cause__)`

inductive Decision where
  | retry
  | raise
  deriving DecidableEq, Repr

/-- the `except Exception as e:` block of `retry_transient_errors_with_debug_string`, `tries` already incremented -/
def retryStep (tries : Nat) (e : Exc) : Decision :=
  if tries ≤ 5 && isLimited e then .retry
  else if isRateLimit e then .retry
  else if !isTransient e then .raise
  else .retry

/-- `delay_ms_for_try(tries, base_delay_ms, max_delay_ms)`; `r` is the randomness: `random.randrange(k)` returns `r % k` -/
def delayMs (tries base max r : Nat) : Nat :=
  let multiplier := 2 ^ (min tries 30)                         -- `1 << min(tries, LOG_2_MAX_MULTIPLIER)`
  let ceiling := base * multiplier
  let proposed := ceiling / 2 + r % (ceiling / 2 + 1)
  min proposed max

/-- `DEFAULT_BASE_DELAY_MS`, `DEFAULT_MAX_DELAY_MS` -/
def defaultBase : Nat := 1000
def defaultMax : Nat := 60000

/-- what one call of `f` does: raise `e` (and the randomness of the delay that may follow) or return `v` -/
inductive Attempt where
  | fail (e : Exc) (r : Nat)
  | ok (v : Nat)
  deriving DecidableEq, Repr

inductive Result where
  /-- `f` returned `v` on call number `calls`, after these sleeps (ms) -/
  | returned (v : Nat) (calls : Nat) (sleeps : List Nat)
  /-- the exception of call number `calls` was re-raised -/
  | raised (e : Exc) (calls : Nat) (sleeps : List Nat)
  /-- the script of `f` ended while the loop wanted another call -/
  | scriptEnded (calls : Nat) (sleeps : List Nat)
  deriving DecidableEq, Repr

/-- the sleeps (ms) requested during a run, in order -/
def Result.sleeps : Result → List Nat
  | .returned _ _ s => s
  | .raised _ _ s => s
  | .scriptEnded _ s => s

/-- the `while True:` loop, `tries` failures so far -/
def loop (tries : Nat) (sleeps : List Nat) : List Attempt → Result
  | [] => .scriptEnded tries sleeps
  | .ok v :: _ => .returned v (tries + 1) sleeps
  | .fail e r :: rest =>
    match retryStep (tries + 1) e with
    | .raise => .raised e (tries + 1) sleeps
    | .retry => loop (tries + 1) (sleeps ++ [delayMs (tries + 1) defaultBase defaultMax r]) rest

/-- `retry_transient_errors(f)` -/
def retryTransientErrors (script : List Attempt) : Result := loop 0 [] script

end HailVerif.Retry

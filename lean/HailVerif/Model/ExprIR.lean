/-!
# Model of the value IR emitted by Hail's Python front end (properties C35 and C36)

Python side (`/repo/hail/python/hail`):
* `ir/ir.py`        — the node classes (`I32`, `Ref`, `ApplyBinaryPrimOp`, `If`, `Let`, `MakeArray`, `StreamMap`, …): their
                      children, the variables they bind in which child (`renderable_bindings`, `renderable_agg_bindings`),
                      the evaluation context of each child (`renderable_uses_agg_context`) and their typing rule (`_compute_type`)
* `ir/base_ir.py`   — `free_vars`, `child_context`
* `ir/renderer.py`  — `CSERenderer`: lifts shared sub-DAGs into `(Let eval __cse_N v body)` / `(AggLet __cse_N False v body)`

There is no engine in this sandbox: the *meaning* of a node (`eval`) is written from the documented semantics of the node
classes.  It is a total, pure function; missing values are the value `na`, failing operations (index out of bounds, integer
division by zero, ill-typed operands, unbound variable) are the value `err`, which operations propagate like `na`.  A binding
can therefore be moved without changing the result as long as scoping is respected — the strictness of the engine's `Let`
with respect to failures is NOT modelled (see harness/props/c35.py `assumptions`).

Encoding.  Nodes with a variable number of children are right-nested cons cells, so that `IR` is an ordinary (non-nested)
inductive type: `(MakeArray T a b)` is `acons a (acons b (anil T))`, `(MakeStruct (f a) (g b))` is `scons f a (scons g b snil)`,
`(MakeTuple (0 1) a b)` is `tcons a (tcons b tnil)`, `(InsertFields o None (f a) (g b))` is
`insertField (insertField o f a) g b`.  The reader in `Model/ExprIRRead.lean` builds these from the renderer's text.
Streams are arrays (`ToArray` / `ToStream` are the identity on values).  Float payloads are integers with exact arithmetic:
IEEE rounding is not modelled, no property here depends on it.
-/
namespace HailVerif.ExprIR

/-! ## Types (`hail/expr/types.py`) -/

mutual
inductive HType where
  | int32 | int64 | float32 | float64 | bool | str
  | array (t : HType)
  | stream (t : HType)
  | set (t : HType)
  | dict (k v : HType)
  | interval (t : HType)                 -- `tinterval(point_type)`: only as a table key type (C36 index joins); no values modelled
  | struct (fs : Fields)
  | tuple (ts : Types)
  deriving DecidableEq
inductive Fields where
  | nil
  | cons (name : String) (t : HType) (rest : Fields)
  deriving DecidableEq
inductive Types where
  | nil
  | cons (t : HType) (rest : Types)
  deriving DecidableEq
end

/-! ## Values -/

inductive Val where
  | i32 (n : Int) | i64 (n : Int) | f32 (n : Int) | f64 (n : Int)
  | bool (b : Bool)
  | str (s : String)
  | na
  | err
  | arr (vs : List Val)
  | set (vs : List Val)
  | dict (kvs : List (Val × Val))
  | struct (fs : List (String × Val))
  | tuple (vs : List Val)

instance : Inhabited Val := ⟨.err⟩

/-- variable names: the names the program was built with, and the names `CSEAnalysisPass.uid` generates (`__cse_N`; the reader
classifies a name by this prefix — names built through the Python API never start with it) -/
inductive Name where
  | user (s : String)
  | cse (n : Nat)
  deriving DecidableEq

abbrev Env := List (Name × Val)

/-- innermost binding of `x`; an unbound variable is a failure -/
def lookup : Env → Name → Val
  | [], _ => .err
  | (y, v) :: r, x => if y = x then v else lookup r x

/-! ## Expressions -/

inductive UnOp where
  | neg | not
  deriving DecidableEq

inductive BinOp where
  | add | sub | mul | div | floorDiv
  deriving DecidableEq

inductive CmpOp where
  | lt | le | gt | ge | eq | neq
  deriving DecidableEq

inductive AggOp where
  | max | collect
  deriving DecidableEq

inductive IR where
  | i32 (n : Int) | i64 (n : Int) | f32 (n : Int) | f64 (n : Int)
  | str (s : String)
  | bool (b : Bool)
  | na (t : HType)
  | ref (x : Name)
  | cast (a : IR) (t : HType)                       -- `Cast`, and the conversion functions `toInt32/toInt64/toFloat32/toFloat64`
  | isNA (a : IR)
  | ascribe (a : IR) (t : HType)                    -- a function application `Apply f () T args` whose declared return type is `T`
  | un (op : UnOp) (a : IR)                         -- `ApplyUnaryPrimOp`
  | bin (op : BinOp) (a b : IR)                     -- `ApplyBinaryPrimOp`
  | cmp (op : CmpOp) (a b : IR)                     -- `ApplyComparisonOp`
  | ite (c t e : IR)                                -- `If`
  | let_ (x : Name) (v b : IR)                    -- `Let`: binds `x` in child 1
  | anil (t : HType)                                -- `MakeArray` (see Encoding)
  | acons (h tl : IR)
  | arrayRef (a i : IR)                             -- `ArrayRef` / `Apply indexArray`
  | arrayLen (a : IR)
  | toArray (a : IR)
  | toStream (a : IR)
  | streamMap (x : Name) (a b : IR)               -- binds `x` in child 1
  | streamFilter (x : Name) (a b : IR)
  | streamFold (acc v : Name) (a z b : IR)        -- binds `acc` and `v` in child 2
  | streamScan (acc v : Name) (a z b : IR)        -- `StreamScan`: the stream of all accumulator values (zero first)
  | snil                                            -- `MakeStruct`
  | scons (f : String) (e rest : IR)
  | getField (o : IR) (f : String)
  | insertField (old : IR) (f : String) (e : IR)    -- `InsertFields` with `field_order = None`
  | tnil                                            -- `MakeTuple`
  | tcons (e rest : IR)
  | getTupleElement (o : IR) (i : Nat)
  | toSet (a : IR)
  | toDict (a : IR)
  | dictGet (d k : IR)                              -- `Apply index` on a dict
  | applyFn (fn : String) (args : IR) (ret : HType) -- `Apply fn () ret args…` for a function of the engine's registry (array / set / dict
                                                    -- families); `args` is a `tcons` list.  TYPING ONLY (C36): `eval` gives the failure value
  -- aggregation context
  | streamAgg (x : Name) (a q : IR)               -- `StreamAgg`: child 1 is a new block whose AGG scope is eval scope + `x`
  | aggLet (x : Name) (v b : IR)                  -- `AggLet … False`: `v` lives in the agg scope, binds `x` in the agg scope of `b`
  | aggFilter (c b : IR)                            -- `AggFilter False`: `c` lives in the agg scope
  | agg (op : AggOp) (a : IR)                       -- `ApplyAggOp op () (a)`: `a` lives in the agg scope
  | aggExplode (x : Name) (s b : IR)              -- `AggExplode x False`: `s` (a stream) lives in the agg scope, binds `x` in the agg scope of `b`
  | aggGroupBy (k b : IR)                           -- `AggGroupBy False`: `k` lives in the agg scope; a dict key -> `b` over the elements with that key
  deriving DecidableEq

/-! ## Primitive operations -/

def wrap32 (n : Int) : Int := (n + 2147483648) % 4294967296 - 2147483648
def wrap64 (n : Int) : Int := (n + 9223372036854775808) % 18446744073709551616 - 9223372036854775808

/-- integer `+ - * //`; `none` = integer division by zero -/
def intArith (op : BinOp) (a b : Int) : Option Int :=
  match op with
  | .add => some (a + b)
  | .sub => some (a - b)
  | .mul => some (a * b)
  | .floorDiv => if b = 0 then none else some (Int.fdiv a b)
  | .div => if b = 0 then none else some (Int.fdiv a b)

/-- float payload arithmetic (total; division by zero gives payload 0 — IEEE infinities are not modelled) -/
def fltArith (op : BinOp) (a b : Int) : Int :=
  match op with
  | .add => a + b
  | .sub => a - b
  | .mul => a * b
  | .floorDiv => if b = 0 then 0 else Int.fdiv a b
  | .div => if b = 0 then 0 else Int.fdiv a b

def ofOpt (mk : Int → Val) : Option Int → Val
  | some n => mk n
  | none => .err

/-- `ApplyBinaryPrimOp`: both operands of the same numeric type (the front end inserts conversions); `/` on integers is a
float64 (`ApplyBinaryPrimOp._compute_type`); a missing operand gives missing -/
def binop (op : BinOp) : Val → Val → Val
  | .err, _ => .err
  | _, .err => .err
  | .na, _ => .na
  | _, .na => .na
  | .i32 a, .i32 b => if op = .div then ofOpt .f64 (intArith op a b) else ofOpt (fun n => .i32 (wrap32 n)) (intArith op a b)
  | .i64 a, .i64 b => if op = .div then ofOpt .f64 (intArith op a b) else ofOpt (fun n => .i64 (wrap64 n)) (intArith op a b)
  | .f32 a, .f32 b => .f32 (fltArith op a b)
  | .f64 a, .f64 b => .f64 (fltArith op a b)
  | _, _ => .err

def unop (op : UnOp) : Val → Val
  | .err => .err
  | .na => .na
  | .i32 a => if op = .neg then .i32 (wrap32 (-a)) else .err
  | .i64 a => if op = .neg then .i64 (wrap64 (-a)) else .err
  | .f32 a => if op = .neg then .f32 (-a) else .err
  | .f64 a => if op = .neg then .f64 (-a) else .err
  | .bool b => if op = .not then .bool (!b) else .err
  | _ => .err

def intCmp (op : CmpOp) (a b : Int) : Bool :=
  match op with
  | .lt => a < b | .le => a ≤ b | .gt => a > b | .ge => a ≥ b | .eq => a = b | .neq => a ≠ b

/-- `ApplyComparisonOp` on numbers, booleans and strings of equal type -/
def cmpop (op : CmpOp) : Val → Val → Val
  | .err, _ => .err
  | _, .err => .err
  | .na, _ => .na
  | _, .na => .na
  | .i32 a, .i32 b => .bool (intCmp op a b)
  | .i64 a, .i64 b => .bool (intCmp op a b)
  | .f32 a, .f32 b => .bool (intCmp op a b)
  | .f64 a, .f64 b => .bool (intCmp op a b)
  | .bool a, .bool b => .bool (intCmp op a.toNat b.toNat)
  | .str a, .str b => match op with
    | .eq => .bool (a = b) | .neq => .bool (a ≠ b) | .lt => .bool (a < b) | .le => .bool (!(b < a)) | .gt => .bool (b < a) | .ge => .bool (!(a < b))
  | _, _ => .err

/-- numeric conversions (`Cast`, `toInt32`, `toInt64`, `toFloat32`, `toFloat64`) -/
def castVal (t : HType) : Val → Val
  | .err => .err
  | .na => .na
  | .i32 n | .i64 n | .f32 n | .f64 n =>
    match t with
    | .int32 => .i32 (wrap32 n)
    | .int64 => .i64 (wrap64 n)
    | .float32 => .f32 n
    | .float64 => .f64 n
    | _ => .err
  | .bool b =>
    match t with
    | .int32 => .i32 b.toNat
    | .int64 => .i64 b.toNat
    | .float32 => .f32 b.toNat
    | .float64 => .f64 b.toNat
    | _ => .err
  | _ => .err

def isTrue : Val → Bool
  | .bool true => true
  | _ => false

def nthVal : List Val → Nat → Val
  | [], _ => .err
  | v :: _, 0 => v
  | _ :: r, n + 1 => nthVal r n

/-- `ArrayRef`: out of bounds is a failure -/
def indexVal : Val → Val → Val
  | .err, _ => .err
  | _, .err => .err
  | .na, _ => .na
  | _, .na => .na
  | .arr vs, .i32 i => if 0 ≤ i then nthVal vs i.toNat else .err
  | _, _ => .err

def lenVal : Val → Val
  | .arr vs => .i32 (wrap32 vs.length)
  | .na => .na
  | _ => .err

def fieldVal : List (String × Val) → String → Val
  | [], _ => .err
  | (g, v) :: r, f => if g = f then v else fieldVal r f

/-- `tstruct._insert_fields`: replace in place or append -/
def setField : List (String × Val) → String → Val → List (String × Val)
  | [], f, v => [(f, v)]
  | (g, w) :: r, f, v => if g = f then (g, v) :: r else (g, w) :: setField r f v

/-- the container value of a stream / array valued child: `some vs`, or the outcome to propagate -/
def asArr : Val → Except Val (List Val)
  | .arr vs => .ok vs
  | .na => .error .na
  | _ => .error .err

/-- `Max` aggregator over int32 (`register_aggregators.py`: `Max(int32) : int32`): missing elements are skipped, no element
gives missing, anything else fails -/
def maxVals : List Val → Val
  | [] => .na
  | v :: r => match v, maxVals r with
    | .i32 a, .i32 m => .i32 (if a < m then m else a)
    | .i32 a, .na => .i32 a
    | .na, m => m
    | _, _ => .err

def pairOf : Val → Option (Val × Val)
  | .tuple [k, v] => some (k, v)
  | .struct [(_, k), (_, v)] => some (k, v)
  | _ => none

/-- equality of group-by keys: decided for scalar keys only (the generated programs group by int32 / bool keys; a
non-scalar key is its own group) -/
def keyEq : Val → Val → Bool
  | .i32 a, .i32 b => decide (a = b)
  | .i64 a, .i64 b => decide (a = b)
  | .bool a, .bool b => decide (a = b)
  | .str a, .str b => decide (a = b)
  | .na, .na => true
  | _, _ => false

/-- the distinct keys, in order of first appearance (the engine sorts them; no statement here depends on the order) -/
def dedupKeys : List Val → List Val
  | [] => []
  | k :: ks => k :: (dedupKeys ks).filter fun k' => !keyEq k k'

/-- `AggExplode`: one element environment per element of the exploded stream -/
def explodeEnv (x : Name) (σ : Env) : Except Val (List Val) → List Env
  | .ok vs => vs.map fun w => (x, w) :: σ
  | .error _ => []

/-- registry functions are not evaluated by the model: their outcome is the failure value (which inhabits every type) -/
def applyVal (_ : Val) : Val := .err

/-- `StreamScan`: every intermediate accumulator, the zero first -/
def scanVals (f : Val → Val → Val) : Val → List Val → List Val
  | s, [] => [s]
  | s, w :: r => s :: scanVals f (f s w) r

/-! ## Evaluation

`ρ` is the value (eval) scope.  `A` is the aggregation scope: one environment per element being aggregated over (it is only
read inside `StreamAgg` queries; `[]` elsewhere).  Children that live in the agg scope (`renderable_uses_agg_context`) are
evaluated once per element environment, with no aggregation scope of their own — exactly the `(env, agg_env)` plumbing of
`_compute_type`. -/

def eval (ρ : Env) (A : List Env) : IR → Val
  | .i32 n => .i32 (wrap32 n)
  | .i64 n => .i64 (wrap64 n)
  | .f32 n => .f32 n
  | .f64 n => .f64 n
  | .str s => .str s
  | .bool b => .bool b
  | .na _ => .na
  | .ref x => lookup ρ x
  | .cast a t => castVal t (eval ρ A a)
  | .ascribe a _ => eval ρ A a
  | .isNA a => match eval ρ A a with
    | .na => .bool true
    | .err => .err
    | _ => .bool false
  | .un op a => unop op (eval ρ A a)
  | .bin op a b => binop op (eval ρ A a) (eval ρ A b)
  | .cmp op a b => cmpop op (eval ρ A a) (eval ρ A b)
  | .ite c t e => match eval ρ A c with
    | .bool true => eval ρ A t
    | .bool false => eval ρ A e
    | .na => .na
    | _ => .err
  | .let_ x v b => eval ((x, eval ρ A v) :: ρ) A b
  | .anil _ => .arr []
  | .acons h tl => match eval ρ A tl with
    | .arr vs => .arr (eval ρ A h :: vs)
    | _ => .err
  | .arrayRef a i => indexVal (eval ρ A a) (eval ρ A i)
  | .arrayLen a => lenVal (eval ρ A a)
  | .toArray a => match asArr (eval ρ A a) with
    | .ok vs => .arr vs
    | .error o => o
  | .toStream a => match asArr (eval ρ A a) with
    | .ok vs => .arr vs
    | .error o => o
  | .streamMap x a b => match asArr (eval ρ A a) with
    | .ok vs => .arr (vs.map fun w => eval ((x, w) :: ρ) A b)
    | .error o => o
  | .streamFilter x a b => match asArr (eval ρ A a) with
    | .ok vs => .arr (vs.filter fun w => isTrue (eval ((x, w) :: ρ) A b))
    | .error o => o
  | .streamFold acc v a z b => match asArr (eval ρ A a) with
    | .ok vs => vs.foldl (fun s w => eval ((v, w) :: (acc, s) :: ρ) A b) (eval ρ A z)
    | .error o => o
  | .streamScan acc v a z b => match asArr (eval ρ A a) with
    | .ok vs => .arr (scanVals (fun s w => eval ((v, w) :: (acc, s) :: ρ) A b) (eval ρ A z) vs)
    | .error o => o
  | .snil => .struct []
  | .scons f e rest => match eval ρ A rest with
    | .struct fs => .struct ((f, eval ρ A e) :: fs)
    | _ => .err
  | .getField o f => match eval ρ A o with
    | .struct fs => fieldVal fs f
    | .na => .na
    | _ => .err
  | .insertField old f e => match eval ρ A old with
    | .struct fs => .struct (setField fs f (eval ρ A e))
    | .na => .na
    | _ => .err
  | .tnil => .tuple []
  | .tcons e rest => match eval ρ A rest with
    | .tuple vs => .tuple (eval ρ A e :: vs)
    | _ => .err
  | .getTupleElement o i => match eval ρ A o with
    | .tuple vs => nthVal vs i
    | .na => .na
    | _ => .err
  | .toSet a => match asArr (eval ρ A a) with
    | .ok vs => .set vs
    | .error o => o
  | .toDict a => match asArr (eval ρ A a) with
    | .ok vs => match vs.mapM pairOf with
      | some kvs => .dict kvs
      | none => .err
    | .error o => o
  | .applyFn _ a _ => applyVal (eval ρ A a)
  | .dictGet d _ => match eval ρ A d with
    | .dict kvs => match kvs with
      | [] => .err
      | (_, v) :: _ => v      -- key equality of arbitrary values is not modelled: some value of the dict (or a failure)
    | .na => .na
    | _ => .err
  | .streamAgg x a q => match asArr (eval ρ A a) with
    | .ok vs => eval ρ (vs.map fun w => (x, w) :: ρ) q
    | .error o => o
  | .aggLet x v b => eval ρ (A.map fun σ => (x, eval σ [] v) :: σ) b
  | .aggFilter c b => eval ρ (A.filter fun σ => isTrue (eval σ [] c)) b
  | .agg .max a => maxVals (A.map fun σ => eval σ [] a)
  | .agg .collect a => .arr (A.map fun σ => eval σ [] a)
  | .aggExplode x s b => eval ρ (A.flatMap fun σ => explodeEnv x σ (asArr (eval σ [] s))) b
  | .aggGroupBy k b =>
    .dict ((dedupKeys (A.map fun σ => eval σ [] k)).map fun kv => (kv, eval ρ (A.filter fun σ => keyEq (eval σ [] k) kv) b))

/-! ## Free variables of the value scope (`IR.free_vars`) -/

def remove (x : Name) (l : List Name) : List Name := l.filter fun y => decide (y ≠ x)

/-- nodes of the aggregation context -/
def aggFree : IR → Bool
  | .streamAgg .. | .aggLet .. | .aggFilter .. | .agg .. | .aggExplode .. | .aggGroupBy .. => false
  | .i32 _ | .i64 _ | .f32 _ | .f64 _ | .str _ | .bool _ | .na _ | .ref _ | .anil _ | .snil | .tnil => true
  | .cast a _ | .ascribe a _ | .isNA a | .un _ a | .arrayLen a | .toArray a | .toStream a | .getField a _ | .getTupleElement a _
  | .toSet a | .toDict a | .applyFn _ a _ => aggFree a
  | .bin _ a b | .cmp _ a b | .let_ _ a b | .acons a b | .arrayRef a b | .streamMap _ a b | .streamFilter _ a b
  | .scons _ a b | .insertField a _ b | .tcons a b | .dictGet a b => aggFree a && aggFree b
  | .ite a b c | .streamFold _ _ a b c | .streamScan _ _ a b c => aggFree a && aggFree b && aggFree c

mutual
/-- `free_vars` (without the `agg_capability` pseudo-variable, which is `usesAgg` below): the variables read from the value
scope.  A `StreamAgg` also reads, through its query, what the query reads from the value scope and — the aggregation scope of the
query being the value scope plus the element — what the query reads from its aggregation scope, except the element variable.
Children in the aggregation scope (`AggLet` value, `AggFilter` condition, aggregator arguments) read nothing from the value
scope. -/
def fv : IR → List Name
  | .i32 _ | .i64 _ | .f32 _ | .f64 _ | .str _ | .bool _ | .na _ | .anil _ | .snil | .tnil => []
  | .ref x => [x]
  | .cast a _ | .ascribe a _ | .isNA a | .un _ a | .arrayLen a | .toArray a | .toStream a | .getField a _ | .getTupleElement a _
  | .toSet a | .toDict a | .applyFn _ a _ => fv a
  | .bin _ a b | .cmp _ a b | .acons a b | .arrayRef a b | .scons _ a b | .insertField a _ b | .tcons a b | .dictGet a b =>
    fv a ++ fv b
  | .ite a b c => fv a ++ fv b ++ fv c
  | .let_ x v b => fv v ++ remove x (fv b)
  | .streamMap x a b | .streamFilter x a b => fv a ++ remove x (fv b)
  | .streamFold acc v a z b => fv a ++ fv z ++ remove acc (remove v (fv b))
  | .streamScan acc v a z b => fv a ++ fv z ++ remove acc (remove v (fv b))
  | .streamAgg y a q => fv a ++ fv q ++ remove y (fva q)
  | .aggLet _ _ b | .aggExplode _ _ b => fv b
  | .aggFilter _ b | .aggGroupBy _ b => fv b
  | .agg _ _ => []
/-- `free_agg_vars`: the variables read from the (element environments of the) aggregation scope -/
def fva : IR → List Name
  | .i32 _ | .i64 _ | .f32 _ | .f64 _ | .str _ | .bool _ | .na _ | .anil _ | .snil | .tnil | .ref _ => []
  | .cast a _ | .ascribe a _ | .isNA a | .un _ a | .arrayLen a | .toArray a | .toStream a | .getField a _ | .getTupleElement a _
  | .toSet a | .toDict a | .applyFn _ a _ => fva a
  | .bin _ a b | .cmp _ a b | .acons a b | .arrayRef a b | .scons _ a b | .insertField a _ b | .tcons a b | .dictGet a b
  | .let_ _ a b | .streamMap _ a b | .streamFilter _ a b => fva a ++ fva b
  | .ite a b c | .streamFold _ _ a b c | .streamScan _ _ a b c => fva a ++ fva b ++ fva c
  | .streamAgg _ a _ => fva a
  | .aggLet y e b | .aggExplode y e b => fv e ++ remove y (fva b)
  | .aggFilter c b | .aggGroupBy c b => fv c ++ fva b
  | .agg _ a => fv a
end

/-! ## Scoping (`_compute_type(env, agg_env, deep_typecheck=True)`: `Ref` asserts `name in env`)

`Γ` = variables of the value scope, `Δ` = variables of the aggregation scope (`none`: no aggregation is possible here). -/

inductive WellScoped : List Name → Option (List Name) → IR → Prop
  | i32 : WellScoped Γ Δ (.i32 n)
  | i64 : WellScoped Γ Δ (.i64 n)
  | f32 : WellScoped Γ Δ (.f32 n)
  | f64 : WellScoped Γ Δ (.f64 n)
  | str : WellScoped Γ Δ (.str s)
  | bool : WellScoped Γ Δ (.bool b)
  | na : WellScoped Γ Δ (.na t)
  | ref : x ∈ Γ → WellScoped Γ Δ (.ref x)
  | cast : WellScoped Γ Δ a → WellScoped Γ Δ (.cast a t)
  | ascribe : WellScoped Γ Δ a → WellScoped Γ Δ (.ascribe a t)
  | isNA : WellScoped Γ Δ a → WellScoped Γ Δ (.isNA a)
  | un : WellScoped Γ Δ a → WellScoped Γ Δ (.un op a)
  | bin : WellScoped Γ Δ a → WellScoped Γ Δ b → WellScoped Γ Δ (.bin op a b)
  | cmp : WellScoped Γ Δ a → WellScoped Γ Δ b → WellScoped Γ Δ (.cmp op a b)
  | ite : WellScoped Γ Δ c → WellScoped Γ Δ t → WellScoped Γ Δ e → WellScoped Γ Δ (.ite c t e)
  | let_ : WellScoped Γ Δ v → WellScoped (x :: Γ) Δ b → WellScoped Γ Δ (.let_ x v b)
  | anil : WellScoped Γ Δ (.anil t)
  | acons : WellScoped Γ Δ h → WellScoped Γ Δ tl → WellScoped Γ Δ (.acons h tl)
  | arrayRef : WellScoped Γ Δ a → WellScoped Γ Δ i → WellScoped Γ Δ (.arrayRef a i)
  | arrayLen : WellScoped Γ Δ a → WellScoped Γ Δ (.arrayLen a)
  | toArray : WellScoped Γ Δ a → WellScoped Γ Δ (.toArray a)
  | toStream : WellScoped Γ Δ a → WellScoped Γ Δ (.toStream a)
  | streamMap : WellScoped Γ Δ a → WellScoped (x :: Γ) Δ b → WellScoped Γ Δ (.streamMap x a b)
  | streamFilter : WellScoped Γ Δ a → WellScoped (x :: Γ) Δ b → WellScoped Γ Δ (.streamFilter x a b)
  | streamFold : WellScoped Γ Δ a → WellScoped Γ Δ z → WellScoped (v :: acc :: Γ) Δ b →
      WellScoped Γ Δ (.streamFold acc v a z b)
  | streamScan : WellScoped Γ Δ a → WellScoped Γ Δ z → WellScoped (v :: acc :: Γ) Δ b →
      WellScoped Γ Δ (.streamScan acc v a z b)
  | snil : WellScoped Γ Δ .snil
  | scons : WellScoped Γ Δ e → WellScoped Γ Δ rest → WellScoped Γ Δ (.scons f e rest)
  | getField : WellScoped Γ Δ o → WellScoped Γ Δ (.getField o f)
  | insertField : WellScoped Γ Δ old → WellScoped Γ Δ e → WellScoped Γ Δ (.insertField old f e)
  | tnil : WellScoped Γ Δ .tnil
  | tcons : WellScoped Γ Δ e → WellScoped Γ Δ rest → WellScoped Γ Δ (.tcons e rest)
  | getTupleElement : WellScoped Γ Δ o → WellScoped Γ Δ (.getTupleElement o i)
  | toSet : WellScoped Γ Δ a → WellScoped Γ Δ (.toSet a)
  | applyFn : WellScoped Γ Δ a → WellScoped Γ Δ (.applyFn f a t)
  | toDict : WellScoped Γ Δ a → WellScoped Γ Δ (.toDict a)
  | dictGet : WellScoped Γ Δ d → WellScoped Γ Δ k → WellScoped Γ Δ (.dictGet d k)
  /-- `StreamAgg._compute_type`: `a` in `(env, agg_env)`, the query in `(env, env + x)` -/
  | streamAgg : WellScoped Γ Δ a → WellScoped Γ (some (x :: Γ)) q → WellScoped Γ Δ (.streamAgg x a q)
  /-- `AggLet._compute_type`: the value in `(agg_env, None)`, the body in `(env, agg_env + x)` -/
  | aggLet : WellScoped D none v → WellScoped Γ (some (x :: D)) b → WellScoped Γ (some D) (.aggLet x v b)
  /-- `AggFilter._compute_type`: the condition in `(agg_env, None)` -/
  | aggFilter : WellScoped D none c → WellScoped Γ (some D) b → WellScoped Γ (some D) (.aggFilter c b)
  /-- `BaseApplyAggOp._compute_type`: sequence-operation arguments in `(agg_env, None)` -/
  | agg : WellScoped D none a → WellScoped Γ (some D) (.agg op a)
  /-- `AggExplode._compute_type`: the stream in `(agg_env, None)`, the body in `(env, agg_env + x)` -/
  | aggExplode : WellScoped D none s → WellScoped Γ (some (x :: D)) b → WellScoped Γ (some D) (.aggExplode x s b)
  /-- `AggGroupBy._compute_type`: the key in `(agg_env, None)` -/
  | aggGroupBy : WellScoped D none k → WellScoped Γ (some D) b → WellScoped Γ (some D) (.aggGroupBy k b)

/-- executable scope checker (proved sound and complete for `WellScoped` in `Proofs/ExprIR.lean`) -/
def scopeOk (Γ : List Name) (Δ : Option (List Name)) : IR → Bool
  | .i32 _ | .i64 _ | .f32 _ | .f64 _ | .str _ | .bool _ | .na _ | .anil _ | .snil | .tnil => true
  | .ref x => decide (x ∈ Γ)
  | .cast a _ | .ascribe a _ | .isNA a | .un _ a | .arrayLen a | .toArray a | .toStream a | .getField a _ | .getTupleElement a _
  | .toSet a | .toDict a | .applyFn _ a _ => scopeOk Γ Δ a
  | .bin _ a b | .cmp _ a b | .acons a b | .arrayRef a b | .scons _ a b | .insertField a _ b | .tcons a b | .dictGet a b =>
    scopeOk Γ Δ a && scopeOk Γ Δ b
  | .ite a b c => scopeOk Γ Δ a && scopeOk Γ Δ b && scopeOk Γ Δ c
  | .let_ x v b => scopeOk Γ Δ v && scopeOk (x :: Γ) Δ b
  | .streamMap x a b | .streamFilter x a b => scopeOk Γ Δ a && scopeOk (x :: Γ) Δ b
  | .streamFold acc v a z b => scopeOk Γ Δ a && scopeOk Γ Δ z && scopeOk (v :: acc :: Γ) Δ b
  | .streamScan acc v a z b => scopeOk Γ Δ a && scopeOk Γ Δ z && scopeOk (v :: acc :: Γ) Δ b
  | .streamAgg x a q => scopeOk Γ Δ a && scopeOk Γ (some (x :: Γ)) q
  | .aggLet x v b | .aggExplode x v b => match Δ with
    | some D => scopeOk D none v && scopeOk Γ (some (x :: D)) b
    | none => false
  | .aggFilter c b | .aggGroupBy c b => match Δ with
    | some D => scopeOk D none c && scopeOk Γ (some D) b
    | none => false
  | .agg _ a => match Δ with
    | some D => scopeOk D none a
    | none => false

/-! ## Inlining the bindings the CSE renderer introduced

Two kinds of lifted binding: `(Let eval __cse_N v b)` binds in the value scope, `(AggLet __cse_N False v b)` in the aggregation
scope.  `agg_capability` (the pseudo-variable that `AggFilter`, `AggExplode`, `AggGroupBy`, `AggArrayPerElement` and every
aggregator application add to `free_vars` via `uses_agg_capability`, and that `AggFilter`… re-bind for their aggregation child in
`renderable_bindings`, so that an aggregation is never lifted above them) is modelled by what it stands for: `usesAgg v` — the
value of `v` depends on the aggregation scope `A` — and such a `v` may not be substituted across a node that changes `A`:
never across an `AggFilter`; across an `AggLet y` only when `v` does not read `y` from the aggregation scope (`free_agg_vars`). -/

/-- every name occurring in a term: references and binders -/
def names : IR → List Name
  | .ref y => [y]
  | .i32 _ | .i64 _ | .f32 _ | .f64 _ | .str _ | .bool _ | .na _ | .anil _ | .snil | .tnil => []
  | .cast a _ | .ascribe a _ | .isNA a | .un _ a | .arrayLen a | .toArray a | .toStream a | .getField a _ | .getTupleElement a _
  | .toSet a | .toDict a | .applyFn _ a _ | .agg _ a => names a
  | .bin _ a b | .cmp _ a b | .acons a b | .arrayRef a b | .scons _ a b | .insertField a _ b | .tcons a b | .dictGet a b
  | .aggFilter a b | .aggGroupBy a b => names a ++ names b
  | .ite a b c => names a ++ names b ++ names c
  | .let_ x a b | .streamMap x a b | .streamFilter x a b | .streamAgg x a b | .aggLet x a b | .aggExplode x a b =>
    x :: (names a ++ names b)
  | .streamFold acc w a z b => acc :: w :: (names a ++ names z ++ names b)
  | .streamScan acc w a z b => acc :: w :: (names a ++ names z ++ names b)


/-- does the value of the term depend on the ambient aggregation scope?  This is `agg_capability ∈ free_vars`: added by
aggregator applications and `AggFilter` (`uses_agg_capability`), inherited from children — but not from the query of a
`StreamAgg`, which binds it, nor from aggregation-scope children. -/
def usesAgg : IR → Bool
  | .agg .. | .aggFilter .. | .aggExplode .. | .aggGroupBy .. => true
  | .aggLet _ _ b => usesAgg b
  | .streamAgg _ a _ => usesAgg a
  | .i32 _ | .i64 _ | .f32 _ | .f64 _ | .str _ | .bool _ | .na _ | .ref _ | .anil _ | .snil | .tnil => false
  | .cast a _ | .ascribe a _ | .isNA a | .un _ a | .arrayLen a | .toArray a | .toStream a | .getField a _ | .getTupleElement a _
  | .toSet a | .toDict a | .applyFn _ a _ => usesAgg a
  | .bin _ a b | .cmp _ a b | .let_ _ a b | .acons a b | .arrayRef a b | .streamMap _ a b | .streamFilter _ a b
  | .scons _ a b | .insertField a _ b | .tcons a b | .dictGet a b => usesAgg a || usesAgg b
  | .ite a b c | .streamFold _ _ a b c | .streamScan _ _ a b c => usesAgg a || usesAgg b || usesAgg c

/-- plain (not capture-avoiding) substitution of `v` for the VALUE-scope variable `x`.  Aggregation-scope children (the
condition of an `AggFilter`, the value of an `AggLet`, aggregator arguments) and `StreamAgg` queries are left alone: `x` is not
visible / must not occur there (`substOk`) -/
def subst (x : Name) (v : IR) : IR → IR
  | .ref y => if y = x then v else .ref y
  | .i32 n => .i32 n | .i64 n => .i64 n | .f32 n => .f32 n | .f64 n => .f64 n
  | .str s => .str s | .bool b => .bool b | .na t => .na t | .anil t => .anil t | .snil => .snil | .tnil => .tnil
  | .cast a t => .cast (subst x v a) t
  | .ascribe a t => .ascribe (subst x v a) t
  | .isNA a => .isNA (subst x v a)
  | .un op a => .un op (subst x v a)
  | .bin op a b => .bin op (subst x v a) (subst x v b)
  | .cmp op a b => .cmp op (subst x v a) (subst x v b)
  | .ite c t e => .ite (subst x v c) (subst x v t) (subst x v e)
  | .let_ y e b => .let_ y (subst x v e) (if y = x then b else subst x v b)
  | .acons h tl => .acons (subst x v h) (subst x v tl)
  | .arrayRef a i => .arrayRef (subst x v a) (subst x v i)
  | .arrayLen a => .arrayLen (subst x v a)
  | .toArray a => .toArray (subst x v a)
  | .toStream a => .toStream (subst x v a)
  | .streamMap y a b => .streamMap y (subst x v a) (if y = x then b else subst x v b)
  | .streamFilter y a b => .streamFilter y (subst x v a) (if y = x then b else subst x v b)
  | .streamFold acc w a z b =>
    .streamFold acc w (subst x v a) (subst x v z) (if acc = x ∨ w = x then b else subst x v b)
  | .streamScan acc w a z b =>
    .streamScan acc w (subst x v a) (subst x v z) (if acc = x ∨ w = x then b else subst x v b)
  | .scons f e rest => .scons f (subst x v e) (subst x v rest)
  | .getField o f => .getField (subst x v o) f
  | .insertField old f e => .insertField (subst x v old) f (subst x v e)
  | .tcons e rest => .tcons (subst x v e) (subst x v rest)
  | .getTupleElement o i => .getTupleElement (subst x v o) i
  | .toSet a => .toSet (subst x v a)
  | .applyFn f a t => .applyFn f (subst x v a) t
  | .toDict a => .toDict (subst x v a)
  | .dictGet d k => .dictGet (subst x v d) (subst x v k)
  | .streamAgg y a q => .streamAgg y (subst x v a) q
  | .aggLet y e b => .aggLet y e (subst x v b)
  | .aggFilter c b => .aggFilter c (subst x v b)
  | .agg op a => .agg op a
  | .aggExplode y e b => .aggExplode y e (subst x v b)
  | .aggGroupBy c b => .aggGroupBy c (subst x v b)

/-- `subst x v t` means what it should when `F = fv v`, `FA = fva v` and `dep = usesAgg v`:
* on the way to a free occurrence of `x` no binder of `t` binds a variable of `F`;
* if the value of `v` depends on the aggregation scope (`dep`), `x` does not occur free below a node that changes what `v`
  sees of that scope: the body of an `AggFilter`, or of an `AggLet` that binds a variable of `FA` (the `agg_capability` rule);
* `x` does not occur free inside a `StreamAgg` query (a block: nothing bound outside is referenced inside by the renderer). -/
def substOk (x : Name) (F FA : List Name) (dep : Bool) : IR → Bool
  | .ref _ | .i32 _ | .i64 _ | .f32 _ | .f64 _ | .str _ | .bool _ | .na _ | .anil _ | .snil | .tnil => true
  | .cast a _ | .ascribe a _ | .isNA a | .un _ a | .arrayLen a | .toArray a | .toStream a | .getField a _ | .getTupleElement a _
  | .toSet a | .toDict a | .applyFn _ a _ => substOk x F FA dep a
  | .bin _ a b | .cmp _ a b | .acons a b | .arrayRef a b | .scons _ a b | .insertField a _ b | .tcons a b | .dictGet a b =>
    substOk x F FA dep a && substOk x F FA dep b
  | .ite a b c => substOk x F FA dep a && substOk x F FA dep b && substOk x F FA dep c
  | .let_ y e b | .streamMap y e b | .streamFilter y e b =>
    substOk x F FA dep e && (decide (y = x) || decide (x ∉ fv b) || (decide (y ∉ F) && substOk x F FA dep b))
  | .streamFold acc w a z b | .streamScan acc w a z b =>
    substOk x F FA dep a && substOk x F FA dep z &&
      (decide (acc = x ∨ w = x) || decide (x ∉ fv b) || (decide (acc ∉ F) && decide (w ∉ F) && substOk x F FA dep b))
  | .streamAgg y a q => substOk x F FA dep a && decide (x ∉ fv q ++ remove y (fva q))
  | .aggFilter _ b | .aggGroupBy _ b | .aggExplode _ _ b => decide (x ∉ fv b) || (!dep && substOk x F FA dep b)
  | .aggLet y _ b => decide (x ∉ fv b) || ((!dep || decide (y ∉ FA)) && substOk x F FA dep b)
  | .agg _ _ => true

/-- substitution of `v` for the AGGREGATION-scope variable `x` (an `AggLet` binding): only aggregation-scope children of the
ambient query see `x`; there it is an ordinary value-scope substitution in the element environment -/
def substA (x : Name) (v : IR) : IR → IR
  | .ref y => .ref y
  | .i32 n => .i32 n | .i64 n => .i64 n | .f32 n => .f32 n | .f64 n => .f64 n
  | .str s => .str s | .bool b => .bool b | .na t => .na t | .anil t => .anil t | .snil => .snil | .tnil => .tnil
  | .cast a t => .cast (substA x v a) t
  | .ascribe a t => .ascribe (substA x v a) t
  | .isNA a => .isNA (substA x v a)
  | .un op a => .un op (substA x v a)
  | .bin op a b => .bin op (substA x v a) (substA x v b)
  | .cmp op a b => .cmp op (substA x v a) (substA x v b)
  | .ite c t e => .ite (substA x v c) (substA x v t) (substA x v e)
  | .let_ y e b => .let_ y (substA x v e) (substA x v b)
  | .acons h tl => .acons (substA x v h) (substA x v tl)
  | .arrayRef a i => .arrayRef (substA x v a) (substA x v i)
  | .arrayLen a => .arrayLen (substA x v a)
  | .toArray a => .toArray (substA x v a)
  | .toStream a => .toStream (substA x v a)
  | .streamMap y a b => .streamMap y (substA x v a) (substA x v b)
  | .streamFilter y a b => .streamFilter y (substA x v a) (substA x v b)
  | .streamFold acc w a z b => .streamFold acc w (substA x v a) (substA x v z) (substA x v b)
  | .streamScan acc w a z b => .streamScan acc w (substA x v a) (substA x v z) (substA x v b)
  | .scons f e rest => .scons f (substA x v e) (substA x v rest)
  | .getField o f => .getField (substA x v o) f
  | .insertField old f e => .insertField (substA x v old) f (substA x v e)
  | .tcons e rest => .tcons (substA x v e) (substA x v rest)
  | .getTupleElement o i => .getTupleElement (substA x v o) i
  | .toSet a => .toSet (substA x v a)
  | .applyFn f a t => .applyFn f (substA x v a) t
  | .toDict a => .toDict (substA x v a)
  | .dictGet d k => .dictGet (substA x v d) (substA x v k)
  | .streamAgg y a q => .streamAgg y (substA x v a) q
  | .aggLet y e b => .aggLet y (subst x v e) (if y = x then b else substA x v b)
  | .aggFilter c b => .aggFilter (subst x v c) (substA x v b)
  | .agg op a => .agg op (subst x v a)
  | .aggExplode y e b => .aggExplode y (subst x v e) (if y = x then b else substA x v b)
  | .aggGroupBy c b => .aggGroupBy (subst x v c) (substA x v b)

/-- `substA x v t` means what it should (`F = fv v`, `FA = fva v`, `dep = usesAgg v`): in every aggregation-scope child the
value-scope substitution is fine (`substOk`), and no `AggLet` / `AggExplode` on the way to an occurrence of `x` rebinds a variable of `v`
(a binder whose body does not read `x` from the aggregation scope is harmless) -/
def substAOk (x : Name) (F FA : List Name) (dep : Bool) : IR → Bool
  | .ref _ | .i32 _ | .i64 _ | .f32 _ | .f64 _ | .str _ | .bool _ | .na _ | .anil _ | .snil | .tnil => true
  | .cast a _ | .ascribe a _ | .isNA a | .un _ a | .arrayLen a | .toArray a | .toStream a | .getField a _ | .getTupleElement a _
  | .toSet a | .toDict a | .applyFn _ a _ => substAOk x F FA dep a
  | .bin _ a b | .cmp _ a b | .acons a b | .arrayRef a b | .scons _ a b | .insertField a _ b | .tcons a b | .dictGet a b
  | .let_ _ a b | .streamMap _ a b | .streamFilter _ a b => substAOk x F FA dep a && substAOk x F FA dep b
  | .ite a b c | .streamFold _ _ a b c | .streamScan _ _ a b c =>
    substAOk x F FA dep a && substAOk x F FA dep b && substAOk x F FA dep c
  | .streamAgg _ a _ => substAOk x F FA dep a
  | .aggLet y e b | .aggExplode y e b =>
    substOk x F FA dep e && (decide (y = x) || decide (x ∉ fva b) || (decide (y ∉ F) && substAOk x F FA dep b))
  | .aggFilter c b | .aggGroupBy c b => substOk x F FA dep c && substAOk x F FA dep b
  | .agg _ a => substOk x F FA dep a

/-- the names `CSEAnalysisPass.uid` generates -/
def isCse : Name → Bool
  | .cse _ => true
  | .user _ => false

/-- replace every `(Let eval __cse_N v b)` by `b[v/__cse_N]` and every `(AggLet __cse_N False v b)` by `b` with `v` substituted
in its aggregation-scope children, innermost first -/
def inlineCse : IR → IR
  | .let_ x v b => if isCse x then subst x (inlineCse v) (inlineCse b) else .let_ x (inlineCse v) (inlineCse b)
  | .aggLet x v b => if isCse x then substA x (inlineCse v) (inlineCse b) else .aggLet x (inlineCse v) (inlineCse b)
  | .ref y => .ref y
  | .i32 n => .i32 n | .i64 n => .i64 n | .f32 n => .f32 n | .f64 n => .f64 n
  | .str s => .str s | .bool b => .bool b | .na t => .na t | .anil t => .anil t | .snil => .snil | .tnil => .tnil
  | .cast a t => .cast (inlineCse a) t
  | .ascribe a t => .ascribe (inlineCse a) t
  | .isNA a => .isNA (inlineCse a)
  | .un op a => .un op (inlineCse a)
  | .bin op a b => .bin op (inlineCse a) (inlineCse b)
  | .cmp op a b => .cmp op (inlineCse a) (inlineCse b)
  | .ite c t e => .ite (inlineCse c) (inlineCse t) (inlineCse e)
  | .acons h tl => .acons (inlineCse h) (inlineCse tl)
  | .arrayRef a i => .arrayRef (inlineCse a) (inlineCse i)
  | .arrayLen a => .arrayLen (inlineCse a)
  | .toArray a => .toArray (inlineCse a)
  | .toStream a => .toStream (inlineCse a)
  | .streamMap y a b => .streamMap y (inlineCse a) (inlineCse b)
  | .streamFilter y a b => .streamFilter y (inlineCse a) (inlineCse b)
  | .streamFold acc w a z b => .streamFold acc w (inlineCse a) (inlineCse z) (inlineCse b)
  | .streamScan acc w a z b => .streamScan acc w (inlineCse a) (inlineCse z) (inlineCse b)
  | .scons f e rest => .scons f (inlineCse e) (inlineCse rest)
  | .getField o f => .getField (inlineCse o) f
  | .insertField old f e => .insertField (inlineCse old) f (inlineCse e)
  | .tcons e rest => .tcons (inlineCse e) (inlineCse rest)
  | .getTupleElement o i => .getTupleElement (inlineCse o) i
  | .toSet a => .toSet (inlineCse a)
  | .applyFn f a t => .applyFn f (inlineCse a) t
  | .toDict a => .toDict (inlineCse a)
  | .dictGet d k => .dictGet (inlineCse d) (inlineCse k)
  | .streamAgg y a q => .streamAgg y (inlineCse a) (inlineCse q)
  | .aggFilter c b => .aggFilter (inlineCse c) (inlineCse b)
  | .agg op a => .agg op (inlineCse a)
  | .aggExplode y e b => .aggExplode y (inlineCse e) (inlineCse b)
  | .aggGroupBy c b => .aggGroupBy (inlineCse c) (inlineCse b)

/-- every substitution `inlineCse` performs means what it should (`substOk` / `substAOk` on the inlined pieces) -/
def inlineOk : IR → Bool
  | .let_ x v b =>
    inlineOk v && inlineOk b &&
      (!isCse x || substOk x (fv (inlineCse v)) (fva (inlineCse v)) (usesAgg (inlineCse v)) (inlineCse b))
  | .aggLet x v b =>
    inlineOk v && inlineOk b &&
      (!isCse x || substAOk x (fv (inlineCse v)) (fva (inlineCse v)) (usesAgg (inlineCse v)) (inlineCse b))
  | .ref _ | .i32 _ | .i64 _ | .f32 _ | .f64 _ | .str _ | .bool _ | .na _ | .anil _ | .snil | .tnil => true
  | .cast a _ | .ascribe a _ | .isNA a | .un _ a | .arrayLen a | .toArray a | .toStream a | .getField a _ | .getTupleElement a _
  | .toSet a | .toDict a | .applyFn _ a _ | .agg _ a => inlineOk a
  | .bin _ a b | .cmp _ a b | .acons a b | .arrayRef a b | .scons _ a b | .insertField a _ b | .tcons a b | .dictGet a b
  | .streamMap _ a b | .streamFilter _ a b | .streamAgg _ a b | .aggFilter a b | .aggExplode _ a b | .aggGroupBy a b =>
    inlineOk a && inlineOk b
  | .ite a b c | .streamFold _ _ a b c | .streamScan _ _ a b c => inlineOk a && inlineOk b && inlineOk c

/-- The verified translation validator: `rendered` (the CSE renderer's output) against `plain` (the same DAG printed as a
tree, every shared node repeated).  `validate_sound` (Props/C35.lean): acceptance implies equal value in every value scope
and every aggregation scope. -/
def validate (rendered plain : IR) : Bool := inlineOk rendered && decide (inlineCse rendered = plain)

/-! ## Binder statistics of a rendered program -/

/-- number of `Ref x` occurrences (value or aggregation scope), shadowing ignored -/
def countRef (x : Name) : IR → Nat
  | .ref y => if y = x then 1 else 0
  | .i32 _ | .i64 _ | .f32 _ | .f64 _ | .str _ | .bool _ | .na _ | .anil _ | .snil | .tnil => 0
  | .cast a _ | .ascribe a _ | .isNA a | .un _ a | .arrayLen a | .toArray a | .toStream a | .getField a _ | .getTupleElement a _
  | .toSet a | .toDict a | .applyFn _ a _ | .agg _ a => countRef x a
  | .bin _ a b | .cmp _ a b | .acons a b | .arrayRef a b | .scons _ a b | .insertField a _ b | .tcons a b | .dictGet a b
  | .let_ _ a b | .streamMap _ a b | .streamFilter _ a b | .streamAgg _ a b | .aggLet _ a b | .aggFilter a b
  | .aggExplode _ a b | .aggGroupBy a b =>
    countRef x a + countRef x b
  | .ite a b c | .streamFold _ _ a b c | .streamScan _ _ a b c => countRef x a + countRef x b + countRef x c

/-- the `__cse` binders of a program, in prefix order, each with the number of references to it in the scope of the binding -/
def cseBinders : IR → List (Name × Nat)
  | .let_ x v b | .aggLet x v b => (if isCse x then [(x, countRef x b)] else []) ++ cseBinders v ++ cseBinders b
  | .ref _ | .i32 _ | .i64 _ | .f32 _ | .f64 _ | .str _ | .bool _ | .na _ | .anil _ | .snil | .tnil => []
  | .cast a _ | .ascribe a _ | .isNA a | .un _ a | .arrayLen a | .toArray a | .toStream a | .getField a _ | .getTupleElement a _
  | .toSet a | .toDict a | .applyFn _ a _ | .agg _ a => cseBinders a
  | .bin _ a b | .cmp _ a b | .acons a b | .arrayRef a b | .scons _ a b | .insertField a _ b | .tcons a b | .dictGet a b
  | .streamMap _ a b | .streamFilter _ a b | .streamAgg _ a b | .aggFilter a b | .aggExplode _ a b | .aggGroupBy a b =>
    cseBinders a ++ cseBinders b
  | .ite a b c | .streamFold _ _ a b c | .streamScan _ _ a b c => cseBinders a ++ cseBinders b ++ cseBinders c

/-- is `x` referenced from inside a branch of an `If` of `t`? -/
def refUnderIf (x : Name) : IR → Bool
  | .ite c t e => refUnderIf x c || decide (0 < countRef x t) || decide (0 < countRef x e)
  | .ref _ | .i32 _ | .i64 _ | .f32 _ | .f64 _ | .str _ | .bool _ | .na _ | .anil _ | .snil | .tnil => false
  | .cast a _ | .ascribe a _ | .isNA a | .un _ a | .arrayLen a | .toArray a | .toStream a | .getField a _ | .getTupleElement a _
  | .toSet a | .toDict a | .applyFn _ a _ | .agg _ a => refUnderIf x a
  | .bin _ a b | .cmp _ a b | .acons a b | .arrayRef a b | .scons _ a b | .insertField a _ b | .tcons a b | .dictGet a b
  | .let_ _ a b | .streamMap _ a b | .streamFilter _ a b | .streamAgg _ a b | .aggLet _ a b | .aggFilter a b
  | .aggExplode _ a b | .aggGroupBy a b =>
    refUnderIf x a || refUnderIf x b
  | .streamFold _ _ a b c | .streamScan _ _ a b c => refUnderIf x a || refUnderIf x b || refUnderIf x c

/-- `If.renderable_new_block`: the branches of a conditional are blocks — no lifted binding is referenced from inside a
branch that does not contain the binding (the engine evaluates a `Let` value eagerly and a branch only when it is taken) -/
def branchLocal : IR → Bool
  | .let_ x v b | .aggLet x v b => (!isCse x || !refUnderIf x b) && branchLocal v && branchLocal b
  | .ref _ | .i32 _ | .i64 _ | .f32 _ | .f64 _ | .str _ | .bool _ | .na _ | .anil _ | .snil | .tnil => true
  | .cast a _ | .ascribe a _ | .isNA a | .un _ a | .arrayLen a | .toArray a | .toStream a | .getField a _ | .getTupleElement a _
  | .toSet a | .toDict a | .applyFn _ a _ | .agg _ a => branchLocal a
  | .bin _ a b | .cmp _ a b | .acons a b | .arrayRef a b | .scons _ a b | .insertField a _ b | .tcons a b | .dictGet a b
  | .streamMap _ a b | .streamFilter _ a b | .streamAgg _ a b | .aggFilter a b | .aggExplode _ a b | .aggGroupBy a b =>
    branchLocal a && branchLocal b
  | .ite a b c | .streamFold _ _ a b c | .streamScan _ _ a b c => branchLocal a && branchLocal b && branchLocal c

/-! ## One step of common-subexpression elimination at the specification level

`abstractAt x v F t`: every occurrence of the subterm `v` in `t` is replaced by `(Ref x)`, except below a binder that rebinds one
of the variables `F` of `v` (there the occurrence means something else) and inside aggregation nodes.  Binding `x` to `v` in a
`Let` immediately above `t` — the bind site — is then meaning-preserving (`Props/C35.lean::cse_step_preserves`). -/

def abstractAt (x : Name) (v : IR) (F : List Name) : IR → IR
  | .i32 n => if IR.i32 n = v then .ref x else .i32 n
  | .i64 n => if IR.i64 n = v then .ref x else .i64 n
  | .f32 n => if IR.f32 n = v then .ref x else .f32 n
  | .f64 n => if IR.f64 n = v then .ref x else .f64 n
  | .str s => if IR.str s = v then .ref x else .str s
  | .bool b => if IR.bool b = v then .ref x else .bool b
  | .na t => if IR.na t = v then .ref x else .na t
  | .ref y => if IR.ref y = v then .ref x else .ref y
  | .anil t => if IR.anil t = v then .ref x else .anil t
  | .snil => if IR.snil = v then .ref x else .snil
  | .tnil => if IR.tnil = v then .ref x else .tnil
  | .cast a t => if IR.cast a t = v then .ref x else .cast (abstractAt x v F a) t
  | .ascribe a t => if IR.ascribe a t = v then .ref x else .ascribe (abstractAt x v F a) t
  | .isNA a => if IR.isNA a = v then .ref x else .isNA (abstractAt x v F a)
  | .un op a => if IR.un op a = v then .ref x else .un op (abstractAt x v F a)
  | .arrayLen a => if IR.arrayLen a = v then .ref x else .arrayLen (abstractAt x v F a)
  | .toArray a => if IR.toArray a = v then .ref x else .toArray (abstractAt x v F a)
  | .toStream a => if IR.toStream a = v then .ref x else .toStream (abstractAt x v F a)
  | .getField a f => if IR.getField a f = v then .ref x else .getField (abstractAt x v F a) f
  | .getTupleElement a i => if IR.getTupleElement a i = v then .ref x else .getTupleElement (abstractAt x v F a) i
  | .toSet a => if IR.toSet a = v then .ref x else .toSet (abstractAt x v F a)
  | .applyFn f a t => if IR.applyFn f a t = v then .ref x else .applyFn f (abstractAt x v F a) t
  | .toDict a => if IR.toDict a = v then .ref x else .toDict (abstractAt x v F a)
  | .bin op a b => if IR.bin op a b = v then .ref x else .bin op (abstractAt x v F a) (abstractAt x v F b)
  | .cmp op a b => if IR.cmp op a b = v then .ref x else .cmp op (abstractAt x v F a) (abstractAt x v F b)
  | .acons a b => if IR.acons a b = v then .ref x else .acons (abstractAt x v F a) (abstractAt x v F b)
  | .arrayRef a b => if IR.arrayRef a b = v then .ref x else .arrayRef (abstractAt x v F a) (abstractAt x v F b)
  | .scons f a b => if IR.scons f a b = v then .ref x else .scons f (abstractAt x v F a) (abstractAt x v F b)
  | .insertField a f b => if IR.insertField a f b = v then .ref x else .insertField (abstractAt x v F a) f (abstractAt x v F b)
  | .tcons a b => if IR.tcons a b = v then .ref x else .tcons (abstractAt x v F a) (abstractAt x v F b)
  | .dictGet a b => if IR.dictGet a b = v then .ref x else .dictGet (abstractAt x v F a) (abstractAt x v F b)
  | .ite a b c => if IR.ite a b c = v then .ref x else .ite (abstractAt x v F a) (abstractAt x v F b) (abstractAt x v F c)
  | .let_ y a b => if IR.let_ y a b = v then .ref x
    else .let_ y (abstractAt x v F a) (if y ∈ F then b else abstractAt x v F b)
  | .streamMap y a b => if IR.streamMap y a b = v then .ref x
    else .streamMap y (abstractAt x v F a) (if y ∈ F then b else abstractAt x v F b)
  | .streamFilter y a b => if IR.streamFilter y a b = v then .ref x
    else .streamFilter y (abstractAt x v F a) (if y ∈ F then b else abstractAt x v F b)
  | .streamFold acc w a z b => if IR.streamFold acc w a z b = v then .ref x
    else .streamFold acc w (abstractAt x v F a) (abstractAt x v F z) (if acc ∈ F ∨ w ∈ F then b else abstractAt x v F b)
  | .streamScan acc w a z b => if IR.streamScan acc w a z b = v then .ref x
    else .streamScan acc w (abstractAt x v F a) (abstractAt x v F z) (if acc ∈ F ∨ w ∈ F then b else abstractAt x v F b)
  | .streamAgg y a q => .streamAgg y a q
  | .aggLet y a b => .aggLet y a b
  | .aggFilter a b => .aggFilter a b
  | .agg op a => .agg op a
  | .aggExplode y a b => .aggExplode y a b
  | .aggGroupBy a b => .aggGroupBy a b

end HailVerif.ExprIR

/-
Model of `PoolScheduler._compute_fair_share`
(batch/batch/driver/instance_collection/pool.py).

The Python method reads one row per user (`running_cores_mcpu`, `ready_cores_mcpu`), keeps two
`sortedcontainers.SortedSet`s
  * `pending_users_by_running_cores`  (key = running cores)   -> `State.pending`
  * `allocating_users_by_total_cores` (key = running + ready) -> `State.allocating`
and runs a `while` loop with two `continue` branches that raises a common water level `mark`.
`result[user]['allocated_cores_mcpu']` is written by `allocate_cores` (inside the loop -> `State.done`,
after the loop for the users still allocating; users still pending keep the initial 0).

Numbers: cores are Python ints; the model uses `Nat` for the two DB counters and `Int` for
`mark`, `free_cores_mcpu` and the allocations.  The two rounding sites `int(x + 0.5)` are
`roundHalf` (x an int) and `roundDiv` (x = free / n, a float in Python; `int()` truncates toward 0).
The loop is run with fuel; running out of fuel is the explicit outcome `none`
(`Props/C11.lean: fairShare_total` proves it never happens).
-/
namespace HailVerif.FairShare

/-- one record of the SQL query: `user`, `running_cores_mcpu`, `ready_cores_mcpu` -/
structure User where
  id : Nat
  running : Nat
  ready : Nat
deriving Repr, DecidableEq

/-- `user_total_cores_mcpu[user] = running_cores_mcpu + ready_cores_mcpu` -/
def User.total (u : User) : Nat := u.running + u.ready

/-- `SortedSet(key=…).add(user)`: `SortedKeyList.add` bisects to the right of equal keys -/
def insertBy (key : User → Nat) (u : User) : List User → List User
  | [] => [u]
  | v :: vs => if key u < key v then u :: v :: vs else v :: insertBy key u vs

/-- `int(x + 0.5)` for an integer `x` (rounding site 1, `allocate_cores`): `int()` truncates toward zero -/
def roundHalf (x : Int) : Int := Int.tdiv (2 * x + 1) 2

/-- `int(a / n + 0.5)` (rounding site 2) on exact rationals: trunc((2a + n) / (2n)) -/
def roundDiv (a : Int) (n : Nat) : Int := Int.tdiv (2 * a + n) (2 * n)

structure State where
  pending : List User          -- ascending running cores
  allocating : List User       -- ascending total cores
  done : List (User × Int)     -- allocations written inside the loop
  mark : Int
  free : Int
deriving Repr

inductive Step where
  | next (s : State)   -- `continue` / fall off the end of the loop body
  | stop (s : State)   -- `break`

/-- `allocate_cores(user, mark)` for the head of `allocating` + `continue` -/
def finish (s : State) (a : User) (rest : List User) : Step :=
  .next { s with allocating := rest, done := s.done ++ [(a, roundHalf (s.mark - a.running))] }

/-- the tail of the loop body once `allocation = min(lowest_running, lowest_total)` is known -/
def advance (s : State) (allocation : Int) : Step :=
  let n := s.allocating.length
  let coresToAllocate : Int := n * (allocation - s.mark)
  if coresToAllocate > s.free then
    .stop { s with mark := s.mark + roundDiv s.free n, free := 0 }
  else
    .next { s with mark := allocation, free := s.free - coresToAllocate }

/-- one pass through the body of the `while` loop -/
def body (s : State) : Step :=
  match s.pending, s.allocating with
  | p :: ps, al =>
    if (p.running : Int) = s.mark then
      .next { s with pending := ps, allocating := insertBy User.total p al }
    else
      match al with
      | a :: rest =>
        if (a.total : Int) = s.mark then finish s a rest
        else advance s (min (p.running : Int) (a.total : Int))
      | [] => advance s p.running
  | [], a :: rest =>
    if (a.total : Int) = s.mark then finish s a rest
    else advance s a.total
  | [], [] => .stop s   -- excluded by the loop condition

/-- `while free_cores_mcpu > 0 and (pending or allocating)` -/
def cond (s : State) : Bool := decide (0 < s.free) && (!s.pending.isEmpty || !s.allocating.isEmpty)

def loop : Nat → State → Option State
  | 0, _ => none
  | fuel + 1, s =>
    if cond s then
      match body s with
      | .next s' => loop fuel s'
      | .stop s' => some s'
    else some s

/-- the records loop: every user goes to `pending` -/
def initPending (us : List User) : List User :=
  us.foldl (fun acc u => insertBy User.running u acc) []

def initState (us : List User) (free : Int) : State :=
  { pending := initPending us, allocating := [], done := [], mark := 0, free := free }

/-- `result[user]['allocated_cores_mcpu']` for every user after the final `for user in allocating` loop -/
def State.result (s : State) : List (User × Int) :=
  s.done ++ s.allocating.map (fun u => (u, roundHalf (s.mark - u.running))) ++ s.pending.map (fun u => (u, 0))

def fuelFor (us : List User) : Nat := 4 * us.length + 2

/-- `_compute_fair_share(free_cores_mcpu)` on the given records: (user, allocated_cores_mcpu) -/
def fairShare (us : List User) (free : Int) : Option (List (User × Int)) :=
  (loop (fuelFor us) (initState us free)).map State.result

/-- final water level (for the statements) -/
def fairShareState (us : List User) (free : Int) : Option State :=
  loop (fuelFor us) (initState us free)

end HailVerif.FairShare

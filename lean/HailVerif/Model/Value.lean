import HailVerif.Model.TypeStr
/-!
# Python values of Hail types (properties C32, C33)

What `hail.expr.types` converts: Python `int`, `bool`, `str`, `float`, `hail.genetics.Call`, `hail.genetics.Locus`,
`hail.utils.Interval`, `list`, `set`, `dict`, `tuple`, `hail.utils.Struct`, `numpy.ndarray`, and `None` (missing) at every
level.  Floats are a class (`nan`, `+inf`, `-inf`) or the bit pattern of a finite number (binary64 for `float64`, binary32
for `float32`): the conversions never do float arithmetic on them, they only test finiteness / move the bits.  Sets and
dicts are kept as the list of their elements / entries in iteration order; Python collapses elements that compare equal,
which well-typed values (pairwise distinct elements) never exercise.
-/
namespace HailVerif.Values
open HailVerif.TypeStr

/-- a Python `float` -/
inductive Flt where
  | fin (bits : Nat)
  | nan | inf | ninf
deriving Repr, DecidableEq, Inhabited

inductive Value where
  | na
  | int (i : Int)
  | bool (b : Bool)
  | str (s : Str)
  | flt (f : Flt)
  | call (alleles : List Nat) (phased : Bool)
  | locus (contig : Str) (position : Int)
  | interval (start stop : Value) (includesStart includesEnd : Bool)
  | arr (xs : List Value)
  | set (xs : List Value)
  | dict (entries : List (Value × Value))
  | tup (xs : List Value)
  | struct (xs : List Value)                     -- field values in the order of the type's fields
  | nd (shape : List Nat) (data : List Value) (fortran : Bool)   -- elements in C (row-major, logical) order; `fortran`: the
                                                                  -- numpy array is laid out column-major in memory
deriving Repr, Inhabited

/-- finite binary32 pattern: below 2^32 with an exponent field that is not all ones -/
def Flt.Valid32 : Flt → Prop
  | .fin b => b < 4294967296 ∧ b / 8388608 % 256 ≠ 255
  | _ => True

/-- finite binary64 pattern -/
def Flt.Valid64 : Flt → Prop
  | .fin b => b < 18446744073709551616 ∧ b / 4503599627370496 % 2048 ≠ 2047
  | _ => True

/-- a `str` that can be sent: Unicode scalar values (UTF-8 encodable) -/
def ScalarStr (s : Str) : Prop := ∀ c ∈ s, c < 1114112 ∧ ¬ (55296 ≤ c ∧ c < 57344)

def isNumeric : HType → Bool
  | .int32 | .int64 | .float32 | .float64 | .bool => true
  | _ => false

mutual
/-- `v` is a value of type `t` (`None` is a value of every type) -/
def HasType : HType → Value → Prop
  | _, .na => True
  | .int32, .int i => -2147483648 ≤ i ∧ i < 2147483648
  | .int64, .int i => -9223372036854775808 ≤ i ∧ i < 9223372036854775808
  | .float32, .flt f => f.Valid32
  | .float64, .flt f => f.Valid64
  | .bool, .bool _ => True
  | .str, .str s => ScalarStr s
  | .call, .call alleles phased =>
      alleles.length ≤ 2 ∧ (phased = false → ∀ a b, alleles = [a, b] → a ≤ b)   -- `Call.__init__` sorts unphased pairs
  | .locus _, .locus contig pos => ScalarStr contig ∧ -2147483648 ≤ pos ∧ pos < 2147483648
  | .interval t, .interval s e _ _ => HasType t s ∧ HasType t e
  | .array t, .arr xs => ∀ x ∈ xs, HasType t x
  | .set t, .set xs => ∀ x ∈ xs, HasType t x
  | .dict k v, .dict es => ∀ p ∈ es, HasType k p.1 ∧ HasType v p.2
  | .struct fs, .struct xs => HasTypeFields fs xs
  | .tuple ts, .tup xs => HasTypeTuple ts xs
  | .ndarray t n, .nd shape data _ =>
      shape.length = n ∧ data.length = shape.foldl (· * ·) 1 ∧ ∀ x ∈ data, x ≠ .na ∧ HasType t x
  | _, _ => False
def HasTypeFields : List (Str × HType) → List Value → Prop
  | [], [] => True
  | (_, t) :: fs, x :: xs => HasType t x ∧ HasTypeFields fs xs
  | _, _ => False
def HasTypeTuple : List HType → List Value → Prop
  | [], [] => True
  | t :: ts, x :: xs => HasType t x ∧ HasTypeTuple ts xs
  | _, _ => False
end

mutual
/-- the same value with every numpy array in C memory order (what every decoder builds) -/
def cOrder : Value → Value
  | .interval s e is ie => .interval (cOrder s) (cOrder e) is ie
  | .arr xs => .arr (cOrderList xs)
  | .set xs => .set (cOrderList xs)
  | .dict es => .dict (cOrderEntries es)
  | .tup xs => .tup (cOrderList xs)
  | .struct xs => .struct (cOrderList xs)
  | .nd shape data _ => .nd shape (cOrderList data) false
  | v => v
def cOrderList : List Value → List Value
  | [] => []
  | x :: xs => cOrder x :: cOrderList xs
def cOrderEntries : List (Value × Value) → List (Value × Value)
  | [] => []
  | (a, b) :: es => (cOrder a, cOrder b) :: cOrderEntries es
end

mutual
/-- the same value with every numpy array flagged column-major in memory (what `_convert_from_encoding` builds:
`np.ndarray(…, order="F")`) -/
def fOrder : Value → Value
  | .interval s e is ie => .interval (fOrder s) (fOrder e) is ie
  | .arr xs => .arr (fOrderList xs)
  | .set xs => .set (fOrderList xs)
  | .dict es => .dict (fOrderEntries es)
  | .tup xs => .tup (fOrderList xs)
  | .struct xs => .struct (fOrderList xs)
  | .nd shape data _ => .nd shape (fOrderList data) true
  | v => v
def fOrderList : List Value → List Value
  | [] => []
  | x :: xs => fOrder x :: fOrderList xs
def fOrderEntries : List (Value × Value) → List (Value × Value)
  | [] => []
  | (a, b) :: es => (fOrder a, fOrder b) :: fOrderEntries es
end

/-- `mapM` for `Option` with plain equations -/
def mapOpt {α β : Type} (f : α → Option β) : List α → Option (List β)
  | [] => some []
  | a :: r => match f a, mapOpt f r with
    | some b, some bs => some (b :: bs)
    | _, _ => none

end HailVerif.Values

/-!
# Model for C14 — batch front-end access control

* `Decorator`, `guard`, `decision` — semantics of the decorators of `gear/gear/auth.py`
  (`Authenticator.authenticated_users_only`, `authenticated_developers_only`, `maybe_authenticated_user`) and of
  `batch/batch/front_end/front_end.py` (`authenticated_developers_or_auth_only`, `billing_project_users_only` +
  `_user_can_access`); tied to the real decorator objects by the correspondence check `harness/props/c14.py`.
* `Route` — one registration in `front_end.py`; the table itself is `Generated/BatchRoutes.lean`, re-emitted from the
  source on every run by `harness/extract/routes.py`.
* `required` — the POLICY of property C14, a function of method and path only (so a new route gets a requirement
  without anybody editing a list).
-/
namespace HailVerif.Access

inductive Method where
  | get | post | put | patch | delete | head | options
deriving DecidableEq, Repr

/-- decorators that can sit between a route registration and the handler body (outermost first) -/
inductive Decorator where
  /-- `auth.authenticated_users_only(redirect)` -/
  | usersOnly (redirect : Option Bool)
  /-- `auth.authenticated_developers_only(redirect)` = `authenticated_users_only(redirect)` then `is_developer == 1` else 401 -/
  | developersOnly (redirect : Bool)
  /-- `authenticated_developers_or_auth_only` = `authenticated_users_only()` then developer or username `auth`, else 401 -/
  | developersOrAuthOnly
  /-- `billing_project_users_only(redirect)` = `authenticated_users_only(redirect)`, `int(batch_id)`, `_user_can_access` else 404 -/
  | billingProjectUsersOnly (redirect : Option Bool)
  /-- `auth.maybe_authenticated_user`: never refuses -/
  | maybeAuthenticated
  /-- a decorator that is not an access guard (`add_metadata_to_request`, `web_security_headers`, `deprecated`,
  `catch_ui_error_in_dev`, or one the extractor does not know: counted as no guard) -/
  | passThrough (name : String)
deriving DecidableEq, Repr

structure Route where
  method : Method
  path : String
  segs : List String          -- path split at '/', empty segments dropped
  handler : String
  isApi : Bool                -- '/api/' in path (what `authenticated_users_only(None)` looks at)
  decorators : List Decorator -- outermost first
  ownerFilter : Bool          -- the first SQL the handler reaches is a SELECT … WHERE … user = %s (owner filter)
deriving DecidableEq, Repr

/-- who is calling, as far as the guards can tell -/
structure Caller where
  hasSession : Bool   -- `_fetch_userdata` returns userdata (a valid session / bearer token)
  active : Bool       -- userdata['state'] != 'inactive'
  developer : Bool    -- userdata['is_developer'] == 1
  isAuth : Bool       -- userdata['username'] == 'auth'
  serviceAccount : Bool  -- userdata['is_service_account'] == 1 (auth, ci, grafana, test, … are service accounts; no guard reads it)
  member : Bool       -- the batch exists and the user is in its billing project (`_user_can_access`)
  owner : Bool        -- batches.user = username
  batchIdOk : Bool    -- `int(request.match_info['batch_id'])` succeeds
deriving DecidableEq, Repr

inductive Outcome where
  | allow            -- the wrapped function is called
  | redirectLogin    -- 302 to the login page
  | unauthorized     -- 401
  | forbidden        -- 403 (inactive account)
  | notFound         -- 404
  | serverError      -- 500 (ValueError of int(batch_id))
deriving DecidableEq, Repr

/-- `Authenticator.authenticated_users_only(redirect).wrapped` up to the call of the wrapped function -/
def usersOnly (redirect : Option Bool) (isApi : Bool) (c : Caller) : Outcome :=
  if !c.hasSession then
    (if redirect == some true || (redirect == none && !isApi) then .redirectLogin else .unauthorized)
  else if !c.active then .forbidden
  else .allow

def guard (d : Decorator) (isApi : Bool) (c : Caller) : Outcome :=
  match d with
  | .usersOnly r => usersOnly r isApi c
  | .developersOnly r =>
    match usersOnly (some r) isApi c with
    | .allow => if c.developer then .allow else .unauthorized
    | o => o
  | .developersOrAuthOnly =>
    match usersOnly none isApi c with
    | .allow => if c.developer || c.isAuth then .allow else .unauthorized
    | o => o
  | .billingProjectUsersOnly r =>
    match usersOnly r isApi c with
    | .allow => if !c.batchIdOk then .serverError else if c.member then .allow else .notFound
    | o => o
  | .maybeAuthenticated => .allow
  | .passThrough _ => .allow

/-- run the stack outermost-first; `.allow` = the handler body is entered -/
def decision (ds : List Decorator) (isApi : Bool) (c : Caller) : Outcome :=
  match ds with
  | [] => .allow
  | d :: ds =>
    match guard d isApi c with
    | .allow => decision ds isApi c
    | o => o

/-- serving a request: guards first, then the body (which alone may change the state) -/
def serve {σ : Type} (r : Route) (c : Caller) (body : σ → σ) (s : σ) : Outcome × σ :=
  match decision r.decorators r.isApi c with
  | .allow => (.allow, body s)
  | o => (o, s)

/-! ## the policy (property C14) -/

inductive Class where
  | pub      -- health / metrics, version & cloud info, documentation, legal pages, static assets
  | user     -- authenticated, active user
  | member   -- … who belongs to the batch's billing project (read, cancel, delete)
  | owner    -- … who owns the batch (add jobs / job groups / updates, commit, close)
  | admin    -- … who is a developer or the auth service (billing-project administration)
deriving DecidableEq, Repr

def publicPaths : List (List String) := [
  ["healthcheck"], ["metrics"],
  ["api", "v1alpha", "version"], ["api", "v1alpha", "cloud"],
  ["swagger"], ["openapi.yaml"],
  ["tos"], ["privacy"],
  ["batch", "static", "js", "{filename}"], ["common_static", "{filename}"]]

def required (m : Method) (segs : List String) : Class :=
  if m == .get && publicPaths.contains segs then .pub
  else if segs.contains "{batch_id}" then
    -- batch-scoped: reading, cancelling and deleting are for billing-project members, every other mutation for the owner
    if m == .get || m == .delete || segs.getLast? == some "cancel" || segs.getLast? == some "delete" then .member
    else .owner
  else if m != .get && (segs.contains "billing_projects" || segs.contains "billing_limits") then .admin
  else .user

def isUser (c : Caller) : Bool := c.hasSession && c.active

/-- what the guards of a route must have established about a caller that reaches the body.  For `owner` the guards establish
"authenticated active user" and the table must record that the handler starts with the owner-filtered SELECT (the filter itself is
exercised on the real SQL by the correspondence check). -/
def establishes (cls : Class) (r : Route) (c : Caller) : Bool :=
  match cls with
  | .pub => true
  | .user => isUser c
  | .member => isUser c && c.member
  | .admin => isUser c && (c.developer || c.isAuth)
  | .owner => isUser c && r.ownerFilter

def bools : List Bool := [false, true]

def allCallers : List Caller :=
  bools.flatMap fun a => bools.flatMap fun b => bools.flatMap fun c => bools.flatMap fun d =>
  bools.flatMap fun e => bools.flatMap fun f => bools.flatMap fun g => bools.map fun h =>
    { hasSession := a, active := b, developer := c, isAuth := d, serviceAccount := h, member := e, owner := f, batchIdOk := g }

def routeGuarded (r : Route) : Bool :=
  allCallers.all fun c => decision r.decorators r.isApi c != .allow || establishes (required r.method r.segs) r c

/-! ## owner-only mutators: which check comes first

The six owner-only handlers carry only `authenticated_users_only`; ownership is a `user = %s` conjunct in their SQL.  This is the
control flow of those handlers as far as ownership is concerned (tied to the real handlers, run over the repo's SQL by the minisql
interpreter, by `harness/props/c14.py`). -/

inductive Mutator where
  | createUpdate     -- POST …/updates/create            → `_create_batch_update`
  | updateFast       -- POST …/update-fast               → `_create_batch_update`; `_create_job_groups`; `_create_jobs`; `_commit_update`
  | createJobs       -- POST …/updates/{u}/jobs/create and the deprecated …/jobs/create → `_create_jobs`
  | createJobGroups  -- POST …/updates/{u}/job-groups/create → `_create_job_groups`
  | commitUpdate     -- PATCH …/updates/{u}/commit
  | closeBatch       -- PATCH …/close
deriving DecidableEq, Repr

/-- an authenticated, active caller's request to a mutator of an existing, open batch -/
structure MutReq where
  isOwner : Bool        -- batches.user = caller
  tokenKnown : Bool     -- a batch_updates row (batch_id, token) with the request's token already exists
  emptyPayload : Bool   -- update-fast only: `bunch` and `job_groups` are both empty
  namesake : Bool       -- the caller's name equals the owner's up to case / accents, but it is a different account
deriving DecidableEq, Repr

/-- the owner filter `batches.user = %s`: `batches.user` has MySQL's default case- and accent-insensitive collation (only
`billing_project_users.user_cs` and `billing_projects.name_cs` are case-sensitive, migration 077), so a namesake passes it too -/
def MutReq.passesOwnerFilter (q : MutReq) : Bool := q.isOwner || q.namesake

structure MutResult where
  ok : Bool         -- 2xx answer (otherwise an HTTP error)
  changed : Bool    -- the database differs afterwards
deriving DecidableEq, Repr

/-- `_create_batch_update` (as of commit 4c50f4344): first the idempotency lookup
`SELECT … FROM batch_updates INNER JOIN batches … WHERE batch_updates.batch_id = %s AND batch_updates.token = %s AND batches.user = %s AND NOT deleted`
— found: the existing update is returned; then `SELECT … FROM batches WHERE batches.id = %s AND batches.user = %s` else 404.
A non-owner finds nothing in either. -/
def createBatchUpdate (q : MutReq) : MutResult :=
  if q.passesOwnerFilter then
    (if q.tokenKnown then { ok := true, changed := false } else { ok := true, changed := true })
  else { ok := false, changed := false }

def mutate (m : Mutator) (q : MutReq) : MutResult :=
  match m with
  | .createUpdate => createBatchUpdate q
  | .updateFast =>
    let r := createBatchUpdate q
    if !r.ok then r
    else if !q.emptyPayload then
      -- `_create_job_groups` / `_create_jobs` start with the owner-filtered SELECT (404 otherwise)
      if q.passesOwnerFilter then { ok := true, changed := true } else { ok := false, changed := r.changed }
    else
      -- nothing to insert: straight to `_commit_update` (no owner check of its own; only callers that passed the filter get here)
      { ok := true, changed := true }
  | _ => if q.passesOwnerFilter then { ok := true, changed := true } else { ok := false, changed := false }

/-- the batch listings (`GET /api/v1alpha/batches`, `/api/v2alpha/batches`, `/api/v1alpha/batches/completed`) filter on
`billing_project_users.user = %s` / `batches.user = %s` (case-insensitive columns): is a given batch listed for the caller? -/
def listed (memberOrOwner namesake : Bool) : Bool := memberOrOwner || namesake

/-- `_create_batch_update` BEFORE commit 4c50f4344: the token lookup `WHERE batch_id = %s AND token = %s` had no user filter -/
def createBatchUpdateOld (q : MutReq) : MutResult :=
  if q.tokenKnown then { ok := true, changed := false }
  else if q.passesOwnerFilter then { ok := true, changed := true }
  else { ok := false, changed := false }

def mutateOld (m : Mutator) (q : MutReq) : MutResult :=
  match m with
  | .createUpdate => createBatchUpdateOld q
  | .updateFast =>
    let r := createBatchUpdateOld q
    if !r.ok then r
    else if !q.emptyPayload then
      if q.passesOwnerFilter then { ok := true, changed := true } else { ok := false, changed := r.changed }
    else { ok := true, changed := true }
  | _ => if q.passesOwnerFilter then { ok := true, changed := true } else { ok := false, changed := false }

/-- billing-project administration through the API routes (`authenticated_developers_or_auth_only` + handler body): what a caller
who is not a developer and not the auth service gets -/
def adminOnly (developer isAuth : Bool) : Option MutResult :=
  if developer || isAuth then none            -- an administrator: the outcome depends on the request, not modelled
  else some { ok := false, changed := false }

/-! ## data level: the WHERE clause of the job listings (`parse_job_group_jobs_query_v1/v2`)

`where_conditions = ['(jobs.batch_id = %s AND batch_updates.committed)', …]` joined with AND; a state term contributes
`((jobs.state = %s) OR (jobs.state = %s) …)` — WITH the outer parentheses. -/

/-- a row passes the generated WHERE clause: batch filter AND (one of the states) -/
def whereJobs (rowBatch reqBatch rowState : Nat) (states : List Nat) : Bool :=
  rowBatch == reqBatch && states.any (· == rowState)

/-- NOT the code: the state disjunction appended without its outer parentheses; SQL's AND binds tighter than OR, so only the first
state stays under the batch filter -/
def whereJobsBare (rowBatch reqBatch rowState : Nat) (states : List Nat) : Bool :=
  match states with
  | [] => rowBatch == reqBatch
  | s :: rest => (rowBatch == reqBatch && s == rowState) || rest.any (· == rowState)

end HailVerif.Access

import HailVerif.Model.ExprIR
import HailVerif.Model.FnRegistry
/-!
# Reader for the IR text the Python renderers emit (driver code for C35 / C36 — not part of the model)

`readIR` turns the s-expression text produced by `CSERenderer` / `PlainRenderer` (`hail/ir/renderer.py`) into the model's
`IR`; `readVal` / `showVal` are the value syntax of the line protocol.  Anything outside the modelled node set is an error
(`Except.error`), never a default.
-/
namespace HailVerif.ExprIR.Read
open HailVerif.ExprIR

inductive Sexp where
  | atom (s : String)
  | str (s : String)
  | list (xs : List Sexp)
  deriving Inhabited

inductive Tok where
  | lp | rp
  | atom (s : String)
  | str (s : String)
  deriving Inhabited

def isDelim (c : Char) : Bool := c == '(' || c == ')' || c == ' ' || c == '\n' || c == '\t'

/-- atoms run to the next delimiter; backticked identifiers and double-quoted strings are read to their closing quote -/
partial def tokenize (cs : List Char) (acc : Array Tok) : Except String (Array Tok) :=
  match cs with
  | [] => .ok acc
  | '(' :: r => tokenize r (acc.push .lp)
  | ')' :: r => tokenize r (acc.push .rp)
  | ' ' :: r | '\n' :: r | '\t' :: r => tokenize r acc
  | '"' :: r =>
    let rec go (cs : List Char) (out : List Char) : Except String (List Char × List Char) :=
      match cs with
      | [] => .error "unterminated string"
      | '\\' :: c :: r => go r (c :: '\\' :: out)
      | '"' :: r => .ok (out.reverse, r)
      | c :: r => go r (c :: out)
    match go r [] with
    | .ok (s, r) => tokenize r (acc.push (.str (String.ofList s)))
    | .error e => .error e
  | '`' :: r =>
    let rec goTick (cs : List Char) (out : List Char) : Except String (List Char × List Char) :=
      match cs with
      | [] => .error "unterminated backtick"
      | '\\' :: c :: r => goTick r (c :: out)
      | '`' :: r => .ok (out.reverse, r)
      | c :: r => goTick r (c :: out)
    match goTick r [] with
    | .ok (s, r) => tokenize r (acc.push (.atom (String.ofList s)))
    | .error e => .error e
  | cs =>
    let a := cs.takeWhile (fun c => !isDelim c)
    tokenize (cs.drop a.length) (acc.push (.atom (String.ofList a)))

/-- one s-expression starting at token `i` -/
partial def parseSexp (ts : Array Tok) (i : Nat) : Except String (Sexp × Nat) :=
  if h : i < ts.size then
    match ts[i] with
    | .atom s => .ok (.atom s, i + 1)
    | .str s => .ok (.str s, i + 1)
    | .rp => .error "unexpected )"
    | .lp =>
      let rec items (j : Nat) (acc : List Sexp) : Except String (List Sexp × Nat) :=
        if h : j < ts.size then
          match ts[j] with
          | .rp => .ok (acc.reverse, j + 1)
          | _ => match parseSexp ts j with
            | .ok (s, j') => items j' (s :: acc)
            | .error e => .error e
        else .error "missing )"
      match items (i + 1) [] with
      | .ok (xs, j) => .ok (.list xs, j)
      | .error e => .error e
  else .error "unexpected end"

def readSexp (s : String) : Except String Sexp := do
  let ts ← tokenize s.toList #[]
  let (e, j) ← parseSexp ts 0
  if j == ts.size then pure e else throw "trailing tokens"

/-! ## types: `_parsable_string` (`Int32`, `Array[T]`, `Struct{a:T,b:U}`, `Tuple[T,U]`, `Dict[K,V]`, `Set[T]`, `Stream[T]`) -/

def isIdChar (c : Char) : Bool := c.isAlphanum || c == '_'

mutual
partial def pType (cs : List Char) : Except String (HType × List Char) :=
  let name := cs.takeWhile isIdChar
  let r := cs.drop name.length
  match String.ofList name, r with
  | "Int32", r => .ok (.int32, r)
  | "Int64", r => .ok (.int64, r)
  | "Float32", r => .ok (.float32, r)
  | "Float64", r => .ok (.float64, r)
  | "Boolean", r => .ok (.bool, r)
  | "String", r => .ok (.str, r)
  | "Array", '[' :: r => do let (t, r) ← pType r; match r with | ']' :: r => pure (.array t, r) | _ => throw "type: ]"
  | "Stream", '[' :: r => do let (t, r) ← pType r; match r with | ']' :: r => pure (.stream t, r) | _ => throw "type: ]"
  | "Set", '[' :: r => do let (t, r) ← pType r; match r with | ']' :: r => pure (.set t, r) | _ => throw "type: ]"
  | "Interval", '[' :: r => do let (t, r) ← pType r; match r with | ']' :: r => pure (.interval t, r) | _ => throw "type: ]"
  | "Dict", '[' :: r => do
    let (k, r) ← pType r
    match r with
    | ',' :: r => do let (v, r) ← pType r; match r with | ']' :: r => pure (.dict k v, r) | _ => throw "type: ]"
    | _ => throw "type: ,"
  | "Struct", '{' :: '}' :: r => .ok (.struct .nil, r)
  | "Struct", '{' :: r => do let (fs, r) ← pFields r; pure (.struct fs, r)
  | "Tuple", '[' :: ']' :: r => .ok (.tuple .nil, r)
  | "Tuple", '[' :: r => do let (ts, r) ← pTypes r; pure (.tuple ts, r)
  | n, _ => .error s!"type: unknown {n}"
partial def pFields (cs : List Char) : Except String (Fields × List Char) := do
  let name := cs.takeWhile isIdChar
  match cs.drop name.length with
  | ':' :: r =>
    let (t, r) ← pType r
    match r with
    | ',' :: r => do let (fs, r) ← pFields r; pure (.cons (String.ofList name) t fs, r)
    | '}' :: r => pure (.cons (String.ofList name) t .nil, r)
    | _ => throw "type: field separator"
  | _ => throw "type: field name"
partial def pTypes (cs : List Char) : Except String (Types × List Char) := do
  let (t, r) ← pType cs
  match r with
  | ',' :: r => do let (ts, r) ← pTypes r; pure (.cons t ts, r)
  | ']' :: r => pure (.cons t .nil, r)
  | _ => throw "type: tuple separator"
end

def readType (s : String) : Except String HType := do
  let (t, r) ← pType s.toList
  if r.isEmpty then pure t else throw s!"type: trailing {String.ofList r}"

mutual
partial def showType : HType → String
  | .int32 => "Int32" | .int64 => "Int64" | .float32 => "Float32" | .float64 => "Float64" | .bool => "Boolean" | .str => "String"
  | .array t => s!"Array[{showType t}]"
  | .stream t => s!"Stream[{showType t}]"
  | .set t => s!"Set[{showType t}]"
  | .dict k v => s!"Dict[{showType k},{showType v}]"
  | .interval t => s!"Interval[{showType t}]"
  | .struct fs => "Struct{" ++ ",".intercalate (showFields fs) ++ "}"
  | .tuple ts => "Tuple[" ++ ",".intercalate (showTypes ts) ++ "]"
partial def showFields : Fields → List String
  | .nil => []
  | .cons n t r => s!"{n}:{showType t}" :: showFields r
partial def showTypes : Types → List String
  | .nil => []
  | .cons t r => showType t :: showTypes r
end

/-! ## IR -/

/-- `__cse_N` ↦ `Name.cse N`, anything else is a user name -/
def mkName (s : String) : Name :=
  if s.startsWith "__cse_" then
    match (s.drop 6).toNat? with
    | some n => .cse n
    | none => .user s
  else .user s

def showName : Name → String
  | .user s => s
  | .cse n => s!"__cse_{n}"

def readBinOp : String → Except String BinOp
  | "+" | "Add" => .ok .add
  | "-" | "Subtract" => .ok .sub
  | "*" | "Multiply" => .ok .mul
  | "/" | "FloatingPointDivide" => .ok .div
  | "//" | "RoundToNegInfDivide" => .ok .floorDiv
  | o => .error s!"binop {o}"

def readUnOp : String → Except String UnOp
  | "-" | "Negate" => .ok .neg
  | "!" | "Bang" => .ok .not
  | o => .error s!"unop {o}"

def readCmpOp : String → Except String CmpOp
  | "<" | "LT" => .ok .lt
  | "<=" | "LTEQ" => .ok .le
  | ">" | "GT" => .ok .gt
  | ">=" | "GTEQ" => .ok .ge
  | "==" | "EQ" => .ok .eq
  | "!=" | "NEQ" => .ok .neq
  | o => .error s!"cmpop {o}"

/-- float literal payload: the integer part of the decimal text (`2.0` ↦ 2; anything else ↦ 0) -/
def fltPayload (s : String) : Int :=
  match (s.splitOn ".").head? with
  | some a => (a.toInt?).getD 0
  | none => 0

def convTarget : String → Option HType
  | "toInt32" => some .int32
  | "toInt64" => some .int64
  | "toFloat32" => some .float32
  | "toFloat64" => some .float64
  | _ => none

partial def toIR : Sexp → Except String IR
  | .list [.atom "I32", .atom n] => match n.toInt? with | some k => .ok (.i32 k) | none => .error "I32"
  | .list [.atom "I64", .atom n] => match n.toInt? with | some k => .ok (.i64 k) | none => .error "I64"
  | .list [.atom "F32", .atom n] => .ok (.f32 (fltPayload n))
  | .list [.atom "F64", .atom n] => .ok (.f64 (fltPayload n))
  | .list [.atom "Str", .str s] => .ok (.str s)
  | .list [.atom "True"] => .ok (.bool true)
  | .list [.atom "False"] => .ok (.bool false)
  | .list [.atom "NA", .atom t] => do pure (.na (← readType t))
  | .list [.atom "Ref", .atom x] => .ok (.ref (mkName x))
  | .list [.atom "Cast", .atom t, a] => do pure (.cast (← toIR a) (← readType t))
  | .list [.atom "IsNA", a] => do pure (.isNA (← toIR a))
  -- `(Typed T e)`: written by harness/props/c36.py around every node — the type the FRONT END attached to that node (for a `Ref`
  -- the type it believes the variable has); `ascribe` makes `inferType` compare it with the type the binders / rules give
  | .list [.atom "Typed", .atom t, e] => do pure (.ascribe (← toIR e) (← readType t))
  -- `Coalesce a b …` = if a is missing then (Coalesce b …) else a
  | .list (.atom "Coalesce" :: args) => do
    let es ← args.mapM toIR
    match es.reverse with
    | [] => throw "Coalesce"
    | last :: revInit => pure (revInit.foldl (fun rest a => .ite (.isNA a) rest a) last)
  | .list [.atom "ApplyUnaryPrimOp", .atom op, a] => do pure (.un (← readUnOp op) (← toIR a))
  | .list [.atom "ApplyBinaryPrimOp", .atom op, a, b] => do pure (.bin (← readBinOp op) (← toIR a) (← toIR b))
  | .list [.atom "ApplyComparisonOp", .atom op, a, b] => do pure (.cmp (← readCmpOp op) (← toIR a) (← toIR b))
  | .list [.atom "If", c, t, e] => do pure (.ite (← toIR c) (← toIR t) (← toIR e))
  | .list [.atom "Let", .atom "eval", .atom x, v, b] => do pure (.let_ (mkName x) (← toIR v) (← toIR b))
  | .list (.atom "MakeArray" :: .atom t :: args) => do
    let ty ← readType t
    let et ← match ty with | .array e => pure e | _ => throw "MakeArray type"
    let es ← args.mapM toIR
    pure (es.foldr (fun h tl => .acons h tl) (.anil et))
  | .list [.atom "ArrayRef", .atom _, a, i] => do pure (.arrayRef (← toIR a) (← toIR i))
  | .list [.atom "ArrayLen", a] => do pure (.arrayLen (← toIR a))
  | .list [.atom "ToArray", a] => do pure (.toArray (← toIR a))
  | .list [.atom "CastToArray", a] => do pure (.toArray (← toIR a))
  | .list [.atom "ToStream", .atom _, a] => do pure (.toStream (← toIR a))
  | .list [.atom "StreamMap", .atom x, a, b] => do pure (.streamMap (mkName x) (← toIR a) (← toIR b))
  | .list [.atom "StreamFilter", .atom x, a, b] => do pure (.streamFilter (mkName x) (← toIR a) (← toIR b))
  | .list [.atom "StreamFold", .atom acc, .atom v, a, z, b] => do pure (.streamFold (mkName acc) (mkName v) (← toIR a) (← toIR z) (← toIR b))
  | .list [.atom "StreamScan", .atom acc, .atom v, a, z, b] => do pure (.streamScan (mkName acc) (mkName v) (← toIR a) (← toIR z) (← toIR b))
  | .list (.atom "MakeStruct" :: fields) => do
    let fs ← fields.mapM fun
      | .list [.atom f, e] => do pure (f, ← toIR e)
      | _ => throw "MakeStruct field"
    pure (fs.foldr (fun (p : String × IR) rest => .scons p.1 p.2 rest) .snil)
  | .list [.atom "GetField", .atom f, o] => do pure (.getField (← toIR o) f)
  | .list (.atom "InsertFields" :: old :: .atom "None" :: fields) => do
    let fs ← fields.mapM fun
      | .list [.atom f, e] => do pure (f, ← toIR e)
      | _ => throw "InsertFields field"
    pure (fs.foldl (fun o (p : String × IR) => .insertField o p.1 p.2) (← toIR old))
  | .list (.atom "MakeTuple" :: .list _ :: args) => do
    let es ← args.mapM toIR
    pure (es.foldr (fun h tl => .tcons h tl) .tnil)
  | .list [.atom "GetTupleElement", .atom i, o] => match i.toNat? with
    | some k => do pure (.getTupleElement (← toIR o) k)
    | none => .error "GetTupleElement"
  | .list [.atom "ToSet", a] => do pure (.toSet (← toIR a))
  | .list [.atom "ToDict", a] => do pure (.toDict (← toIR a))
  | .list (.atom "Apply" :: .atom _ :: .atom fn :: .list [] :: .atom ret :: args) => do
    let declared ← readType ret
    let body ← match convTarget fn, fn, args with
    | some t, _, [a] => pure (.cast (← toIR a) t)
    | none, "indexArray", [a, i] => pure (.arrayRef (← toIR a) (← toIR i))
    | none, "index", [d, k] => pure (.dictGet (← toIR d) (← toIR k))
    | none, "dict", [a] => pure (.toDict (.toStream (← toIR a)))                          -- `hl.dict(array of pairs)`
    | none, "land", [a, b] => pure (.ite (← toIR a) (← toIR b) (.bool false))            -- `a & b` on booleans
    | none, "lor", [a, b] => pure (.ite (← toIR a) (.bool true) (← toIR b))
    | none, _, _ =>
      -- any other function: checked against the transcribed registry signatures (`FnRegistry.applyOk`, via `inferType`)
      if (HailVerif.FnRegistry.signatures fn).isEmpty then throw s!"Apply {fn}"
      else do
        let as ← args.mapM toIR
        return IR.applyFn fn (as.foldr IR.tcons IR.tnil) declared
    | _, _, _ => throw s!"Apply {fn}"
    pure (.ascribe body declared)
  | .list [.atom "EncodedLiteral", .atom t, .str _] => do pure (.na (← readType t))     -- an opaque constant of its declared type
  | .list [.atom "Literal", .atom t, .str _] => do pure (.na (← readType t))
  | .list [.atom "StreamAgg", .atom x, a, q] => do pure (.streamAgg (mkName x) (← toIR a) (← toIR q))
  | .list [.atom "AggLet", .atom x, .atom "False", v, b] => do pure (.aggLet (mkName x) (← toIR v) (← toIR b))
  | .list [.atom "AggFilter", .atom "False", c, b] => do pure (.aggFilter (← toIR c) (← toIR b))
  | .list [.atom "AggExplode", .atom x, .atom "False", e, b] => do pure (.aggExplode (mkName x) (← toIR e) (← toIR b))
  | .list [.atom "AggGroupBy", .atom "False", k, b] => do pure (.aggGroupBy (← toIR k) (← toIR b))
  | .list [.atom "ApplyAggOp", .atom "Max", .list [], .list [a]] => do pure (.agg .max (← toIR a))
  | .list [.atom "ApplyAggOp", .atom "Collect", .list [], .list [a]] => do pure (.agg .collect (← toIR a))
  | .list (.atom h :: _) => .error s!"unsupported node {h}"
  | _ => .error "malformed IR"

def readIR (s : String) : Except String IR := do toIR (← readSexp s)

/-! ## values of the line protocol: `(i 5) (l 5) (f 5) (b 1) (s "x") (na) (err) (arr v…) (set v…) (st (f v)…) (tup v…)` -/

partial def toVal : Sexp → Except String Val
  | .list [.atom "i", .atom n] => match n.toInt? with | some k => .ok (.i32 k) | none => .error "val i"
  | .list [.atom "l", .atom n] => match n.toInt? with | some k => .ok (.i64 k) | none => .error "val l"
  | .list [.atom "g", .atom n] => match n.toInt? with | some k => .ok (.f32 k) | none => .error "val g"
  | .list [.atom "f", .atom n] => match n.toInt? with | some k => .ok (.f64 k) | none => .error "val f"
  | .list [.atom "b", .atom "1"] => .ok (.bool true)
  | .list [.atom "b", .atom "0"] => .ok (.bool false)
  | .list [.atom "s", .str s] => .ok (.str s)
  | .list [.atom "na"] => .ok .na
  | .list [.atom "err"] => .ok .err
  | .list (.atom "arr" :: vs) => do pure (.arr (← vs.mapM toVal))
  | .list (.atom "set" :: vs) => do pure (.set (← vs.mapM toVal))
  | .list (.atom "tup" :: vs) => do pure (.tuple (← vs.mapM toVal))
  | .list (.atom "st" :: fs) => do
    pure (.struct (← fs.mapM fun
      | .list [.atom f, v] => do pure (f, ← toVal v)
      | _ => throw "val st"))
  | _ => .error "malformed value"

partial def showVal : Val → String
  | .i32 n => s!"(i {n})" | .i64 n => s!"(l {n})" | .f32 n => s!"(g {n})" | .f64 n => s!"(f {n})"
  | .bool true => "(b 1)" | .bool false => "(b 0)"
  | .str s => s!"(s \"{s}\")"
  | .na => "(na)" | .err => "(err)"
  | .arr vs => "(arr" ++ String.join (vs.map fun v => " " ++ showVal v) ++ ")"
  | .set vs => "(set" ++ String.join (vs.map fun v => " " ++ showVal v) ++ ")"
  | .tuple vs => "(tup" ++ String.join (vs.map fun v => " " ++ showVal v) ++ ")"
  | .struct fs => "(st" ++ String.join (fs.map fun p => s!" ({p.1} {showVal p.2})") ++ ")"
  | .dict kvs => "(dict" ++ String.join (kvs.map fun p => s!" ({showVal p.1} {showVal p.2})") ++ ")"

/-- `((x v) (y w))` -/
def toEnv : Sexp → Except String Env
  | .list bs => bs.mapM fun
    | .list [.atom x, v] => do pure (mkName x, ← toVal v)
    | _ => throw "env"
  | _ => .error "env"

end HailVerif.ExprIR.Read

/-! Line-protocol helpers shared by the model drivers (`lean/Driver/*.lean`). Not part of any model. -/
namespace HailVerif.DriverUtil

/-- stateless: one answer line per input line -/
partial def mapLines (f : String → String) : IO Unit := do
  let stdin ← IO.getStdin
  let stdout ← IO.getStdout
  let rec loop : IO Unit := do
    let line ← stdin.getLine
    if line.isEmpty then return ()
    stdout.putStrLn (f (line.trimAscii.toString))
    loop
  loop
  stdout.flush

/-- stateful: `step` threads a state through the lines; the line `reset` restores `init` and answers `ok` -/
partial def foldLines {σ : Type} (init : σ) (step : σ → String → σ × String) : IO Unit := do
  let stdin ← IO.getStdin
  let stdout ← IO.getStdout
  let rec loop (s : σ) : IO Unit := do
    let line ← stdin.getLine
    if line.isEmpty then return ()
    let l := line.trimAscii.toString
    if l == "reset" then
      stdout.putStrLn "ok"
      loop init
    else
      let (s', out) := step s l
      stdout.putStrLn out
      loop s'
  loop init
  stdout.flush

def words (s : String) : List String := (s.splitOn " ").filter (· ≠ "")

def nats? (ws : List String) : Option (List Nat) := ws.mapM String.toNat?
def ints? (ws : List String) : Option (List Int) := ws.mapM String.toInt?

def joinWith (sep : String) (xs : List String) : String := sep.intercalate xs

end HailVerif.DriverUtil

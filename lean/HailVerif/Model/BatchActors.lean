import HailVerif.Model.BatchDB
/-!
# BatchActors — the driver loops, workers and faults as nondeterministic actors on top of `BatchDB.step`

The BatchDB model has one `step` per *transaction*; it does not say who issues which transaction when.  This file adds
the selection predicates of the real driver loops and the relation `ActorStep s s'` = "one of the actors performs one of
its transactions in state `s`" (properties C39 and C41).

* `schedulable` … `pool.py::user_runnable_jobs`: job groups with `state = 'running'`; in each, the Ready `always_run = 1`
  jobs, and — when the group has no cancelled ancestor-or-self — the Ready `always_run = 0 AND cancelled = 0` jobs.
* `cancellableReady / cancellableCreating / cancellableRunning` … the three SELECTs of `canceller.py`
  (`cancel_cancelled_{ready,creating,running}_jobs_loop_body`).  Faithful to the code, the Creating and Running loops only
  look at groups that are cancelled and at jobs with `cancelled = 0`, and join `attempts` on (batch, job) only: they may
  pick *any* attempt row of the job, not only `jobs.attempt_id`.
* the canceller's transactions: Ready → `mark_job_complete(…, attempt NULL, instance NULL, 'Cancelled', …)`;
  Creating → `mark_job_complete(…, attempt, instance, 'Cancelled', start NULL, end now, 'cancelled')` (NOT `unschedule_job`);
  Running → `unschedule_job` (the job becomes Ready again and is then cancelled by the Ready loop).
* workers: `mark_job_started` for an attempt row of the job, `mark_job_complete` with any terminal outcome for any
  attempt row of the job (duplicated and stale reports are allowed).
* faults: `deactivate_instance` of any instance (preemption, activation timeout, …).

`jobCancelled` is a total Boolean (`List.any` over the cancelled ancestors-or-self of the job's group) and so is the real function
`is_job_cancelled` since migration 121 (repo commit 2813d614a: `LIMIT 1` in its lateral subquery; the definition of 119 raised MySQL
error 1242 when two ancestors-or-self were cancelled).  The same commit makes the running-job-groups SELECT of `user_runnable_jobs`
return each group once, so `schedulable` (one selection per job) is what the scheduler does for any number of cancelled ancestors.
-/
namespace HailVerif.BatchDB

/-- the group row exists and `job_groups.state = 'running'` -/
def groupRunning (s : State) (b g : Nat) : Bool :=
  match findGroup s b g with | some x => decide (x.state = .running) | none => false

/-- the scheduler's selection (`user_runnable_jobs`, LIMIT / fair share / inst_coll filter removed) -/
def schedulable (s : State) (x : Job) : Bool :=
  decide (x.state = .Ready) && groupRunning s x.batch x.group &&
    (x.alwaysRun || (!x.cancelled && !groupCancelled s x.batch x.group))

/-- `cancel_cancelled_ready_jobs_loop_body`: Ready, not always_run, in a running group, group cancelled or marked -/
def cancellableReady (s : State) (x : Job) : Bool :=
  decide (x.state = .Ready) && groupRunning s x.batch x.group && !x.alwaysRun &&
    (groupCancelled s x.batch x.group || x.cancelled)

/-- `cancel_cancelled_creating_jobs_loop_body` -/
def cancellableCreating (s : State) (x : Job) : Bool :=
  decide (x.state = .Creating) && groupRunning s x.batch x.group && groupCancelled s x.batch x.group &&
    !x.alwaysRun && !x.cancelled

/-- `cancel_cancelled_running_jobs_loop_body` -/
def cancellableRunning (s : State) (x : Job) : Bool :=
  decide (x.state = .Running) && groupRunning s x.batch x.group && groupCancelled s x.batch x.group &&
    !x.alwaysRun && !x.cancelled

/-- an attempt row of job `x` -/
def attemptOf (x : Job) (a : Attempt) : Prop := a.batch = x.batch ∧ a.job = x.id

instance (x : Job) (a : Attempt) : Decidable (attemptOf x a) := by unfold attemptOf; infer_instance

/-- the transactions the actors issue in state `s` -/
inductive ActorOp (s : State) : Op → Prop
  /-- scheduler: a schedulable job, an active instance with enough free cores, a fresh attempt id -/
  | schedule (x : Job) (i : Instance) (a : Nat) :
      x ∈ s.jobs → schedulable s x = true → i ∈ s.instances → i.state = .active → x.cores ≤ i.free →
      findAttempt s x.batch x.id a = none →
      ActorOp s (.schedule x.batch x.id a i.name)
  /-- canceller, Ready loop -/
  | cancelReady (x : Job) (date : Nat) :
      x ∈ s.jobs → cancellableReady s x = true →
      ActorOp s (.complete x.batch x.id none none .Cancelled none none "cancelled" date)
  /-- canceller, Creating loop -/
  | cancelCreating (x : Job) (at' : Attempt) (ts : Int) (date : Nat) :
      x ∈ s.jobs → cancellableCreating s x = true → at' ∈ s.attempts → attemptOf x at' →
      ActorOp s (.complete x.batch x.id (some at'.id) at'.inst .Cancelled none (some ts) "cancelled" date)
  /-- canceller, Running loop -/
  | cancelRunning (x : Job) (at' : Attempt) (inst : Nat) (ts : Int) (date : Nat) :
      x ∈ s.jobs → cancellableRunning s x = true → at' ∈ s.attempts → attemptOf x at' → at'.inst = some inst →
      ActorOp s (.unschedule x.batch x.id at'.id inst ts "cancelled" date)
  /-- worker: the job has started on the instance it was scheduled on -/
  | workerStarted (x : Job) (at' : Attempt) (inst : Nat) (ts : Int) (date : Nat) :
      x ∈ s.jobs → at' ∈ s.attempts → attemptOf x at' → at'.inst = some inst →
      ActorOp s (.started x.batch x.id at'.id inst ts date)
  /-- worker: a completion report (any terminal outcome) for any attempt row of the job; may be stale or repeated -/
  | workerComplete (x : Job) (at' : Attempt) (ns : JState) (st e : Option Int) (reason : String) (date : Nat) :
      x ∈ s.jobs → at' ∈ s.attempts → attemptOf x at' → ns.terminal = true →
      ActorOp s (.complete x.batch x.id (some at'.id) at'.inst ns st e reason date)
  /-- fault: an instance goes away -/
  | fault (i : Instance) (reason : String) (ts : Int) (date : Nat) :
      i ∈ s.instances → ActorOp s (.deactivate i.name reason ts date)

/-- one actor transaction -/
def ActorStep (s s' : State) : Prop := ∃ op, ActorOp s op ∧ s' = (step s op).1

/-- a run of the actors only (no client submissions) -/
inductive ActorRun : State → State → Prop
  | refl (s : State) : ActorRun s s
  | tail {s t u : State} : ActorRun s t → ActorStep t u → ActorRun s u

/-! ## the progress measure -/

/-- distance of a job state from termination -/
def rank : JState → Int
  | .Pending => 4 | .Ready => 3 | .Creating => 2 | .Running => 1
  | _ => 0

/-- Σ rank over all job rows -/
def rankSum (s : State) : Int := (s.jobs.map fun x => rank x.state).sum

/-- attempts that have not ended -/
def unended (s : State) : List Attempt := s.attempts.filter fun a => a.row.end_time.isNone

/-- instances that can still be lost -/
def liveInstances (s : State) : List Instance :=
  s.instances.filter fun i => decide (i.state = .pending) || decide (i.state = .active)

/-- lexicographic measure: (live instances + un-ended attempts, rank sum).  The second component is what the progress
actions decrease (`Props/C39.lean`: `worker_complete_decreases`, `canceller_makes_progress`, `scheduler_makes_progress`); the
first is meant to bound the `Running / Creating → Ready` regressions caused by `unschedule_job` and `deactivate_instance`.
Nothing is proved about the first component: see `C39.ActorStepsTerminate` for why the obvious invariant fails in the model. -/
def measure (s : State) : Nat × Int := ((liveInstances s).length + (unended s).length, rankSum s)

end HailVerif.BatchDB

/-
Model of `auth/auth/auth_utils.py`:

* `is_valid_username(username)`                       ↦ `validUsername`
* `validate_credentials_secret_name_input(secret)`    ↦ `validSecretNameInput` (`none` = Python `None`),
  whose regular expression `^[a-z0-9]([.\-]?[a-z0-9])*[a-z0-9]?$`, applied with `fullmatch`, is kept as data
  (`secretNameRe`) and run by a small explicit matcher (`rmatch`, Brzozowski derivatives).

A Python `str` is modelled as `List Char` (Unicode scalar values).  "accepted" is `true`; for the secret name
"accepted" means the function returns without raising `AuthUserError`.
-/
namespace HailVerif.Names

/-- `lo ≤ c ≤ hi` by code point -/
def inRange (lo hi c : Char) : Bool := lo.toNat ≤ c.toNat && c.toNat ≤ hi.toNat

/-! ### `is_valid_username` -/

/-- `c.isascii()` -/
def isAscii (c : Char) : Bool := c.toNat < 128
/-- `c.isdigit()` **for an ASCII character**.  (For non-ASCII characters CPython may answer `True`, e.g. for the
fullwidth digit `１`; the code only consults it behind `c.isascii() and …`, so the model never asks.) -/
def isDigit (c : Char) : Bool := inRange '0' '9' c
/-- `c.islower()` for an ASCII character (same remark) -/
def isLower (c : Char) : Bool := inRange 'a' 'z' c

/-- the generator expression's body: `c.isascii() and (c.isdigit() or c.islower() or c == '-')` -/
def userChar (c : Char) : Bool := isAscii c && (isDigit c || isLower c || c == '-')

/-- `username.startswith('-')` -/
def startsWithHyphen : List Char → Bool
  | c :: _ => c == '-'
  | [] => false

/-- `username.endswith('-')` -/
def endsWithHyphen : List Char → Bool
  | [] => false
  | [c] => c == '-'
  | _ :: d :: cs => endsWithHyphen (d :: cs)

/-- `'--' in username` -/
def containsDoubleHyphen : List Char → Bool
  | c :: d :: cs => (c == '-' && d == '-') || containsDoubleHyphen (d :: cs)
  | _ => false

/-- `is_valid_username`, statement by statement -/
def validUsername (s : List Char) : Bool :=
  if s.isEmpty then false                                         -- if not username: return False
  else if startsWithHyphen s || endsWithHyphen s then false       -- startswith('-') or endswith('-')
  else if containsDoubleHyphen s then false                       -- '--' in username
  else s.all userChar                                             -- all(... for c in username)

/-! ### a regular-expression matcher (the fragment of `re` the pattern uses: classes, sequence, `?`, `*`) -/

inductive Re where
  | none                      -- matches nothing (only produced by derivatives)
  | eps                       -- the empty string
  | cls (p : Char → Bool)     -- a character class `[...]`
  | seq (a b : Re)            -- `ab`
  | alt (a b : Re)            -- `a|b`
  | star (a : Re)             -- `a*`

/-- `a?` -/
def Re.opt (a : Re) : Re := .alt a .eps

def nullable : Re → Bool
  | .none => false
  | .eps => true
  | .cls _ => false
  | .seq a b => nullable a && nullable b
  | .alt a b => nullable a || nullable b
  | .star _ => true

def deriv (c : Char) : Re → Re
  | .none => .none
  | .eps => .none
  | .cls p => if p c then .eps else .none
  | .seq a b => if nullable a then .alt (.seq (deriv c a) b) (deriv c b) else .seq (deriv c a) b
  | .alt a b => .alt (deriv c a) (deriv c b)
  | .star a => .seq (deriv c a) (.star a)

/-- `re.compile(r).fullmatch(s) is not None` (the whole string must be consumed) -/
def rmatch (r : Re) : List Char → Bool
  | [] => nullable r
  | c :: cs => rmatch (deriv c r) cs

/-! ### `validate_credentials_secret_name_input` -/

/-- `[a-z0-9]` -/
def lowerAlnum (c : Char) : Bool := inRange 'a' 'z' c || inRange '0' '9' c
/-- `[.\-]` -/
def dotOrHyphen (c : Char) : Bool := c == '.' || c == '-'

/-- `^[a-z0-9]([.\-]?[a-z0-9])*[a-z0-9]?$`.  Under `fullmatch` without `re.MULTILINE` the anchors `^` and `$` add
nothing: the match must start at 0 and end at `len(s)`, and although `$` alone would also match just before a
trailing `'\n'`, `fullmatch` then fails because that newline is left over. -/
def secretNameRe : Re :=
  .seq (.cls lowerAlnum) (.seq (.star (.seq (Re.opt (.cls dotOrHyphen)) (.cls lowerAlnum))) (Re.opt (.cls lowerAlnum)))

def validSecretName (s : List Char) : Bool := rmatch secretNameRe s

/-- the whole function: `None` is accepted by design (`if secret_name is None: return`) -/
def validSecretNameInput : Option (List Char) → Bool
  | none => true
  | some s => validSecretName s

/-! ### the call sites: `auth/auth/auth.py` `insert_new_user` → `check_valid_new_user` -/

/-- a `login_id` argument as far as the code looks at it: `None`, the empty string, or a non-empty string
(`not login_id` is true for the first two) -/
inductive LoginId where
  | none | empty | value

def LoginId.truthy : LoginId → Bool
  | .value => true
  | _ => false

/-- Whether `insert_new_user(db, username, login_id, is_developer, is_service_account, hail_identity=…,
hail_credentials_secret_name=secret)` reaches its `INSERT INTO users`, for a `str` username, boolean flags and no
existing user with that name or login: the secret name is validated first (`AuthUserError` otherwise), then
`check_valid_new_user` raises `MultipleUserTypes` for a developer service account, `EmptyLoginID` for a non-service
account without login id, and `InvalidUsername` unless `is_valid_username` — **for every kind of account**. -/
def insertReachedFor (username : List Char) (loginId : LoginId) (isDeveloper isServiceAccount : Bool)
    (secret : Option (List Char)) : Bool :=
  validSecretNameInput secret                      -- validate_credentials_secret_name_input(...)
    && !(isDeveloper && isServiceAccount)          -- MultipleUserTypes
    && (isServiceAccount || loginId.truthy)        -- `if not is_service_account and not login_id: raise EmptyLoginID`
    && validUsername username                      -- `if not is_valid_username(username): raise InvalidUsername`

/-- the ordinary sign-up: a human account with a login id -/
def insertReached (username : List Char) (secret : Option (List Char)) : Bool :=
  insertReachedFor username .value false false secret

end HailVerif.Names

/-
Model of ranged reads in `hailtop.aiotools` / `hailtop.aiocloud` (C23).

Code modelled (hail/python/hailtop/…):
* `aiotools/fs/fs.py`      `AsyncFS.open_from` (the `length == 0` shortcut → `EmptyReadableStream`), `read_from`, `read_range`
* `aiotools/fs/stream.py`  `EmptyReadableStream`, `_ReadableStreamFromBlocking.read/_readexactly`
* `aiotools/local_fs.py`   `LocalAsyncFS._open_from` (`seek(start)` + `TruncatedReadableBinaryIO(bio, length)`),
                           `TruncatedReadableBinaryIO.read`
* `aiocloud/common/session.py` `Session._request_with_valid_authn` (auth headers laid over the caller's headers: `withAuth`)
* `aiocloud/aiogoogle/client/storage_client.py`  `GoogleStorageAsyncFS._open_from` (Range header), `get_object` (416 → UnexpectedEOFError),
                           `GetObjectStream` (an `aiohttp.StreamReader` over the response body)
* `aiocloud/aioaws/fs.py`  `S3AsyncFS._open_from` (Range header, `InvalidRange` → UnexpectedEOFError), body wrapped by
                           `blocking_readable_stream_to_async`
* `aiocloud/aioazure/fs.py` `AzureAsyncFS._open_from`, `AzureReadableStream.read/readexactly`

What the services do (trusted, not verified; the same semantics are implemented by `harness/props/c23_store.py`):
* `serve`      — RFC 7233 single `bytes=a-[b]` range as GCS and S3 answer it (inclusive `b`, clipped at EOF, `a ≥ size` → 416,
                 `b < a` → header ignored);
* `azDownload` — `BlobClient.download_blob(offset, length)`; an explicit offset at or past the end → 416.

A body is delivered in *pieces* (`List Blob`): a blocking `read(n)` may return short at a piece boundary; Azure's
`downloader.chunks()` yields the pieces.  The chunking `ch : Blob → List Blob` is a parameter everywhere.
-/
namespace HailVerif.RangeRead

abbrev Blob := List Nat

/-- python `b[s : s+l]` -/
def slice (b : Blob) (s l : Nat) : Blob := (b.drop s).take l

/-- the bytes `open_from(url, start, length=len)` has to deliver: `blob[start:]` or `blob[start:start+len]` -/
def wanted (b : Blob) (start : Nat) : Option Nat → Blob
  | none => b.drop start
  | some l => slice b start l

/-! ## Range header (GCS, S3) -/

/-- first-byte-pos, optional inclusive last-byte-pos -/
structure ByteRange where
  first : Nat
  last : Option Nat
  deriving DecidableEq, Repr

/-- `range_str = f'bytes={start}-'`; `if length is not None: assert length >= 1; range_str += str(start + length - 1)`.
`none` = the assertion fails. -/
def rangeSpec (start : Nat) : Option Nat → Option ByteRange
  | none => some ⟨start, none⟩
  | some l => if 1 ≤ l then some ⟨start, some (start + l - 1)⟩ else none

def render (r : ByteRange) : String :=
  "bytes=" ++ toString r.first ++ "-" ++ (match r.last with | none => "" | some b => toString b)

/-- the value of the `Range` header / `Range=` argument -/
def rangeHeader (start : Nat) (len : Option Nat) : Option String := (rangeSpec start len).map render

/-! ### the credentials layer between the GCS client and the wire (`hailtop/aiocloud/common/session.py`) -/

/-- request headers as a lookup -/
abbrev Headers := String → Option String

/-- `Session._request_with_valid_authn`, one attempt:
```
auth_headers, expiration = await self._credentials.auth_headers_with_expiration()
if auth_headers:
    if 'headers' in kwargs: kwargs['headers'].update(auth_headers)
    else:                   kwargs['headers'] = auth_headers
```
With anonymous credentials (`auth_headers == {}`) the caller's headers go out untouched; otherwise the auth entries are laid over
them.  The same `kwargs` are used for the retry after a 401. -/
def withAuth (caller : Option Headers) (auth : List (String × String)) : Option Headers :=
  if auth.isEmpty then caller
  else some fun k =>
    match auth.lookup k with
    | some v => some v
    | none => caller.bind (· k)

inductive Resp where
  /-- 200: the Range header was ignored -/
  | full (body : Blob)
  /-- 206 -/
  | part (body : Blob)
  /-- 416 Range Not Satisfiable (S3: `InvalidRange`) -/
  | unsat
  deriving DecidableEq, Repr

/-- RFC 7233 §2.1, §4.4 for one byte-range-spec -/
def serve (blob : Blob) (r : ByteRange) : Resp :=
  match r.last with
  | some b =>
    if b < r.first then .full blob
    else if r.first < blob.length then .part (slice blob r.first (b - r.first + 1))
    else .unsat
  | none => if r.first < blob.length then .part (blob.drop r.first) else .unsat

/-- Azure `download_blob(offset=o, length=l)`; `none` = HttpResponseError 416 -/
def azDownload (blob : Blob) (o : Nat) (l : Option Nat) : Option Blob :=
  if o < blob.length then some (wanted blob o l) else none

/-! ## Blocking file-like objects: a local file behind `TruncatedReadableBinaryIO`, or an S3 `StreamingBody` -/

/-- `f.read(n)` (n ≥ 0) of a file-like whose data arrives in pieces: at most `n` bytes, never across a piece boundary -/
def pieceRead : List Blob → Nat → Blob × List Blob
  | [], _ => ([], [])
  | p :: ps, n =>
    if n = 0 then ([], p :: ps)
    else if p.length ≤ n then (p, ps)
    else (p.take n, p.drop n :: ps)

structure FileSt where
  /-- what the underlying file-like still holds -/
  pieces : List Blob
  /-- `TruncatedReadableBinaryIO.offset` -/
  offset : Nat
  /-- `TruncatedReadableBinaryIO.limit`; `none` = no wrapper -/
  limit : Option Nat
  deriving DecidableEq, Repr

/-- `self._f.read()` (`n = none`) / `self._f.read(n)`.
With the wrapper: `n = limit - offset` resp. `min(limit - offset, n)`; `b = bio.read(n)`; `offset += len(b)`. -/
def FileSt.rd (f : FileSt) (n : Option Nat) : Blob × FileSt :=
  match f.limit with
  | none =>
    match n with
    | none => (f.pieces.flatten, { f with pieces := [] })
    | some n => let r := pieceRead f.pieces n; (r.1, { f with pieces := r.2 })
  | some lim =>
    let n' := match n with
      | none => lim - f.offset
      | some n => min (lim - f.offset) n
    let r := pieceRead f.pieces n'
    (r.1, { pieces := r.2, offset := f.offset + r.1.length, limit := some lim })

/-- `_ReadableStreamFromBlocking._readexactly`: `while n > 0: block = f.read(n); if not block: raise UnexpectedEOFError; n -= len(block)`.
Every iteration lowers `n`, so `fuel = n` iterations suffice; `none` = UnexpectedEOFError. -/
def FileSt.exactlyLoop : Nat → FileSt → Nat → Blob → Option (Blob × FileSt)
  | _, f, 0, acc => some (acc, f)
  | 0, _, _ + 1, _ => none
  | fuel + 1, f, n + 1, acc =>
    let r := f.rd (some (n + 1))
    if r.1 = [] then none else FileSt.exactlyLoop fuel r.2 (n + 1 - r.1.length) (acc ++ r.1)

def FileSt.exactly (f : FileSt) (n : Nat) : Option (Blob × FileSt) := FileSt.exactlyLoop n f n []

/-! ## `AzureReadableStream` (opened by `_open_from`, so `offset` is always given) -/

structure AzSt where
  /-- `_offset` -/
  offset : Nat
  /-- `_length` -/
  length : Option Nat
  /-- `_buffer` -/
  buffer : Blob
  /-- `_downloader` / `_chunk_it`: the chunks not yet pulled; `none` = no downloader -/
  chunks : Option (List Blob)
  /-- `_eof` -/
  eof : Bool
  /-- every `download_blob(offset, length)` call made so far -/
  log : List (Nat × Option Nat)
  deriving DecidableEq, Repr

inductive AzRes where
  | ok (b : Blob) (s : AzSt)
  /-- UnexpectedEOFError -/
  | eofErr (s : AzSt)
  /-- azure.core.exceptions.HttpResponseError(416) escapes (only the stream before commit 86ee8e0ea) -/
  | http416 (s : AzSt)
  deriving Repr

/-- `while len(self._buffer) < n: try: self._buffer.extend(await anext(self._chunk_it)) except StopAsyncIteration: break` -/
def fill (buf : Blob) (cs : List Blob) (n : Nat) : Blob × List Blob :=
  match cs with
  | [] => (buf, [])
  | c :: cs' => if buf.length < n then fill (buf ++ c) cs' n else (buf, c :: cs')

/-- `read(-1)`: `download_blob(offset=self._offset, length=self._length)`, `readall()`, `_eof = True`;
a 416 answer (positioned at or past the end of the blob) means nothing is left: `_eof = True; return b''` -/
def AzSt.readAll (blob : Blob) (a : AzSt) : AzRes :=
  if a.eof then .ok [] a
  else
    let a' := { a with log := a.log ++ [(a.offset, a.length)] }
    match azDownload blob a.offset a.length with
    | none => .ok [] { a' with eof := true }
    | some data => .ok data { a' with eof := true }

/-- `read(n)`, `n ≥ 0`: after the bytes are cut off the buffer, `_offset += len(data)`, `_length -= len(data)` (if a length was
given) and the stream is at EOF when `len(data) < n or self._length == 0` -/
def AzSt.read (ch : Blob → List Blob) (blob : Blob) (a : AzSt) (n : Nat) : AzRes :=
  if a.eof then .ok [] a
  else
    let go (cs : List Blob) (log : List (Nat × Option Nat)) : AzRes :=
      let r := fill a.buffer cs n
      let data := r.1.take n
      let len' := a.length.map (· - data.length)
      if data.length < n ∨ len' = some 0 then
        .ok data { offset := a.offset + data.length, length := len', buffer := [], chunks := none, eof := true, log := log }
      else
        .ok data { offset := a.offset + data.length, length := len', buffer := r.1.drop n, chunks := some r.2, eof := false,
                   log := log }
    match a.chunks with
    | some cs => go cs a.log
    | none =>
      let log := a.log ++ [(a.offset, a.length)]
      match azDownload blob a.offset a.length with
      | none => .eofErr { a with log := log }      -- 416 → UnexpectedEOFError
      | some data => go (ch data) log

/-! ### the stream before commit 86ee8e0ea (kept to document the two repaired defects, see `Props/C23.lean`) -/

/-- old `read(-1)`: the 416 answer escaped as `HttpResponseError` -/
def AzSt.readAllOld (blob : Blob) (a : AzSt) : AzRes :=
  if a.eof then .ok [] a
  else
    let a' := { a with log := a.log ++ [(a.offset, a.length)] }
    match azDownload blob a.offset a.length with
    | none => .http416 a'
    | some data => .ok data { a' with eof := true }

/-- old `read(n)`: `_length` was never reduced -/
def AzSt.readOld (ch : Blob → List Blob) (blob : Blob) (a : AzSt) (n : Nat) : AzRes :=
  if a.eof then .ok [] a
  else
    let go (cs : List Blob) (log : List (Nat × Option Nat)) : AzRes :=
      let r := fill a.buffer cs n
      let data := r.1.take n
      if data.length < n then
        .ok data { offset := a.offset + data.length, length := a.length, buffer := [], chunks := none, eof := true, log := log }
      else
        .ok data { offset := a.offset + data.length, length := a.length, buffer := r.1.drop n, chunks := some r.2, eof := false,
                   log := log }
    match a.chunks with
    | some cs => go cs a.log
    | none =>
      let log := a.log ++ [(a.offset, a.length)]
      match azDownload blob a.offset a.length with
      | none => .eofErr { a with log := log }
      | some data => go (ch data) log

/-! ## Streams and read patterns -/

inductive Stream where
  /-- `EmptyReadableStream` -/
  | empty
  | file (f : FileSt)
  | azure (a : AzSt)
  deriving Repr

/-- one call on a `ReadableStream` -/
inductive Call where
  /-- `read(n)`, n ≥ 0 -/
  | read (n : Nat)
  /-- `read(-1)` -/
  | readAll
  /-- `readexactly(n)` -/
  | exactly (n : Nat)
  deriving DecidableEq, Repr

inductive Op where
  | call (c : Call)
  /-- the caller's loop `while (b := await f.read(n)): out += b` -/
  | drain (n : Nat)
  deriving DecidableEq, Repr

inductive Step where
  | ok (b : Blob) (s : Stream)
  | eof (s : Stream)
  | http416 (s : Stream)
  deriving Repr

def step (ch : Blob → List Blob) (blob : Blob) : Stream → Call → Step
  | .empty, .exactly (_ + 1) => .eof .empty
  | .empty, _ => .ok [] .empty
  | .file f, .read n => let r := f.rd (some n); .ok r.1 (.file r.2)
  | .file f, .readAll => let r := f.rd none; .ok r.1 (.file r.2)
  | .file f, .exactly n =>
    match f.exactly n with
    | some (b, f') => .ok b (.file f')
    | none => .eof (.file f)
  | .azure a, .read n =>
    match a.read ch blob n with
    | .ok b a' => .ok b (.azure a')
    | .eofErr a' => .eof (.azure a')
    | .http416 a' => .http416 (.azure a')
  | .azure a, .readAll =>
    match a.readAll blob with
    | .ok b a' => .ok b (.azure a')
    | .eofErr a' => .eof (.azure a')
    | .http416 a' => .http416 (.azure a')
  | .azure a, .exactly n =>        -- `data = await self.read(n); if len(data) != n: raise UnexpectedEOFError()`
    match a.read ch blob n with
    | .ok b a' => if b.length = n then .ok b (.azure a') else .eof (.azure a')
    | .eofErr a' => .eof (.azure a')
    | .http416 a' => .http416 (.azure a')

inductive Status where
  | ok
  /-- UnexpectedEOFError -/
  | eof
  /-- an SDK exception escaped (cannot happen any more: `open_from_exact`) -/
  | http416
  /-- AssertionError (`assert length >= 1`) -/
  | assertion
  /-- the drain loop did not end within `fuel` reads (never happens: theorems `…_drain_complete`) -/
  | fuel
  deriving DecidableEq, Repr

/-- `while True: b = await f.read(n); if not b: break; out += b` -/
def drainLoop (ch : Blob → List Blob) (blob : Blob) (n : Nat) : Nat → Stream → Blob → Status × Blob × Stream
  | 0, s, acc => (.fuel, acc, s)
  | fuel + 1, s, acc =>
    match step ch blob s (.read n) with
    | .ok [] s' => (.ok, acc, s')
    | .ok b s' => drainLoop ch blob n fuel s' (acc ++ b)
    | .eof s' => (.eof, acc, s')
    | .http416 s' => (.http416, acc, s')

/-- run a read pattern; stops at the first exception; result = (status, all bytes returned so far, final stream) -/
def run (ch : Blob → List Blob) (blob : Blob) : Stream → List Op → Blob → Status × Blob × Stream
  | s, [], acc => (.ok, acc, s)
  | s, .drain n :: ops, acc =>
    match drainLoop ch blob n (blob.length + 1) s acc with
    | (.ok, acc', s') => run ch blob s' ops acc'
    | r => r
  | s, .call c :: ops, acc =>
    match step ch blob s c with
    | .ok b s' => run ch blob s' ops (acc ++ b)
    | .eof s' => (.eof, acc, s')
    | .http416 s' => (.http416, acc, s')

/-! ## `open_from`, `read_from`, `read_range` on an existing object -/

inductive Backend where
  | localfs | gs | s3 | azure
  deriving DecidableEq, Repr

inductive Opened where
  | stream (s : Stream) (req : Option String)
  /-- 416 at open time → UnexpectedEOFError -/
  | eofAtOpen (req : Option String)
  | assertion
  deriving Repr

def noEmpty (ps : List Blob) : List Blob := ps.filter (· ≠ [])

/-- `AsyncFS.open_from(url, start, length=len)` for an object that exists and is not also a directory -/
def openFrom (ch : Blob → List Blob) (be : Backend) (blob : Blob) (start : Nat) (len : Option Nat) : Opened :=
  if len = some 0 then .stream .empty none          -- `if length == 0: … return EmptyReadableStream()`
  else match be with
    | .localfs =>      -- open(path, 'rb'); f.seek(start); TruncatedReadableBinaryIO(f, length); a regular file never reads short
      .stream (.file { pieces := noEmpty [blob.drop start], offset := 0, limit := len }) none
    | .gs =>                                         -- the whole body is buffered in the StreamReader: one piece
      match rangeSpec start len with
      | none => .assertion
      | some r =>
        match serve blob r with
        | .unsat => .eofAtOpen (some (render r))
        | .full b => .stream (.file { pieces := noEmpty [b], offset := 0, limit := none }) (some (render r))
        | .part b => .stream (.file { pieces := noEmpty [b], offset := 0, limit := none }) (some (render r))
    | .s3 =>
      match rangeSpec start len with
      | none => .assertion
      | some r =>
        match serve blob r with
        | .unsat => .eofAtOpen (some (render r))
        | .full b => .stream (.file { pieces := noEmpty (ch b), offset := 0, limit := none }) (some (render r))
        | .part b => .stream (.file { pieces := noEmpty (ch b), offset := 0, limit := none }) (some (render r))
    | .azure =>                                      -- `assert length is None or length >= 1` holds here
      .stream (.azure { offset := start, length := len, buffer := [], chunks := none, eof := false, log := [] }) none

/-- `open_from` followed by a read pattern: (status, bytes, Range header sent, Azure download_blob calls) -/
def openRun (ch : Blob → List Blob) (be : Backend) (blob : Blob) (start : Nat) (len : Option Nat) (ops : List Op) :
    Status × Blob × Option String × List (Nat × Option Nat) :=
  match openFrom ch be blob start len with
  | .assertion => (.assertion, [], none, [])
  | .eofAtOpen req => (.eof, [], req, [])
  | .stream s req =>
    let r := run ch blob s ops []
    (r.1, r.2.1, req, match r.2.2 with | .azure a => a.log | _ => [])

/-- `read_from(url, start)`: `async with await self.open_from(url, start) as f: return await f.read()` -/
def readFrom (ch : Blob → List Blob) (be : Backend) (blob : Blob) (start : Nat) :=
  openRun ch be blob start none [.call .readAll]

/-- `read_range(url, start, end, end_inclusive)`: `n = (end - start) + bool(end_inclusive)`;
`open_from(url, start, length=n)`; `readexactly(n)`.  Negative `n` trips `assert length >= 1`. -/
def readRange (ch : Blob → List Blob) (be : Backend) (blob : Blob) (start : Nat) (end_ : Int) (incl : Bool) :=
  let n : Int := end_ - start + (if incl then 1 else 0)
  if n < 0 then ((.assertion, [], none, []) : Status × Blob × Option String × List (Nat × Option Nat))
  else openRun ch be blob start (some n.toNat) [.call (.exactly n.toNat)]

/-- delivery in pieces of `c` bytes (`c = 0`: one piece); `fuel ≥ b.length` -/
def piecesAux (c : Nat) : Nat → Blob → List Blob
  | 0, _ => []
  | fuel + 1, b => if b = [] then [] else b.take c :: piecesAux c fuel (b.drop c)

def pieces (c : Nat) (b : Blob) : List Blob :=
  if c = 0 then (if b = [] then [] else [b]) else piecesAux c b.length b

/-- `open_from(url, start, length=len)` followed by `read` / `readexactly` calls on the Azure stream as it was before
commit 86ee8e0ea: (status, bytes handed out) -/
def azRunOld (ch : Blob → List Blob) (blob : Blob) (start : Nat) (len : Option Nat) (calls : List Call) : Status × Blob :=
  let rec go (a : AzSt) (acc : Blob) : List Call → Status × Blob
    | [] => (.ok, acc)
    | c :: cs =>
      let res := match c with
        | .read n => a.readOld ch blob n
        | .readAll => a.readAllOld blob
        | .exactly n =>
          match a.readOld ch blob n with
          | .ok b a' => if b.length = n then .ok b a' else .eofErr a'
          | r => r
      match res with
      | .ok b a' => go a' (acc ++ b) cs
      | .eofErr _ => (.eof, acc)
      | .http416 _ => (.http416, acc)
  go { offset := start, length := len, buffer := [], chunks := none, eof := false, log := [] } [] calls

end HailVerif.RangeRead

import HailVerif.Model.TypeStr
import HailVerif.Generated.IRLexer
/-!
# Model of the engine's identifier lexing (property C31, engine half)

Transcribes the control flow of
* `IRLexer.quotedLiteral`, `backtickLiteral`, `identifier = backtickLiteral | ident`
  (`/repo/hail/hail/src/is/hail/expr/ir/Parser.scala`),
* `StringEscapeUtils.unescapeString` (`/repo/hail/hail/utils/src/is/hail/utils/StringEscapeUtils.scala`),
* `JavaTokenParsers.ident` (scala-parser-combinators: `rep1(isJavaIdentifierStart, isJavaIdentifierPart)` after
  white space),
over the data extracted from the Scala text on every run (`Generated/IRLexer.lean`: the `escapeChars` literal, the
`case 'x' => sb += 'y'` table of `unescapeString`).  Nothing Scala is executed; the shape of the surrounding code is
checked textually by the extractor (`harness/props/c31.py`).

JVM strings are sequences of UTF-16 code units; `utf16` converts a code-point string.
-/
namespace HailVerif.EngineLexer
open HailVerif.TypeStr HailVerif.Generated

/-- Java identifier classes (`Character.isJavaIdentifierStart/Part(char)`), tables in `Generated/UnicodeClasses.lean` -/
structure JavaClasses where
  start : Nat → Bool
  part : Nat → Bool

/-- UTF-16 code units of a code-point string (what the JVM sees once the IR text has been decoded) -/
def utf16 : Str → List Nat
  | [] => []
  | c :: r => if 65536 ≤ c then (55296 + (c - 65536) / 1024) :: (56320 + (c - 65536) % 1024) :: utf16 r else c :: utf16 r

/-- `RegexParsers.whiteSpace = """\s+""".r` (Java `\s` = `[ \t\n\x0B\f\r]`) -/
def javaSpace (c : Nat) : Bool := c == 32 || (9 ≤ c && c ≤ 13)

def skipJavaWs : List Nat → List Nat
  | [] => []
  | c :: r => if javaSpace c then skipJavaWs r else c :: r

/-- the `while (continue)` loop of `quotedLiteral`: raw text up to the closing delimiter (escapes kept), rest.
`none` = `Failure("unterminated …")` / `Failure("invalid escape character in …")` -/
def quotedBody (delim : Nat) : List Nat → Option (List Nat × List Nat)
  | [] => none
  | [c] => if c = delim then some ([], []) else none
  | c :: d :: r =>
    if c = delim then some ([], d :: r)
    else if c = 92 then
      if IRLexer.escapeChars.contains d then (quotedBody delim r).map fun (b, r') => (92 :: d :: b, r') else none
    else (quotedBody delim (d :: r)).map fun (b, r') => (c :: b, r')

def lookupEscape (e : Nat) : List (Nat × Nat) → Option Nat
  | [] => none
  | (k, v) :: r => if k = e then some v else lookupEscape e r

/-- four hexadecimal digits of `\uXXXX` (`Integer.parseInt(_, 16)`; a sign character, which `parseInt` would also accept,
is not modelled) -/
def hex4Val : List Nat → Option (Nat × List Nat)
  | a :: b :: c :: d :: r => match hexVal a, hexVal b, hexVal c, hexVal d with
    | some x, some y, some z, some w => some (((x * 16 + y) * 16 + z) * 16 + w, r)
    | _, _, _, _ => none
  | _ => none

/-- `StringEscapeUtils.unescapeString`; `none` = `fatal(…)`.  A string that ends inside `\uXX` silently drops the
partial escape, a trailing lone backslash is kept — as the Scala does. -/
def unescapeString : Nat → List Nat → Option (List Nat)
  | 0, _ => none
  | _ + 1, [] => some []
  | f + 1, c :: r =>
    if c ≠ 92 then (unescapeString f r).map (c :: ·)
    else match r with
      | [] => some [92]
      | e :: r =>
        if e = IRLexer.unicodeEscapeLetter then
          if r.length < 4 then some []
          else match hex4Val r with
            | some (v, r') => (unescapeString f r').map (v :: ·)
            | none => none
        else match lookupEscape e IRLexer.simpleEscapes with
          | some v => (unescapeString f r).map (v :: ·)
          | none => none

/-- `quotedLiteral(delim, what)` -/
def quotedLiteral (delim : Nat) (s : List Nat) : Option (List Nat × List Nat) :=
  match skipJavaWs s with
  | c :: r =>
    if c = delim then match quotedBody delim r with
      | some (b, r') => (unescapeString (b.length + 1) b).map fun v => (v, r')
      | none => none
    else none
  | [] => none

/-- `elem("identifier part", isJavaIdentifierPart)*` -/
def spanPart (jc : JavaClasses) : List Nat → List Nat × List Nat
  | [] => ([], [])
  | c :: r => if jc.part c then let (w, r') := spanPart jc r; (c :: w, r') else ([], c :: r)

/-- `JavaTokenParsers.ident` -/
def javaIdent (jc : JavaClasses) (s : List Nat) : Option (List Nat × List Nat) :=
  match skipJavaWs s with
  | c :: r => if jc.start c then let (w, r') := spanPart jc r; some (c :: w, r') else none
  | [] => none

/-- `def identifier = backtickLiteral | ident` -/
def identifier (jc : JavaClasses) (s : List Nat) : Option (List Nat × List Nat) :=
  (quotedLiteral IRLexer.backtickDelimiter s).orElse fun _ => javaIdent jc s

end HailVerif.EngineLexer

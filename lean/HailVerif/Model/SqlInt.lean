/-! MySQL integer-boolean operators on NOT NULL operands (booleans are the integers 0 / 1). -/
namespace HailVerif.SqlInt

def andI (a b : Int) : Int := if a ≠ 0 ∧ b ≠ 0 then 1 else 0
def orI (a b : Int) : Int := if a ≠ 0 ∨ b ≠ 0 then 1 else 0
def notI (a : Int) : Int := if a = 0 then 1 else 0
def eqI (a b : Int) : Int := if a = b then 1 else 0
def eqS (a b : String) : Int := if a = b then 1 else 0

end HailVerif.SqlInt

import HailVerif.Model.Value
import HailVerif.Model.CallPack
/-!
# Model of the binary encoding of values sent to the engine (property C33)

`/repo/hail/python/hail/expr/types.py`: `_convert_to_encoding` / `_convert_from_encoding` of every type class (wrappers
`_to_encoding` / `_from_encoding`), over `ByteWriter` / `ByteReader` of `hail/python/hail/utils/byte_reader.py`
(`struct.pack('=i' | '=q' | '=f' | '=d' | '=B')`, little-endian on every supported platform).  Bytes are naturals below 256.

Layout (what `EType.fromPythonTypeEncoding` makes the engine expect, see `Generated/PyEType.lean` and `modelLayout` below):
* int32 / int64 / float32 / float64: little-endian fixed width; bool: one byte; str: int32 byte length + UTF-8;
* call: the int32 of the bit packing (`Model/CallPack.lean`, property C34);
* struct / tuple / locus `(contig, position)` / interval `(start, end, includesStart, includesEnd)`: ⌈n/8⌉ missing-bit bytes
  (bit `i mod 8` of byte `i / 8` set ⇔ field `i` missing) followed by the present fields in order;
* array / set: int32 length, ⌈len/8⌉ missing-bit bytes, the present elements;
* dict: int32 length, then every entry as a `(key, value)` struct — no missing bits for the entries themselves;
* ndarray: every dimension as int64, then the elements in COLUMN-MAJOR order (first index fastest), no missing bits.

`none` = the real method raises.  The numeric fast path of `tndarray` (`if self.element_type in _numeric_types`) compares a
type INSTANCE with a set of CLASSES and is never taken, so the element-wise path modelled here is the only live one.
-/
namespace HailVerif.ValueEnc
open HailVerif.TypeStr HailVerif.Values

abbrev Bytes := List Nat

/-! ## `ByteWriter` / `ByteReader` -/

/-- `n` little-endian bytes of `v` -/
def leBytes : Nat → Nat → Bytes
  | 0, _ => []
  | n + 1, v => v % 256 :: leBytes n (v / 256)

def leVal : Bytes → Nat
  | [] => 0
  | b :: r => b + 256 * leVal r

/-- `-2^31 ≤ v < 2^31` (stated on the natural parts, which keeps the test cheap to evaluate on `↑n`) -/
def fitsInt32 (v : Int) : Prop := v.toNat < 2147483648 ∧ (-v).toNat ≤ 2147483648

instance (v : Int) : Decidable (fitsInt32 v) := inferInstanceAs (Decidable (_ ∧ _))

/-- `-2^63 ≤ v < 2^63` -/
def fitsInt64 (v : Int) : Prop := v.toNat < 9223372036854775808 ∧ (-v).toNat ≤ 9223372036854775808

instance (v : Int) : Decidable (fitsInt64 v) := inferInstanceAs (Decidable (_ ∧ _))

/-- `struct.pack('=i', v)`; `struct.error` outside the int32 range -/
def writeInt32 (v : Int) : Option Bytes :=
  if fitsInt32 v then some (leBytes 4 (v % 4294967296).toNat) else none

/-- `struct.pack('=q', v)` -/
def writeInt64 (v : Int) : Option Bytes :=
  if fitsInt64 v then some (leBytes 8 (v % 18446744073709551616).toNat) else none

/-- `struct.unpack('=i', memview[off : off + 4])`; a short slice is a `struct.error` -/
def readInt32 (bs : Bytes) : Option (Int × Bytes) :=
  if bs.length < 4 then none
  else
    let u := leVal (bs.take 4)
    some (if u < 2147483648 then (u : Int) else (u : Int) - 4294967296, bs.drop 4)

def readInt64 (bs : Bytes) : Option (Int × Bytes) :=
  if bs.length < 8 then none
  else
    let u := leVal (bs.take 8)
    some (if u < 9223372036854775808 then (u : Int) else (u : Int) - 18446744073709551616, bs.drop 8)

/-- `struct.pack('=d', x)`: the binary64 pattern (`float('nan')` is the quiet NaN `0x7ff8000000000000`) -/
def f64Bits : Flt → Nat
  | .fin b => b
  | .nan => 9221120237041090560
  | .inf => 9218868437227405312
  | .ninf => 18442240474082181120

/-- `struct.pack('=f', x)`: the binary32 pattern -/
def f32Bits : Flt → Nat
  | .fin b => b
  | .nan => 2143289344
  | .inf => 2139095040
  | .ninf => 4286578688

/-- the Python float of a binary64 pattern, by class -/
def f64OfBits (b : Nat) : Flt :=
  if b / 4503599627370496 % 2048 = 2047 then
    if b % 4503599627370496 = 0 then (if b / 9223372036854775808 % 2 = 0 then .inf else .ninf) else .nan
  else .fin b

def f32OfBits (b : Nat) : Flt :=
  if b / 8388608 % 256 = 255 then
    if b % 8388608 = 0 then (if b / 2147483648 % 2 = 0 then .inf else .ninf) else .nan
  else .fin b

def readFloat64 (bs : Bytes) : Option (Flt × Bytes) :=
  if bs.length < 8 then none else some (f64OfBits (leVal (bs.take 8)), bs.drop 8)

def readFloat32 (bs : Bytes) : Option (Flt × Bytes) :=
  if bs.length < 4 then none else some (f32OfBits (leVal (bs.take 4)), bs.drop 4)

/-- `memview[off] != 0`; `IndexError` at the end -/
def readBool : Bytes → Option (Bool × Bytes)
  | [] => none
  | b :: r => some (b != 0, r)

/-! ## UTF-8 (`bytes.decode('utf-8')`, strict) -/

/-- strict UTF-8 decoder: shortest forms only, no surrogates, nothing above U+10FFFF; `none` = `UnicodeDecodeError`.
A continuation byte is one in 128..191.  The fuel is the input length + 1. -/
def utf8Decode : Nat → Bytes → Option Str
  | 0, _ => none
  | _ + 1, [] => some []
  | f + 1, b :: r =>
    if b < 128 then (utf8Decode f r).map (b :: ·)
    else if 194 ≤ b ∧ b < 224 then
      match r with
      | c1 :: r =>
        if 128 ≤ c1 ∧ c1 < 192 then (utf8Decode f r).map (((b - 192) * 64 + (c1 - 128)) :: ·) else none
      | _ => none
    else if 224 ≤ b ∧ b < 240 then
      match r with
      | c1 :: c2 :: r =>
        if (128 ≤ c1 ∧ c1 < 192) ∧ (128 ≤ c2 ∧ c2 < 192) ∧
            2048 ≤ (b - 224) * 4096 + (c1 - 128) * 64 + (c2 - 128) ∧
            ¬ (55296 ≤ (b - 224) * 4096 + (c1 - 128) * 64 + (c2 - 128) ∧ (b - 224) * 4096 + (c1 - 128) * 64 + (c2 - 128) < 57344)
        then (utf8Decode f r).map (((b - 224) * 4096 + (c1 - 128) * 64 + (c2 - 128)) :: ·) else none
      | _ => none
    else if 240 ≤ b ∧ b < 245 then
      match r with
      | c1 :: c2 :: c3 :: r =>
        if (128 ≤ c1 ∧ c1 < 192) ∧ (128 ≤ c2 ∧ c2 < 192) ∧ (128 ≤ c3 ∧ c3 < 192) ∧
            65536 ≤ (b - 240) * 262144 + (c1 - 128) * 4096 + (c2 - 128) * 64 + (c3 - 128) ∧
            (b - 240) * 262144 + (c1 - 128) * 4096 + (c2 - 128) * 64 + (c3 - 128) < 1114112
        then (utf8Decode f r).map (((b - 240) * 262144 + (c1 - 128) * 4096 + (c2 - 128) * 64 + (c3 - 128)) :: ·) else none
      | _ => none
    else none

/-- `_tstr._convert_to_encoding`: `int32(len(utf8)) + utf8` -/
def writeStr (s : Str) : Option Bytes :=
  match utf8 s with
  | some u => (writeInt32 u.length).map (· ++ u)
  | none => none

/-- `_tstr._convert_from_encoding`; a slice past the end is silently short (the decoder then sees fewer bytes) -/
def readStr (bs : Bytes) : Option (Str × Bytes) :=
  match readInt32 bs with
  | some (n, r) =>
    if n < 0 then none                               -- negative length: corrupt input, outside the model
    else (utf8Decode (n.toNat + 1) (r.take n.toNat)).map fun s => (s, r.drop n.toNat)
  | none => none

/-! ## missing bits -/

/-- one byte of missing bits: bit `j` set ⇔ `flags[j]` -/
def packBits : List Bool → Nat
  | [] => 0
  | b :: r => (if b then 1 else 0) + 2 * packBits r

/-- `⌈n/8⌉` bytes, eight flags per byte -/
def missingBytes : Nat → List Bool → Bytes
  | 0, _ => []
  | _ + 1, [] => []
  | f + 1, flags => packBits (flags.take 8) :: missingBytes f (flags.drop 8)

/-- `HailType._missing(value)` -/
def isNa : Value → Bool
  | .na => true
  | _ => false

/-- the `missing` flags of a list of values, as written -/
def missingOf (xs : List Value) : Bytes := missingBytes xs.length (xs.map isNa)

/-- `lookup_bit(byte, which_bit)` -/
def lookupBit (byte bit : Nat) : Bool := byte / 2 ^ bit % 2 == 1

/-- the flag of position `i` in the missing-bit bytes; `none` = `IndexError` on a short view -/
def missingAt (mb : Bytes) (i : Nat) : Option Bool := (mb[i / 8]?).map fun b => lookupBit b (i % 8)

/-! ## n-dimensional arrays: row-major (C) listing ↔ column-major listing -/

/-- first elements of the rows, then the first elements of the tails, … (`m` = common row length) -/
def interleave {α : Type} : Nat → List (List α) → List α
  | 0, _ => []
  | m + 1, rows => rows.filterMap List.head? ++ interleave m (rows.map List.tail)

/-- inverse of `interleave` for `d` rows of length `m` -/
def uninterleave {α : Type} (d : Nat) : Nat → List α → List (List α)
  | 0, _ => List.replicate d []
  | m + 1, xs => List.zipWith (· :: ·) (xs.take d) (uninterleave d m (xs.drop d))

/-- consecutive chunks of length `n` (`k` of them) -/
def chunks {α : Type} (n : Nat) : Nat → List α → List (List α)
  | 0, _ => []
  | k + 1, xs => xs.take n :: chunks n k (xs.drop n)

def prod (shape : List Nat) : Nat := shape.foldl (· * ·) 1

/-- `np.nditer(value, order='F')`: the elements of an array of the given shape (listed row-major) in column-major order -/
def toColMajor {α : Type} : List Nat → List α → List α
  | [], xs => xs
  | d :: rest, xs => interleave (prod rest) ((chunks (prod rest) d xs).map (toColMajor rest))

/-- `np.ndarray(shape, buffer=…, order="F")`: the row-major listing of a column-major buffer -/
def fromColMajor {α : Type} : List Nat → List α → List α
  | [], xs => xs
  | d :: rest, xs => ((uninterleave d (prod rest) xs).map (fromColMajor rest)).flatten

/-! ## encoder -/

def concatOpt : List (Option Bytes) → Option Bytes
  | [] => some []
  | some b :: r => (concatOpt r).map (b ++ ·)
  | none :: _ => none

/-- `Call` of the model of C34 -/
def callEnc (alleles : List Nat) (phased : Bool) : Option Bytes :=
  (CallPack.encodeCall ⟨alleles, phased⟩).bind writeInt32

/-- a possibly missing field / element: nothing is written for `None` (its missing bit says so) -/
def naOrEmpty (x : Value) (enc : Value → Option Bytes) : Option Bytes :=
  match x with
  | .na => some []
  | _ => enc x

/-- `tlocus`: `struct_repr = tstruct(contig=tstr, pos=tint32)`, both present: one zero missing-bit byte -/
def encLocus (contig : Str) (pos : Int) : Option Bytes :=
  match writeStr contig, writeInt32 pos with
  | some a, some b => some (0 :: (a ++ b))
  | _, _ => none

/-- `tinterval`: `tstruct(start, end, includes_start, includes_end)` -/
def encInterval (enc : Value → Option Bytes) (s e : Value) (is ie : Bool) : Option Bytes :=
  match naOrEmpty s enc, naOrEmpty e enc with
  | some a, some b => some (missingOf [s, e, .bool is, .bool ie] ++ a ++ b ++ [if is then 1 else 0] ++ [if ie then 1 else 0])
  | _, _ => none

/-- `tarray` (and `tset` through `list(value)`): int32 length, missing-bit bytes, present elements -/
def encSeq (enc : Value → Option Bytes) (xs : List Value) : Option Bytes :=
  match writeInt32 xs.length, concatOpt (xs.map fun x => naOrEmpty x enc) with
  | some l, some body => some (l ++ missingOf xs ++ body)
  | _, _ => none

/-- one dict entry: the struct `{'key': k, 'value': v}` -/
def encEntry (encK encV : Value → Option Bytes) (p : Value × Value) : Option Bytes :=
  match naOrEmpty p.1 encK, naOrEmpty p.2 encV with
  | some a, some b => some (missingOf [p.1, p.2] ++ a ++ b)
  | _, _ => none

/-- `tdict`: int32 length, then the entries (no missing bits for the entries themselves) -/
def encDict (encK encV : Value → Option Bytes) (es : List (Value × Value)) : Option Bytes :=
  match writeInt32 es.length, concatOpt (es.map (encEntry encK encV)) with
  | some l, some body => some (l ++ body)
  | _, _ => none

/-- `tndarray`: dimensions as int64, then — `if value.size > 0` — the elements in column-major order; `np.nditer` refuses an
object array (`TypeError`: NPY_ITER_REFS_OK not enabled), so only numeric element types get through -/
def encNd (numeric : Bool) (enc : Value → Option Bytes) (shape : List Nat) (data : List Value) : Option Bytes :=
  match concatOpt (shape.map fun (d : Nat) => writeInt64 d) with
  | some dims =>
    if data.isEmpty then some dims
    else if numeric then (concatOpt ((toColMajor shape data).map enc)).map (dims ++ ·)
    else none
  | none => none

mutual
/-- `t._convert_to_encoding(byte_writer, v)` for `v` that is not `None` -/
def encode : HType → Value → Option Bytes
  | .int32, .int i => writeInt32 i
  | .int64, .int i => writeInt64 i
  | .float32, .flt f => some (leBytes 4 (f32Bits f))
  | .float64, .flt f => some (leBytes 8 (f64Bits f))
  | .bool, .bool b => some [if b then 1 else 0]
  | .str, .str s => writeStr s
  | .call, .call alleles phased => callEnc alleles phased
  | .locus _, .locus contig pos => encLocus contig pos
  | .interval t, .interval s e is ie => encInterval (encode t) s e is ie
  | .array t, .arr xs => encSeq (encode t) xs
  | .set t, .set xs => encSeq (encode t) xs
  | .dict k v, .dict es => encDict (encode k) (encode v) es
  | .struct fs, .struct xs => (encodeFields fs xs).map (missingOf xs ++ ·)
  | .tuple ts, .tup xs => (encodeTuple ts xs).map (missingOf xs ++ ·)
  | .ndarray t _, .nd shape data _ => encNd (isNumeric t) (encode t) shape data
  | _, _ => none
def encodeFields : List (Str × HType) → List Value → Option Bytes
  | [], [] => some []
  | (_, t) :: fs, x :: xs => match naOrEmpty x (encode t), encodeFields fs xs with
    | some a, some b => some (a ++ b)
    | _, _ => none
  | _, _ => none
def encodeTuple : List HType → List Value → Option Bytes
  | [], [] => some []
  | t :: ts, x :: xs => match naOrEmpty x (encode t), encodeTuple ts xs with
    | some a, some b => some (a ++ b)
    | _, _ => none
  | _, _ => none
end

/-! ## decoder -/

/-- `k` values read one after the other -/
def readMany {α : Type} (rd : Bytes → Option (α × Bytes)) : Nat → Bytes → Option (List α × Bytes)
  | 0, bs => some ([], bs)
  | k + 1, bs => match rd bs with
    | some (x, r) => (readMany rd k r).map fun (xs, r') => (x :: xs, r')
    | none => none

/-- elements `i, i+1, …` of a container whose missing-bit bytes are `mb`: missing ones are `None`, the others are read -/
def readFlagged (rd : Bytes → Option (Value × Bytes)) (mb : Bytes) : Nat → Nat → Bytes → Option (List Value × Bytes)
  | _, 0, bs => some ([], bs)
  | i, k + 1, bs => match missingAt mb i with
    | some true => (readFlagged rd mb (i + 1) k bs).map fun (xs, r) => (.na :: xs, r)
    | some false => match rd bs with
      | some (x, r) => (readFlagged rd mb (i + 1) k r).map fun (xs, r') => (x :: xs, r')
      | none => none
    | none => none

/-- `tlocus`: `struct_repr` (one missing-bit byte, contig, pos), then `Locus(contig, pos, rg)` — its assertions reject `None` -/
def decLocus (bs : Bytes) : Option (Value × Bytes) :=
  match bs with
  | mb :: r =>
    match (if lookupBit mb 0 then some (Value.na, r) else (readStr r).map fun (s, r) => (Value.str s, r)) with
    | some (c, r1) =>
      match (if lookupBit mb 1 then some (Value.na, r1) else (readInt32 r1).map fun (i, r) => (Value.int i, r)) with
      | some (.int p, r2) => match c with
        | .str s => some (.locus s p, r2)
        | _ => none
      | _ => none
    | none => none
  | [] => none

/-- `tinterval`: the four-field struct, then `Interval(start, end, includes_start, includes_end)` — the type check of the two
flags rejects `None` -/
def decInterval (dec : Bytes → Option (Value × Bytes)) (bs : Bytes) : Option (Value × Bytes) :=
  match bs with
  | mb :: r => match readFlagged dec [mb] 0 2 r with
    | some ([s, e], r1) =>
      match (if lookupBit mb 2 then none else readBool r1) with
      | some (is, r2) => match (if lookupBit mb 3 then none else readBool r2) with
        | some (ie, r3) => some (.interval s e is ie, r3)
        | none => none
      | none => none
    | _ => none
  | [] => none

/-- `tarray`: int32 length, ⌈len/8⌉ missing-bit bytes, the present elements (a negative length is outside the model) -/
def decSeq (dec : Bytes → Option (Value × Bytes)) (bs : Bytes) : Option (List Value × Bytes) :=
  match readInt32 bs with
  | some (n, r) =>
    if n < 0 then none
    else
      let nb := (n.toNat + 7) / 8
      readFlagged dec (r.take nb) 0 n.toNat (r.drop nb)
  | none => none

/-- one dict entry: the `(key, value)` struct with its missing-bit byte -/
def decEntry (decK decV : Bytes → Option (Value × Bytes)) (bs : Bytes) : Option ((Value × Value) × Bytes) :=
  match bs with
  | mb :: r => match (if lookupBit mb 0 then some (Value.na, r) else decK r) with
    | some (a, r1) => match (if lookupBit mb 1 then some (Value.na, r1) else decV r1) with
      | some (b, r2) => some ((a, b), r2)
      | none => none
    | none => none
  | [] => none

/-- `tdict`: int32 length, then that many entries (`range(length)` of a negative length is empty) -/
def decDict (decK decV : Bytes → Option (Value × Bytes)) (bs : Bytes) : Option (Value × Bytes) :=
  match readInt32 bs with
  | some (n, r) =>
    if n < 0 then some (.dict [], r)
    else (readMany (decEntry decK decV) n.toNat r).map fun (es, r') => (.dict es, r')
  | none => none

/-- `tndarray`: `ndim` int64 dimensions, the elements, `np.ndarray(shape, buffer=…, order="F")` -/
def decNd (dec : Bytes → Option (Value × Bytes)) (n : Nat) (bs : Bytes) : Option (Value × Bytes) :=
  match readMany readInt64 n bs with
  | some (dims, r) =>
    if dims.all (0 ≤ ·) then
      (readMany dec (prod (dims.map Int.toNat)) r).map fun (xs, r') =>
        (.nd (dims.map Int.toNat) (fromColMajor (dims.map Int.toNat) xs) true, r')
    else none
  | none => none

mutual
/-- `t._convert_from_encoding(byte_reader)` -/
def decode : HType → Bytes → Option (Value × Bytes)
  | .int32, bs => (readInt32 bs).map fun (i, r) => (.int i, r)
  | .int64, bs => (readInt64 bs).map fun (i, r) => (.int i, r)
  | .float32, bs => (readFloat32 bs).map fun (f, r) => (.flt f, r)
  | .float64, bs => (readFloat64 bs).map fun (f, r) => (.flt f, r)
  | .bool, bs => (readBool bs).map fun (b, r) => (.bool b, r)
  | .str, bs => (readStr bs).map fun (s, r) => (.str s, r)
  | .call, bs => match readInt32 bs with
    | some (i, r) => (CallPack.decodeCall i).map fun c => (.call c.alleles c.phased, r)
    | none => none
  | .locus _, bs => decLocus bs
  | .interval t, bs => decInterval (decode t) bs
  | .array t, bs => (decSeq (decode t) bs).map fun (xs, r) => (.arr xs, r)
  | .set t, bs => (decSeq (decode t) bs).map fun (xs, r) => (.set xs, r)
  | .dict k v, bs => decDict (decode k) (decode v) bs
  | .struct fs, bs =>
    let nb := (fs.length + 7) / 8
    (decodeFields fs (bs.take nb) 0 (bs.drop nb)).map fun (xs, r) => (.struct xs, r)
  | .tuple ts, bs =>
    let nb := (ts.length + 7) / 8
    (decodeTuple ts (bs.take nb) 0 (bs.drop nb)).map fun (xs, r) => (.tup xs, r)
  | .ndarray t n, bs => decNd (decode t) n bs
  | _, _ => none
def decodeFields : List (Str × HType) → Bytes → Nat → Bytes → Option (List Value × Bytes)
  | [], _, _, bs => some ([], bs)
  | (_, t) :: fs, mb, i, bs => match missingAt mb i with
    | some true => (decodeFields fs mb (i + 1) bs).map fun (xs, r) => (.na :: xs, r)
    | some false => match decode t bs with
      | some (x, r) => (decodeFields fs mb (i + 1) r).map fun (xs, r') => (x :: xs, r')
      | none => none
    | none => none
def decodeTuple : List HType → Bytes → Nat → Bytes → Option (List Value × Bytes)
  | [], _, _, bs => some ([], bs)
  | t :: ts, mb, i, bs => match missingAt mb i with
    | some true => (decodeTuple ts mb (i + 1) bs).map fun (xs, r) => (.na :: xs, r)
    | some false => match decode t bs with
      | some (x, r) => (decodeTuple ts mb (i + 1) r).map fun (xs, r') => (x :: xs, r')
      | none => none
    | none => none
end

mutual
/-- only the size limits of `EncOK` (int32 lengths, int64 dimensions, calls in range) — WITHOUT the restriction of n-d arrays to
numeric element types: the domain of the full statement of the property -/
def SizeOK : HType → Value → Prop
  | _, .na => True
  | .str, .str s => 4 * s.length < 2147483648
  | .call, .call alleles phased => CallPack.InRange ⟨alleles, phased⟩
  | .locus _, .locus contig _ => 4 * contig.length < 2147483648
  | .interval t, .interval s e _ _ => SizeOK t s ∧ SizeOK t e
  | .array t, .arr xs => xs.length < 2147483648 ∧ ∀ x ∈ xs, SizeOK t x
  | .set t, .set xs => xs.length < 2147483648 ∧ ∀ x ∈ xs, SizeOK t x
  | .dict k v, .dict es => es.length < 2147483648 ∧ ∀ p ∈ es, SizeOK k p.1 ∧ SizeOK v p.2
  | .struct fs, .struct xs => SizeOKFields fs xs
  | .tuple ts, .tup xs => SizeOKTuple ts xs
  | .ndarray t _, .nd shape data _ => (∀ d ∈ shape, d < 9223372036854775808) ∧ ∀ x ∈ data, SizeOK t x
  | _, _ => True
def SizeOKFields : List (Str × HType) → List Value → Prop
  | (_, t) :: fs, x :: xs => SizeOK t x ∧ SizeOKFields fs xs
  | _, _ => True
def SizeOKTuple : List HType → List Value → Prop
  | t :: ts, x :: xs => SizeOK t x ∧ SizeOKTuple ts xs
  | _, _ => True
end

/-- a field / element that may be `None` -/
def encodeNa (t : HType) (v : Value) : Option Bytes := naOrEmpty v (encode t)

/-! ## what the encoder can write -/

mutual
/-- lengths fit an int32 (strings by their worst-case UTF-8 length), dimensions an int64, calls are in the range of the engine's
packing (C34), and every non-empty n-d array has a numeric element type -/
def EncOK : HType → Value → Prop
  | _, .na => True
  | .str, .str s => 4 * s.length < 2147483648
  | .call, .call alleles phased => CallPack.InRange ⟨alleles, phased⟩
  | .locus _, .locus contig _ => 4 * contig.length < 2147483648
  | .interval t, .interval s e _ _ => EncOK t s ∧ EncOK t e
  | .array t, .arr xs => xs.length < 2147483648 ∧ ∀ x ∈ xs, EncOK t x
  | .set t, .set xs => xs.length < 2147483648 ∧ ∀ x ∈ xs, EncOK t x
  | .dict k v, .dict es => es.length < 2147483648 ∧ ∀ p ∈ es, EncOK k p.1 ∧ EncOK v p.2
  | .struct fs, .struct xs => EncOKFields fs xs
  | .tuple ts, .tup xs => EncOKTuple ts xs
  | .ndarray t _, .nd shape data _ => (∀ d ∈ shape, d < 9223372036854775808) ∧ (data = [] ∨ isNumeric t = true)
  | _, _ => True
def EncOKFields : List (Str × HType) → List Value → Prop
  | (_, t) :: fs, x :: xs => EncOK t x ∧ EncOKFields fs xs
  | _, _ => True
def EncOKTuple : List HType → List Value → Prop
  | t :: ts, x :: xs => EncOK t x ∧ EncOKTuple ts xs
  | _, _ => True
end

/-- `t._to_encoding(v)` -/
def toEncoding (t : HType) (v : Value) : Option Bytes := encode t v

/-- `t._from_encoding(bs)` (trailing bytes are ignored) -/
def fromEncoding (t : HType) (bs : Bytes) : Option Value := (decode t bs).map (·.1)

end HailVerif.ValueEnc

import HailVerif.Model.ValueJson
/-! Line-protocol reading / canonical printing of types, values and JSON trees for the C32 / C33 model drivers.
Not part of any model.  Formats: `harness/props/hailvalues.py` (`ty_tokens`, `val_tokens`, `canon_case`). -/
namespace HailVerif.ValueIO
open HailVerif.TypeStr HailVerif.Values HailVerif.ValueJson

def hexCharVal (c : Char) : Option Nat :=
  if '0' ≤ c ∧ c ≤ '9' then some (c.toNat - 48)
  else if 'a' ≤ c ∧ c ≤ 'f' then some (c.toNat - 87)
  else none

def parseHex (s : String) : Option Nat :=
  if s.isEmpty then none else s.toList.foldlM (fun acc c => (hexCharVal c).map (acc * 16 + ·)) 0

def parseStr (tok : String) : Option Str :=
  if tok == "-" then some [] else (tok.splitOn ".").mapM parseHex

def hexOf (n : Nat) : String := String.ofList (Nat.toDigits 16 n)

def hexPad (width n : Nat) : String :=
  let d := Nat.toDigits 16 n
  String.ofList (List.replicate (width - d.length) '0' ++ d)

def showStr (s : Str) : String := if s.isEmpty then "-" else ".".intercalate (s.map hexOf)

partial def parseTy : List String → Option (HType × List String)
  | "void" :: r => some (.void, r)
  | "i32" :: r => some (.int32, r)
  | "i64" :: r => some (.int64, r)
  | "f32" :: r => some (.float32, r)
  | "f64" :: r => some (.float64, r)
  | "bool" :: r => some (.bool, r)
  | "call" :: r => some (.call, r)
  | "str" :: r => some (.str, r)
  | "rng" :: r => some (.rngState, r)
  | "locus" :: n :: r => (parseStr n).map fun s => (.locus s, r)
  | "array" :: r => (parseTy r).map fun (t, r) => (.array t, r)
  | "set" :: r => (parseTy r).map fun (t, r) => (.set t, r)
  | "stream" :: r => (parseTy r).map fun (t, r) => (.stream t, r)
  | "interval" :: r => (parseTy r).map fun (t, r) => (.interval t, r)
  | "ndarray" :: n :: r => do
    let n ← n.toNat?
    let (t, r) ← parseTy r
    pure (.ndarray t n, r)
  | "dict" :: r => do
    let (k, r) ← parseTy r
    let (v, r) ← parseTy r
    pure (.dict k v, r)
  | "struct" :: n :: r => do
    let n ← n.toNat?
    let rec goF : Nat → List String → List (Str × HType) → Option (List (Str × HType) × List String)
      | 0, r, acc => some (acc.reverse, r)
      | k + 1, nm :: r, acc => do
        let s ← parseStr nm
        let (t, r) ← parseTy r
        goF k r ((s, t) :: acc)
      | _, _, _ => none
    let (fs, r) ← goF n r []
    pure (.struct fs, r)
  | "tuple" :: n :: r => do
    let n ← n.toNat?
    let rec goT : Nat → List String → List HType → Option (List HType × List String)
      | 0, r, acc => some (acc.reverse, r)
      | k + 1, r, acc => do
        let (t, r) ← parseTy r
        goT k r (t :: acc)
    let (ts, r) ← goT n r []
    pure (.tuple ts, r)
  | _ => none

def parseBit : String → Option Bool
  | "1" => some true
  | "0" => some false
  | _ => none

partial def parseVal : List String → Option (Value × List String)
  | "na" :: r => some (.na, r)
  | "i" :: n :: r => n.toInt?.map fun i => (.int i, r)
  | "b" :: b :: r => (parseBit b).map fun b => (.bool b, r)
  | "s" :: s :: r => (parseStr s).map fun s => (.str s, r)
  | "f" :: b :: r => b.toNat?.map fun b => (.flt (.fin b), r)
  | "fnan" :: r => some (.flt .nan, r)
  | "finf" :: r => some (.flt .inf, r)
  | "fninf" :: r => some (.flt .ninf, r)
  | "call" :: ph :: n :: r => do
    let ph ← parseBit ph
    let n ← n.toNat?
    let as ← (r.take n).mapM String.toNat?
    if as.length = n then pure (.call as ph, r.drop n) else none
  | "locus" :: c :: p :: r => do
    let c ← parseStr c
    let p ← p.toInt?
    pure (.locus c p, r)
  | "iv" :: r => do
    let (s, r) ← parseVal r
    let (e, r) ← parseVal r
    match r with
    | a :: b :: r => do
      let a ← parseBit a
      let b ← parseBit b
      pure (.interval s e a b, r)
    | _ => none
  | "arr" :: n :: r => do
    let (xs, r) ← many (← n.toNat?) r []
    pure (.arr xs, r)
  | "set" :: n :: r => do
    let (xs, r) ← many (← n.toNat?) r []
    pure (.set xs, r)
  | "tup" :: n :: r => do
    let (xs, r) ← many (← n.toNat?) r []
    pure (.tup xs, r)
  | "st" :: n :: r => do
    let (xs, r) ← many (← n.toNat?) r []
    pure (.struct xs, r)
  | "dict" :: n :: r => do
    let (xs, r) ← many (2 * (← n.toNat?)) r []
    let rec pairs : List Value → List (Value × Value)
      | a :: b :: r => (a, b) :: pairs r
      | _ => []
    pure (.dict (pairs xs), r)
  | "nd" :: order :: nd :: r => do
    let nd ← nd.toNat?
    let dims ← (r.take nd).mapM String.toNat?
    if dims.length ≠ nd then none else
    match r.drop nd with
    | n :: r => do
      let (xs, r) ← many (← n.toNat?) r []
      pure (.nd dims xs (order == "F"), r)
    | _ => none
  | _ => none
where
  many : Nat → List String → List Value → Option (List Value × List String)
    | 0, r, acc => some (acc.reverse, r)
    | k + 1, r, acc => do
      let (v, r) ← parseVal r
      many k r (v :: acc)

/-- `<type tokens> | <value tokens>` -/
def parseTyVal (ws : List String) : Option (HType × Value) := do
  let (t, r) ← parseTy ws
  match r with
  | "|" :: r =>
    let (v, r) ← parseVal r
    if r.isEmpty then pure (t, v) else none
  | _ => none

def sortStrings (xs : List String) : List String := xs.mergeSort (fun a b => decide (a ≤ b))

/-- Python `set(xs)` on canonical texts: equal elements collapse -/
def dedupStrings (xs : List String) : List String :=
  xs.foldl (fun acc x => if acc.contains x then acc else acc ++ [x]) []

/-- Python `{k: v for …}` on canonical texts: a later entry with an equal key overwrites the value -/
def dictStrings (es : List (String × String)) : List String :=
  (es.foldl (fun (acc : List (String × String)) (e : String × String) =>
    if acc.any (·.1 == e.1) then acc.map (fun p => if p.1 == e.1 then (p.1, e.2) else p) else acc ++ [e]) []).map
    fun p => p.1 ++ "=>" ++ p.2

def showFlt (wide : Bool) : Flt → String
  | .nan => "nan"
  | .inf => "inf"
  | .ninf => "-inf"
  | .fin b => if wide then "f" ++ hexPad 16 b else "g" ++ hexPad 8 b

def bit (b : Bool) : String := if b then "1" else "0"

/-- canonical text of a value of type `t` (= `hailvalues.canon_case`); `?` marks a value of the wrong shape -/
partial def canon : HType → Value → String
  | _, .na => "NA"
  | .int32, .int i | .int64, .int i => s!"i{i}"
  | .bool, .bool b => if b then "T" else "F"
  | .str, .str s => "s" ++ showStr s
  | .float32, .flt f => showFlt false f
  | .float64, .flt f => showFlt true f
  | .call, .call as ph => "call(" ++ ",".intercalate (as.map toString) ++ ";" ++ bit ph ++ ")"
  | .locus rg, .locus c p => s!"locus({showStr rg};{showStr c};{p})"
  | .interval t, .interval s e a b => s!"iv({canon t s};{canon t e};{bit a};{bit b})"
  | .array t, .arr xs => "arr(" ++ ",".intercalate (xs.map (canon t)) ++ ")"
  | .set t, .set xs => "set(" ++ ",".intercalate (sortStrings (dedupStrings (xs.map (canon t)))) ++ ")"
  | .dict k v, .dict es =>
    "dict(" ++ ",".intercalate (sortStrings (dictStrings (es.map fun (a, b) => (canon k a, canon v b)))) ++ ")"
  | .struct fs, .struct xs => "st(" ++ ",".intercalate ((fs.zip xs).map fun ((_, t), x) => canon t x) ++ ")"
  | .tuple ts, .tup xs => "tup(" ++ ",".intercalate ((ts.zip xs).map fun (t, x) => canon t x) ++ ")"
  | .ndarray t _, .nd shape data _ =>
    "nd(" ++ "x".intercalate (shape.map toString) ++ ";" ++ ",".intercalate (data.map (canon t)) ++ ")"
  | _, _ => "?"

/-- canonical text of a JSON tree (= `c32.canon_json`): object keys sorted; a finite float is its bit pattern in decimal
(binary32 pattern at float32 positions, binary64 elsewhere — the Python side is type-directed) -/
partial def canonJson : Json → String
  | .null => "null"
  | .bool b => if b then "true" else "false"
  | .num i => toString i
  | .flt (.fin b) => s!"F{b}"
  | .flt .nan => "NaN"
  | .flt .inf => "Infinity"
  | .flt .ninf => "-Infinity"
  | .str s => "\"" ++ showStr s ++ "\""
  | .arr xs => "[" ++ ",".intercalate (xs.map canonJson) ++ "]"
  | .obj kvs => "{" ++ ",".intercalate (sortStrings (kvs.map fun (k, v) => showStr k ++ ":" ++ canonJson v)) ++ "}"

/-- type-directed canonical text of the JSON tree of a value of type `t`: as `canonJson`, with the arrays that stand for sets and
dicts sorted (the iteration order of a Python set / dict is not an observable) -/
partial def canonJsonT : HType → Json → String
  | .array t, .arr xs => "[" ++ ",".intercalate (xs.map (canonJsonT t)) ++ "]"
  | .set t, .arr xs => "[" ++ ",".intercalate (sortStrings (xs.map (canonJsonT t))) ++ "]"
  | .dict k v, .arr xs =>
    "[" ++ ",".intercalate (sortStrings (xs.map (canonJsonT (.struct [(cp% "key", k), (cp% "value", v)])))) ++ "]"
  | .tuple ts, .arr xs => "[" ++ ",".intercalate ((ts.zip xs).map fun (t, x) => canonJsonT t x) ++ "]"
  | .struct fs, .obj kvs =>
    "{" ++ ",".intercalate (sortStrings (kvs.map fun (k, v) =>
      showStr k ++ ":" ++ (match fs.find? (·.1 == k) with | some (_, t) => canonJsonT t v | none => canonJson v))) ++ "}"
  | .interval t, .obj kvs =>
    "{" ++ ",".intercalate (sortStrings (kvs.map fun (k, v) =>
      showStr k ++ ":" ++ (if k == cp% "start" || k == cp% "end" then canonJsonT t v else canonJson v))) ++ "}"
  | _, j => canonJson j

end HailVerif.ValueIO

import HailVerif.Model.ExprIR
/-!
# The engine's function registry: signatures with type variables, and the unification rule of a call (C36)

Engine side (text only): `hail/hail/src/is/hail/expr/ir/functions/Functions.scala` — a call `Apply(name, typeArgs, args, returnType)`
resolves to a registered function `f` iff `f.unify(typeArgs, args.map(_.typ), returnType)`: the parameter types and the return
type of `f`, which may contain type variables (`tv("T")`, `tnum("T")`), are unified one after the other with the concrete types,
every variable being bound at its first occurrence and compared at the later ones.  Transcribed families:
`ArrayFunctions.scala` (`append`, `extend`, `contains`, `isEmpty`, `flatten`), `SetFunctions.scala` (`toSet`, `isEmpty`, `contains`,
`add`, `remove`, `union`, `intersection`, `difference`, `isSubset`), `DictFunctions.scala` (`isEmpty`, `contains`, `get` ×2, `index`,
`keySet`, `keys`, `values`, `dict` ×2), `StringFunctions.scala::contains`.  Python side: `Expression._method(name, ret_type, *args)`
emits `ir.Apply(name, ret_type, self, *args)` with the argument types as they are — whatever coercion is needed must have been
applied by the caller.
-/
namespace HailVerif.FnRegistry
open HailVerif.ExprIR (HType Types)

/-- parameter / return type patterns -/
inductive TPat where
  | var (n : String)                    -- `tv(n)`
  | num (n : String)                    -- `tnum(n)`: a numeric type
  | bool | int32 | int64 | float32 | float64 | str
  | array (p : TPat) | set (p : TPat) | dict (k v : TPat)
  | tuple2 (a b : TPat)
  deriving DecidableEq

abbrev Subst := List (String × HType)

def lookupVar : Subst → String → Option HType
  | [], _ => none
  | (m, t) :: r, n => if m = n then some t else lookupVar r n

/-- a type variable is bound at its first occurrence and compared at the later ones -/
def bindVar (σ : Subst) (n : String) (t : HType) : Option Subst :=
  match lookupVar σ n with
  | some u => if u = t then some σ else none
  | none => some ((n, t) :: σ)

def isNum : HType → Bool
  | .int32 | .int64 | .float32 | .float64 => true
  | _ => false

def unify : TPat → HType → Subst → Option Subst
  | .var n, t, σ => bindVar σ n t
  | .num n, t, σ => if isNum t then bindVar σ n t else none
  | .bool, .bool, σ | .int32, .int32, σ | .int64, .int64, σ | .float32, .float32, σ | .float64, .float64, σ
  | .str, .str, σ => some σ
  | .array p, .array t, σ => unify p t σ
  | .set p, .set t, σ => unify p t σ
  | .dict k v, .dict a b, σ => (unify k a σ).bind (unify v b)
  | .tuple2 a b, .tuple (.cons x (.cons y .nil)), σ => (unify a x σ).bind (unify b y)
  | _, _, _ => none

def unifyAll : List TPat → List HType → Subst → Option Subst
  | [], [], σ => some σ
  | p :: ps, t :: ts, σ => (unify p t σ).bind (unifyAll ps ts)
  | _, _, _ => none

structure Sig where
  params : List TPat
  ret : TPat

abbrev T : TPat := .var "T"
abbrev K : TPat := .var "key"
abbrev V : TPat := .var "value"

/-- the three shapes `ArrayFunctions.scala` registers for every entry of `arrayOps` -/
def vectorised (arg ret : TPat) : List Sig :=
  [⟨[.array arg, arg], .array ret⟩, ⟨[arg, .array arg], .array ret⟩, ⟨[.array arg, .array arg], .array ret⟩]

/-- a function registered once per numeric type -/
def perNumeric (f : TPat → Sig) : List Sig := [f .int32, f .int64, f .float32, f .float64]

abbrev N : TPat := .num "T"

/-- the registered signatures, by name.  RETURN patterns: for functions registered with `registerIR` the engine's `lookupIR` unifies
the ARGUMENTS only and `ApplyIR.explicitNode` then asserts that the declared return type is the type of the implementation's body —
so the pattern below is the body's type (e.g. `div` on int arrays: `FloatingPointDivide` gives float64, although the table in
`arrayOps` says `TFloat32`, a value nothing reads; `get` without default: the dict's value type); for JVM functions
(`registerScalaFunction`: scalar `mod`, `pow`) it is the registered return type, unified like a parameter. -/
def signatures : String → List Sig
  | "append" => [⟨[.array T, T], .array T⟩]
  | "extend" => [⟨[.array T, .array T], .array T⟩]
  | "flatten" => [⟨[.array (.array T)], .array T⟩]
  | "toSet" => [⟨[.array T], .set T⟩]
  | "isEmpty" => [⟨[.array T], .bool⟩, ⟨[.set T], .bool⟩, ⟨[.dict K V], .bool⟩]
  | "contains" => [⟨[.array T, T], .bool⟩, ⟨[.set T, T], .bool⟩, ⟨[.dict K V, K], .bool⟩, ⟨[.str, .str], .bool⟩]
  | "add" => ⟨[.set T, T], .set T⟩ :: vectorised N T
  | "sub" => vectorised N T
  | "mul" => vectorised N T
  | "floordiv" => vectorised N T
  | "mod" => vectorised N T ++ perNumeric fun t => ⟨[t, t], t⟩
  | "div" => vectorised .int32 .float64 ++ vectorised .int64 .float64 ++ vectorised .float32 .float32 ++ vectorised .float64 .float64
  | "pow" => vectorised N .float64 ++ perNumeric fun t => ⟨[t, t], .float64⟩
  | "remove" => [⟨[.set T, T], .set T⟩]
  | "union" => [⟨[.set T, .set T], .set T⟩]
  | "intersection" => [⟨[.set T, .set T], .set T⟩]
  | "difference" => [⟨[.set T, .set T], .set T⟩]
  | "isSubset" => [⟨[.set T, .set T], .bool⟩]
  | "get" => [⟨[.dict K V, K, V], V⟩, ⟨[.dict K V, K], V⟩]
  | "index" => [⟨[.dict K V, K], V⟩]
  | "keySet" => [⟨[.dict K V], .set K⟩]
  | "keys" => [⟨[.dict K V], .array K⟩]
  | "values" => [⟨[.dict K V], .array V⟩]
  | "dict" => [⟨[.set (.tuple2 K V)], .dict K V⟩, ⟨[.array (.tuple2 K V)], .dict K V⟩]
  | _ => []

/-- `lookupFunction`: some registered function of that name unifies with the argument types and the return type -/
def applyOk (fn : String) (args : List HType) (ret : HType) : Bool :=
  (signatures fn).any fun s => (unifyAll (s.params ++ [s.ret]) (args ++ [ret]) []).isSome

def typesToList : Types → List HType
  | .nil => []
  | .cons t r => t :: typesToList r

/-! ## `NDArrayMatMul`: the rank of the product (`TNDArray.matMulNDims`, used by `InferType`) -/

/-- vector · vector is a scalar (rank 0), a vector on one side drops the contracted axis of the other operand, otherwise the
(equal, after broadcasting by the front end) rank of the left operand -/
def matMulNDims : Nat → Nat → Nat
  | 1, 1 => 0
  | 1, n => n - 1
  | n, 1 => n - 1
  | l, _ => l

end HailVerif.FnRegistry

/-
Model of `batch/batch/batch_format_version.py` (`BatchFormatVersion.db_spec`, `get_spec_secrets`,
`get_spec_service_account`, `get_spec_has_input_files`, `get_spec_has_output_files`, `get_spec_machine_spec`) and of
`batch/batch/utils.py` (`regions_to_bits_rep`, `regions_bits_rep_to_regions`).

Python values are modelled by the JSON-like type `J`; Python `None` and JSON `null` are both `J.null`.
Every function lives in `Option`: `none` = the Python code raises (KeyError, IndexError, TypeError, AttributeError,
AssertionError, ValueError) — never a default.
-/
namespace HailVerif.SpecFormat

inductive J where
  | null
  | bool (b : Bool)
  | int (n : Int)
  | str (s : String)
  | arr (xs : List J)
  | obj (kvs : List (String × J))      -- a dict, in insertion order; keys unique

/-- Python truthiness (`if x:` / `bool(x)`) -/
def J.truthy : J → Bool
  | .null => false
  | .bool b => b
  | .int n => n != 0
  | .str s => s != ""
  | .arr xs => !xs.isEmpty
  | .obj kvs => !kvs.isEmpty

/-- `d.get(k, default)` on a dict -/
def J.getOr (d : J) (k : String) (default : J) : Option J :=
  match d with
  | .obj kvs => some ((kvs.lookup k).getD default)
  | _ => none                                        -- AttributeError: no `.get`
/-- `d.get(k)` -/
def J.get (d : J) (k : String) : Option J := d.getOr k .null
/-- `d[k]` on a dict -/
def J.key (d : J) (k : String) : Option J :=
  match d with
  | .obj kvs => kvs.lookup k                         -- KeyError
  | _ => none
/-- `xs[i]` on a list -/
def J.at (xs : J) (i : Nat) : Option J :=
  match xs with
  | .arr l => l[i]?                                  -- IndexError
  | _ => none
/-- `int(x)` for the values that occur (bool, int) -/
def J.toInt : J → Option Int
  | .bool b => some (if b then 1 else 0)
  | .int n => some n
  | _ => none
/-- `len(x)` -/
def J.len : J → Option Nat
  | .arr l => some l.length
  | .obj kvs => some kvs.length
  | .str s => some s.length
  | _ => none                                        -- TypeError
/-- iterate a list -/
def J.elems : J → Option (List J)
  | .arr l => some l
  | _ => none

def boolInt (b : Bool) : J := .int (if b then 1 else 0)

/-! ### `db_spec` -/

/-- `[secret['namespace'], secret['name'], secret['mount_path'], int(secret.get('mount_in_copy', False))]` -/
def dbSecret (secret : J) : Option J := do
  let ns ← secret.key "namespace"
  let name ← secret.key "name"
  let mp ← secret.key "mount_path"
  let mic ← (← secret.getOr "mount_in_copy" (.bool false)).toInt
  pure (.arr [ns, name, mp, .int mic])

/-- `int(len(spec.get(key, [])) > 0)` -/
def hasFiles (spec : J) (key : String) : Option Bool := do
  let n ← (← spec.getOr key (.arr [])).len
  pure (decide (n > 0))

/-- `if secrets: secrets = [[…] for secret in secrets]` -/
def dbSecrets (secrets : J) : Option J :=
  if secrets.truthy then do
    let xs ← secrets.elems
    let ys ← xs.mapM dbSecret
    pure (J.arr ys)
  else pure secrets

/-- `if service_account: service_account = [service_account['namespace'], service_account['name']]` -/
def dbServiceAccount (sa : J) : Option J :=
  if sa.truthy then do pure (J.arr [← sa.key "namespace", ← sa.key "name"])
  else pure sa

/-- `machine_spec = None; machine_type = resources.get('machine_type'); if machine_type: machine_spec = [machine_type,
int(resources['preemptible']), resources['storage_gib']]` -/
def dbMachineSpec (resources : J) : Option J := do
  let machineType ← resources.get "machine_type"
  if machineType.truthy then do
    let preemptible ← (← resources.key "preemptible").toInt
    let storage ← resources.key "storage_gib"
    pure (J.arr [machineType, .int preemptible, storage])
  else pure J.null

/-- `BatchFormatVersion(v).db_spec(spec)` -/
def dbSpec (v : Nat) (spec : J) : Option J :=
  if v = 1 then some spec
  else do
    let secrets ← dbSecrets (← spec.get "secrets")
    let sa ← dbServiceAccount (← spec.get "service_account")
    let machineSpec ← dbMachineSpec (← spec.get "resources")      -- computed for every version ≥ 2
    let hasIn ← hasFiles spec "input_files"
    let hasOut ← hasFiles spec "output_files"
    if v < 5 then pure (.arr [secrets, sa, boolInt hasIn, boolInt hasOut])
    else pure (.arr [secrets, sa, boolInt hasIn, boolInt hasOut, machineSpec])

/-! ### getters (applied to what `db_spec` stored) -/

/-- `{'namespace': s[0], 'name': s[1], 'mount_path': s[2], 'mount_in_copy': bool(s[3])}` -/
def secretOfDb (s : J) : Option J := do
  pure (.obj [("namespace", ← s.at 0), ("name", ← s.at 1), ("mount_path", ← s.at 2), ("mount_in_copy", .bool (← s.at 3).truthy)])

/-- `get_spec_secrets` -/
def getSecrets (v : Nat) (spec : J) : Option J :=
  if v = 1 then spec.get "secrets"
  else do
    let secrets ← spec.at 0
    if secrets.truthy then do
      let xs ← secrets.elems
      pure (.arr (← xs.mapM secretOfDb))
    else pure .null

/-- `get_spec_service_account` -/
def getServiceAccount (v : Nat) (spec : J) : Option J :=
  if v = 1 then spec.get "service_account"
  else do
    let sa ← spec.at 1
    if sa.truthy then do pure (.obj [("namespace", ← sa.at 0), ("name", ← sa.at 1)])
    else pure .null

/-- `get_spec_has_input_files` -/
def getHasInputFiles (v : Nat) (spec : J) : Option Bool :=
  if v = 1 then hasFiles spec "input_files"
  else do pure (← spec.at 2).truthy

/-- `get_spec_has_output_files` -/
def getHasOutputFiles (v : Nat) (spec : J) : Option Bool :=
  if v = 1 then hasFiles spec "output_files"
  else do pure (← spec.at 3).truthy

/-- `get_spec_machine_spec` -/
def getMachineSpec (v : Nat) (spec : J) : Option J :=
  if v < 5 then some .null
  else do
    let ms ← spec.at 4
    if ms.truthy then do
      pure (.obj [("machine_type", ← ms.at 0), ("preemptible", .bool (← ms.at 1).truthy), ("storage_gib", ← ms.at 2)])
    else pure .null

/-! ### region bit sets (`batch/batch/utils.py`) -/

/-- loop body of `regions_to_bits_rep`: `idx = mapping[region]; assert idx < 64; result |= 1 << (idx - 1)` -/
def toBitsStep (mapping : List (String × Nat)) (result : Nat) (region : String) : Option Nat := do
  let idx ← mapping.lookup region                      -- KeyError
  if idx < 64 then                                     -- assert idx < 64
    if idx = 0 then none                               -- 1 << -1: ValueError (negative shift count)
    else pure (result ||| (1 <<< (idx - 1)))
  else none

/-- `regions_to_bits_rep(selected_regions, all_regions_mapping)`; the mapping is a dict region ↦ index -/
def regionsToBits (selected : List String) (mapping : List (String × Nat)) : Option Nat :=
  selected.foldlM (toBitsStep mapping) 0

/-- loop body of `regions_bits_rep_to_regions`: `if bool((bits >> idx - 1) & 1): result.append(region)` -/
def toRegionsStep (bits : Nat) (result : List String) (p : String × Nat) : Option (List String) :=
  if p.2 = 0 then none                                 -- bits >> -1: ValueError
  else if ((bits >>> (p.2 - 1)) &&& 1) != 0 then pure (result ++ [p.1])
  else pure result

/-- `regions_bits_rep_to_regions(bits, all_regions_mapping)` for an integer `bits` (dict iteration = insertion order) -/
def bitsToRegions (bits : Nat) (mapping : List (String × Nat)) : Option (List String) :=
  mapping.foldlM (toRegionsStep bits) []

/-- the whole function: `None` ↦ `None` -/
def bitsToRegionsOpt (bits : Option Nat) (mapping : List (String × Nat)) : Option (Option (List String)) :=
  match bits with
  | none => some none
  | some b => (bitsToRegions b mapping).map some

/-! ### the caller: the per-job `regions` block of `_create_jobs` (batch/batch/front_end/front_end.py) -/

/-- What one iteration of `for spec in job_specs` stores in the job's row for its region preference:
`(n_regions, regions_bits_rep)`; `none` = `HTTPBadRequest` (unknown region, empty list), which rejects the request.
A job without the `regions` key gets `(NULL, NULL)` — its own `else:` branch, whatever the jobs before it asked for. -/
def jobRegions (mapping : List (String × Nat)) : Option (List String) → Option (Option Nat × Option Nat)
  | none => some (none, none)                                       -- else: n_regions = None; regions_bits_rep = None
  | some regions =>
    if regions.any (fun r => (mapping.lookup r).isNone) then none   -- 'invalid regions specified'
    else if regions.isEmpty then none                               -- 'regions must not be an empty array'
    else (regionsToBits regions mapping).map fun b => (some regions.length, some b)

/-- one call of `_create_jobs` on a bunch: the block runs once per job and carries nothing from one job to the next -/
def bunchRegions (mapping : List (String × Nat)) (jobs : List (Option (List String))) :
    Option (List (Option Nat × Option Nat)) :=
  jobs.mapM (jobRegions mapping)

end HailVerif.SpecFormat

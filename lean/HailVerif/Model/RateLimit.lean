/-
Model of `RateLimiter.__aenter__` (hail/python/hailtop/utils/rate_limiter.py) over an integer clock.

```
while True:
    now = time.time()
    while len(self._items) > 0 and self._items[0] <= (now - self._window_seconds): self._items.popleft()
    if len(self._items) < self._count: self._items.append(now); return self
    await asyncio.sleep(self._items[0] - (now - self._window_seconds))
```
One model step is one atomic block: `attempt i` = one iteration of the loop body by task `i` at the current time (its
first one when it calls `__aenter__`, a later one when its `asyncio.sleep` ends), `tick dt` = the clock moves on.
An admitted task is inside the `async with` body until it leaves it: `exit i` (normally), `fail i` (by an exception) or
`cancel i` (a `CancelledError` delivered inside the body) — all three run `__aexit__`, which is `pass`: an admission
counts whatever happens to the body afterwards.  `cancel i` of a task that sleeps inside `__aenter__` makes the
`CancelledError` leave `asyncio.sleep` and `__aenter__` (no `__aexit__`): the task just stops waiting.
Times are integers (the correspondence quantises real times to multiples of 2⁻¹⁰ s, so the float subtractions of the
code are exact).  The clock is assumed monotone (`tick` takes a natural number).
-/
namespace HailVerif.RateLimit

structure Cfg where
  /-- `rate_limit.count` -/
  count : Nat
  /-- `rate_limit.window_seconds`, in ticks -/
  window : Int
  deriving DecidableEq, Repr

structure State where
  /-- `time.time()` -/
  now : Int
  /-- `self._items`, oldest leftmost -/
  items : List Int
  /-- tasks inside `asyncio.sleep`: (task, time it went to sleep, time the sleep ends) -/
  sleepers : List (Nat × Int × Int)
  /-- every admission time so far, in order of admission (the trace the property talks about; never read by `step`) -/
  log : List Int
  /-- admitted tasks that are still inside the `async with` body -/
  inBody : List Nat
  deriving DecidableEq, Repr

inductive Op where
  | tick (dt : Nat)
  | attempt (i : Nat)
  | exit (i : Nat)
  | fail (i : Nat)
  | cancel (i : Nat)
  deriving DecidableEq, Repr

inductive Err where
  /-- `self._items[0]` on an empty deque (only possible when `count = 0`) -/
  | indexError
  /-- not a behaviour: `asyncio.sleep` does not return before its delay has passed -/
  | notDue
  /-- not a behaviour: the task is not in the phase the op needs (e.g. leaving a body it is not in, entering twice) -/
  | protocol
  deriving DecidableEq, Repr

deriving instance DecidableEq for Except

def init (t0 : Int) : State := ⟨t0, [], [], [], []⟩

/-- the eviction loop: pop from the left while the head is `≤ now - window` -/
def evict (c : Cfg) (now : Int) (items : List Int) : List Int :=
  items.dropWhile fun t => decide (t ≤ now - c.window)

def wakeOf (i : Nat) (l : List (Nat × Int × Int)) : Option Int := (l.find? fun p => p.1 == i).map (·.2.2)
def removeSleeper (i : Nat) (l : List (Nat × Int × Int)) : List (Nat × Int × Int) := l.filter fun p => p.1 != i

/-- one iteration of the `while True:` body by task `i` -/
def body (c : Cfg) (s : State) (i : Nat) : Except Err State :=
  let items := evict c s.now s.items
  let sl := removeSleeper i s.sleepers
  if items.length < c.count then                         -- `if len(self._items) < self._count:`
    .ok { s with items := items ++ [s.now], sleepers := sl, log := s.log ++ [s.now], inBody := s.inBody ++ [i] }
  else
    match items with
    | [] => .error .indexError                           -- `self._items[0]`
    | h :: _ => .ok { s with items := items, sleepers := sl ++ [(i, s.now, h + c.window)] }
                                                         -- sleep `h - (now - window)`: until `h + window`

/-- task `i` leaves the `async with` body: `__aexit__` is `pass`, whatever the reason -/
def leave (s : State) (i : Nat) : Except Err State :=
  if s.inBody.contains i then .ok { s with inBody := s.inBody.filter fun j => j != i } else .error .protocol

def step (c : Cfg) (s : State) : Op → Except Err State
  | .tick dt => .ok { s with now := s.now + dt }
  | .attempt i =>
    if s.inBody.contains i then .error .protocol else
    match wakeOf i s.sleepers with
    | some wk => if s.now < wk then .error .notDue else body c s i
    | none => body c s i
  | .exit i => leave s i
  | .fail i => leave s i
  | .cancel i =>
    if s.inBody.contains i then leave s i                                   -- CancelledError inside the body: `__aexit__`
    else if (wakeOf i s.sleepers).isSome then
      .ok { s with sleepers := removeSleeper i s.sleepers }                 -- CancelledError inside `asyncio.sleep` of `__aenter__`
    else .error .protocol

def run (c : Cfg) : State → List Op → Except Err State
  | s, [] => .ok s
  | s, op :: ops =>
    match step c s op with
    | .error e => .error e
    | .ok s' => run c s' ops

/-- number of admissions in the half-open window `(lo, hi]` -/
def countOC (l : List Int) (lo hi : Int) : Nat := l.countP fun a => decide (lo < a ∧ a ≤ hi)
/-- number of admissions in the half-open window `[lo, hi)` -/
def countCO (l : List Int) (lo hi : Int) : Nat := l.countP fun a => decide (lo ≤ a ∧ a < hi)
/-- number of admissions in the closed window `[lo, hi]` -/
def countCC (l : List Int) (lo hi : Int) : Nat := l.countP fun a => decide (lo ≤ a ∧ a ≤ hi)

end HailVerif.RateLimit

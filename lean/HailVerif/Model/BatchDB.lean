import HailVerif.Generated.AttemptsTrigger
import HailVerif.Generated.JobsTrigger
/-!
# BatchDB — executable model of the batch service's database state machine (DESIGN.md, Engine E1)

One atomic `step` per transaction of the service.  The tables modelled and where each operation comes from:

* `createBatch`, `createUpdate`, `insertGroups`, `insertJobs` … `batch/batch/front_end/front_end.py`
  (`_create_batch`, `_create_batch_update`, `_create_job_groups`/`_create_job_group`, `_create_jobs`)
* `commitUpdate` … procedure `commit_batch_update` (batch/sql/116)
* `cancelGroup` … `batch.py::cancel_job_group_in_db` + procedure `cancel_job_group` (119)
* `schedule`, `creating`, `started` … procedures `schedule_job`, `mark_job_creating`, `mark_job_started` (119), `add_attempt` (053)
* `complete` … `mark_job_complete` + `mark_job_group_complete` (116);  `unschedule`, `deactivate` … (067)
* `newInstance`, `activate`, `markDeleted` … `driver/instance.py`, procedures in 000
* `addResources` … `driver/job.py::add_attempt_resources` + trigger `attempt_resources_after_insert` (116)
* `heartbeat` … `driver/main.py::billing_update_1`;  the attempts triggers (067 clamp, generated; 117 billing)
* `cleanupStaging`, `cleanupCancellable`, `compact` … background loops in `driver/main.py`

The three sharded counter tables and the four billing aggregates are kept as ONE log of `(key, delta)` entries
(`ctr`); the value of a counter is the sum of its entries — exactly the abstraction every reader of those tables
applies (`SUM(...) GROUP BY` over tokens).  Deleting rows = dropping entries.
-/
namespace HailVerif.BatchDB
open HailVerif.Generated.AttemptsTrigger (Row attemptsBeforeUpdate)

inductive JState | Pending | Ready | Creating | Running | Success | Failed | Error | Cancelled
deriving DecidableEq, Repr, Inhabited

def JState.terminal : JState → Bool
  | .Success | .Failed | .Error | .Cancelled => true
  | _ => false

inductive GState | running | complete
deriving DecidableEq, Repr, Inhabited

inductive IState | pending | active | inactive | deleted
deriving DecidableEq, Repr, Inhabited

structure Job where
  batch : Nat
  id : Nat
  update : Nat
  group : Nat
  state : JState
  alwaysRun : Bool
  cores : Int
  ic : Nat
  npp : Int                 -- n_pending_parents
  cancelled : Bool
  attempt : Option Nat      -- jobs.attempt_id
deriving DecidableEq, Repr, Inhabited

structure Group where
  batch : Nat
  id : Nat
  ancestors : List Nat      -- job_group_self_and_ancestors.ancestor_id for this group (self first, root last)
  update : Option Nat
  state : GState
  nJobs : Int
  nCompleted : Int
  nSucceeded : Int
  nFailed : Int
  nCancelled : Int
deriving DecidableEq, Repr, Inhabited

structure Batch where
  id : Nat
  user : Nat
  bp : Nat                  -- billing project
  token : Nat
  state : GState
  nJobs : Int
  deleted : Bool
deriving DecidableEq, Repr, Inhabited

structure Update where
  batch : Nat
  id : Nat
  token : Nat
  startJob : Nat
  nJobs : Nat
  startGroup : Nat
  nGroups : Nat
  committed : Bool
deriving DecidableEq, Repr, Inhabited

structure Attempt where
  batch : Nat
  job : Nat
  id : Nat
  inst : Option Nat
  row : Row                 -- start_time, rollup_time, end_time, reason
deriving DecidableEq, Repr

structure AttemptRes where
  batch : Nat
  job : Nat
  attempt : Nat
  res : Nat
  qty : Int
deriving DecidableEq, Repr

structure Instance where
  name : Nat
  state : IState
  cores : Int
  free : Int
  isPool : Bool
deriving DecidableEq, Repr, Inhabited

/-- keys of the counter / aggregate tables (token shards summed) -/
inductive CKey
  -- user_inst_coll_resources (user, inst_coll)
  | uReady (u ic : Nat) | uReadyCores (u ic : Nat) | uRunning (u ic : Nat) | uRunningCores (u ic : Nat)
  | uCreating (u ic : Nat) | uCancReady (u ic : Nat) | uCancRunning (u ic : Nat) | uCancCreating (u ic : Nat)
  -- job_group_inst_coll_cancellable_resources (batch, update, group, inst_coll)
  | cReady (b u g ic : Nat) | cReadyCores (b u g ic : Nat) | cCreating (b u g ic : Nat)
  | cRunning (b u g ic : Nat) | cRunningCores (b u g ic : Nat)
  -- job_groups_inst_coll_staging (batch, update, group, inst_coll)
  | sJobs (b u g ic : Nat) | sReady (b u g ic : Nat) | sReadyCores (b u g ic : Nat)
  -- billing aggregates
  | aJob (b j r : Nat) | aGroup (b g r : Nat) | aBpUser (bp u r : Nat) | aByDate (d bp u r : Nat)
deriving DecidableEq, Repr

structure State where
  batches : List Batch := []
  updates : List Update := []
  groups : List Group := []
  cancelled : List (Nat × Nat) := []       -- job_groups_cancelled (batch, group)
  jobs : List Job := []
  parents : List (Nat × Nat × Nat) := []   -- job_parents (batch, job, parent)
  attempts : List Attempt := []
  attemptRes : List AttemptRes := []
  instances : List Instance := []
  ctr : List (CKey × Int) := []
  nextBatch : Nat := 1
deriving Repr

def init : State := {}

/-! ## counters -/

def get (m : List (CKey × Int)) (k : CKey) : Int := ((m.filter (fun e => e.1 = k)).map (·.2)).sum

def add (k : CKey) (d : Int) (m : List (CKey × Int)) : List (CKey × Int) := (k, d) :: m

def addMany (ds : List (CKey × Int)) (m : List (CKey × Int)) : List (CKey × Int) := ds ++ m

/-! ## lookups -/

def findBatch (s : State) (b : Nat) : Option Batch := s.batches.find? (·.id = b)
def findUpdate (s : State) (b u : Nat) : Option Update := s.updates.find? (fun x => x.batch = b ∧ x.id = u)
def findGroup (s : State) (b g : Nat) : Option Group := s.groups.find? (fun x => x.batch = b ∧ x.id = g)
def findJob (s : State) (b j : Nat) : Option Job := s.jobs.find? (fun x => x.batch = b ∧ x.id = j)
def findAttempt (s : State) (b j a : Nat) : Option Attempt :=
  s.attempts.find? (fun x => x.batch = b ∧ x.job = j ∧ x.id = a)
def findInstance (s : State) (n : Nat) : Option Instance := s.instances.find? (·.name = n)

def updCommitted (s : State) (b u : Nat) : Bool :=
  match findUpdate s b u with | some x => x.committed | none => false

/-- `job_group_self_and_ancestors` rows of a group -/
def ancestorsOf (s : State) (b g : Nat) : List Nat :=
  match findGroup s b g with | some x => x.ancestors | none => []

/-- `is_job_group_cancelled` -/
def groupCancelled (s : State) (b g : Nat) : Bool :=
  (ancestorsOf s b g).any (fun a => s.cancelled.contains (b, a))

/-- `is_job_cancelled` : NOT always_run AND (cancelled OR group cancelled) -/
def jobCancelled (s : State) (j : Job) : Bool :=
  !j.alwaysRun && (j.cancelled || groupCancelled s j.batch j.group)

def userOf (s : State) (b : Nat) : Nat := match findBatch s b with | some x => x.user | none => 0
def bpOf (s : State) (b : Nat) : Nat := match findBatch s b with | some x => x.bp | none => 0

/-! ## trigger `jobs_after_update` (119): deltas for one updated row -/

def b2i (b : Bool) : Int := if b then 1 else 0

def stateStr : JState → String
  | .Pending => "Pending" | .Ready => "Ready" | .Creating => "Creating" | .Running => "Running"
  | .Success => "Success" | .Failed => "Failed" | .Error => "Error" | .Cancelled => "Cancelled"

/-- trigger `jobs_after_update` for OLD = `o`, NEW = `n`.  The thirteen deltas are computed by the definition
GENERATED from the trigger's SQL text (`Generated.JobsTrigger.jobsAfterUpdate`); which row of which table
receives which delta (the two `INSERT … ON DUPLICATE KEY UPDATE`) is modelled here. -/
def jobDeltas (s : State) (o n : Job) : List (CKey × Int) :=
  let u := userOf s n.batch
  let D := Generated.JobsTrigger.jobsAfterUpdate (stateStr o.state) (stateStr n.state) (b2i o.cancelled)
    (b2i n.cancelled) (b2i o.alwaysRun) o.cores (b2i (groupCancelled s o.batch o.group))
  ((ancestorsOf s n.batch n.group).flatMap fun a =>
    [(CKey.cReady n.batch n.update a n.ic, D.delta_n_ready_cancellable_jobs),
     (CKey.cReadyCores n.batch n.update a n.ic, D.delta_ready_cancellable_cores_mcpu),
     (CKey.cCreating n.batch n.update a n.ic, D.delta_n_creating_cancellable_jobs),
     (CKey.cRunning n.batch n.update a n.ic, D.delta_n_running_cancellable_jobs),
     (CKey.cRunningCores n.batch n.update a n.ic, D.delta_running_cancellable_cores_mcpu)]) ++
  [(CKey.uReady u n.ic, D.delta_n_ready_jobs), (CKey.uRunning u n.ic, D.delta_n_running_jobs),
   (CKey.uCreating u n.ic, D.delta_n_creating_jobs),
   (CKey.uReadyCores u n.ic, D.delta_ready_cores_mcpu), (CKey.uRunningCores u n.ic, D.delta_running_cores_mcpu),
   (CKey.uCancReady u n.ic, D.delta_n_cancelled_ready_jobs), (CKey.uCancRunning u n.ic, D.delta_n_cancelled_running_jobs),
   (CKey.uCancCreating u n.ic, D.delta_n_cancelled_creating_jobs)]

/-- `UPDATE jobs SET … WHERE p`: every row with `p` becomes `f row`, firing `jobs_after_update` for it -/
def updateJobs (s : State) (p : Job → Bool) (f : Job → Job) : State :=
  let touched := s.jobs.filter p
  { s with
    jobs := s.jobs.map (fun j => if p j then f j else j)
    ctr := addMany (touched.flatMap fun j => jobDeltas s j (f j)) s.ctr }

/-! ## attempts: BEFORE UPDATE clamp (generated) and AFTER UPDATE billing (117) -/

def billed (r : Row) : Int :=
  match r.start_time, r.rollup_time with
  | some st, some ro => max (ro - st) 0
  | _, _ => 0

def jobGroupOf (s : State) (b j : Nat) : Nat := match findJob s b j with | some x => x.group | none => 0

/-- billing deltas for one attempt whose billed time changes by `diff` (trigger `attempts_after_update`) -/
def billingDeltas (s : State) (date : Nat) (b j a : Nat) (diff : Int) : List (CKey × Int) :=
  if diff = 0 then [] else
  (s.attemptRes.filter (fun r => r.batch = b ∧ r.job = j ∧ r.attempt = a)).flatMap fun r =>
    [(CKey.aBpUser (bpOf s b) (userOf s b) r.res, diff * r.qty),
     (CKey.aJob b j r.res, diff * r.qty),
     (CKey.aByDate date (bpOf s b) (userOf s b) r.res, diff * r.qty)] ++
    (ancestorsOf s b (jobGroupOf s b j)).map fun g => (CKey.aGroup b g r.res, diff * r.qty)

/-- `UPDATE attempts SET … WHERE p`: proposed row `prop old`, clamped by the BEFORE trigger, billed by the AFTER trigger -/
def updateAttempts (s : State) (date : Nat) (p : Attempt → Bool) (prop : Row → Row) : State :=
  let touched := s.attempts.filter p
  let newRow (a : Attempt) : Row := attemptsBeforeUpdate a.row (prop a.row)
  { s with
    attempts := s.attempts.map (fun a => if p a then { a with row := newRow a } else a)
    ctr := addMany (touched.flatMap fun a =>
      billingDeltas s date a.batch a.job a.id (billed (newRow a) - billed a.row)) s.ctr }

/-! ## procedure `add_attempt` (053) -/

/-- returns the new state and `delta_cores_mcpu` -/
def addAttempt (s : State) (b j : Nat) (att : Option Nat) (inst : Option Nat) (cores : Int) : State × Int :=
  match att with
  | none => (s, 0)
  | some a =>
    match findAttempt s b j a with
    | some _ => (s, 0)                                   -- ON DUPLICATE KEY UPDATE batch_id = batch_id: ROW_COUNT() = 0
    | none =>
      let live : Bool := match inst.bind (findInstance s) with
        | some i => i.state = IState.pending || i.state = IState.active
        | none => false
      ({ s with
          attempts := s.attempts ++ [Attempt.mk b j a inst (Row.mk none none none none)]
          instances := s.instances.map fun (i : Instance) =>
            if live ∧ some i.name = inst then { i with free := i.free - cores } else i }, -cores)

def instState (s : State) (inst : Option Nat) : Option IState := (inst.bind (findInstance s)).map (·.state)

def instIsPool (s : State) (inst : Option Nat) : Bool :=
  match inst.bind (findInstance s) with | some i => i.isPool | none => false

def freeAdd (s : State) (inst : Option Nat) (d : Int) : State :=
  { s with instances := s.instances.map fun (i : Instance) => if some i.name = inst then { i with free := i.free + d } else i }

/-- the foreign key `attempts.instance_name -> instances(name)`: `add_attempt` fails (and with it the whole procedure, which
the caller rolls back) when it has to INSERT an attempt row naming an instance that does not exist.  An existing attempt row
(`ON DUPLICATE KEY UPDATE`) or a NULL instance name is not checked. -/
def attemptFkFails (s : State) (b j : Nat) (att inst : Option Nat) : Bool :=
  match att, inst with
  | some a, some n => (findAttempt s b j a).isNone && (findInstance s n).isNone
  | _, _ => false

/-- the job row as seen by a procedure that calls `add_attempt`: `none` also when the attempt insert violates the foreign
key on `instances` — like a missing job row (foreign key on `jobs`), that makes the procedure fail with nothing written -/
def findJobFk (s : State) (b j : Nat) (att inst : Option Nat) : Option Job :=
  if attemptFkFails s b j att inst then none else findJob s b j

/-! ## operations -/

/-- a job as submitted in a bunch: ids relative to the update (as the client sends them) or absolute -/
structure JobSpec where
  relId : Nat                       -- job_id within the update (1-based)
  absParents : List Nat
  relParents : List Nat
  absGroup : Option Nat
  relGroup : Nat                    -- used when absGroup = none
  alwaysRun : Bool
  cores : Int
  ic : Nat
deriving Repr, DecidableEq

structure GroupSpec where
  relId : Nat
  absParent : Option Nat
  relParent : Nat
deriving Repr, DecidableEq

inductive Op
  | createBatch (user bp token : Nat)
  | createUpdate (batch token nJobs nGroups user : Nat)
  | insertGroups (batch update user : Nat) (specs : List GroupSpec)
  | insertJobs (batch update user : Nat) (specs : List JobSpec)
  | commitUpdate (batch update : Nat)
  | cancelGroup (batch group : Nat)
  | deleteBatch (batch : Nat)
  | newInstance (name : Nat) (cores : Int) (isPool : Bool)
  | activate (name : Nat)
  | deactivate (name : Nat) (reason : String) (ts : Int) (date : Nat)
  | markDeleted (name : Nat)
  | schedule (batch job attempt inst : Nat)
  | creating (batch job attempt inst : Nat) (ts : Int) (date : Nat)
  | started (batch job attempt inst : Nat) (ts : Int) (date : Nat)
  | complete (batch job : Nat) (attempt inst : Option Nat) (newState : JState) (start end_ : Option Int)
      (reason : String) (date : Nat)
  | unschedule (batch job attempt inst : Nat) (end_ : Int) (reason : String) (date : Nat)
  | addResources (batch job attempt : Nat) (res : List (Nat × Int)) (date : Nat)
  | heartbeat (atts : List (Nat × Nat × Nat)) (ts : Int) (date : Nat)
  | cleanupStaging
  | cleanupCancellable
  | compact
deriving Repr

/-- outcome of a transaction: `ok rc` (procedure return code / id) or an error class -/
inductive Out
  | ok (rc : Int)
  | err (what : String)
deriving Repr, DecidableEq

/-- `_create_batch`: idempotent on (token, user); creates the root job group (state complete, n_jobs 0) -/
def createBatch (s : State) (user bp token : Nat) : State × Out :=
  match s.batches.find? (fun b => b.token = token ∧ b.user = user) with
  | some b => (s, .ok b.id)
  | none =>
    let id := s.nextBatch
    ({ s with
        batches := s.batches ++ [Batch.mk id user bp token .complete 0 false]
        groups := s.groups ++ [Group.mk id 0 [0] none .complete 0 0 0 0 0]
        nextBatch := id + 1 }, .ok id)

/-- `… INNER JOIN batches ON … WHERE … AND batches.user = %s AND NOT deleted`: the batch exists, belongs to `user` and is not deleted -/
def ownedBy (s : State) (b user : Nat) : Bool :=
  match findBatch s b with
  | some bt => decide (bt.user = user) && !bt.deleted
  | none => false

/-- `_create_batch_update`: the token lookup (re-sent request) only succeeds for the owner of a non-deleted batch (repo commit
4c50f4344); everybody else falls through to the ownership check below and gets 404 -/
def createUpdate (s : State) (b token nJobs nGroups user : Nat) : State × Out :=
  if nJobs = 0 ∧ nGroups = 0 then (s, .err "assert") else
  match s.updates.find? (fun u => u.batch = b ∧ u.token = token ∧ ownedBy s b user) with
  | some u => (s, .ok u.id)
  | none =>
    match findBatch s b with
    | none => (s, .err "not-found")
    | some bt =>
      if bt.user ≠ user ∨ bt.deleted then (s, .err "not-found")
      else if s.cancelled.contains (b, 0) then (s, .err "cancelled")
      else
        let us := s.updates.filter (·.batch = b)
        let last := us.foldl (fun acc u => match acc with
          | none => some u
          | some m => if u.id > m.id then some u else some m) none
        let (uid, sg, sj) := match last with
          | some m => (m.id + 1, m.startGroup + m.nGroups, m.startJob + m.nJobs)
          | none => (1, 1, 1)
        ({ s with updates := s.updates ++ [Update.mk b uid token sj nJobs sg nGroups false] }, .ok uid)

/-- `hailtop.batch_client.globals.MAX_JOB_GROUPS_DEPTH` -/
def maxJobGroupsDepth : Nat := 2

/-- one `_create_job_group` inside `_create_job_groups` -/
def insertGroup (s : State) (b : Nat) (upd : Nat) (gid parent : Nat) : Option State :=
  if groupCancelled s b parent then none                      -- 'job group parent has already been cancelled'
  else if (findGroup s b gid).isSome then none                -- duplicate primary key
  else if ¬ parent < gid then none                            -- assert parent_job_group_id < job_group_id
  -- `n_rows_inserted > MAX_JOB_GROUPS_DEPTH`: the parent's ancestor rows (itself included) are copied for the new group
  else if (ancestorsOf s b parent).length > maxJobGroupsDepth then none   -- 'job group exceeded the maximum level of nesting'
  else
    let anc := ancestorsOf s b parent
    -- an unknown parent yields no ancestor rows: the group is created with only itself as ancestor
    some { s with groups := s.groups ++ [Group.mk b gid (gid :: anc) (some upd) .complete 0 0 0 0 0] }

def maxGroupId (s : State) (b : Nat) : Nat :=
  (s.groups.filter (·.batch = b)).foldl (fun m g => max m g.id) 0

/-- one spec of `_create_job_groups` applied to the transaction state so far (`none` = an error was raised) -/
def groupSpecStep (b upd : Nat) (u : Update) (acc : Option State) (sp : GroupSpec) : Option State :=
  acc.bind fun st =>
    insertGroup st b upd (u.startGroup + sp.relId - 1)
      (match sp.absParent with | some p => p | none => u.startGroup + sp.relParent - 1)

/-- `_create_job_groups`: one transaction; any failure rolls everything back -/
def insertGroups (s : State) (b upd user : Nat) (specs : List GroupSpec) : State × Out :=
  match specs with
  | [] => (s, .err "assert")
  | first :: _ =>
    match findUpdate s b upd, findBatch s b with
    | some u, some bt =>
      if bt.user ≠ user ∨ bt.deleted then (s, .err "not-found")
      else if u.committed then (s, .err "committed")
      else if u.startGroup + first.relId - 1 ≠ maxGroupId s b + 1 then (s, .err "out-of-order")
      else
        let r := specs.foldl (groupSpecStep b upd u) (some s)
        match r with
        | some s' => (s', .ok 0)
        | none => (s, .err "bad-request")
    | _, _ => (s, .err "not-found")

def mkJob (u : Update) (b : Nat) (sp : JobSpec) : Job :=
  let nParents := sp.absParents.length + sp.relParents.length
  { batch := b, id := sp.relId + u.startJob - 1, update := u.id
    group := match sp.absGroup with | some g => g | none => u.startGroup + sp.relGroup - 1
    state := if u.id = 1 ∧ nParents = 0 then .Ready else .Pending
    alwaysRun := sp.alwaysRun, cores := sp.cores, ic := sp.ic, npp := nParents, cancelled := false, attempt := none }

def jobParents (u : Update) (sp : JobSpec) : List Nat :=
  sp.absParents ++ sp.relParents.map (fun p => u.startJob + p - 1)

/-- the multi-row `INSERT INTO jobs` of `insert_jobs_into_db`: MySQL processes the rows in order and the first row that
fails decides the outcome — trigger `jobs_before_insert` (SIGNAL when the job's group is cancelled: 400), then the primary
key (ER_DUP_ENTRY is caught by `_create_jobs`: "bunch already inserted", the request answers ok and writes nothing), then
the foreign key on job_groups.  `seen` = ids of the rows of this statement processed so far. -/
def jobRowsOutcome (s : State) (b : Nat) : List Job → List Nat → Option Out
  | [], _ => none
  | j :: rest, seen =>
    if groupCancelled s b j.group then some (.err "cancelled")
    else if (findJob s b j.id).isSome ∨ seen.contains j.id then some (.ok 0)
    else if (findGroup s b j.group).isNone then some (.err "fk")
    else jobRowsOutcome s b rest (j.id :: seen)

/-- the id checks `_create_jobs` makes on every spec of the bunch before anything is built or written (400 otherwise):
the in-update job id lies in `[1, n_jobs]` of the update; every in-update parent id lies in `[1, in-update job id)`;
every absolute parent id lies in `[1, absolute job id)`.  Only ids are checked, not rows: the parent may belong to a
bunch (or an earlier update) that has not been inserted yet. -/
def specIdsOk (u : Update) (sp : JobSpec) : Bool :=
  decide (1 ≤ sp.relId ∧ sp.relId ≤ u.nJobs) &&
  sp.relParents.all (fun p => decide (1 ≤ p ∧ p < sp.relId)) &&
  sp.absParents.all (fun p => decide (1 ≤ p ∧ p < u.startJob + sp.relId - 1))

/-- the checks of `_create_jobs`: `some out` = the transaction answers `out` and changes nothing
(`first` is kept for the callers; the outcome no longer depends on it separately) -/
def insertJobsReject (s : State) (b user : Nat) (u : Update) (bt : Batch) (_first : JobSpec) (specs : List JobSpec) :
    Option Out :=
  let js := specs.map (mkJob u b)
  if bt.user ≠ user ∨ bt.deleted then some (.err "not-found")
  else if u.committed then some (.err "committed")
  else if specs.any (fun sp => !specIdsOk u sp) then some (.err "bad-ids")
  else match jobRowsOutcome s b js [] with
    | some o => some o
    -- `INSERT INTO job_parents`: a repeated (job, parent) pair is a duplicate key -> 400
    | none => if specs.any (fun sp => ¬ (jobParents u sp).Nodup) then some (.err "dup-parents") else none

/-- rows written by an accepted bunch: jobs, job_parents, staging and cancellable rows for every ancestor of the
job's group -/
def insertJobsApply (s : State) (b upd : Nat) (u : Update) (specs : List JobSpec) : State :=
  let js := specs.map (mkJob u b)
  let pars := specs.flatMap fun sp => (jobParents u sp).map fun p => (b, sp.relId + u.startJob - 1, p)
  let deltas := js.flatMap fun j =>
    let ready := j.state = .Ready
    (ancestorsOf s b j.group).flatMap fun a =>
      [(CKey.sJobs b upd a j.ic, 1), (CKey.sReady b upd a j.ic, b2i ready),
       (CKey.sReadyCores b upd a j.ic, b2i ready * j.cores),
       (CKey.cReady b upd a j.ic, b2i (ready && !j.alwaysRun)),
       (CKey.cReadyCores b upd a j.ic, b2i (ready && !j.alwaysRun) * j.cores)]
  { s with jobs := s.jobs ++ js, parents := s.parents ++ pars, ctr := addMany deltas s.ctr }

/-- `_create_jobs` (DB part) -/
def insertJobs (s : State) (b upd user : Nat) (specs : List JobSpec) : State × Out :=
  match specs with
  | [] => (s, .err "assert")
  | first :: _ =>
    match findUpdate s b upd, findBatch s b with
    | some u, some bt =>
      match insertJobsReject s b user u bt first specs with
      | some o => (s, o)
      | none => (insertJobsApply s b upd u specs, .ok 0)
    | _, _ => (s, .err "not-found")

def isRunnable (st : JState) : Bool := st = .Pending ∨ st = .Ready ∨ st = .Creating ∨ st = .Running

/-- procedure `commit_batch_update` -/
def commitUpdate (s : State) (b upd : Nat) : State × Out :=
  match findUpdate s b upd with
  | none => (s, .ok 1)            -- cur_update_committed NULL, expected NULL: `staging = NULL` is not true -> rc 1
  | some u =>
    if u.committed then (s, .ok 0) else
    let ics := (s.ctr.filterMap fun e => match e.1 with
      | .sJobs b' u' g' ic => if b' = b ∧ u' = upd ∧ g' = 0 then some ic else none
      | _ => none).eraseDups
    let staged : Int := (ics.map fun ic => get s.ctr (.sJobs b upd 0 ic)).sum
    if staged ≠ (u.nJobs : Int) then (s, .ok 1) else
    let s1 := { s with updates := s.updates.map fun (x : Update) =>
      if x.batch = b ∧ x.id = upd then { x with committed := true } else x }
    if u.nJobs = 0 then (s1, .ok 0) else
    let s2 := { s1 with batches := s1.batches.map fun (x : Batch) =>
      if x.id = b then { x with state := .running, nJobs := x.nJobs + u.nJobs } else x }
    -- job_groups: every group with a staging row of this update
    let gsum (g : Nat) : Int :=
      ((s.ctr.filter fun e => match e.1 with
        | .sJobs b' u' g' _ => b' = b ∧ u' = upd ∧ g' = g | _ => false).map (·.2)).sum
    let hasRow (g : Nat) : Bool :=
      s.ctr.any fun e => match e.1 with | .sJobs b' u' g' _ => b' = b ∧ u' = upd ∧ g' = g | _ => false
    let s3 := { s2 with groups := s2.groups.map fun (g : Group) =>
      if g.batch = b ∧ hasRow g.id then
        { g with state := if gsum g.id > 0 then .running else g.state, nJobs := g.nJobs + gsum g.id }
      else g }
    let user := userOf s b
    let s4 := { s3 with ctr := addMany (ics.flatMap fun ic =>
      [(CKey.uReady user ic, get s.ctr (.sReady b upd 0 ic)),
       (CKey.uReadyCores user ic, get s.ctr (.sReadyCores b upd 0 ic))]) s3.ctr }
    if upd = 1 then (s4, .ok 0) else
    -- recompute state / n_pending_parents / cancelled of every job of the update from its parents
    let inRange (j : Job) : Bool := j.batch = b ∧ u.startJob ≤ j.id ∧ j.id < u.startJob + u.nJobs
    let recompute (j : Job) : Job :=
      let ps := (s4.parents.filter fun p => p.1 = b ∧ p.2.1 = j.id).map (·.2.2)
      let pstates := ps.map fun p => (findJob s4 b p).map (·.state)
      let nParents : Int := ps.length
      -- SUM(state IN (…)) ignores NULL states of parents that do not exist
      let nPending : Int := (pstates.filter fun st => match st with | some x => isRunnable x | none => false).length
      let nSucceeded : Int := (pstates.filter fun st => st = some .Success).length
      { j with
        state := if nPending = 0 then .Ready else .Pending
        npp := nPending
        cancelled := if nSucceeded = nParents - nPending then j.cancelled else true }
    (updateJobs s4 inRange recompute, .ok 0)

/-- the existence check of `cancel_job_group_in_db`: the batch is not deleted and the group is the root or belongs
to a committed update -/
def cancelVisible (s : State) (b g : Nat) : Bool :=
  match findGroup s b g, findBatch s b with
  | some grp, some bt =>
    !bt.deleted && (g = 0 || (match grp.update with | some u => updCommitted s b u | none => false))
  | _, _ => false

/-- all (update, inst_coll) pairs that have cancellable rows for group `g` -/
def cancellableRows (s : State) (b g : Nat) : List (Nat × Nat) :=
  (s.ctr.filterMap fun e => match e.1 with
    | .cReady b' u g' ic | .cReadyCores b' u g' ic | .cCreating b' u g' ic | .cRunning b' u g' ic
    | .cRunningCores b' u g' ic => if b' = b ∧ g' = g then some (u, ic) else none
    | _ => none).eraseDups

/-- the two `INSERT … ON DUPLICATE KEY UPDATE` statements of procedure `cancel_job_group` -/
def cancelDeltas (s : State) (b g : Nat) : List (CKey × Int) :=
  let user := userOf s b
  let rows := cancellableRows s b g
  -- user counters: cancellable rows of committed updates move from ready/running/creating to cancelled_*
  let userDeltas := (rows.filter fun r => updCommitted s b r.1).flatMap fun (u, ic) =>
    let nr := get s.ctr (.cReady b u g ic);      let rc := get s.ctr (.cReadyCores b u g ic)
    let nrun := get s.ctr (.cRunning b u g ic);  let runc := get s.ctr (.cRunningCores b u g ic)
    let ncr := get s.ctr (.cCreating b u g ic)
    [(CKey.uReady user ic, -nr), (CKey.uReadyCores user ic, -rc), (CKey.uRunning user ic, -nrun),
     (CKey.uRunningCores user ic, -runc), (CKey.uCreating user ic, -ncr),
     (CKey.uCancReady user ic, nr), (CKey.uCancRunning user ic, nrun), (CKey.uCancCreating user ic, ncr)]
  -- subtract this group's cancellable rows (all updates) from itself and from every ancestor
  let groupDeltas := (ancestorsOf s b g).flatMap fun a => rows.flatMap fun (u, ic) =>
    [(CKey.cReady b u a ic, - get s.ctr (.cReady b u g ic)),
     (CKey.cReadyCores b u a ic, - get s.ctr (.cReadyCores b u g ic)),
     (CKey.cCreating b u a ic, - get s.ctr (.cCreating b u g ic)),
     (CKey.cRunning b u a ic, - get s.ctr (.cRunning b u g ic)),
     (CKey.cRunningCores b u a ic, - get s.ctr (.cRunningCores b u g ic))]
  userDeltas ++ groupDeltas

/-- procedure `cancel_job_group` once the group is known not to be cancelled yet -/
def cancelApply (s : State) (b g : Nat) : State :=
  { s with ctr := addMany (cancelDeltas s b g) s.ctr, cancelled := s.cancelled ++ [(b, g)] }

/-- `cancel_job_group_in_db` + procedure `cancel_job_group` -/
def cancelGroup (s : State) (b g : Nat) : State × Out :=
  if cancelVisible s b g = false then (s, .err "not-found")
  else if groupCancelled s b g then (s, .ok 0)
  else (cancelApply s b g, .ok 0)

/-- `_delete_batch`: `CALL cancel_job_group(b, 0)` directly (no visibility check), then `deleted = 1` -/
def deleteBatch (s : State) (b : Nat) : State × Out :=
  match findBatch s b with
  | none => (s, .err "not-found")
  | some bt =>
    if bt.deleted then (s, .err "not-found") else
    let s1 := if groupCancelled s b 0 then s else cancelApply s b 0
    ({ s1 with batches := s1.batches.map fun (x : Batch) => if x.id = b then { x with deleted := true } else x }, .ok 0)

def newInstance (s : State) (name : Nat) (cores : Int) (isPool : Bool) : State × Out :=
  if (findInstance s name).isSome then (s, .err "dup")
  else ({ s with instances := s.instances ++ [Instance.mk name .pending cores cores isPool] }, .ok 0)

def setInstState (s : State) (name : Nat) (st : IState) : State :=
  { s with instances := s.instances.map fun (i : Instance) => if i.name = name then { i with state := st } else i }

def activate (s : State) (name : Nat) : State × Out :=
  match findInstance s name with
  | some i => if i.state = .pending then (setInstState s name .active, .ok 0) else (s, .ok 1)
  | none => (s, .ok 1)

def markDeleted (s : State) (name : Nat) : State × Out :=
  match findInstance s name with
  | some i => if i.state = .inactive then (setInstState s name .deleted, .ok 0) else (s, .ok 1)
  | none => (s, .ok 1)

/-! The driver-side procedures are written as named stages (`…Prep`, `…Jobs`) followed by one guard, so that each
procedure reads as: side effects on attempts / free cores, then `IF guard THEN UPDATE jobs …`. -/

def setStateAttempt (st : JState) (a : Option Nat) (x : Job) : Job := { x with state := st, attempt := a }

def isJob (b j : Nat) (x : Job) : Bool := x.batch = b ∧ x.id = j

/-- `UPDATE attempts SET rollup_time = ts, end_time = ts, reason = r WHERE p` -/
def endAttempts (s : State) (date : Nat) (p : Attempt → Bool) (ts : Int) (reason : String) : State :=
  updateAttempts s date p (fun r => { r with rollup_time := some ts, end_time := some ts, reason := some reason })

/-- jobs whose current attempt runs on instance `name` and that are Running or Creating -/
def onInstance (s : State) (name : Nat) (j : Job) : Bool :=
  (decide (j.state = .Running) || decide (j.state = .Creating)) &&
  (match j.attempt with
   | some a => (match findAttempt s j.batch j.id a with | some at' => decide (at'.inst = some name) | none => false)
   | none => false)

def deactivateApply (s : State) (name : Nat) (reason : String) (ts : Int) (date : Nat) : State :=
  let s1 := endAttempts s date (fun a => a.inst = some name) ts reason
  let s2 := updateJobs s1 (onInstance s1 name) (setStateAttempt .Ready none)
  { s2 with instances := s2.instances.map fun (x : Instance) =>
      if x.name = name then { x with state := .inactive, free := x.cores } else x }

/-- procedure `deactivate_instance` -/
def deactivate (s : State) (name : Nat) (reason : String) (ts : Int) (date : Nat) : State × Out :=
  match findInstance s name with
  | none => (s, .ok 1)
  | some i =>
    if i.state ≠ .pending ∧ i.state ≠ .active then (s, .ok 1)        -- ROLLBACK
    else (deactivateApply s name reason ts date, .ok 0)

def schedulePrep (s : State) (b j a inst : Nat) (job : Job) : State :=
  (addAttempt s b j (some a) (some inst) job.cores).1

/-- procedure `schedule_job` -/
def schedule (s : State) (b j a inst : Nat) : State × Out :=
  match findJobFk s b j (some a) (some inst) with
  | none =>
    -- no job row / unknown instance: `add_attempt`'s INSERT violates a foreign key of `attempts`; the call fails, nothing is written
    (s, .err "no-job")
  | some job =>
    if (job.state = .Ready ∨ job.state = .Creating) ∧ jobCancelled s job = false ∧
        instState (schedulePrep s b j a inst job) (some inst) = some .active then
      (updateJobs (schedulePrep s b j a inst job) (isJob b j) (setStateAttempt .Running (some a)), .ok 0)
    else (schedulePrep s b j a inst job, .ok 1)

def startPrep (s : State) (b j a inst : Nat) (ts : Int) (date : Nat) (job : Job) : State :=
  updateAttempts (addAttempt s b j (some a) (some inst) job.cores).1 date
    (fun x => x.batch = b ∧ x.job = j ∧ x.id = a)
    (fun r => { r with start_time := some ts, rollup_time := some ts })

/-- procedures `mark_job_creating` / `mark_job_started` differ only in the instance state they require and the new state -/
def startLike (s : State) (b j a inst : Nat) (ts : Int) (date : Nat) (need : IState) (newState : JState) : State × Out :=
  match findJobFk s b j (some a) (some inst) with
  | none => (s, .err "no-job")
  | some job =>
    if job.state = .Ready ∧ jobCancelled s job = false ∧
        instState (startPrep s b j a inst ts date job) (some inst) = some need then
      (updateJobs (startPrep s b j a inst ts date job) (isJob b j) (setStateAttempt newState (some a)), .ok 0)
    else (startPrep s b j a inst ts date job, .ok 0)

def creating (s : State) (b j a inst : Nat) (ts : Int) (date : Nat) := startLike s b j a inst ts date .pending .Creating
def started (s : State) (b j a inst : Nat) (ts : Int) (date : Nat) := startLike s b j a inst ts date .active .Running

/-- procedure `mark_job_group_complete`: for the job's group and every ancestor -/
def markGroupsComplete (s : State) (b g : Nat) : State :=
  { s with groups := s.groups.map fun (x : Group) =>
      if x.batch = b ∧ (ancestorsOf s b g).contains x.id ∧ x.nCompleted = x.nJobs then { x with state := .complete } else x }

/-- attempt bookkeeping of `mark_job_complete`: add_attempt, the UPDATE of the attempt row, release of the cores -/
def completePrep (s : State) (b j : Nat) (att inst : Option Nat) (start end_ : Option Int) (reason : String)
    (date : Nat) (job : Job) : State :=
  let s1 := (addAttempt s b j att inst job.cores).1
  let curEnd : Option Int := match att with
    | some a => (findAttempt s1 b j a).bind (·.row.end_time)
    | none => none
  let s2 := match att with
    | some a => updateAttempts s1 date (fun x => x.batch = b ∧ x.job = j ∧ x.id = a) (fun _ => ⟨start, end_, end_, some reason⟩)
    | none => s1
  if instState s2 inst = some .active ∧ curEnd = none then freeAdd s2 inst job.cores else s2

def tally (newState : JState) (x : Group) : Group :=
  { x with nCompleted := x.nCompleted + 1
           nCancelled := x.nCancelled + b2i (newState = .Cancelled)
           nFailed := x.nFailed + b2i (newState = .Error ∨ newState = .Failed)
           nSucceeded := x.nSucceeded + b2i (newState ≠ .Cancelled ∧ newState ≠ .Error ∧ newState ≠ .Failed) }

/-- `UPDATE job_groups_n_jobs_in_complete_states … ` for the job's group and every ancestor -/
def tallyGroups (s : State) (b g : Nat) (newState : JState) : State :=
  { s with groups := s.groups.map fun (x : Group) =>
      if x.batch = b ∧ (ancestorsOf s b g).contains x.id then tally newState x else x }

def batchNJobs (s : State) (b : Nat) : Int := match findBatch s b with | some x => x.nJobs | none => 0
def rootCompleted (s : State) (b : Nat) : Int := match findGroup s b 0 with | some r => r.nCompleted | none => 0

/-- `IF cur_batch_n_completed = total_jobs_in_batch THEN UPDATE batches SET state = 'complete'` -/
def completeBatchIfDone (s : State) (b : Nat) : State :=
  { s with batches := s.batches.map fun (x : Batch) =>
      if x.id = b ∧ rootCompleted s b = batchNJobs s b then { x with state := .complete } else x }

/-- the job row, the tallies of its group and ancestors, batch and group completion -/
def completeJob (s : State) (b j : Nat) (att : Option Nat) (newState : JState) (job : Job) : State :=
  markGroupsComplete
    (completeBatchIfDone (tallyGroups (updateJobs s (isJob b j) (setStateAttempt newState att)) b job.group newState) b)
    b job.group

def childUpdate (newState : JState) (x : Job) : Job :=
  { x with state := if x.npp = 1 then .Ready else .Pending
           npp := x.npp - 1
           cancelled := if newState = .Success then x.cancelled else true }

/-- children of `j`: one row per (child, parent) pair in `job_parents` -/
def isChildOf (s : State) (b j : Nat) (x : Job) : Bool := x.batch = b ∧ s.parents.contains (b, x.id, j)

/-- procedure `mark_job_complete` -/
def complete (s : State) (b j : Nat) (att inst : Option Nat) (newState : JState) (start end_ : Option Int)
    (reason : String) (date : Nat) : State × Out :=
  match findJobFk s b j att inst with
  | none =>
    -- no job row (or a new attempt naming an unknown instance): with an attempt id `add_attempt` violates a foreign key of
    -- `attempts` (error); without one (the
    -- canceller's form) nothing is written, every `cur_*` stays NULL and the last ELSE branch answers rc 1
    (s, if att.isNone then .ok 1 else .err "no-job")
  | some job =>
    -- `expected_attempt_id IS NOT NULL AND expected_attempt_id != in_attempt_id`: NULL (not taken) when in_attempt_id is NULL
    if job.attempt.isSome ∧ att.isSome ∧ job.attempt ≠ att then (completePrep s b j att inst start end_ reason date job, .ok 2)
    else if job.state = .Ready ∨ job.state = .Creating ∨ job.state = .Running then
      (updateJobs (completeJob (completePrep s b j att inst start end_ reason date job) b j att newState job)
        (isChildOf s b j) (childUpdate newState), .ok 0)
    else if job.state.terminal then (completePrep s b j att inst start end_ reason date job, .ok 0)
    else (completePrep s b j att inst start end_ reason date job, .ok 1)

def unschedulePrep (s : State) (b j a inst : Nat) (end_ : Int) (reason : String) (date : Nat) (job : Job) : State :=
  let s1 := endAttempts s date (fun x => x.batch = b ∧ x.job = j ∧ x.id = a) end_ reason
  -- `cur_end_time IS NULL` also holds when the attempt row does not exist
  if instState s1 (some inst) = some .active ∧ (findAttempt s b j a).bind (·.row.end_time) = none
  then freeAdd s1 (some inst) job.cores else s1

/-- procedure `unschedule_job` -/
def unschedule (s : State) (b j a inst : Nat) (end_ : Int) (reason : String) (date : Nat) : State × Out :=
  match findJob s b j with
  | none =>
    -- no job row (hence no attempt row): `cur_cores_mcpu` is NULL; on an active instance the release
    -- `free_cores_mcpu + NULL` violates NOT NULL (error), otherwise nothing is written and the ELSE branch answers rc 1
    (s, if instState s (some inst) = some .active then .err "no-job" else .ok 1)
  | some job =>
    if (job.state = .Creating ∨ job.state = .Running) ∧ job.attempt = some a then
      (updateJobs (unschedulePrep s b j a inst end_ reason date job) (isJob b j) (setStateAttempt .Ready none), .ok 0)
    else (unschedulePrep s b j a inst end_ reason date job, .ok 1)

/-- `add_attempt_resources` + trigger `attempt_resources_after_insert`: duplicates are no-ops (`quantity = quantity`) -/
def addResources (s : State) (b j a : Nat) (res : List (Nat × Int)) (date : Nat) : State × Out :=
  if (findAttempt s b j a).isNone then (s, .err "fk") else
  -- `_resources[resource['name']] += resource['quantity']`: a resource named several times in one message is added up
  let summed := res.foldl (fun acc r =>
    if acc.any (·.1 = r.1) then acc.map (fun x => if x.1 = r.1 then (x.1, x.2 + r.2) else x) else acc ++ [r]) []
  let fresh := (summed.filter fun r => !(s.attemptRes.any fun x => x.batch = b ∧ x.job = j ∧ x.attempt = a ∧ x.res = r.1))
  let bl := match findAttempt s b j a with | some at' => billed at'.row | none => 0
  let deltas := if bl = 0 then [] else fresh.flatMap fun r =>
    [(CKey.aBpUser (bpOf s b) (userOf s b) r.1, r.2 * bl), (CKey.aJob b j r.1, r.2 * bl),
     (CKey.aByDate date (bpOf s b) (userOf s b) r.1, r.2 * bl)] ++
    (ancestorsOf s b (jobGroupOf s b j)).map fun g => (CKey.aGroup b g r.1, r.2 * bl)
  ({ s with attemptRes := s.attemptRes ++ fresh.map (fun r => AttemptRes.mk b j a r.1 r.2), ctr := addMany deltas s.ctr }, .ok 0)

/-- `billing_update_1`: `UPDATE attempts SET rollup_time = ts WHERE (b, j, a) IN …` -/
def heartbeat (s : State) (atts : List (Nat × Nat × Nat)) (ts : Int) (date : Nat) : State × Out :=
  (updateAttempts s date (fun x => atts.contains (x.batch, x.job, x.id)) (fun r => { r with rollup_time := some ts }), .ok 0)

/-- background loop: staging rows of committed updates are deleted -/
def cleanupStaging (s : State) : State × Out :=
  ({ s with ctr := s.ctr.filter fun e => match e.1 with
      | .sJobs b u _ _ | .sReady b u _ _ | .sReadyCores b u _ _ => !updCommitted s b u
      | _ => true }, .ok 0)

/-- background loop: cancellable rows of cancelled groups are deleted -/
def cleanupCancellable (s : State) : State × Out :=
  ({ s with ctr := s.ctr.filter fun e => match e.1 with
      | .cReady b _ g _ | .cReadyCores b _ g _ | .cCreating b _ g _ | .cRunning b _ g _ | .cRunningCores b _ g _ =>
        !groupCancelled s b g
      | _ => true }, .ok 0)

/-- compaction of any sharded table: entries of one key are replaced by a single entry holding their sum -/
def compact (s : State) : State × Out :=
  let keys := (s.ctr.map (·.1)).eraseDups
  ({ s with ctr := keys.map fun k => (k, get s.ctr k) }, .ok 0)

def step (s : State) : Op → State × Out
  | .createBatch u bp t => createBatch s u bp t
  | .createUpdate b t nj ng u => createUpdate s b t nj ng u
  | .insertGroups b u usr specs => insertGroups s b u usr specs
  | .insertJobs b u usr specs => insertJobs s b u usr specs
  | .commitUpdate b u => commitUpdate s b u
  | .cancelGroup b g => cancelGroup s b g
  | .deleteBatch b => deleteBatch s b
  | .newInstance n c p => newInstance s n c p
  | .activate n => activate s n
  | .deactivate n r ts d => deactivate s n r ts d
  | .markDeleted n => markDeleted s n
  | .schedule b j a i => schedule s b j a i
  | .creating b j a i ts d => creating s b j a i ts d
  | .started b j a i ts d => started s b j a i ts d
  | .complete b j a i st st' e r d => complete s b j a i st st' e r d
  | .unschedule b j a i e r d => unschedule s b j a i e r d
  | .addResources b j a res d => addResources s b j a res d
  | .heartbeat atts ts d => heartbeat s atts ts d
  | .cleanupStaging => cleanupStaging s
  | .cleanupCancellable => cleanupCancellable s
  | .compact => compact s

def run (ops : List Op) : State := ops.foldl (fun s op => (step s op).1) init

end HailVerif.BatchDB

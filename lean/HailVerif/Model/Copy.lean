/-
Model of the copy tool (C22): `hailtop/aiotools/fs/copier.py` (`Transfer`, `SourceCopier`, `Copier`) over a local
file system (`hailtop/aiotools/local_fs.py`, reached through `hailtop/aiotools/router_fs.py`).

Part A — the multi-part arithmetic of `SourceCopier._copy_file_multi_part_main` and `_copy_part`.
Part B — the destination rules as a pure function on a file tree (`copySpec`), for transfers whose sources and
destinations do not overlap (the tool copies concurrently; the model copies one file after the other).
-/
namespace HailVerif.Copy

/-! ## A. Part plan -/

/-- `n_parts, rem = divmod(size, part_size); if rem: n_parts += 1` -/
def nParts (size part : Nat) : Nat := size / part + (if size % part = 0 then 0 else 1)

/-- `this_part_size = rem if i == n_parts - 1 and rem else part_size` -/
def thisPartSize (size part i : Nat) : Nat :=
  if i = nParts size part - 1 ∧ size % part ≠ 0 then size % part else part

/-- the loop of `_copy_part`:
```
n = this_part_size
while n > 0:
    bytes_to_write = min(Copier.BUFFER_SIZE, n)
    open_from(srcfile, part_number * part_size + (this_part_size - n), length=bytes_to_write) … readexactly(bytes_to_write)
    n -= bytes_to_write
```
as the list of `(offset, length)` ranged reads; `fuel = this_part_size` iterations suffice when `buf ≥ 1`. -/
def readsLoop (buf base thisSize : Nat) : Nat → Nat → List (Nat × Nat)
  | 0, _ => []
  | fuel + 1, n =>
    if n = 0 then []
    else (base + (thisSize - n), min buf n) :: readsLoop buf base thisSize fuel (n - min buf n)

structure Part where
  /-- `create_part(number, start, size_hint=size)` -/
  number : Nat
  start : Nat
  size : Nat
  reads : List (Nat × Nat)
  deriving DecidableEq, Repr

/-- `none`: `size <= part_size`, the file is streamed by `_copy_file`; otherwise the parts `0 … n_parts-1`. -/
def partPlan (size part buf : Nat) : Option (List Part) :=
  if size ≤ part then none
  else some ((List.range (nParts size part)).map fun i =>
    let ts := thisPartSize size part i
    { number := i, start := i * part, size := ts, reads := readsLoop buf (i * part) ts ts ts })

/-! ## B. Destination rules -/

abbrev Path := List String

inductive Node where
  | file (content : List Nat)
  | dir
  deriving DecidableEq, Repr

inductive Kind where
  | file | dir
  deriving DecidableEq, Repr

/-- a file tree: `get []` is the root directory; `dom` lists every path that may be present (used only to enumerate) -/
structure Tree where
  get : Path → Option Node
  dom : List Path

def Node.kind : Node → Kind
  | .file _ => .file
  | .dir => .dir

/-- the exceptions the tool documents -/
inductive Err where
  /-- FileNotFoundError: missing source -/
  | notFound
  /-- IsADirectoryError: file onto directory -/
  | isADir
  /-- NotADirectoryError: directory onto file -/
  | notADir
  /-- FileAndDirectoryError: source is both (cannot happen on a local file system) -/
  | fileAndDir
  deriving DecidableEq, Repr

/-- `q` is a non-root proper ancestor of `p` -/
def isAncestor (q p : Path) : Bool := q ≠ [] && q.length < p.length && p.take q.length == q

def isFile : Option Node → Bool
  | some (.file _) => true
  | _ => false

/-- `create(p)` = `open(p, 'wb')`, falling back to `makedirs(dirname(p), exist_ok=True)` on FileNotFoundError, then the
content is written (`_copy_file`, or `multi_part_create` + parts).  The OS answers ENOTDIR when an ancestor is a file and
EISDIR when `p` is a directory. -/
def writeFile (t : Tree) (p : Path) (c : List Nat) : Except Err Tree :=
  if (List.range p.length).any (fun k => 0 < k && isFile (t.get (p.take k))) then .error .notADir
  else if p = [] ∨ t.get p = some .dir then .error .isADir
  else .ok {
    get := fun q => if q = p then some (.file c) else if isAncestor q p && (t.get q).isNone then some .dir else t.get q
    dom := p :: ((List.range p.length).map fun k => p.take k) ++ t.dom }

/-- `listfiles(src + '/', recursive=True)`: the files below directory `p`, as (relative path, content) -/
def filesUnder (t : Tree) (p : Path) : List (Path × List Nat) :=
  t.dom.filterMap fun q =>
    if p.length < q.length ∧ q.take p.length = p then
      match t.get q with
      | some (.file c) => some (q.drop p.length, c)
      | _ => none
    else none

/-! ### URLs: `hailtop.utils.url_basename` / `url_join` (built on `urllib.parse.urlparse`) and `LocalAsyncFS._get_path` -/

abbrev Str := List Char

/-- the components of a local path -/
def comps (s : Str) : Path :=
  let rec go : Str → Str → List String
    | [], cur => if cur = [] then [] else [String.ofList cur.reverse]
    | c :: r, cur => if c = '/' then (if cur = [] then go r [] else String.ofList cur.reverse :: go r []) else go r (c :: cur)
  go s []

def stripPrefix? : Str → Str → Option Str
  | [], s => some s
  | _ :: _, [] => none
  | a :: p, b :: s => if a = b then stripPrefix? p s else none

/-- `file://localhost`, `file://` or nothing, and the rest -/
def stripFilePrefix (s : Str) : Str × Str :=
  match stripPrefix? ['f', 'i', 'l', 'e', ':', '/', '/', 'l', 'o', 'c', 'a', 'l', 'h', 'o', 's', 't'] s with
  | some r => (['f', 'i', 'l', 'e', ':', '/', '/', 'l', 'o', 'c', 'a', 'l', 'h', 'o', 's', 't'], r)
  | none =>
    match stripPrefix? ['f', 'i', 'l', 'e', ':', '/', '/'] s with
    | some r => (['f', 'i', 'l', 'e', ':', '/', '/'], r)
    | none => ([], s)

/-- `LocalAsyncFS._get_path`: the URL with the `file://[localhost]` prefix sliced off — nothing else is interpreted -/
def getPath (url : Str) : Str := (stripFilePrefix url).2

/-- cut at the first occurrence of `c`: (before, after) -/
def cutAt (c : Char) (s : Str) : Str × Str := (s.takeWhile (· ≠ c), (s.dropWhile (· ≠ c)).drop 1)

structure Parsed where
  /-- scheme and netloc: `file://[localhost]` or empty -/
  pre : Str
  path : Str
  params : Str
  query : Str
  frag : Str
  deriving DecidableEq, Repr

/-- `urllib.parse.urlparse` on a local path or `file://` URL: the fragment starts at the first `#`, the query at the first `?`
before it, the params (for a plain path, not for a `file://` URL) at the first `;` of the last path segment — also when these
characters are simply part of a file name -/
def urlparse (s : Str) : Parsed :=
  let sp := stripFilePrefix s
  let f := cutAt '#' sp.2
  let q := cutAt '?' f.1
  let dirPart := (q.1.reverse.dropWhile (· ≠ '/')).reverse
  let lastSeg := (q.1.reverse.takeWhile (· ≠ '/')).reverse
  -- `if scheme in uses_params and ';' in url`: the empty scheme has params, `file` has not
  let pr := if sp.1 = [] then cutAt ';' lastSeg else (lastSeg, [])
  ⟨sp.1, dirPart ++ pr.1, pr.2, q.2, f.2⟩

/-- `urllib.parse.urlunparse` (empty params / query / fragment are dropped) -/
def urlunparse (p : Parsed) : Str :=
  p.pre ++ p.path ++ (if p.params = [] then [] else ';' :: p.params) ++ (if p.query = [] then [] else '?' :: p.query) ++
    (if p.frag = [] then [] else '#' :: p.frag)

def osBasename (p : Str) : Str := (p.reverse.takeWhile (· ≠ '/')).reverse

/-- `os.path.join(a, b)` -/
def osJoin (a b : Str) : Str :=
  if b.head? = some '/' then b else if a = [] ∨ a.getLast? = some '/' then a ++ b else a ++ ['/'] ++ b

/-- `url_basename(url) = os.path.basename(urlparse(url).path)` -/
def urlBasename (url : Str) : Str := osBasename (urlparse url).path

/-- `url_join(url, path) = urlunparse(parsed._replace(path=os.path.join(parsed.path, path)))` -/
def urlJoin (url path : Str) : Str :=
  let p := urlparse url
  urlunparse { p with path := osJoin p.path path }

def rstripSlash (s : Str) : Str := (s.reverse.dropWhile (· = '/')).reverse

/-- a location as the user wrote it (relative to the scratch root): `/s/a/x.txt`, `/d/`, `file:///s/a`, … -/
structure Loc where
  raw : Str
  deriving DecidableEq, Repr

/-- what the file system operations see: `_get_path(raw)`, split into components -/
def Loc.path (l : Loc) : Path := comps (getPath l.raw)

def Loc.slash (l : Loc) : Bool := l.raw.getLast? = some '/'

inductive Mode where
  | destDir | destIsTarget | inferDest
  deriving DecidableEq, Repr

structure Transfer where
  srcs : List Loc
  /-- `src` was given as a `str` (not a list) -/
  single : Bool
  dest : Loc
  mode : Mode
  deriving Repr

/-- `Transfer.__init__`: `if treat_dest_as == INFER_DEST and dest.endswith('/'): treat_dest_as = DEST_DIR` -/
def effMode (x : Transfer) : Mode :=
  if x.mode = .inferDest ∧ x.dest.slash then .destDir else x.mode

/-- `Copier._dest_type` (only used for INFER_DEST): a list of sources makes `dest` a directory, else `staturl(dest)` -/
def destType (t : Tree) (x : Transfer) : Option Kind :=
  if ¬ x.single then some .dir else (t.get x.dest.path).map Node.kind

/-- `SourceCopier._full_dest`, as the string the copier computes:
`url_join(self.dest, url_basename(self.src.rstrip('/')))` when copying into a directory, else `self.dest` -/
def fullDestStr (t : Tree) (x : Transfer) (src : Loc) : Str × Option Kind :=
  let m := effMode x
  let dt := if m = .inferDest then destType t x else none
  if m = .destDir ∨ (m = .inferDest ∧ dt = some .dir) then
    (urlJoin x.dest.raw (urlBasename (rstripSlash src.raw)), none)
  else if m = .destIsTarget ∧ x.dest.slash then (x.dest.raw, some .dir)
  else (x.dest.raw, dt)

/-- where a file source is written: `_get_path` of the full destination -/
def fullDest (t : Tree) (x : Transfer) (src : Loc) : Path × Option Kind :=
  let fd := fullDestStr t x src
  (comps (getPath fd.1), fd.2)

/-- where the file at relative path `rel` below a directory source is written: `url_join(full_dest, relsrcfile)` -/
def fileDest (t : Tree) (x : Transfer) (src : Loc) (rel : Path) : Path :=
  comps (getPath (urlJoin (fullDestStr t x src).1 (List.intercalate ['/'] (rel.map String.toList))))

/-- `staturl(dest)` inside `Copier._dest_type` (INFER_DEST, one source, no trailing slash) catches only FileNotFoundError:
when an ancestor of `dest` is a regular file the OS answers ENOTDIR and NotADirectoryError escapes from `_full_dest` -/
def destStatFails (t : Tree) (x : Transfer) : Bool :=
  effMode x = .inferDest && x.single &&
    (List.range x.dest.path.length).any (fun k => 0 < k && isFile (t.get (x.dest.path.take k)))

/-- write every listed file at the destination `dest` assigns to its relative path -/
def writeAll (t : Tree) (dest : Path → Path) (fs : List (Path × List Nat)) : Except Err Tree :=
  fs.foldlM (fun t f => writeFile t (dest f.1) f.2) t

/-- `SourceCopier.copy`: `copy_as_file` and `copy_as_dir` for one source -/
def copySource (t : Tree) (x : Transfer) (src : Loc) : Except Err Tree :=
  match t.get src.path, src.slash with
  | some (.file c), false =>            -- statfile succeeded, listfiles raised NotADirectoryError
    let fd := fullDest t x src
    if destStatFails t x then .error .notADir
    else if fd.2 = some .dir then .error .isADir else writeFile t fd.1 c
  | some .dir, _ =>
    let fd := fullDest t x src
    if destStatFails t x then .error .notADir
    else if fd.2 = some .file then .error .notADir else writeAll t (fileDest t x src) (filesUnder t src.path)
  | _, _ => .error .notFound            -- missing, or a file named with a trailing slash

/-- `Copier._copy_one_transfer` (`Transfer.__init__` rejects a source list with DEST_IS_TARGET) -/
def copySpec (t : Tree) (x : Transfer) : Except Err Tree :=
  if x.mode = .destIsTarget ∧ ¬ x.single then .error .notADir
  else x.srcs.foldlM (fun t s => copySource t x s) t

/-- `Copier._copy` over a list of transfers -/
def copyAll (t : Tree) (xs : List Transfer) : Except Err Tree := xs.foldlM copySpec t

end HailVerif.Copy

/-
Model of the copy tool (C22): `hailtop/aiotools/fs/copier.py` (`Transfer`, `SourceCopier`, `Copier`) over a local
file system (`hailtop/aiotools/local_fs.py`, reached through `hailtop/aiotools/router_fs.py`).

Part A — the multi-part arithmetic of `SourceCopier._copy_file_multi_part_main` and `_copy_part`.
Part B — the destination rules as a pure function on a file tree (`copySpec`), for transfers whose sources and
destinations do not overlap (the tool copies concurrently; the model copies one file after the other).
-/
namespace HailVerif.Copy

/-! ## A. Part plan -/

/-- `n_parts, rem = divmod(size, part_size); if rem: n_parts += 1` -/
def nParts (size part : Nat) : Nat := size / part + (if size % part = 0 then 0 else 1)

/-- `this_part_size = rem if i == n_parts - 1 and rem else part_size` -/
def thisPartSize (size part i : Nat) : Nat :=
  if i = nParts size part - 1 ∧ size % part ≠ 0 then size % part else part

/-- the loop of `_copy_part`:
```
n = this_part_size
while n > 0:
    bytes_to_write = min(Copier.BUFFER_SIZE, n)
    open_from(srcfile, part_number * part_size + (this_part_size - n), length=bytes_to_write) … readexactly(bytes_to_write)
    n -= bytes_to_write
```
as the list of `(offset, length)` ranged reads; `fuel = this_part_size` iterations suffice when `buf ≥ 1`. -/
def readsLoop (buf base thisSize : Nat) : Nat → Nat → List (Nat × Nat)
  | 0, _ => []
  | fuel + 1, n =>
    if n = 0 then []
    else (base + (thisSize - n), min buf n) :: readsLoop buf base thisSize fuel (n - min buf n)

structure Part where
  /-- `create_part(number, start, size_hint=size)` -/
  number : Nat
  start : Nat
  size : Nat
  reads : List (Nat × Nat)
  deriving DecidableEq, Repr

/-- `none`: `size <= part_size`, the file is streamed by `_copy_file`; otherwise the parts `0 … n_parts-1`. -/
def partPlan (size part buf : Nat) : Option (List Part) :=
  if size ≤ part then none
  else some ((List.range (nParts size part)).map fun i =>
    let ts := thisPartSize size part i
    { number := i, start := i * part, size := ts, reads := readsLoop buf (i * part) ts ts ts })

/-! ## B. Destination rules -/

abbrev Path := List String

inductive Node where
  | file (content : List Nat)
  | dir
  deriving DecidableEq, Repr

inductive Kind where
  | file | dir
  deriving DecidableEq, Repr

/-- a file tree: `get []` is the root directory; `dom` lists every path that may be present (used only to enumerate) -/
structure Tree where
  get : Path → Option Node
  dom : List Path

def Node.kind : Node → Kind
  | .file _ => .file
  | .dir => .dir

/-- the exceptions the tool documents -/
inductive Err where
  /-- FileNotFoundError: missing source -/
  | notFound
  /-- IsADirectoryError: file onto directory -/
  | isADir
  /-- NotADirectoryError: directory onto file -/
  | notADir
  /-- FileAndDirectoryError: source is both (cannot happen on a local file system) -/
  | fileAndDir
  deriving DecidableEq, Repr

/-- `q` is a non-root proper ancestor of `p` -/
def isAncestor (q p : Path) : Bool := q ≠ [] && q.length < p.length && p.take q.length == q

def isFile : Option Node → Bool
  | some (.file _) => true
  | _ => false

/-- `create(p)` = `open(p, 'wb')`, falling back to `makedirs(dirname(p), exist_ok=True)` on FileNotFoundError, then the
content is written (`_copy_file`, or `multi_part_create` + parts).  The OS answers ENOTDIR when an ancestor is a file and
EISDIR when `p` is a directory. -/
def writeFile (t : Tree) (p : Path) (c : List Nat) : Except Err Tree :=
  if (List.range p.length).any (fun k => 0 < k && isFile (t.get (p.take k))) then .error .notADir
  else if p = [] ∨ t.get p = some .dir then .error .isADir
  else .ok {
    get := fun q => if q = p then some (.file c) else if isAncestor q p && (t.get q).isNone then some .dir else t.get q
    dom := p :: ((List.range p.length).map fun k => p.take k) ++ t.dom }

/-- `listfiles(src + '/', recursive=True)`: the files below directory `p`, as (relative path, content) -/
def filesUnder (t : Tree) (p : Path) : List (Path × List Nat) :=
  t.dom.filterMap fun q =>
    if p.length < q.length ∧ q.take p.length = p then
      match t.get q with
      | some (.file c) => some (q.drop p.length, c)
      | _ => none
    else none

/-- a path as written by the user: components and whether it ends with `/` -/
structure Loc where
  path : Path
  slash : Bool
  deriving DecidableEq, Repr

inductive Mode where
  | destDir | destIsTarget | inferDest
  deriving DecidableEq, Repr

structure Transfer where
  srcs : List Loc
  /-- `src` was given as a `str` (not a list) -/
  single : Bool
  dest : Loc
  mode : Mode
  deriving Repr

/-- `Transfer.__init__`: `if treat_dest_as == INFER_DEST and dest.endswith('/'): treat_dest_as = DEST_DIR` -/
def effMode (x : Transfer) : Mode :=
  if x.mode = .inferDest ∧ x.dest.slash then .destDir else x.mode

/-- `Copier._dest_type` (only used for INFER_DEST): a list of sources makes `dest` a directory, else `staturl(dest)` -/
def destType (t : Tree) (x : Transfer) : Option Kind :=
  if ¬ x.single then some .dir else (t.get x.dest.path).map Node.kind

/-- `SourceCopier._full_dest` -/
def fullDest (t : Tree) (x : Transfer) (src : Loc) : Path × Option Kind :=
  let m := effMode x
  let dt := if m = .inferDest then destType t x else none
  if m = .destDir ∨ (m = .inferDest ∧ dt = some .dir) then
    (x.dest.path ++ [src.path.getLast?.getD ""], none)       -- url_join(dest, url_basename(src.rstrip('/')))
  else if m = .destIsTarget ∧ x.dest.slash then (x.dest.path, some .dir)
  else (x.dest.path, dt)

/-- `staturl(dest)` inside `Copier._dest_type` (INFER_DEST, one source, no trailing slash) catches only FileNotFoundError:
when an ancestor of `dest` is a regular file the OS answers ENOTDIR and NotADirectoryError escapes from `_full_dest` -/
def destStatFails (t : Tree) (x : Transfer) : Bool :=
  effMode x = .inferDest && x.single &&
    (List.range x.dest.path.length).any (fun k => 0 < k && isFile (t.get (x.dest.path.take k)))

def writeAll (t : Tree) (fd : Path) (fs : List (Path × List Nat)) : Except Err Tree :=
  fs.foldlM (fun t f => writeFile t (fd ++ f.1) f.2) t

/-- `SourceCopier.copy`: `copy_as_file` and `copy_as_dir` for one source -/
def copySource (t : Tree) (x : Transfer) (src : Loc) : Except Err Tree :=
  match t.get src.path, src.slash with
  | some (.file c), false =>            -- statfile succeeded, listfiles raised NotADirectoryError
    let fd := fullDest t x src
    if destStatFails t x then .error .notADir
    else if fd.2 = some .dir then .error .isADir else writeFile t fd.1 c
  | some .dir, _ =>
    let fd := fullDest t x src
    if destStatFails t x then .error .notADir
    else if fd.2 = some .file then .error .notADir else writeAll t fd.1 (filesUnder t src.path)
  | _, _ => .error .notFound            -- missing, or a file named with a trailing slash

/-- `Copier._copy_one_transfer` (`Transfer.__init__` rejects a source list with DEST_IS_TARGET) -/
def copySpec (t : Tree) (x : Transfer) : Except Err Tree :=
  if x.mode = .destIsTarget ∧ ¬ x.single then .error .notADir
  else x.srcs.foldlM (fun t s => copySource t x s) t

/-- `Copier._copy` over a list of transfers -/
def copyAll (t : Tree) (xs : List Transfer) : Except Err Tree := xs.foldlM copySpec t

end HailVerif.Copy

/-
Model of `TimeLimitedMaxSizeCache` (gear/gear/time_limited_max_size_cache.py), the cache `gear/gear/auth.py` uses for
session lookups.

asyncio code is atomic between awaits, so one model step is one atomic block of the class:
* `lookup c k`     — caller task `c` runs `lookup(k)` up to its only await (`await asyncio.shield(self._futures[k])`) or
                     to its `return self._cache[k]`; when it created the load task (`asyncio.create_task(self._load_and_put(k))`)
                     that task has started and blocks inside `self.load(k)`;
* `loadOk k v`     — `self.load(k)` returns `v`: the rest of `_load_and_put` (`del self._futures[k]`, `_put`, eviction) runs and
                     every caller waiting through its shield receives `v`;
* `loadFail k`     — `self.load(k)` raises: `finally: del self._futures[k]`, the task fails, every waiter's shield re-raises it;
* `cancelCaller c` — `task_c.cancel()`: the shield's outer future is cancelled, the inner load task is NOT;
* `advance dt`     — `time.monotonic_ns()` moves forward.
Time is in abstract ticks (`lifetime_ns` = `lifetime` ticks).  Caller ids stand for the tasks running `lookup`.
`stepOld` is the variant of the code BEFORE the repair (callers awaited the load task directly).
-/
namespace HailVerif.Cache

/-- a value the load function can return and the cache stores: `none` = Python's `None` (a legitimate value: no JAR for a revision,
unknown session), `some n` = any other object, falsy ones (`0`, `''`, `[]`) included.  The cache never inspects the value:
whether a key is cached is decided by the KEY alone (`k in self._cache`). -/
abbrev Val := Option Nat

/-- numerals denote ordinary (non-`None`) values -/
instance (n : Nat) : OfNat Val n := ⟨some n⟩

/-- one key of `_cache` / `_expiry_time` -/
structure Entry where
  key : Nat
  /-- `self._cache[key]` -/
  val : Val
  /-- `self._expiry_time[key]` -/
  expiry : Nat
  deriving DecidableEq, Repr

structure Config where
  /-- `lifetime_ns` -/
  lifetime : Nat
  /-- `num_slots` -/
  slots : Nat
  deriving DecidableEq, Repr

structure State where
  /-- `time.monotonic_ns()` -/
  now : Nat
  /-- `_cache` + `_expiry_time`, listed in the order of `_keys_by_expiry` (a `SortedSet(key=expiry)`: ascending expiry, equal
  expiries in insertion order) -/
  entries : List Entry
  /-- `_futures`: key ↦ the callers waiting (through `asyncio.shield`) for the load task of that key, in arrival order.  The
  waiter list may be empty (all callers cancelled): the load is still in flight. -/
  inflight : List (Nat × List Nat)
  deriving DecidableEq, Repr

inductive Op where
  | lookup (c k : Nat)
  | loadOk (k : Nat) (v : Val)
  | loadFail (k : Nat)
  | cancelCaller (c : Nat)
  | advance (dt : Nat)
  deriving DecidableEq, Repr

/-- what a step does (observable trace) -/
inductive Ev where
  /-- `lookup` found `k` expired and removed it -/
  | expired (k : Nat)
  /-- `lookup` of caller `c` returned `self._cache[k] = v` at time `t` -/
  | hit (c k : Nat) (v : Val) (t : Nat)
  /-- `asyncio.create_task(self._load_and_put(k))` -/
  | started (k : Nat)
  /-- caller `c` waits for the load of `k` -/
  | joined (c k : Nat)
  /-- `_put(k, v)` at time `t` (the load of `k` finished successfully) -/
  | put (k : Nat) (v : Val) (t : Nat)
  /-- `_evict_oldest` removed `k` -/
  | evicted (k : Nat)
  /-- the load of `k` finished with an exception -/
  | loadFailed (k : Nat)
  /-- the load of `k` was cancelled (only the pre-repair variant can do this) -/
  | loadCancelled (k : Nat)
  /-- waiting caller `c` received the value `v` loaded for `k` at time `t` -/
  | loaded (c k : Nat) (v : Val) (t : Nat)
  /-- waiting caller `c` had the load's exception re-raised -/
  | failed (c k : Nat)
  /-- caller `c` raised `CancelledError` -/
  | cancelled (c : Nat)
  deriving DecidableEq, Repr

def init : State := ⟨0, [], []⟩

def ekeys (l : List Entry) : List Nat := l.map (·.key)
def ikeys (l : List (Nat × List Nat)) : List Nat := l.map (·.1)

/-- `self._cache[k]` / `self._expiry_time[k]` (`none` = `k not in self._cache`) -/
def findKey (k : Nat) : List Entry → Option Entry
  | [] => none
  | e :: r => if e.key = k then some e else findKey k r

/-- `_remove(k)` -/
def removeKey (k : Nat) : List Entry → List Entry
  | [] => []
  | e :: r => if e.key = k then r else e :: removeKey k r

/-- `self._keys_by_expiry.add(k)` for a key that is not in the set: `SortedKeyList.add` inserts with `bisect_right` on the
expiry, i.e. after every entry whose expiry is `≤` the new one -/
def insertByExpiry (e : Entry) : List Entry → List Entry
  | [] => [e]
  | x :: r => if x.expiry ≤ e.expiry then x :: insertByExpiry e r else e :: x :: r

/-- `_put` for a key that is already cached: dict values are overwritten and `SortedSet.add` of a present element does nothing,
so the key keeps its position (unreachable, see `C26.put_target_absent`) -/
def replaceKey (e : Entry) : List Entry → List Entry
  | [] => []
  | x :: r => if x.key = e.key then e :: r else x :: replaceKey e r

/-- `_put(k, v)` -/
def put (e : Entry) (l : List Entry) : List Entry :=
  match findKey e.key l with
  | some _ => replaceKey e l
  | none => insertByExpiry e l

/-- `if self._over_capacity(): self._evict_oldest()` — `oldest_key = self._keys_by_expiry[0]; self._remove(oldest_key)` -/
def evictIfOver (slots : Nat) (l : List Entry) : List Entry × List Ev :=
  if l.length > slots then
    match l with
    | [] => ([], [])
    | h :: _ => (removeKey h.key l, [Ev.evicted h.key])
  else (l, [])

/-- the first three lines of `lookup` after the shutdown test:
`if k in self._expiry_time: if self._expiry_time[k] <= time.monotonic_ns(): self._remove(k)` -/
def expire (k now : Nat) (l : List Entry) : List Entry × List Ev :=
  match findKey k l with
  | some e => if e.expiry ≤ now then (removeKey k l, [Ev.expired k]) else (l, [])
  | none => (l, [])

/-- `self._futures.get(k)` as the list of callers waiting on it -/
def waitersOf (k : Nat) : List (Nat × List Nat) → Option (List Nat)
  | [] => none
  | (k', ws) :: r => if k' = k then some ws else waitersOf k r

/-- `del self._futures[k]` -/
def dropKey (k : Nat) : List (Nat × List Nat) → List (Nat × List Nat)
  | [] => []
  | (k', ws) :: r => if k' = k then r else (k', ws) :: dropKey k r

/-- caller `c` starts waiting on the load of `k` -/
def addWaiter (k c : Nat) : List (Nat × List Nat) → List (Nat × List Nat)
  | [] => []
  | (k', ws) :: r => if k' = k then (k', ws ++ [c]) :: r else (k', ws) :: addWaiter k c r

/-- caller `c` stops waiting (its shield's outer future is cancelled) -/
def removeWaiter (c : Nat) : List (Nat × List Nat) → List (Nat × List Nat)
  | [] => []
  | (k, ws) :: r => (k, ws.filter (· ≠ c)) :: removeWaiter c r

/-- the key whose load caller `c` is waiting for -/
def awaited (c : Nat) : List (Nat × List Nat) → Option Nat
  | [] => none
  | (k, ws) :: r => if c ∈ ws then some k else awaited c r

/-- one atomic block of the CURRENT code.  `none` = not a behaviour: a caller task cannot call `lookup` while it is suspended in
one, and a load that is not in flight cannot finish. -/
def step (cfg : Config) (s : State) : Op → Option (State × List Ev)
  | .lookup c k =>
    if (awaited c s.inflight).isSome then none
    else
      let x := expire k s.now s.entries
      match findKey k x.1 with
      | some e =>                                  -- `if k in self._cache: return self._cache[k]`
        some ({ s with entries := x.1 }, x.2 ++ [Ev.hit c k e.val s.now])
      | none =>
        match waitersOf k s.inflight with
        | some _ =>                                -- `k in self._futures`: only `await asyncio.shield(self._futures[k])`
          some ({ s with entries := x.1, inflight := addWaiter k c s.inflight }, x.2 ++ [Ev.joined c k])
        | none =>                                  -- `self._futures[k] = asyncio.create_task(self._load_and_put(k))`
          some ({ s with entries := x.1, inflight := s.inflight ++ [(k, [c])] }, x.2 ++ [Ev.started k, Ev.joined c k])
  | .loadOk k v =>
    match waitersOf k s.inflight with
    | none => none
    | some ws =>
      let x := evictIfOver cfg.slots (put ⟨k, v, s.now + cfg.lifetime⟩ s.entries)
      some ({ s with entries := x.1, inflight := dropKey k s.inflight },
            Ev.put k v s.now :: (x.2 ++ ws.map fun c => Ev.loaded c k v s.now))
  | .loadFail k =>
    match waitersOf k s.inflight with
    | none => none
    | some ws =>
      some ({ s with inflight := dropKey k s.inflight }, Ev.loadFailed k :: ws.map fun c => Ev.failed c k)
  | .cancelCaller c =>
    match awaited c s.inflight with
    | none => some (s, [])                         -- cancelling a finished task does nothing
    | some _ => some ({ s with inflight := removeWaiter c s.inflight }, [Ev.cancelled c])
  | .advance dt => some ({ s with now := s.now + dt }, [])

/-- one atomic block of the code BEFORE the repair (commit e8ccd243b): every caller awaited the load task itself
(`return await self._futures[k]`; the first caller `await prom_async_time(…, self._futures[k])`), so cancelling any waiting
caller cancelled the task it was suspended on — the shared load — and with it every other waiter. -/
def stepOld (cfg : Config) (s : State) : Op → Option (State × List Ev)
  | .cancelCaller c =>
    match awaited c s.inflight with
    | none => some (s, [])
    | some k =>
      match waitersOf k s.inflight with
      | none => none
      | some ws => some ({ s with inflight := dropKey k s.inflight }, Ev.loadCancelled k :: ws.map fun c' => Ev.cancelled c')
  | op => step cfg s op

/-- run a list of atomic blocks from state `s`, collecting the trace -/
def runWith (f : State → Op → Option (State × List Ev)) : State → List Op → Option (State × List Ev)
  | s, [] => some (s, [])
  | s, op :: ops =>
    match f s op with
    | none => none
    | some (s', e) =>
      match runWith f s' ops with
      | none => none
      | some (s'', es) => some (s'', e ++ es)

/-- several atomic blocks issued in ONE turn of the event loop (e.g. a load completion is delivered and new lookups are issued
before the loop runs again, so before any done-callback of the finished load task could run): asyncio runs what was scheduled in
the order it was scheduled, so the turn is the sequence of the blocks.  A caller that was still suspended when the turn began
(`s0`) cannot issue a lookup in it (`mayIssue`). -/
def mayIssue (s0 : State) : Op → Bool
  | .lookup c _ => (awaited c s0.inflight).isNone
  | _ => true

/-- one turn of the event loop: the blocks in the order they were issued -/
def turn (cfg : Config) (s0 : State) : State → List Op → Option (State × List Ev)
  | s, [] => some (s, [])
  | s, op :: ops =>
    if !mayIssue s0 op then none else
    match step cfg s op with
    | none => none
    | some (s', e) =>
      match turn cfg s0 s' ops with
      | none => none
      | some (s'', es) => some (s'', e ++ es)

def run (cfg : Config) : List Op → Option (State × List Ev) := runWith (step cfg) init
def runOld (cfg : Config) : List Op → Option (State × List Ev) := runWith (stepOld cfg) init

/-- caller `c` raised during a step with events `e` -/
def raisedIn (e : List Ev) (c : Nat) : Prop := (∃ k, Ev.failed c k ∈ e) ∨ Ev.cancelled c ∈ e

/-- number of load tasks created for `k` in a trace -/
def nStarted (k : Nat) : List Ev → Nat
  | [] => 0
  | Ev.started k' :: r => (if k' = k then 1 else 0) + nStarted k r
  | _ :: r => nStarted k r

/-- number of load tasks for `k` that ended (value, exception or cancellation) in a trace -/
def nFinished (k : Nat) : List Ev → Nat
  | [] => 0
  | Ev.put k' _ _ :: r => (if k' = k then 1 else 0) + nFinished k r
  | Ev.loadFailed k' :: r => (if k' = k then 1 else 0) + nFinished k r
  | Ev.loadCancelled k' :: r => (if k' = k then 1 else 0) + nFinished k r
  | _ :: r => nFinished k r

/-! ### several cache instances

Every `TimeLimitedMaxSizeCache(load, lifetime_ns, num_slots, name)` object has its OWN `_futures`, `_cache`, `_expiry_time`,
`_keys_by_expiry` and its own load function (gear's K8sCache holds a secret cache and a service-account cache, both keyed by
`(name, namespace)`); the instances of a process share nothing but the clock.  The model of several instances is therefore the
PRODUCT of independent single-cache models: a block addressed to instance `j` is `step` on component `j`. -/

/-- the instances alive, each with its configuration, its state and (ghost) everything that happened in it so far -/
abbrev Multi := List (Config × State × List Ev)

def Multi.start (cfgs : List Config) : Multi := cfgs.map fun cfg => (cfg, init, [])

/-- caller task `c` is suspended in a lookup of some instance -/
def Multi.busy (m : Multi) (c : Nat) : Bool := m.any fun x => (awaited c x.2.1.inflight).isSome

inductive MOp where
  /-- an atomic block of instance `j` (`lookup`, `loadOk`, `loadFail` of ITS loader, `cancelCaller`) -/
  | at (j : Nat) (op : Op)
  /-- `time.monotonic_ns()` moves forward — for everybody -/
  | advance (dt : Nat)
  deriving DecidableEq, Repr

def mstep (m : Multi) : MOp → Option (Multi × List Ev)
  | .at _ (.advance _) => none                      -- the clock is not per instance
  | .at j op =>
    match m[j]? with
    | none => none
    | some (cfg, s, tr) =>
      if (match op with | .lookup c _ => m.busy c | _ => false) then none
      else match step cfg s op with
        | none => none
        | some (s', e) => some (m.set j (cfg, s', tr ++ e), e)
  | .advance dt => some (m.map fun x => (x.1, { x.2.1 with now := x.2.1.now + dt }, x.2.2), [])

def mrun : Multi → List MOp → Option Multi
  | m, [] => some m
  | m, op :: ops =>
    match mstep m op with
    | none => none
    | some (m', _) => mrun m' ops

end HailVerif.Cache

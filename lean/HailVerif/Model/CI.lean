/-!
# Model for C30 — CI merge gating (`ci/ci/github.py`)

One watched branch (`WatchedBranch`, not deployable, mergeable, not frozen), its pull requests (`PR`) and the batch service
the CI talks to.  The three blocks of the `WatchedBranch._update` loop are the events:

* `evGithub snap`   — `github_changed = False; _update_github(gh)`  (`PR.update_from_gh_json`, `PR.from_gh_json`, `PR._update_github`)
* `evBatch`         — `batch_changed = False; _update_batch(...)`    (`PR._update_batch`)
* `evHeal answers`  — `state_changed = False; _heal(...); try_to_merge(gh)` (`PR._heal`, `PR._start_build`, `PR.is_mergeable`,
                      `PR.merge`)

plus the world event `evDone id ok` (a test batch completes).  GitHub is an input (`Snapshot` = what the REST/GraphQL calls
answer); the batch service is part of the state (`svc`), because CI itself creates and cancels batches.
`AssertionError` of `is_mergeable` is the explicit outcome `Out.assertFailed` (the event stops there, as the exception does).
-/
namespace HailVerif.CI

abbrev Sha := Nat

inductive GhStatus where
  | success | pending | failure
deriving DecidableEq, Repr

/-- StatusState / CheckConclusionState values of the GraphQL API -/
inductive RawState where
  | PENDING | EXPECTED | ACTION_REQUIRED | STALE
  | FAILURE | ERROR | TIMED_OUT | CANCELLED | STARTUP_FAILURE | SKIPPED
  | SUCCESS | NEUTRAL
deriving DecidableEq, Repr

/-- `ci/utils.py: github_status` -/
def githubStatus : RawState → GhStatus
  | .PENDING | .EXPECTED | .ACTION_REQUIRED | .STALE => .pending
  | .FAILURE | .ERROR | .TIMED_OUT | .CANCELLED | .STARTUP_FAILURE | .SKIPPED => .failure
  | .SUCCESS | .NEUTRAL => .success

inductive BuildState where
  | success | failure | error
deriving DecidableEq, Repr

inductive Review where
  | approved | changesRequested | pending
deriving DecidableEq, Repr

/-- `reviewDecision` of the GraphQL API (`apiNone` = null, `other` = anything unexpected) -/
inductive ReviewDecision where
  | APPROVED | CHANGES_REQUESTED | REVIEW_REQUIRED | apiNone | other
deriving DecidableEq, Repr

def reviewOfDecision : ReviewDecision → Review
  | .APPROVED => .approved
  | .CHANGES_REQUESTED => .changesRequested
  | _ => .pending

/-- state of a batch in the batch service -/
inductive BState where
  | running | success | failure | cancelled
deriving DecidableEq, Repr

/-- a test batch as the batch service knows it (attributes `source_sha`, `target_sha`, `pr`) -/
structure BatchRec where
  id : Nat
  sourceSha : Sha
  targetSha : Sha
  pr : Nat
  state : BState
deriving DecidableEq, Repr

/-- `PR.batch : Union[Batch, MergeFailureBatch, None]` (only `attributes['target_sha']` and `id` are read) -/
inductive PRBatch where
  | none
  | real (id : Nat) (targetSha : Sha)
  | mergeFailure (targetSha : Sha)
deriving DecidableEq, Repr

def PRBatch.truthy : PRBatch → Bool
  | .none => false
  | _ => true

def PRBatch.targetSha? : PRBatch → Option Sha
  | .none => Option.none
  | .real _ t => some t
  | .mergeFailure t => some t

/-- labels: `prio:high`, `WIP`, `stacked PR`, `do-not-test`, and one label CI does not know -/
structure Labels where
  highPrio : Bool
  wip : Bool
  stacked : Bool
  doNotTest : Bool
  other : Bool
deriving DecidableEq, Repr

/-- `all(label not in DO_NOT_MERGE for label in self.labels)` is `!blocked` -/
def Labels.blocked (l : Labels) : Bool := l.wip || l.stacked

/-- the CI's own status context (`GITHUB_STATUS_CONTEXT`) is context 0 -/
def ciCtx : Nat := 0

structure PR where
  number : Nat
  sourceSha : Sha
  authorized : Bool                     -- `await self.authorized(db)`: author in AUTHORIZED_USERS (no authorized_shas rows)
  labels : Labels
  review : Option Review                -- review_state
  batch : PRBatch
  buildState : Option BuildState
  intended : GhStatus                   -- intended_github_status
  statuses : List (Nat × GhStatus)      -- last_known_github_status, sorted by context, one entry per context
deriving DecidableEq, Repr

structure Check where
  ctx : Nat
  required : Bool
  /-- `state` of a StatusContext / `conclusion` of a CheckRun; `none` = a CheckRun that is queued or in progress (`conclusion: null`) -/
  state : Option RawState
deriving DecidableEq, Repr

/-- what GitHub answers about one open PR (REST listing + GraphQL query) -/
structure PRSnap where
  number : Nat
  headSha : Sha
  authorized : Bool
  labels : Labels
  decision : ReviewDecision
  checks : List Check                   -- statusCheckRollup contexts of the last commit, in API order
deriving DecidableEq, Repr

structure Snapshot where
  targetSha : Sha
  prs : List PRSnap                     -- in listing order
deriving DecidableEq, Repr

structure State where
  sha : Option Sha                      -- WatchedBranch.sha
  prs : List PR                         -- WatchedBranch.prs in dict order
  githubChanged : Bool
  batchChanged : Bool
  stateChanged : Bool
  nRunning : Nat                        -- n_running_batches
  mergeCandidate : Option Nat
  svc : List BatchRec                   -- batch service, oldest first
  nextId : Nat
deriving DecidableEq, Repr

def init : State :=
  { sha := none, prs := [], githubChanged := true, batchChanged := true, stateChanged := true, nRunning := 0,
    mergeCandidate := none, svc := [], nextId := 1 }

inductive Out where
  | post (pr : Nat) (sha : Sha) (st : GhStatus)     -- POST /statuses/{source_sha}
  | start (pr : Nat) (id : Nat) (src tgt : Sha)     -- test batch created
  | startFailed (pr : Nat)
  | cancel (id : Nat)                               -- orphan batch cancelled
  | merge (pr : Nat) (sha : Sha) (accepted : Bool)  -- PUT /pulls/{n}/merge {sha}
  | assertFailed (pr : Nat)                         -- AssertionError in is_mergeable
deriving DecidableEq, Repr

/-! ## PR helpers -/

/-- `github_status_from_build_state` -/
def statusFromBuild (bs : Option BuildState) (b : PRBatch) : GhStatus :=
  match bs with
  | some .failure | some .error => .failure
  | some .success => if b.truthy then .success else .pending
  | none => .pending

/-- `set_build_state`; returns the PR and whether `target_branch.state_changed` was set -/
def PR.setBuildState (p : PR) (bs : Option BuildState) : PR × Bool :=
  if bs != p.buildState then
    let p1 := { p with buildState := bs }
    let i := statusFromBuild bs p1.batch
    if i != p1.intended then ({ p1 with intended := i }, true) else (p1, false)
  else (p, false)

def lookup (k : Nat) : List (Nat × GhStatus) → Option GhStatus
  | [] => none
  | (k', v) :: t => if k == k' then some v else lookup k t

/-- `d[k] = v` on the sorted association list -/
def insert (k : Nat) (v : GhStatus) : List (Nat × GhStatus) → List (Nat × GhStatus)
  | [] => [(k, v)]
  | (k', v') :: t => if k == k' then (k, v) :: t else if k < k' then (k, v) :: (k', v') :: t else (k', v') :: insert k v t

def allSuccess (m : List (Nat × GhStatus)) : Bool := m.all fun kv => kv.2 == .success
def anyFailure (m : List (Nat × GhStatus)) : Bool := m.any fun kv => kv.2 == .failure

/-- `merge_priority()`: (HIGH_PRIORITY in labels, no DO_NOT_MERGE label, passed(2) > unknown(1) > failed(0), -number) -/
def PR.failedPrio (p : PR) : Nat := if allSuccess p.statuses then 2 else if anyFailure p.statuses then 0 else 1

/-- tuple comparison `a.merge_priority() > b.merge_priority()` -/
def prioGt (a b : PR) : Bool :=
  let ka := (a.labels.highPrio.toNat, (!a.labels.blocked).toNat, a.failedPrio)
  let kb := (b.labels.highPrio.toNat, (!b.labels.blocked).toNat, b.failedPrio)
  if ka.1 != kb.1 then ka.1 > kb.1
  else if ka.2.1 != kb.2.1 then ka.2.1 > kb.2.1
  else if ka.2.2 != kb.2.2 then ka.2.2 > kb.2.2
  else a.number < b.number      -- -number: oldest first

def insertByPrio (p : PR) : List PR → List PR
  | [] => [p]
  | q :: t => if prioGt p q then p :: q :: t else q :: insertByPrio p t

/-- `prs_in_merge_priority_order()` (keys are distinct: they contain the PR number) -/
def byPrio (ps : List PR) : List PR := ps.foldr insertByPrio []

/-! ## `_update_github` -/

/-- `PR.update_from_gh_json`; returns (pr, state_changed, batch_changed) -/
def PR.updateFromSnap (p : PR) (s : PRSnap) : PR × Bool × Bool :=
  let labCh := s.labels != p.labels
  let p1 := { p with labels := s.labels, authorized := s.authorized }
  if p1.sourceSha != s.headSha then
    let p2 := { p1 with sourceSha := s.headSha, batch := .none }
    let (p3, _) := p2.setBuildState none
    (p3, true, true)
  else (p1, labCh, false)

/-- `PR.from_gh_json` (the constructor sets batch_changed and state_changed) -/
def PR.fromSnap (s : PRSnap) : PR :=
  { number := s.number, sourceSha := s.headSha, authorized := s.authorized, labels := s.labels, review := none,
    batch := .none, buildState := none, intended := .pending, statuses := [] }

/-- `github_status(None)` raises `ValueError`: a REQUIRED check run without a conclusion aborts `PR._update_github` -/
def checksRaise (cs : List Check) : Bool := cs.any fun c => c.required && c.state.isNone

/-- the dict built from the required checks, later entries of the same context overriding earlier ones.  Only meaningful for check
lists with `checksRaise = false` (`step` sends the others to `evGithubPartial`): a required check without conclusion never gets here. -/
def statusMap (cs : List Check) : List (Nat × GhStatus) :=
  cs.foldl (fun m c => match c.required, c.state with
    | true, some r => insert c.ctx (githubStatus r) m
    | _, _ => m) []

/-- the first half of `PR._update_github` (review decision), which has run when the status loop raises; returns (pr, state_changed) -/
def PR.updateReview (p : PR) (s : PRSnap) : PR × Bool :=
  let r := reviewOfDecision s.decision
  if some r != p.review then ({ p with review := some r }, true) else (p, false)

/-- `PR._update_github`; returns (pr, state_changed) -/
def PR.updateGithub (p : PR) (s : PRSnap) : PR × Bool :=
  let r := reviewOfDecision s.decision
  let (p1, c1) := if some r != p.review then ({ p with review := some r }, true) else (p, false)
  let m := statusMap s.checks
  if m != p1.statuses then ({ p1 with statuses := m }, true) else (p1, c1)

def findPR (n : Nat) : List PR → Option PR
  | [] => none
  | p :: t => if p.number == n then some p else findPR n t

/-- first loop of `WatchedBranch._update_github`: (new_prs, state_changed, batch_changed) -/
def refreshPRs (old : List PR) : List PRSnap → List PR × Bool × Bool
  | [] => ([], false, false)
  | s :: t =>
    let (rest, sc, bc) := refreshPRs old t
    match findPR s.number old with
    | some p =>
      let (p', sc', bc') := p.updateFromSnap s
      (p' :: rest, sc || sc', bc || bc')
    | none => (PR.fromSnap s :: rest, true, true)

/-- last loop: `for pr in new_prs.values(): await pr._update_github(gh)` -/
def updateGithubAll : List PR → List PRSnap → List PR × Bool
  | p :: ps, s :: ss =>
    let (p', c) := p.updateGithub s
    let (rest, c') := updateGithubAll ps ss
    (p' :: rest, c || c')
  | ps, _ => (ps, false)

def evGithub (st : State) (snap : Snapshot) : State :=
  let st := { st with githubChanged := false }
  let shaCh := st.sha != some snap.targetSha
  let (prs1, sc1, bc1) := refreshPRs st.prs snap.prs
  let (prs2, sc2) := updateGithubAll prs1 snap.prs
  { st with sha := some snap.targetSha, prs := prs2,
            stateChanged := st.stateChanged || shaCh || sc1 || sc2,
            batchChanged := st.batchChanged || bc1 }

/-! ## `_update_batch` -/

/-- `list_batches('test=1 target_branch=… source_sha=… user:ci')` newest first; first that is not cancelled -/
def currentBatch (svc : List BatchRec) (src : Sha) : Option BatchRec :=
  (svc.reverse.filter fun b => b.sourceSha == src).find? fun b => b.state != .cancelled

/-- `PR._update_batch`; returns (pr, state_changed).
`fix = true` is the code as it is (since commit aefc231fb): an unfinished current batch resets `build_state` to None
(`else: self.set_build_state(None)`).
`fix = false` is the code BEFORE that commit: when the current batch was not complete, `build_state` was left as it was. -/
def PR.updateBatch (fix : Bool) (p : PR) (svc : List BatchRec) : PR × Bool :=
  match currentBatch svc p.sourceSha with
  | none =>
    let p1 := { p with batch := .none }
    p1.setBuildState none
  | some b =>
    let p1 := { p with batch := .real b.id b.targetSha }
    match b.state with
    | .success => ((p1.setBuildState (some .success)).1, true)
    | .failure => ((p1.setBuildState (some .failure)).1, true)
    | _ => if fix then p1.setBuildState none else (p1, false)

def evBatch (fix : Bool) (st : State) : State :=
  let st := { st with batchChanged := false }
  let rs := st.prs.map fun p => p.updateBatch fix st.svc
  { st with prs := rs.map (·.1), stateChanged := st.stateChanged || rs.any (·.2) }

/-! ## `_heal` and `try_to_merge` -/

def replacePR (p : PR) : List PR → List PR
  | [] => []
  | q :: t => if q.number == p.number then p :: t else q :: replacePR p t

/-- merge candidate of `WatchedBranch._heal`: first PR (dict order) of maximal priority among approved, not failed, authorized -/
def pickCandidate (ps : List PR) : Option PR :=
  ps.foldl (fun cand p =>
    if p.review == some .approved && !anyFailure p.statuses && p.authorized then
      match cand with
      | none => some p
      | some c => if prioGt p c then some p else some c
    else cand) none

/-- answers of the environment consumed by one `evHeal`: for each `_start_build` in order whether checkout+submit works, for
each merge request whether GitHub accepts it -/
structure Answers where
  builds : List Bool
  merges : List Bool
deriving DecidableEq, Repr

/-- `PR._start_build` -/
def startBuild (st : State) (p : PR) (ok : Bool) : State × PR × List Out :=
  let tgt := st.sha.getD 0
  let r1 := ({ p with batch := .none } : PR).setBuildState none      -- `self.batch = None; self.set_build_state(None)`
  if ok then
    let b : BatchRec := { id := st.nextId, sourceSha := p.sourceSha, targetSha := tgt, pr := p.number, state := .running }
    ({ st with svc := st.svc ++ [b], nextId := st.nextId + 1, stateChanged := st.stateChanged || r1.2 },
      { r1.1 with batch := .real b.id tgt }, [.start p.number b.id p.sourceSha tgt])
  else
    -- `self.batch = MergeFailureBatch(...); self.set_build_state('error'); …; self.target_branch.state_changed = True`
    ({ st with stateChanged := true }, (({ r1.1 with batch := .mergeFailure tgt } : PR).setBuildState (some .error)).1,
      [.startFailed p.number])

/-- first part of `PR._heal`: post the intended status if it differs from the last known one, and remember it -/
def PR.postStatus (p : PR) : PR × List Out :=
  if some p.intended != lookup ciCtx p.statuses then
    ({ p with statuses := insert ciCtx p.intended p.statuses }, [Out.post p.number p.sourceSha p.intended])
  else (p, [])

/-- the conditions of `PR._heal` under which `_start_build` is called -/
def PR.needsBuild (p : PR) (onDeck : Bool) (tsha : Sha) (nRunning : Nat) : Bool :=
  p.authorized && !p.labels.doNotTest &&
  (!p.batch.truthy || (onDeck && p.batch.targetSha? != some tsha)) &&
  (onDeck || nRunning < 3)

/-- `PR._heal(batch_client, db, on_deck, gh)`; `builds` = remaining build answers (none left: the build works) -/
def healPR (st : State) (p : PR) (onDeck : Bool) (builds : List Bool) : State × List Bool × List Out :=
  match st.sha with
  | none => (st, builds, [])                      -- "can't merge target if we don't know what it is"
  | some tsha =>
    let pp := p.postStatus
    let st1 := { st with prs := replacePR pp.1 st.prs }
    if pp.1.needsBuild onDeck tsha st1.nRunning then
      let st2 := { st1 with nRunning := st1.nRunning + 1 }
      let r := startBuild st2 pp.1 (builds.headD true)
      ({ r.1 with prs := replacePR r.2.1 r.1.prs }, builds.tail, pp.2 ++ r.2.2)
    else (st1, builds, pp.2)

/-- the loop `for pr in prs_by_prio: await pr._heal(...)`; the PR objects are looked up again because earlier iterations
do not change other PRs -/
def healAll (st : State) (order : List Nat) (cand : Option Nat) (builds : List Bool) : State × List Bool × List Out :=
  match order with
  | [] => (st, builds, [])
  | n :: rest =>
    match findPR n st.prs with
    | none => healAll st rest cand builds
    | some p =>
      let r1 := healPR st p (cand == some n) builds
      let r2 := healAll r1.1 rest cand r1.2.1
      (r2.1, r2.2.1, r1.2.2 ++ r2.2.2)

/-- cancel orphan builds: running batches of this branch that no PR points to -/
def cancelOrphans (st : State) : State × List Out :=
  let seen := st.prs.filterMap fun p => match p.batch with
    | .real id _ => some id
    | _ => none
  let orphan (b : BatchRec) : Bool := b.state == .running && !seen.contains b.id
  ({ st with svc := st.svc.map fun b => if orphan b then { b with state := .cancelled } else b },
    (st.svc.filter orphan).reverse.map fun b => Out.cancel b.id)

/-- first part of `WatchedBranch._heal`: choose the merge candidate, count the running builds -/
def healPrep (st : State) : State :=
  { st with mergeCandidate := (pickCandidate st.prs).map (·.number),
            nRunning := (st.prs.filter fun p => p.batch.truthy && p.buildState == none).length }

/-- `WatchedBranch._heal` (not deployable) -/
def heal (st : State) (builds : List Bool) : State × List Out :=
  let st1 := healPrep st
  let r2 := healAll st1 ((byPrio st1.prs).map (·.number)) st1.mergeCandidate builds
  let r3 := cancelOrphans r2.1
  (r3.1, r2.2.2 ++ r3.2)

/-- `is_up_to_date` -/
def PR.upToDate (p : PR) (sha : Option Sha) : Bool :=
  p.batch.truthy && sha == p.batch.targetSha? && sha.isSome

/-- `is_mergeable`: `none` = the assert raised -/
def PR.mergeable (p : PR) (sha : Option Sha) : Option Bool :=
  if lookup ciCtx p.statuses == some .success && p.buildState != some .success then none
  else some (p.review == some .approved && !p.statuses.isEmpty && allSuccess p.statuses && p.upToDate sha &&
             !p.labels.blocked)

/-- `try_to_merge` -/
def tryMerge (st : State) (order : List PR) (merges : List Bool) : State × List Out :=
  match order with
  | [] => (st, [])
  | p :: rest =>
    match p.mergeable st.sha with
    | none => (st, [.assertFailed p.number])
    | some false => tryMerge st rest merges
    | some true =>
      let (ok, merges') := match merges with
        | [] => (true, [])
        | b :: bs => (b, bs)
      if ok then
        ({ st with githubChanged := true, sha := none, stateChanged := true, mergeCandidate := none },
          [.merge p.number p.sourceSha true])
      else
        let (st', o) := tryMerge st rest merges'
        (st', .merge p.number p.sourceSha false :: o)

def evHeal (st : State) (a : Answers) : State × List Out :=
  let r1 := heal { st with stateChanged := false } a.builds
  let r2 := tryMerge r1.1 (byPrio r1.1.prs) a.merges
  (r2.1, r1.2 ++ r2.2)

/-- a test batch finishes -/
def evDone (st : State) (id : Nat) (ok : Bool) : State :=
  { st with svc := st.svc.map fun b =>
      if b.id == id && b.state == .running then { b with state := if ok then .success else .failure } else b }

/-- the merge request of `try_to_merge` raises something `PR.merge` does not handle (timeout, connection lost): GitHub may have applied
the merge.  Since commit 62ab96f93 `try_to_merge` then forgets the target sha, sets `github_changed` and `state_changed` and re-raises
(the pass is aborted).  Histories with such a step are replayed on the real code for the oracle only. -/
def evMergeLost (st : State) : State := { st with sha := none, githubChanged := true, stateChanged := true }

/-- the same step BEFORE commit 62ab96f93: the exception left everything as it was -/
def evMergeLostOld (st : State) : State := st

/-- which entry point was called: `notify_github_changed`, `notify_batch_changed`, `update` -/
inductive Entry where
  | github | batch | all
deriving DecidableEq, Repr

/-- the flag assignments at the top of the entry points -/
def evFlag (st : State) : Entry → State
  | .github => { st with githubChanged := true }
  | .batch => { st with batchChanged := true }
  | .all => { st with githubChanged := true, batchChanged := true, stateChanged := true }

/-- the GitHub refresh fails at its first request (`gh.getitem(…/git/refs/heads/<branch>)` raises): the pass of `_update` is
aborted by the exception.  `github_changed` was cleared before the call and is set again by the `except BaseException` around
`_update_github` (commit 9f64769b0); nothing else has happened. -/
def evGithubFailed (st : State) : State := { st with githubChanged := true }

/-- the same step BEFORE commit 9f64769b0: the flag stayed cleared -/
def evGithubFailedOld (st : State) : State := { st with githubChanged := false }

/-- the PRs from the failing one on: unchanged, except that with `reviewToo` the failing PR has its review decision taken over -/
def reviewHead (reviewToo : Bool) : List PR → List PRSnap → List PR × Bool
  | p :: rest, s :: _ => if reviewToo then ((p.updateReview s).1 :: rest, (p.updateReview s).2) else (p :: rest, false)
  | ps, _ => (ps, false)

/-- the GitHub refresh fails at the GraphQL query of the `n`-th listed PR (`pr._update_github(gh)` raises `gidgethub.HTTPException`):
the target sha and the PR list (`update_from_gh_json` / `from_gh_json`, `self.prs = new_prs`) have been taken over, the first `n`
PRs have their review decision / statuses refreshed, the others keep what CI knew; the exception aborts the pass and the
`except BaseException` around `_update_github` sets `github_changed` again -/
def evGithubPartial (st : State) (snap : Snapshot) (n : Nat) (reviewToo : Bool) : State :=
  let shaCh := st.sha != some snap.targetSha
  let r1 := refreshPRs st.prs snap.prs
  let r2 := updateGithubAll (r1.1.take n) (snap.prs.take n)
  -- `reviewToo`: the exception came out of the status loop of the n-th PR (a required check run without conclusion), after its
  -- review decision had been taken over; otherwise the GraphQL request itself failed
  let r3 := reviewHead reviewToo (r1.1.drop n) (snap.prs.drop n)
  { st with githubChanged := true, sha := some snap.targetSha, prs := r2.1 ++ r3.1,
            stateChanged := st.stateChanged || shaCh || r1.2.1 || r2.2 || r3.2,
            batchChanged := st.batchChanged || r1.2.2 }

/-- index of the first listed PR whose status loop raises -/
def raisesAt : List PRSnap → Option Nat
  | [] => none
  | s :: t => if checksRaise s.checks then some 0 else (raisesAt t).map (· + 1)

/-- `github_changed = False; _update_github(gh)` with the answers `snap`: complete, unless a required check run has no conclusion -/
def evGithubAny (st : State) (snap : Snapshot) : State :=
  match raisesAt snap.prs with
  | none => evGithub st snap
  | some j => evGithubPartial st snap j true

/-- the batch refresh fails at its first request (`batch_client.list_batches(…)` of the first PR raises): the pass of `_update` is
aborted by the exception; `batch_changed` was already cleared (nothing restores it), no PR has been touched -/
def evBatchFailed (st : State) : State := { st with batchChanged := false }

inductive Event where
  | flag (e : Entry)
  | batchFailed
  | githubFailed
  | githubPartial (snap : Snapshot) (n : Nat)   -- the GraphQL request of the n-th PR fails (HTTP error)
  | github (snap : Snapshot)
  | batch
  | heal (a : Answers)
  | done (id : Nat) (ok : Bool)
deriving DecidableEq, Repr

def step (fix : Bool) (st : State) : Event → State × List Out
  | .flag e => (evFlag st e, [])
  | .batchFailed => (evBatchFailed st, [])
  | .githubFailed => (evGithubFailed st, [])
  | .githubPartial s n => (evGithubPartial st s n false, [])
  | .github s => (evGithubAny st s, [])
  | .batch => (evBatch fix st, [])
  | .heal a => evHeal st a
  | .done id ok => (evDone st id ok, [])

def run (fix : Bool) (st : State) : List Event → State × List Out
  | [] => (st, [])
  | e :: es =>
    let (st1, o1) := step fix st e
    let (st2, o2) := run fix st1 es
    (st2, o1 ++ o2)

end HailVerif.CI

/-
Model of `WeightedSemaphore` / `_AcquireManager` (hail/python/hailtop/aiotools/weighted_semaphore.py), the semaphore of the
copy tool (hail/python/hailtop/aiotools/fs/copier.py: `async with sema.acquire_manager(n)`).

One model step is one atomic block (asyncio code is atomic between awaits) of a task that uses the semaphore:
* `acquire i w` — task `i` enters `async with ws.acquire_manager(w)`: `acquire(w)` either returns at once or adds
                   `(w, event)` to `self.events` and blocks in `event.wait()`;
* `release i`   — holder `i` leaves the body normally: `__aexit__` → `release(w)` with its whole `while self.events:` loop;
* `fail i`      — holder `i` leaves the body by an exception: the same `__aexit__`;
* `cancel i`    — a `CancelledError` is *delivered* to task `i`:
                   - `i` is in the body: it leaves through `__aexit__` (as above);
                   - `i` waits in `event.wait()` and its event is not set: the `except BaseException` handler removes its entry;
                   - `i`'s event has been set by a `release` but `i` has not run since (it is *granted*, not yet resumed —
                     possible when the release and the cancellation happen in the same loop iteration): the handler sees
                     `event.is_set()` and calls `self.release(w)`;
* `resume i`    — a granted task is scheduled again: `event.wait()` returns, `acquire` returns, the body starts.
`self.events` is a `SortedKeyList(key=weight)`: SMALLEST weight first, equal weights in insertion order — not FIFO.
-/
namespace HailVerif.WSem

structure State where
  /-- `self.max` -/
  max : Nat
  /-- `self.value` -/
  value : Int
  /-- `self.events`: `(weight, task)`, sorted by weight, ties in insertion order -/
  waiters : List (Nat × Nat)
  /-- `(weight, task)` whose event was set by `release` and which have not resumed yet; their weight is already subtracted -/
  granted : List (Nat × Nat)
  /-- `(weight, task)` inside the `async with` body -/
  holders : List (Nat × Nat)
  deriving DecidableEq, Repr

inductive Op where
  | acquire (i w : Nat)
  | release (i : Nat)
  | fail (i : Nat)
  | cancel (i : Nat)
  | resume (i : Nat)
  deriving DecidableEq, Repr

inductive Err where
  /-- `assert n <= self.max` -/
  | assertion
  /-- not a behaviour: task id in use twice / exit, cancel or resume of a task that is not in the required phase -/
  | protocol
  deriving DecidableEq, Repr

deriving instance DecidableEq for Except

/-- `WeightedSemaphore(m)` -/
def init (m : Nat) : State := ⟨m, m, [], [], []⟩

def ids (l : List (Nat × Nat)) : List Nat := l.map (·.2)
def weights (l : List (Nat × Nat)) : Int := (l.map fun p => (p.1 : Int)).sum

/-- weight that has been handed out and not returned: tasks in the body and tasks granted but not yet resumed -/
def held (s : State) : Int := weights s.holders + weights s.granted

def active (s : State) (i : Nat) : Bool :=
  (ids s.waiters).contains i || (ids s.granted).contains i || (ids s.holders).contains i

/-- remove task `i`'s entry from a list, returning its weight -/
def take (i : Nat) : List (Nat × Nat) → Option (Nat × List (Nat × Nat))
  | [] => none
  | (w, j) :: r =>
    if j = i then some (w, r)
    else match take i r with
      | none => none
      | some (w', r') => some (w', (w, j) :: r')

/-- `SortedKeyList.add`: after every entry whose weight is `≤` the new weight (bisect_right) -/
def insert (e : Nat × Nat) : List (Nat × Nat) → List (Nat × Nat)
  | [] => [e]
  | x :: xs => if e.1 < x.1 then e :: x :: xs else x :: insert e xs

/-- the loop of `release`:
```
while self.events:
    _n, _event = self.events[0]
    if self.value >= _n: self.events.pop(0); self.value -= _n; _event.set()
    else: break
```
returns `(value, events, granted)` -/
def drain (value : Int) (granted : List (Nat × Nat)) : List (Nat × Nat) → Int × List (Nat × Nat) × List (Nat × Nat)
  | [] => (value, [], granted)
  | (w, i) :: q =>
    if value ≥ (w : Int) then drain (value - w) (granted ++ [(w, i)]) q
    else (value, (w, i) :: q, granted)

/-- `release(n)`: `self.value += n` then the loop -/
def releaseW (s : State) (n : Nat) : State :=
  let r := drain (s.value + n) s.granted s.waiters
  { s with value := r.1, waiters := r.2.1, granted := r.2.2 }

/-- holder `i` leaves the body (`__aexit__`), whatever the reason -/
def exitBody (s : State) (i : Nat) : Except Err State :=
  match take i s.holders with
  | none => .error .protocol
  | some (w, rest) => .ok (releaseW { s with holders := rest } w)

def step (s : State) : Op → Except Err State
  | .acquire i w =>
    if active s i then .error .protocol
    else if s.max < w then .error .assertion                       -- `assert n <= self.max`
    else if s.value ≥ (w : Int) then                               -- `if self.value >= n: self.value -= n; return`
      .ok { s with value := s.value - w, holders := s.holders ++ [(w, i)] }
    else .ok { s with waiters := insert (w, i) s.waiters }          -- `self.events.add(entry); await event.wait()`
  | .release i => exitBody s i
  | .fail i => exitBody s i
  | .cancel i =>
    match take i s.holders with
    | some (w, rest) => .ok (releaseW { s with holders := rest } w)     -- CancelledError inside the body: `__aexit__`
    | none =>
      match take i s.granted with
      | some (w, rest) => .ok (releaseW { s with granted := rest } w)   -- `if event.is_set(): self.release(n)`
      | none =>
        match take i s.waiters with
        | some (_, rest) => .ok { s with waiters := rest }              -- `else: self.events.remove(entry)`
        | none => .error .protocol
  | .resume i =>
    match take i s.granted with
    | some (w, rest) => .ok { s with granted := rest, holders := s.holders ++ [(w, i)] }
    | none => .error .protocol

/-- `_AcquireManager(ws, n)`: the context manager returned by `acquire_manager(n)` is a VALUE — the semaphore and a weight,
no state of its own.  `__aenter__` = `acquire(n)`, `__aexit__` = `release(n)`, every time it is entered, by whichever task. -/
structure Manager where
  n : Nat
  deriving DecidableEq, Repr

/-- task `i` enters manager `m` -/
def Manager.enter (m : Manager) (i : Nat) : Op := .acquire i m.n

/-- run a list of atomic blocks; stops at the first error -/
def run : State → List Op → Except Err State
  | s, [] => .ok s
  | s, op :: ops =>
    match step s op with
    | .error e => .error e
    | .ok s' => run s' ops

/-- the blocks that run when the event loop runs to quiescence: every granted task resumes, in grant order -/
def settleOps (s : State) : List Op := s.granted.map fun p => Op.resume p.2

/-! ### The behaviour before the repair (commit da51d1a88), kept for the record

`acquire` was `self.events.add((n, event)); await event.wait()` without the `try/except`: a cancelled waiter's entry
stayed in `self.events` (`dead` remembers whose), and a task cancelled between grant and resumption simply vanished. -/

structure OldState where
  s : State
  /-- tasks that were cancelled while their entry stayed queued -/
  dead : List Nat
  deriving DecidableEq, Repr

def stepOld (o : OldState) : Op → Except Err OldState
  | .cancel i =>
    match take i o.s.holders with
    | some (w, rest) => .ok { o with s := releaseW { o.s with holders := rest } w }
    | none =>
      match take i o.s.granted with
      | some (_, _) => .ok { o with dead := i :: o.dead }              -- weight never handed back
      | none =>
        match take i o.s.waiters with
        | some (_, _) => .ok { o with dead := i :: o.dead }            -- entry stays in `self.events`
        | none => .error .protocol
  | .resume i => if o.dead.contains i then .error .protocol else
    match step o.s (.resume i) with
    | .ok s' => .ok { o with s := s' }
    | .error e => .error e
  | op =>
    match step o.s op with
    | .ok s' => .ok { o with s := s' }
    | .error e => .error e

def runOld : OldState → List Op → Except Err OldState
  | o, [] => .ok o
  | o, op :: ops =>
    match stepOld o op with
    | .error e => .error e
    | .ok o' => runOld o' ops

/-- weight held by tasks that still exist -/
def heldOld (o : OldState) : Int :=
  weights o.s.holders + weights (o.s.granted.filter fun p => !o.dead.contains p.2)

end HailVerif.WSem

/-!
# StatsLib — hand-written support for `Generated/ScalaStats.lean` (C37)

Everything the Scala → Lean translator `harness/extract/scala_stats.py` refers to but does not itself read from the Scala
text lives here: the meaning given to JVM / Scala-library operations. Each definition says which Scala / Java construct it
stands for; these meanings are part of the trusted base of C37 (listed in `harness/props/c37.py`).

Import-free. Two numeric domains are served by the same combinators: `Rat` (exact model) and `Float` (IEEE double).
-/
namespace HailVerif.StatsLib

/-- outcome of a translated Scala function: `fatal` = an exception (`fatal(..)`, `require`, `assert`, `MatchError`),
`nan` = the early `return Array(Double.NaN, …)` of `fisherExactTest`, `val` = a normal result -/
inductive Out (β : Type) where
  | fatal : Out β
  | nan : Out β
  | val (b : β) : Out β
  deriving Repr

namespace Out
def bind {β γ : Type} : Out β → (β → Out γ) → Out γ
  | fatal, _ => fatal
  | nan, _ => nan
  | val b, f => f b
end Out

/-- the constructor parameters of `class LeveneHaldane(n, nA, mode, pRU, pLU, pN, rng)` (the translator checks this parameter
list against the Scala text; `rng` is erased). `LazyList[Double]` ↦ `List α` (see `unfold`). -/
structure LHDist (α : Type) where
  n : Int
  nA : Int
  mode : Int
  pRU : List α
  pLU : List α
  pN : α

/-- the three constructor arguments `(populationSize, numberOfSuccesses, sampleSize)` of commons-math3
`new HypergeometricDistribution(null, N, m, n)`; its methods are the fields of `Lib` -/
structure Hgd where
  popSize : Int
  nSuccess : Int
  sampleSize : Int

/-- library functions that are NOT code of the repository (commons-math3 `HypergeometricDistribution`, jdistlib `ChiSquare`).
They are parameters of the translated functions. -/
structure Lib (α : Type) where
  /-- `hgd.logProbability(k)` -/
  hyperLogPmf : Hgd → Int → α
  /-- `hgd.probability(k)` -/
  hyperPmf : Hgd → Int → α
  /-- `hgd.cumulativeProbability(k)` = P(X ≤ k) -/
  hyperCdf : Hgd → Int → α
  /-- `hgd.upperCumulativeProbability(k)` = P(X ≥ k) -/
  hyperUpper : Hgd → Int → α
  /-- `ChiSquare.cumulative(x, df, lowerTail = false, logP = false)` -/
  chisqTail : α → α → α
  /-- `pnorm(x)` = `Normal.cumulative(x, 0, 1, lowerTail = true, logP = false)`; not called by the code of the checked revision -/
  normCdf : α → α
  /-- `math.sqrt` in the exact model (no rational square root); the Float model uses IEEE `Float.sqrt` directly -/
  sqrt : α → α
  /-- the list `dnhyper(ncp)` over the support `lo … hi` (the Scala computes it with `math.log` / `math.exp`; the
  translator pins that text and the exact model uses the algebraic meaning, see `dnhyperQ` / `dnhyperF`) -/
  dnhyper : Hgd → Int → Int → α → List α

/-! ## JVM `Int` / `Long`

Exact model (`Exact`): unbounded `Int`; the theorems state the no-overflow side condition (`StatsSpec.int32Safe`) under which this
is the JVM semantics. Float model (`Flt`): two's-complement wrapping 32-bit (`Int`) and 64-bit (`Long`) arithmetic, operation by
operation, with Int → Double widening exactly where the Scala's static types put it (the translator knows them). -/

/-- reduce to the signed 32-bit range -/
def wrap32 (x : Int) : Int := let m := x % 4294967296; if m ≥ 2147483648 then m - 4294967296 else m
/-- reduce to the signed 64-bit range -/
def wrap64 (x : Int) : Int := let m := x % 18446744073709551616; if m ≥ 9223372036854775808 then m - 18446744073709551616 else m

def i32add (a b : Int) : Int := wrap32 (a + b)
def i32sub (a b : Int) : Int := wrap32 (a - b)
def i32mul (a b : Int) : Int := wrap32 (a * b)
def i32neg (a : Int) : Int := wrap32 (-a)
/-- the translator only admits non-zero literal divisors (division by zero would be an ArithmeticException) -/
def i32div (a b : Int) : Int := wrap32 (Int.tdiv a b)
def i32mod (a b : Int) : Int := Int.tmod a b
def i64add (a b : Int) : Int := wrap64 (a + b)
def i64sub (a b : Int) : Int := wrap64 (a - b)
def i64mul (a b : Int) : Int := wrap64 (a * b)
def i64neg (a : Int) : Int := wrap64 (-a)
def i64div (a b : Int) : Int := wrap64 (Int.tdiv a b)
def i64mod (a b : Int) : Int := Int.tmod a b

/-- JVM `a / b` on `Int`: truncation toward zero -/
def idiv (a b : Int) : Int := Int.tdiv a b
/-- JVM `a % b` on `Int`: sign of the dividend -/
def imod (a b : Int) : Int := Int.tmod a b

/-! ## `LazyList[Double]` as a fuel-truncated `List`

`p #:: f(i ± 2, e)` is unfolded `fuel` times. The two streams of `LeveneHaldane.apply` are identically zero beyond the
support (a factor `nA - nAB`, resp. `nAB * (nAB - 1)`, vanishes), so with `fuel = lhFuel nA` every `takeWhile(_ > c)`,
`c ≥ 0`, every `slice` and every index the class performs sees the same elements as on the infinite stream
(proved for the exact model: `Proofs/StatsLH.lean`, `pRU_zero_beyond`, `pLU_zero_beyond`). -/

def unfold {α : Type} (step : Int → α → Int × α) : Nat → Int → α → List α
  | 0, _, _ => []
  | k + 1, i, p => p :: unfold step k (step i p).1 (step i p).2

def lhFuel (nA : Int) : Nat := nA.toNat / 2 + 3

/-- `s(i)`; beyond the fuel the stream is zero (see above); a negative index does not occur under the guards of the callers -/
def idx {α : Type} [OfNat α 0] (l : List α) (i : Int) : α := l.getD i.toNat 0

/-- `arr(i)` on an `Array[Int]` -/
def idxI (l : List Int) (i : Int) : Int := l.getD i.toNat 0

/-- `s.slice(from, until)` (negative bounds are clipped to 0, as in Scala) -/
def slice {α : Type} (l : List α) (a b : Int) : List α := (l.take b.toNat).drop a.toNat

/-- `.sum`: left fold from zero, the order Scala uses -/
def sumL {α : Type} [Add α] [OfNat α 0] (l : List α) : α := l.foldl (· + ·) 0

/-- `.max` of a non-empty `Array[Double]` (left fold with `math.max`) -/
def maxL {α : Type} (mx : α → α → α) (z : α) : List α → α
  | [] => z
  | x :: xs => xs.foldl mx x

/-- `.zipWithIndex` -/
def zipWithIndex {α : Type} (l : List α) : List (α × Int) := l.zipIdx.map fun p => (p.1, (p.2 : Int))

/-- `(lo to hi).toArray` -/
def rangeIncl (lo hi : Int) : List Int := (List.range (hi + 1 - lo).toNat).map fun (i : Nat) => lo + (i : Int)

/-! ## exact domain -/

def absQ (a : Rat) : Rat := if a < 0 then -a else a
/-- `x.toInt` / `x.toLong` on a Double in the exact model: truncation toward zero (no saturation: unbounded `Int`) -/
def truncQ (x : Rat) : Int := if x < 0 then -((-x).floor) else x.floor
def floorQ (x : Rat) : Rat := (x.floor : Int)
def ceilQ (x : Rat) : Rat := (-((-x).floor) : Int)
/-- `math.round(x)` = ⌊x + 1/2⌋ -/
def roundQ (x : Rat) : Int := (x + 1 / 2).floor

/-! ## IEEE double domain -/

def posInf : Float := 1.0 / 0.0
def nanF : Float := 0.0 / 0.0

/-- `math.max` on doubles (NaN if either is NaN) -/
def fmax (a b : Float) : Float := if a.isNaN then a else if b.isNaN then b else if a < b then b else a

/-- `math.min` on doubles (NaN if either is NaN) -/
def fmin (a b : Float) : Float := if a.isNaN then a else if b.isNaN then b else if b < a then b else a

/-- truncation toward zero of a finite double as an exact integer -/
def truncF (x : Float) : Int :=
  let t := if x < 0.0 then x.ceil else x.floor
  let b := t.abs.toBits.toNat
  let e := (b / 2 ^ 52) % 2048
  let m := b % 2 ^ 52
  let mag : Nat := if e = 0 then 0 else if e ≥ 1075 then (m + 2 ^ 52) * 2 ^ (e - 1075) else (m + 2 ^ 52) / 2 ^ (1075 - e)
  if x < 0.0 then -(mag : Int) else (mag : Int)

/-- JVM `d.toInt`: NaN ↦ 0, saturating at Int.MinValue / Int.MaxValue, otherwise truncation toward zero -/
def dblToInt32 (x : Float) : Int :=
  if x.isNaN then 0 else if x ≥ 2147483647.0 then 2147483647 else if x ≤ -2147483648.0 then -2147483648 else truncF x
/-- JVM `d.toLong` -/
def dblToInt64 (x : Float) : Int :=
  if x.isNaN then 0 else if x ≥ 9223372036854775807.0 then 9223372036854775807 else if x ≤ -9223372036854775808.0 then -9223372036854775808 else truncF x

/-- `math.round(x)`: ⌊x + 1/2⌋ computed without the rounding of `x + 0.5` (`x - floor x` is exact); NaN ↦ 0 as in Java.
Only called on values of magnitude far below 2^63. -/
def roundF (x : Float) : Int :=
  if x.isNaN then 0 else
  let f := x.floor
  let r := if x - f >= 0.5 then f + 1.0 else f
  r.toInt64.toInt

/-! ## the pinned `dnhyper` of `fisherExactTest`

Scala (pinned verbatim by the translator):
```
val logdc = support.map(dhyper(_, logProb = true))
def dnhyper(ncp: Double): Array[Double] = {
  var d = logdc.zipWithIndex.map { case (hr, i) => hr + math.log(ncp) * i }
  d = d.map(dens => math.exp(dens - d.max))
  d.map(_ / d.sum)
}
```
-/

/-- Float: operation by operation as the Scala -/
def dnhyperF (logPmf : Int → Float) (lo hi : Int) (ncp : Float) : List Float :=
  let logdc := (rangeIncl lo hi).map logPmf
  let lg := Float.log ncp
  let d1 := (zipWithIndex logdc).map fun p => p.1 + lg * Float.ofInt p.2
  let mx := maxL fmax nanF d1
  let d2 := d1.map fun dens => Float.exp (dens - mx)
  let s := sumL d2
  d2.map fun x => x / s

/-- exact meaning: `exp(log pmf(k) + log(ncp)·i − M)` is `pmf(k)·ncp^i / e^M`; the common factor cancels in `_ / d.sum` -/
def dnhyperQ (pmf : Int → Rat) (lo hi : Int) (ncp : Rat) : List Rat :=
  let d := (zipWithIndex ((rangeIncl lo hi).map pmf)).map fun p => p.1 * ncp ^ p.2.toNat
  let s := sumL d
  d.map fun x => x / s

end HailVerif.StatsLib

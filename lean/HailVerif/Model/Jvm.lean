/-!
# JVM `Int` operations used by the Scala → Lean translator (`harness/extract/scala_call.py`)

A Scala/JVM `Int` is a `BitVec 32` (two's complement, wrap-around arithmetic — JLS §15.17–15.22).
These are the only primitive operations the translator emits; their reading of the JVM is part of
the trusted base of C34 (the engine is never run).
-/
namespace HailVerif.Jvm

abbrev I32 := BitVec 32

/-- `a < b` on `Int` is the signed comparison -/
def lt (a b : I32) : Bool := a.slt b
def le (a b : I32) : Bool := a.sle b
def gt (a b : I32) : Bool := b.slt a
def ge (a b : I32) : Bool := b.sle a
def eq (a b : I32) : Bool := a == b
def ne (a b : I32) : Bool := a != b

/-- `a << n`, `a >>> n`, `a >> n` with a literal distance; the JVM uses the low five bits of the distance -/
def shl (a : I32) (n : Nat) : I32 := a <<< (n % 32)
def ushr (a : I32) (n : Nat) : I32 := a >>> (n % 32)
def sshr (a : I32) (n : Nat) : I32 := a.sshiftRight (n % 32)

/-- `a / d` for a literal non-zero divisor: truncating signed division (`idiv`) -/
def divLit (a d : I32) : I32 := a.sdiv d

/-- `RichBoolean.toInt`: `if (b) 1 else 0` -/
def boolToInt (b : Bool) : I32 := if b then 1#32 else 0#32

/-- The floating-point step of `Genotype.allelePairSqrt`, `(Math.sqrt(r) / 2 - 0.5).toInt`, read in exact arithmetic.
`r` is the radicand as the translator computes it: `Int` sub-expressions are evaluated in wrapping 32-bit arithmetic and
widened to `Double` exactly where the Scala static types put the widening; the `Double` part (integer-valued operands far
below `2^53`) is exact and carried as a Lean `Int`. A negative radicand gives `sqrt = NaN` and `NaN.toInt = 0`.
Agreement of the IEEE-754 `sqrt` / division / truncation with the exact value for `r < 2^32` is an assumption (the Python
twin of this expression is compared against the exact value on every boundary). -/
def triRootR (r : Int) : I32 :=
  if r < 0 then 0#32 else BitVec.ofNat 32 ((Nat.sqrt r.toNat - 1) / 2)

/-- `arr(i)`: `ArrayIndexOutOfBoundsException` outside `[0, length)` -/
def index (arr : List I32) (i : I32) : Option I32 := if i.slt 0#32 then none else arr[i.toNat]?

/-- `arr.length` (tables here are far shorter than `2^31`) -/
def length (arr : List I32) : I32 := BitVec.ofNat 32 arr.length

/-- `Array(e₁, …, eₙ)` whose elements may throw while being evaluated -/
def array (es : List (Option I32)) : Option (List I32) := es.mapM id

end HailVerif.Jvm

import HailVerif.Model.StatsLib
/-!
# StatsSpec — the mathematical definitions property C37 refers to

Closed forms over `Nat`/`Rat`, written to be read, not to be fast (`Driver/C37.lean` evaluates them on small inputs only; the
harness re-computes every one of them independently in Python with `fractions.Fraction` / `math.comb`).

* Levene–Haldane distribution of the number of heterozygotes `k` among `n` individuals carrying `nA` minor alleles:
  `P(k) = n! nA! nB! 2^k / (((nA-k)/2)! k! ((nB-k)/2)! (2n)!)`, `nB = 2n - nA`, on `k ≤ nA`, `k ≡ nA (mod 2)`
* hypergeometric distribution `P(k) = C(m,k) C(N-m, n-k) / C(N,n)` (Fisher's exact test on a 2×2 table)
* Pearson's chi-squared statistic of a 2×2 table `Σ (O-E)²/E`
* the p-values built from them (one-sided, mid-p, two-sided "as or less probable")
-/
namespace HailVerif.StatsSpec
open HailVerif.StatsLib

def fact : Nat → Nat
  | 0 => 1
  | n + 1 => (n + 1) * fact n

/-- binomial coefficient `n! / (k! (n-k)!)`, zero for `k > n` -/
def choose (n k : Nat) : Nat := if k ≤ n then fact n / (fact k * fact (n - k)) else 0

/-- "within practical ranges": `N` = total of the counts handed to a test. Every `Int` intermediate of the translated code (sums of
counts, `2n - nA`, `2n + 3`, `nB - nAB + 2`, …) is bounded by `2N + 3`, so under this condition the exact model's unbounded `Int` is the
JVM's 32-bit `Int`. (The Float model that is tested wraps like the JVM; see `Generated.ScalaStats.intArith` for the inventory.) -/
def int32Safe (N : Nat) : Prop := 2 * N + 3 < 2 ^ 31

/-- sum of `f k` over the integers `lo ≤ k ≤ hi` -/
def sumRange (lo hi : Int) (f : Int → Rat) : Rat := ((rangeIncl lo hi).map f).sum

/-! ## Levene–Haldane -/

/-- `k` is a possible number of heterozygotes: `0 ≤ k ≤ nA`, same parity as `nA` -/
def lhSupp (nA : Nat) (k : Int) : Prop := 0 ≤ k ∧ k ≤ nA ∧ k % 2 = (nA : Int) % 2

instance (nA : Nat) (k : Int) : Decidable (lhSupp nA k) := by unfold lhSupp; infer_instance

/-- unnormalised weight `2^k / (((nA-k)/2)! k! ((nB-k)/2)!)`, zero off the support -/
def lhWeight (nA nB : Nat) (k : Int) : Rat :=
  if lhSupp nA k then
    (2 : Rat) ^ k.toNat / ((fact ((nA - k.toNat) / 2) : Rat) * (fact k.toNat : Rat) * (fact ((nB - k.toNat) / 2) : Rat))
  else 0

/-- the Levene–Haldane probability mass function in closed form (`nA ≤ n` is the minor-allele count) -/
def lhPmf (n nA : Nat) (k : Int) : Rat :=
  lhWeight nA (2 * n - nA) k * ((fact n : Rat) * (fact nA : Rat) * (fact (2 * n - nA) : Rat)) / (fact (2 * n) : Rat)

/-- P(X ≤ k) -/
def lhCdf (n nA : Nat) (k : Int) : Rat := sumRange 0 k (lhPmf n nA)
/-- P(X > k) -/
def lhSf (n nA : Nat) (k : Int) : Rat := sumRange (k + 1) nA (lhPmf n nA)
/-- one-sided mid-p (excess heterozygosity): P(X > k) + ½ P(X = k) -/
def lhRightMidP (n nA : Nat) (k : Int) : Rat := lhSf n nA k + 1 / 2 * lhPmf n nA k
/-- P(X ≤ k) − ½ P(X = k) -/
def lhLeftMidP (n nA : Nat) (k : Int) : Rat := lhCdf n nA k - 1 / 2 * lhPmf n nA k
/-- two-sided exact mid-p: outcomes strictly less probable than `k` count fully, equally probable ones (including `k`) half -/
def lhExactMidP (n nA : Nat) (k : Int) : Rat :=
  sumRange 0 nA fun j =>
    if lhPmf n nA j < lhPmf n nA k then lhPmf n nA j else if lhPmf n nA j = lhPmf n nA k then 1 / 2 * lhPmf n nA j else 0
/-- mean `nA nB / (2n - 1)`; `het_freq_hwe` is this divided by `n` -/
def lhMean (n nA : Nat) : Rat := (nA : Rat) * ((2 * n - nA : Nat) : Rat) / ((2 * (n : Int) - 1 : Int) : Rat)

/-- genotype counts → (n, nA): `n` individuals, `nA` copies of the rarer allele -/
def hweN (nHomRef nHet nHomVar : Nat) : Nat := nHomRef + nHet + nHomVar
def hweNA (nHomRef nHet nHomVar : Nat) : Nat := nHet + 2 * min nHomRef nHomVar

/-! ## hypergeometric / Fisher (table `a b / c d`; population `N = a+b+c+d`, successes `m = a+c`, draws `n = a+b`, observed `a`) -/

def hyperLo (N m n : Nat) : Int := max 0 ((n : Int) + m - N)
def hyperHi (_N m n : Nat) : Int := min (n : Int) m

def hyperPmf (N m n : Nat) (k : Int) : Rat :=
  if hyperLo N m n ≤ k ∧ k ≤ hyperHi N m n then
    ((choose m k.toNat : Rat) * (choose (N - m) (n - k.toNat) : Rat)) / (choose N n : Rat)
  else 0

/-- P(X ≤ k) -/
def hyperCdf (N m n : Nat) (k : Int) : Rat := sumRange (hyperLo N m n) k (hyperPmf N m n)
/-- P(X ≥ k) -/
def hyperUpper (N m n : Nat) (k : Int) : Rat := sumRange k (hyperHi N m n) (hyperPmf N m n)
/-- two-sided: total probability of the outcomes that are at most as probable as the observed one -/
def fisherTwoSided (N m n : Nat) (x : Int) : Rat :=
  sumRange (hyperLo N m n) (hyperHi N m n) fun i => if hyperPmf N m n i ≤ hyperPmf N m n x then hyperPmf N m n i else 0

/-- the table is degenerate (some margin is zero): the tests are undefined, the engine answers NaN -/
def degenerate (a b c d : Nat) : Prop := a + b = 0 ∨ c + d = 0 ∨ a + c = 0 ∨ b + d = 0

/-- the library parameter of the translated functions, instantiated by the definitions above
(`chisq` stays a parameter: the chi-squared tail function is transcendental) -/
def libQ (chisq : Rat → Rat → Rat) (normCdf : Rat → Rat := id) (sqrt : Rat → Rat := id) : Lib Rat where
  hyperLogPmf := fun _ _ => 0          -- only reachable through the pinned `dnhyper`, which is given its meaning directly
  hyperPmf := fun h k => hyperPmf h.popSize.toNat h.nSuccess.toNat h.sampleSize.toNat k
  hyperCdf := fun h k => hyperCdf h.popSize.toNat h.nSuccess.toNat h.sampleSize.toNat k
  hyperUpper := fun h k => hyperUpper h.popSize.toNat h.nSuccess.toNat h.sampleSize.toNat k
  chisqTail := chisq
  normCdf := normCdf
  sqrt := sqrt
  dnhyper := fun h lo hi ncp => dnhyperQ (hyperPmf h.popSize.toNat h.nSuccess.toNat h.sampleSize.toNat) lo hi ncp

/-! ## Pearson chi-squared -/

/-- `(O - E)² / E` -/
def cell (o e : Rat) : Rat := (o - e) ^ 2 / e

/-- Pearson's statistic of the 2×2 table `a b / c d`: expected count of a cell = row total × column total / N -/
def pearson (a b c d : Rat) : Rat :=
  let N := a + b + c + d
  cell a ((a + b) * (a + c) / N) + cell b ((a + b) * (b + d) / N) + cell c ((c + d) * (a + c) / N) + cell d ((c + d) * (b + d) / N)

end HailVerif.StatsSpec

import HailVerif.Generated.Machines
/-
Model of job billing:

* `batch/batch/instance_config.py`            InstanceConfig.quantified_resources (worker_fraction_in_1024ths), is_power_two
* `batch/batch/resources.py`                  the resource mixins' `to_quantified_resource`
* `batch/batch/cloud/gcp/resources.py`        GCP resources: to_dict / from_dict / gcp_resource_from_dict, dynamic disk, accelerator
* `batch/batch/cloud/azure/resources.py`      Azure resources, `azure_disk_from_storage_in_gib` (azure/resource_utils.py)
* `batch/batch/cloud/{gcp,azure}/instance_config.py`  to_dict / from_dict of the slim instance configs
* `batch/batch/cloud/terra/azure/instance_config.py` TerraAzureSlimInstanceConfig.from_dict / to_dict

Quantities are `Nat`.  A Python `assert` / `KeyError` is the explicit outcome `err` / `none`.
Resource names are opaque strings (they come from `ProductVersions`, which is not modelled).
-/
namespace HailVerif.Billing
open HailVerif.Generated.Machines

/-- `Resource` subclasses, with the fields they keep -/
inductive Resource where
  | compute (name : String)                 -- GCPComputeResource                      (ComputeResourceMixin)
  | memory (name : String)                  -- GCPMemoryResource                       (MemoryResourceMixin)
  | staticDisk (name : String) (gib : Nat)  -- GCPStaticSizedDiskResource              (StaticSizedDiskResourceMixin)
  | localSsd (name : String) (gib : Nat)    -- GCPLocalSSDStaticSizedDiskResource      (StaticSizedDiskResourceMixin)
  | gcpDynamicDisk (name : String)          -- GCPDynamicSizedDiskResource
  | ipFee (name : String)                   -- GCPIPFeeResource                        (IPFeeResourceMixin)
  | serviceFee (name : String)              -- GCPServiceFeeResource                   (ServiceFeeResourceMixin)
  | supportFees (name : String)             -- GCPSupportLogsSpecsAndFirewallFees
  | accelerator (name : String) (number : Nat)  -- GCPAcceleratorResource              (VMResourceMixin × number)
  | azStaticDisk (name : String) (gib : Nat)    -- AzureStaticSizedDiskResource        (StaticSizedDiskResourceMixin)
  | azDynamicDisk (diskType location : String) (versions : List (String × String))  -- AzureDynamicSizedDiskResource
  | azVm (name : String)                    -- AzureVMResource                         (VMResourceMixin)
  | azServiceFee (name : String)            -- AzureServiceFeeResource                 (ServiceFeeResourceMixin)
  | azIpFee (name : String)                 -- AzureIPFeeResource                      (IPFeeResourceMixin)
deriving Repr, DecidableEq

/-- outcome of `to_quantified_resource` -/
inductive Q where
  | err                                  -- assert / KeyError
  | skip                                 -- `None`: not billed
  | bill (name : String) (quantity : Nat)
deriving Repr, DecidableEq

/-- `azure_disk_from_storage_in_gib(disk_type, gib)`: first disk (ascending size) with size ≥ gib -/
def azureDiskFor (diskType : String) (gib : Nat) : Option (String × Nat) :=
  match azureDisks.lookup diskType with
  | none => none
  | some disks => disks.find? (fun d => gib ≤ d.2)

/-- `worker_fraction_in_1024ths = 1024 * cpu_in_mcpu // (self.cores * 1000)` -/
def workerFraction (cpu cores : Nat) : Nat := 1024 * cpu / (cores * 1000)

/-- `resource.to_quantified_resource(cpu_in_mcpu, memory_in_bytes, worker_fraction_in_1024ths, external_storage_in_gib)` -/
def Resource.quantify (r : Resource) (cpu mem wf ext : Nat) : Q :=
  match r with
  | .compute n | .serviceFee n | .supportFees n | .azServiceFee n => .bill n cpu
  | .memory n => .bill n (mem / 1024 / 1024)
  | .staticDisk n g | .localSsd n g | .azStaticDisk n g => .bill n (g * wf)
  | .ipFee n | .azIpFee n | .azVm n => .bill n wf
  | .accelerator n k => .bill n (k * wf)
  | .gcpDynamicDisk n => if ext = 0 then .skip else .bill n (ext * 1024)
  | .azDynamicDisk dt _ versions =>
    if ext = 0 then .skip
    else match azureDiskFor dt ext with
      | none => .err                       -- `assert disk`
      | some (dname, size) =>
        match versions.lookup dname with
        | none => .err                     -- KeyError
        | some rname => .bill rname (size * 1024)

/-- `is_power_two` -/
def isPowerTwo (n : Nat) : Bool := (n &&& (n - 1) == 0) && n != 0

inductive Cloud where
  | gcp | azure
deriving Repr, DecidableEq

/-- the slim instance config: constructor arguments + what `__init__` derives from the machine table -/
structure Config where
  cloud : Cloud
  machineType : String
  preemptible : Bool
  localSsd : Bool
  dataDiskGb : Nat
  bootDiskGb : Nat
  jobPrivate : Bool
  resources : List Resource
  cores : Nat          -- machine_type_parts.cores
  memory : Nat         -- machine_type_parts.memory  (instance_memory())
deriving Repr, DecidableEq

def machineCoresMem : Cloud → String → Option (Nat × Nat)
  | .gcp, mt => (gcpMachineTypes.lookup mt).map fun x => (x.2.2.1, x.2.2.2.1)
  | .azure, mt => (azureMachineTypes.lookup mt).map fun x => (x.2.1, x.2.2)

/-- `GCPSlimInstanceConfig(...)` / `AzureSlimInstanceConfig(...)`: `none` = `assert machine_type_parts` -/
def Config.mk? (cloud : Cloud) (machineType : String) (preemptible localSsd : Bool) (dataDiskGb bootDiskGb : Nat)
    (jobPrivate : Bool) (resources : List Resource) : Option Config :=
  (machineCoresMem cloud machineType).map fun cm =>
    ⟨cloud, machineType, preemptible, localSsd, dataDiskGb, bootDiskGb, jobPrivate, resources, cm.1, cm.2⟩

/-- collect the bills, `none` if any resource errs -/
def collect : List Q → Option (List (String × Nat))
  | [] => some []
  | .err :: _ => none
  | .skip :: qs => collect qs
  | .bill n q :: qs => (collect qs).map ((n, q) :: ·)

/-- `InstanceConfig.quantified_resources(cpu_in_mcpu, memory_in_bytes, extra_storage_in_gib)`; `none` = an assert fired -/
def Config.quantifiedResources (c : Config) (cpu mem ext : Nat) : Option (List (String × Nat)) :=
  if mem % (1024 * 1024) ≠ 0 then none
  else if ¬ c.jobPrivate ∧ ¬ (isPowerTwo c.cores ∧ c.cores ≤ 256) then none
  else
    let wf := workerFraction cpu c.cores
    collect (c.resources.map fun r => r.quantify cpu mem wf ext)

/-! ### serialization -/

/-- a resource dict as stored in the database (JSON object); `none` = key absent -/
structure RDict where
  typ : String
  name : Option String := none
  storageInGib : Option Nat := none
  number : Option Nat := none
  version : Option Nat := none          -- key 'version'
  formatVersion : Option Nat := none    -- key 'format_version'
  diskType : Option String := none
  location : Option String := none
  latestDiskVersions : Option (List (String × String)) := none
deriving Repr, DecidableEq

/-- `Resource.to_dict()` -/
def Resource.toDict : Resource → RDict
  | .compute n => { typ := "gcp_compute", name := n, formatVersion := some 1 }
  | .memory n => { typ := "gcp_memory", name := n, formatVersion := some 1 }
  | .staticDisk n g => { typ := "gcp_static_sized_disk", name := n, storageInGib := g, version := some 1 }
  | .localSsd n g => { typ := "gcp_local_ssd_static_sized_disk", name := n, storageInGib := g, version := some 1 }
  | .gcpDynamicDisk n => { typ := "gcp_dynamic_sized_disk", name := n, version := some 1 }
  | .ipFee n => { typ := "gcp_ip_fee", name := n, formatVersion := some 1 }
  | .serviceFee n => { typ := "gcp_service_fee", name := n, formatVersion := some 1 }
  | .supportFees n => { typ := "gcp_support_logs_specs_and_firewall_fees", name := n, formatVersion := some 1 }
  | .accelerator n k => { typ := "gcp_accelerator", name := n, formatVersion := some 2, number := k }
  | .azStaticDisk n g => { typ := "azure_static_sized_disk", name := n, storageInGib := g, formatVersion := some 1 }
  | .azDynamicDisk dt loc vs =>
    { typ := "azure_dynamic_sized_disk", diskType := dt, location := loc, latestDiskVersions := vs, formatVersion := some 1 }
  | .azVm n => { typ := "azure_vm", name := n, formatVersion := some 1 }
  | .azServiceFee n => { typ := "azure_service_fee", name := n, formatVersion := some 1 }
  | .azIpFee n => { typ := "azure_ip_fee", name := n, formatVersion := some 1 }

/-- `gcp_resource_from_dict`; `none` = assert / KeyError -/
def gcpResourceFromDict (d : RDict) : Option Resource :=
  if d.typ = "gcp_static_sized_disk" then do some (.staticDisk (← d.name) (← d.storageInGib))
  else if d.typ = "gcp_dynamic_sized_disk" then do some (.gcpDynamicDisk (← d.name))
  else if d.typ = "gcp_local_ssd_static_sized_disk" then do some (.localSsd (← d.name) (← d.storageInGib))
  else if d.typ = "gcp_compute" then do some (.compute (← d.name))
  else if d.typ = "gcp_memory" then do some (.memory (← d.name))
  else if d.typ = "gcp_service_fee" then do some (.serviceFee (← d.name))
  else if d.typ = "gcp_accelerator" then do
    let fv ← d.formatVersion
    if fv = 1 then some (.accelerator (← d.name) 1)          -- version 1 assumed only one accelerator
    else if fv = 2 then some (.accelerator (← d.name) (← d.number))
    else none
  else if d.typ = "gcp_ip_fee" then do some (.ipFee (← d.name))
  else if d.typ = "gcp_support_logs_specs_and_firewall_fees" then do some (.supportFees (← d.name))
  else none

/-- `azure_resource_from_dict` -/
def azureResourceFromDict (d : RDict) : Option Resource :=
  if d.typ = "azure_static_sized_disk" then do some (.azStaticDisk (← d.name) (← d.storageInGib))
  else if d.typ = "azure_dynamic_sized_disk" then do
    some (.azDynamicDisk (← d.diskType) (← d.location) (← d.latestDiskVersions))
  else if d.typ = "azure_vm" then do some (.azVm (← d.name))
  else if d.typ = "azure_service_fee" then do some (.azServiceFee (← d.name))
  else if d.typ = "azure_ip_fee" then do some (.azIpFee (← d.name))
  else none

/-- the instance-config dict -/
structure CDict where
  version : Nat
  cloud : Cloud
  machineType : String
  preemptible : Bool
  localSsd : Bool
  dataDiskGb : Nat
  bootDiskGb : Nat
  jobPrivate : Bool
  resources : Option (List RDict)
deriving Repr, DecidableEq

/-- `to_dict()` -/
def Config.toDict (c : Config) : CDict :=
  { version := match c.cloud with | .gcp => gcpInstanceConfigVersion | .azure => azureInstanceConfigVersion
    cloud := c.cloud, machineType := c.machineType, preemptible := c.preemptible, localSsd := c.localSsd,
    dataDiskGb := c.dataDiskGb, bootDiskGb := c.bootDiskGb, jobPrivate := c.jobPrivate,
    resources := some (c.resources.map Resource.toDict) }

/-- `GCPSlimInstanceConfig.from_dict` / `AzureSlimInstanceConfig.from_dict` -/
def Config.fromDict (d : CDict) : Option Config :=
  match d.cloud with
  | .gcp =>
    if d.version ≠ gcpInstanceConfigVersion then none
    else match d.resources with
      | none => none
      | some rs => do
        let res ← rs.mapM gcpResourceFromDict
        Config.mk? .gcp d.machineType d.preemptible d.localSsd d.dataDiskGb d.bootDiskGb d.jobPrivate res
  | .azure =>
    match d.resources with
    | none =>
      if d.version ≠ 1 then none
      else Config.mk? .azure d.machineType d.preemptible d.localSsd d.dataDiskGb d.bootDiskGb d.jobPrivate []
    | some rs => do
      let res ← rs.mapM azureResourceFromDict
      Config.mk? .azure d.machineType d.preemptible d.localSsd d.dataDiskGb d.bootDiskGb d.jobPrivate res

/-- `TerraAzureSlimInstanceConfig.from_dict` (batch/batch/cloud/terra/azure/instance_config.py): `data.get('resources', [])`,
no version check; the extra `resource_id` is an opaque string that billing never reads (not modelled).  Its `to_dict` is the azure
one plus `resource_id`. -/
def Config.fromDictTerra (d : CDict) : Option Config :=
  match d.resources with
  | none => Config.mk? .azure d.machineType d.preemptible d.localSsd d.dataDiskGb d.bootDiskGb d.jobPrivate []
  | some rs => do
    let res ← rs.mapM azureResourceFromDict
    Config.mk? .azure d.machineType d.preemptible d.localSsd d.dataDiskGb d.bootDiskGb d.jobPrivate res

/-- resources a gcp / azure config may hold (what `create` and `*_resource_from_dict` produce) -/
def Resource.isGcp : Resource → Bool
  | .compute _ | .memory _ | .staticDisk _ _ | .localSsd _ _ | .gcpDynamicDisk _ | .ipFee _ | .serviceFee _ | .supportFees _
  | .accelerator _ _ => true
  | _ => false

def Resource.isDynamicDisk : Resource → Bool
  | .gcpDynamicDisk _ | .azDynamicDisk _ _ _ => true
  | _ => false

end HailVerif.Billing

/-!
# Model for C29 — post-login `next` URL validation (auth service) and the browser that follows it

Python half (tied to the code by the correspondence check `harness/props/c29.py`):
* `pyNetloc`      — CPython 3.12 `urllib.parse.urlsplit(url).netloc` (= `urlparse(url).netloc`), Lib/urllib/parse.py
* `externalUrl`   — `hailtop.config.deploy_config.DeployConfig.external_url`
* `validate`      — `auth/auth/auth.py: validate_next_page_url` (`validateOld`: the same before the scheme test was added)

Browser half (a transcription of the WHATWG URL Standard "basic URL parser" restricted to what decides the
scheme/host/port of the result, with the base URL `https://<auth host>/…` the redirect response is resolved
against; and of the Fetch Standard rule that a redirect `Location` whose scheme is not http(s) is a network error):
* `browserDest`

Strings are lists of code points (`List Char`); character classes are stated on `Char.toNat`.
-/
namespace HailVerif.NextUrl

abbrev Str := List Char

/-! ## character classes -/
/-- C0 control or space (U+0000 … U+0020): `_WHATWG_C0_CONTROL_OR_SPACE` / WHATWG "C0 control or space" -/
def isC0Space (c : Char) : Bool := c.toNat ≤ 0x20
/-- ASCII tab or newline: `_UNSAFE_URL_BYTES_TO_REMOVE = ['\t', '\r', '\n']` -/
def isTabNl (c : Char) : Bool := c.toNat == 0x09 || c.toNat == 0x0A || c.toNat == 0x0D
def isLowerA (c : Char) : Bool := 0x61 ≤ c.toNat && c.toNat ≤ 0x7A
def isUpperA (c : Char) : Bool := 0x41 ≤ c.toNat && c.toNat ≤ 0x5A
def isAlpha (c : Char) : Bool := isLowerA c || isUpperA c
def isDigit (c : Char) : Bool := 0x30 ≤ c.toNat && c.toNat ≤ 0x39
/-- `scheme_chars` (letters, digits, `+-.`) = WHATWG scheme state "ASCII alphanumeric, +, -, ." -/
def isSchemeChar (c : Char) : Bool := isAlpha c || isDigit c || c.toNat == 0x2B || c.toNat == 0x2D || c.toNat == 0x2E
def isColon (c : Char) : Bool := c.toNat == 0x3A
def isSlash (c : Char) : Bool := c.toNat == 0x2F
def isBackslash (c : Char) : Bool := c.toNat == 0x5C
def isAt (c : Char) : Bool := c.toNat == 0x40
def isDot (c : Char) : Bool := c.toNat == 0x2E
/-- `/`, `?`, `#`: the delimiters `_splitnetloc` looks for -/
def isNetlocEnd (c : Char) : Bool := c.toNat == 0x2F || c.toNat == 0x3F || c.toNat == 0x23
/-- end of the authority for a special scheme: `/`, `?`, `#`, `\` (or end of input) -/
def isAuthEnd (c : Char) : Bool := isNetlocEnd c || isBackslash c
/-- ASCII lower-casing (`str.lower()` restricted to ASCII input; WHATWG "ASCII lowercase") -/
def lower (c : Char) : Char := if isUpperA c then Char.ofNat (c.toNat + 32) else c

/-! ## CPython 3.12 `urlsplit(...).netloc` -/

/-- what the real `urlparse(url).netloc` can do. `exotic`: the netloc contains `[`, `]` or a non-ASCII character — CPython then
either raises `ValueError` (bracket / IPv6 / NFKC checks, which need `ipaddress` and Unicode tables and are not modelled) or
returns that netloc; in both cases the result is not an ASCII bracket-free string. -/
inductive PyNetloc where
  | ok (netloc : Str)
  | exotic
deriving DecidableEq, Repr

/-- `url = url.lstrip(_WHATWG_C0_CONTROL_OR_SPACE)`; `for b in _UNSAFE_URL_BYTES_TO_REMOVE: url = url.replace(b, "")` -/
def pyPre (s : Str) : Str := (s.dropWhile isC0Space).filter (fun c => !isTabNl c)

/-- scheme detection of `urlsplit`:
```
i = url.find(':')
if i > 0 and url[0].isascii() and url[0].isalpha():
    for c in url[:i]:
        if c not in scheme_chars: break
    else: scheme, url = url[:i].lower(), url[i+1:]
``` -/
def pySchemeSplit (u : Str) : Option Str × Str :=
  match u with
  | [] => (none, [])
  | c :: _ =>
    let pre := u.takeWhile (fun c => !isColon c)
    if pre.length < u.length && isAlpha c && pre.all isSchemeChar then
      (some (pre.map lower), u.drop (pre.length + 1))
    else (none, u)

def isExoticChar (c : Char) : Bool := c.toNat == 0x5B || c.toNat == 0x5D || c.toNat ≥ 0x80

/-- `if url[:2] == '//': netloc, url = _splitnetloc(url, 2)` followed by the bracket checks and `_checknetloc` -/
def pyNetlocOfRest (r : Str) : PyNetloc :=
  match r with
  | c1 :: c2 :: t =>
    if isSlash c1 && isSlash c2 then
      let n := t.takeWhile (fun c => !isNetlocEnd c)
      if n.any isExoticChar then .exotic else .ok n
    else .ok []
  | _ => .ok []

def pyScheme (s : Str) : Option Str := (pySchemeSplit (pyPre s)).1

def pyNetloc (s : Str) : PyNetloc := pyNetlocOfRest (pySchemeSplit (pyPre s)).2

/-! ## deploy config and `validate_next_page_url` -/

/-- `DeployConfig._domain`, `DeployConfig._base_path` -/
structure DeployCfg where
  domain : Str
  basePath : Option Str
deriving DecidableEq, Repr

def httpsPrefix : Str := ['h', 't', 't', 'p', 's', ':', '/', '/']

/-- `DeployConfig.external_url(service, path)` (base_scheme = 'http') -/
def externalUrl (cfg : DeployCfg) (service path : Str) : Str :=
  match cfg.basePath with
  | none =>
    if service = ['w', 'w', 'w'] then httpsPrefix ++ cfg.domain ++ path
    else httpsPrefix ++ service ++ ['.'] ++ cfg.domain ++ path
  | some bp => httpsPrefix ++ cfg.domain ++ bp ++ ['/'] ++ service ++ path

/-- `valid_next_services = ['batch', 'auth', 'ci', 'monitoring']` -/
def validNextServices : List Str :=
  [['b', 'a', 't', 'c', 'h'], ['a', 'u', 't', 'h'], ['c', 'i'], ['m', 'o', 'n', 'i', 't', 'o', 'r', 'i', 'n', 'g']]

/-- `valid_next_domains = [urlparse(deploy_config.external_url(s, '/')).netloc for s in valid_next_services]` -/
def validNextDomains (cfg : DeployCfg) : List PyNetloc :=
  validNextServices.map fun s => pyNetloc (externalUrl cfg s ['/'])

inductive Verdict where
  | accept      -- returns normally
  | deny        -- raises (HTTPBadRequest, or the ValueError of urlparse): the request is refused
  | unmodelled  -- the deploy config's own netlocs are `exotic`: outside the model
deriving DecidableEq, Repr

def sHttp : Str := ['h', 't', 't', 'p']
def sHttps : Str := ['h', 't', 't', 'p', 's']

/-- `parsed_next_page.scheme in ('http', 'https')` -/
def schemeIsHttp (next : Str) : Bool := pyScheme next == some sHttp || pyScheme next == some sHttps

/-- `validate_next_page_url(next_page)` as of commit 46b6e6f3a:
```
parsed_next_page = urlparse(next_page)
if parsed_next_page.scheme not in ('http', 'https') or parsed_next_page.netloc not in valid_next_domains: raise HTTPBadRequest
``` -/
def validate (cfg : DeployCfg) (next : Str) : Verdict :=
  if next = [] then .deny                                   -- `if not next_page: raise HTTPBadRequest`
  else
    let vs := validNextDomains cfg
    if vs.any (· == .exotic) then .unmodelled
    else match pyNetloc next with
      | .exotic => .deny                                    -- ValueError, or a netloc that no non-exotic entry equals
      | .ok n => if schemeIsHttp next && vs.contains (.ok n) then .accept else .deny

/-- the validator BEFORE commit 46b6e6f3a: only `urlparse(next_page).netloc not in valid_next_domains` was tested -/
def validateOld (cfg : DeployCfg) (next : Str) : Verdict :=
  if next = [] then .deny
  else
    let vs := validNextDomains cfg
    if vs.any (· == .exotic) then .unmodelled
    else match pyNetloc next with
      | .exotic => .deny
      | .ok n => if vs.contains (.ok n) then .accept else .deny

/-! ## the browser: WHATWG basic URL parser (scheme, authority, host, port), base = `https://<auth host>/…` -/

/-- where a browser that follows the redirect ends up -/
inductive Dest where
  /-- an http(s) URL: the browser connects to `host` (`port = none`: the scheme's default port) -/
  | host (scheme : Str) (host : Str) (port : Option Nat)
  /-- the URL has a scheme other than http/https: Fetch "HTTP-redirect fetch": network error, nothing is loaded -/
  | blocked (scheme : Str)
  /-- the URL parser returns failure: network error -/
  | failure
  /-- the host needs IDNA (non-ASCII / `xn--` label) or IPv6 parsing, which this transcription does not contain -/
  | unmodelledHost (raw : Str)
deriving DecidableEq, Repr

/-- "Remove any leading and trailing C0 control or space from input." then "Remove all ASCII tab or newline from input." -/
def rstrip (s : Str) : Str := (s.reverse.dropWhile isC0Space).reverse
def brPre (s : Str) : Str := (rstrip (s.dropWhile isC0Space)).filter (fun c => !isTabNl c)

/-- scheme start state + scheme state: `some (scheme, rest after ':')`, or `none` = "no scheme state, start over" -/
def brScheme (b : Str) : Option (Str × Str) :=
  match b with
  | [] => none
  | c :: _ =>
    if isAlpha c then
      let pre := b.takeWhile isSchemeChar
      match b.drop pre.length with
      | d :: rest => if isColon d then some (pre.map lower, rest) else none
      | [] => none
    else none

def hexVal (c : Char) : Option Nat :=
  if isDigit c then some (c.toNat - 0x30)
  else if 0x41 ≤ c.toNat && c.toNat ≤ 0x46 then some (c.toNat - 0x41 + 10)
  else if 0x61 ≤ c.toNat && c.toNat ≤ 0x66 then some (c.toNat - 0x61 + 10)
  else none

/-- the byte encoded by `%XY` at the head of `c :: t`, if `c` is `%` and two hex digits follow -/
def pctByte (c : Char) (t : Str) : Option Nat :=
  if c.toNat == 0x25 then
    match t with
    | h1 :: h2 :: _ =>
      match hexVal h1, hexVal h2 with
      | some a, some b => some (16 * a + b)
      | _, _ => none
    | _ => none
  else none

/-- percent-decode of an ASCII string; `none` if a decoded byte is ≥ 0x80 (the result would need UTF-8 decoding + IDNA).
`skip` = number of leading characters already consumed as hex digits of a `%XY`. -/
def percentDecodeAux : Nat → Str → Option Str
  | _, [] => some []
  | k + 1, _ :: t => percentDecodeAux k t
  | 0, c :: t =>
    match pctByte c t with
    | some byte => if byte < 0x80 then (percentDecodeAux 2 t).map (Char.ofNat byte :: ·) else none
    | none => (percentDecodeAux 0 t).map (c :: ·)

def percentDecode (s : Str) : Option Str := percentDecodeAux 0 s

/-- strictly split on `.` -/
def splitDots : Str → List Str
  | [] => [[]]
  | c :: t =>
    match splitDots t with
    | [] => [[c]]   -- unreachable: splitDots never returns []
    | l :: ls => if isDot c then [] :: l :: ls else (c :: l) :: ls

def startsWithXn (l : Str) : Bool :=
  match l with
  | x :: n :: d1 :: d2 :: _ => (lower x).toNat == 0x78 && (lower n).toNat == 0x6E && d1.toNat == 0x2D && d2.toNat == 0x2D
  | _ => false

def hasXnLabel (d : Str) : Bool := (splitDots d).any startsWithXn

/-- forbidden domain code point -/
def isForbiddenDomainCp (c : Char) : Bool :=
  c.toNat ≤ 0x20 || c.toNat == 0x23 || c.toNat == 0x25 || c.toNat == 0x2F || c.toNat == 0x3A || c.toNat == 0x3C ||
  c.toNat == 0x3E || c.toNat == 0x3F || c.toNat == 0x40 || c.toNat == 0x5B || c.toNat == 0x5C || c.toNat == 0x5D ||
  c.toNat == 0x5E || c.toNat == 0x7C || c.toNat == 0x7F

def digitsVal (radix : Nat) (ds : Str) : Option Nat :=
  ds.foldl (fun acc c => match acc, hexVal c with
    | some a, some v => if v < radix then some (a * radix + v) else none
    | _, _ => none) (some 0)

/-- IPv4 number parser -/
def ipv4Number (s : Str) : Option Nat :=
  match s with
  | [] => none
  | [_] => digitsVal 10 s
  | c0 :: c1 :: t =>
    if c0.toNat == 0x30 && (c1.toNat == 0x78 || c1.toNat == 0x58) then digitsVal 16 t
    else if c0.toNat == 0x30 then digitsVal 8 (c1 :: t)
    else digitsVal 10 s

/-- "ends in a number checker" -/
def endsInNumber (d : Str) : Bool :=
  let parts := splitDots d
  let parts := if parts.getLast? == some [] then (if parts.length == 1 then [] else parts.dropLast) else parts
  match parts.getLast? with
  | none => false
  | some last => (last != [] && last.all isDigit) || (ipv4Number last).isSome

def natToStr (n : Nat) : Str := (toString n).toList

/-- IPv4 parser, serialised dotted-decimal; `none` = failure -/
def ipv4Parse (d : Str) : Option Str :=
  let parts := splitDots d
  let parts := if parts.getLast? == some [] && parts.length > 1 then parts.dropLast else parts
  if parts.length > 4 then none
  else match parts.mapM ipv4Number with
    | none => none
    | some nums =>
      match nums.getLast? with
      | none => none
      | some last =>
        let front := nums.dropLast
        if front.any (· > 255) then none
        else if last ≥ 256 ^ (5 - nums.length) then none
        else
          let v := front.zipIdx.foldl (fun acc (p : Nat × Nat) => acc + p.1 * 256 ^ (3 - p.2)) last
          some (natToStr (v / 256 ^ 3) ++ ['.'] ++ natToStr (v / 256 ^ 2 % 256) ++ ['.'] ++ natToStr (v / 256 % 256) ++ ['.'] ++
                natToStr (v % 256))

/-- result of the host parser -/
inductive HostRes where
  | ok (asciiHost : Str)
  | failure
  | unmodelled (raw : Str)     -- IPv6 literal, non-ASCII / percent-encoded non-ASCII (IDNA), `xn--` label
deriving DecidableEq, Repr

/-- host parser for a special scheme (isOpaque = false) -/
def hostParse (h : Str) : HostRes :=
  match h with
  | [] => .failure                                 -- host-missing (special scheme, empty buffer)
  | c :: _ =>
    if c.toNat == 0x5B then
      (if h.getLast? == some ']' then .unmodelled h else .failure)
    else if h.any (fun c => c.toNat ≥ 0x80) then .unmodelled h
    else match percentDecode h with
      | none => .unmodelled h
      | some d =>
        if hasXnLabel d then .unmodelled h
        else
          let a := d.map lower                    -- domain to ASCII: the standard's ASCII fast path
          if a = [] then .failure
          else if a.any isForbiddenDomainCp then .failure
          else if endsInNumber a then
            match ipv4Parse a with
            | some ip => .ok ip
            | none => .failure
          else .ok a

/-- split the host state's input at the first `:` outside `[...]` -/
def splitHostPort : Bool → Str → Str × Option Str
  | _, [] => ([], none)
  | inBr, c :: t =>
    if isColon c && !inBr then ([], some t)
    else
      let inBr' := if c.toNat == 0x5B then true else if c.toNat == 0x5D then false else inBr
      let (h, p) := splitHostPort inBr' t
      (c :: h, p)

def defaultPort (sch : Str) : Nat := if sch = ['h', 't', 't', 'p'] then 80 else 443

/-- the part of `a` after its last `@` (`none` if there is no `@`) -/
def afterLastAt (a : Str) : Option Str :=
  match a with
  | [] => none
  | c :: t =>
    match afterLastAt t with
    | some r => some r
    | none => if isAt c then some t else none

/-- port state: the characters between the host's `:` and the end of the authority -/
def portParse (sch : Str) (p : Str) : Option (Option Nat) :=
  if !p.all isDigit then none                      -- any other character: failure
  else if p = [] then some none
  else match digitsVal 10 p with
    | none => none
    | some n => if n > 65535 then none else some (if n = defaultPort sch then none else some n)

/-- authority state, host state, port state for a special scheme `sch` ∈ {http, https} -/
def authority (sch : Str) (a : Str) : Dest :=
  let auth := a.takeWhile (fun c => !isAuthEnd c)
  let hostport := match afterLastAt auth with
    | some r => r      -- credentials up to the last '@'
    | none => auth
  if (afterLastAt auth).isSome && hostport = [] then .failure      -- "atSignSeen and buffer is the empty string"
  else
    let (h, p) := splitHostPort false hostport
    match hostParse h with
    | .failure => .failure
    | .unmodelled raw => .unmodelledHost raw
    | .ok a =>
      match p with
      | none => .host sch a none
      | some p =>
        match portParse sch p with
        | none => .failure
        | some port => .host sch a port

/-- special authority ignore slashes state -/
def ignoreSlashes (sch : Str) (r : Str) : Dest :=
  authority sch (r.dropWhile (fun c => isSlash c || isBackslash c))

def isSlashLike (c : Char) : Bool := isSlash c || isBackslash c

/-- relative state / relative slash state with base `https://baseHost/…` -/
def relative (baseHost : Str) (r : Str) : Dest :=
  match r with
  | c1 :: c2 :: t =>
    if isSlashLike c1 then
      (if isSlashLike c2 then ignoreSlashes sHttps t else .host sHttps baseHost none)
    else .host sHttps baseHost none
  | _ => .host sHttps baseHost none

/-- scheme states onwards, on the pre-processed input `b` -/
def browserDestPre (baseHost : Str) (b : Str) : Dest :=
  match brScheme b with
  | none => relative baseHost b                                      -- no scheme state → relative state (base is https)
  | some (sch, rest) =>
    if sch = sHttps then
      -- special relative or authority state (scheme = base scheme)
      match rest with
      | c1 :: c2 :: t => if isSlash c1 && isSlash c2 then ignoreSlashes sch t else relative baseHost rest
      | _ => relative baseHost rest
    else if sch = sHttp then
      -- special authority slashes state (both branches end in special authority ignore slashes state)
      match rest with
      | c1 :: c2 :: t => if isSlash c1 && isSlash c2 then ignoreSlashes sch t else ignoreSlashes sch rest
      | _ => ignoreSlashes sch rest
    else .blocked sch

/-- The browser's destination for the redirect `Location: s` answered by `https://baseHost/…`. -/
def browserDest (baseHost : Str) (s : Str) : Dest := browserDestPre baseHost (brPre s)

/-! ## hosts of the deployment -/

/-- `DeployConfig.domain(service)` for the four services -/
def hailHosts (cfg : DeployCfg) : List Str :=
  match cfg.basePath with
  | none => validNextServices.map fun s => s ++ ['.'] ++ cfg.domain
  | some _ => validNextServices.map fun _ => cfg.domain

def isPlainChar (c : Char) : Bool := isLowerA c || isDigit c || c.toNat == 0x2D || c.toNat == 0x2E

/-- a lower-case DNS name: letters, digits, `-`, `.`; not IPv4-like; no punycode label -/
def plainHost (h : Str) : Bool := h != [] && h.all isPlainChar && !endsInNumber h && !hasXnLabel h

/-- the deploy configs the theorems are about: the four service hosts are plain DNS names and the base path (if any) is empty
or starts with `/` -/
def plainCfg (cfg : DeployCfg) : Bool :=
  (hailHosts cfg).all plainHost &&
  match cfg.basePath with
  | none => true
  | some [] => true
  | some (c :: _) => isSlash c


/-! ## the login / signup flow that uses the validated URL (`login`, `signup`, `callback`, `creating_account` of auth/auth/auth.py) -/

inductive Caller where
  | login | signup
deriving DecidableEq, Repr

/-- the account the OAuth identity (`login_id`) belongs to -/
inductive Account where
  | none | creating | active | inactive | deleting | deleted
deriving DecidableEq, Repr

/-- where a 302 of the flow points -/
inductive Target where
  | idp          -- the identity provider's authorization URL (`flow_data['authorization_url']`)
  | authHome     -- `deploy_config.external_url('auth', '')`
  | creatingPage -- `deploy_config.external_url('auth', '/creating')`
  | next         -- the `next` string taken from the query / the session
deriving DecidableEq, Repr

inductive Resp where
  | redirect (t : Target)
  | badRequest      -- 400 of `validate_next_page_url`
  | unauthorized    -- 401
  | page            -- a rendered page (account-error / account-creating), no redirect
  | serverError     -- an `assert` of the handler fails
deriving DecidableEq, Repr

/-- `/login` and `/signup`: `next = request.query.get('next', <auth>/user)`; `validate_next_page_url(next)`; store it in a new
session; redirect to the identity provider.  `nextOk` = the verdict of `validate` on that string. -/
def entryResp (nextOk : Bool) : Resp := if nextOk then .redirect .idp else .badRequest

/-- `/oauth2callback`.  `hasFlow`: `'flow' in session`; `nextOk`: verdict of `validate` on `session.pop('next', <auth>/user)` — the
handler validates it AGAIN, for both callers, before anything else; `signupOk`: organization matches and `insert_new_user` works. -/
def callbackResp (hasFlow : Bool) (caller : Caller) (nextOk : Bool) (acct : Account) (signupOk : Bool) : Resp :=
  if !hasFlow then .unauthorized
  else if !nextOk then .badRequest
  else match acct with
    | .none =>
      match caller with
      | .login => .redirect .authHome
      | .signup => if signupOk then .redirect .creatingPage else .redirect .authHome   -- (org mismatch: 401, folded into signupOk by the harness)
    | .deleting | .deleted | .inactive => .page
    | .creating => .redirect .creatingPage
    | .active => .redirect .next

/-- `/creating`.  `pending`: `'pending' in session`. -/
def creatingResp (pending : Bool) (nextOk : Bool) (acct : Account) : Resp :=
  if !pending then .unauthorized
  else if !nextOk then .badRequest
  else match acct with
    | .none => .redirect .authHome
    | .deleting | .deleted => .page
    | .active => .redirect .next
    | .creating => .page
    | .inactive => .serverError        -- `assert user['state'] == 'creating'`

end HailVerif.NextUrl

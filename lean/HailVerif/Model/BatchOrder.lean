/-!
# Model of the Batch DSL's job ordering and the local backend's skip logic (C17)

* `hail/python/hailtop/batch/batch.py` — `Batch._async_run`: the `schedule_job` depth-first numbering with `seen`,
  `assert len(seen) == len(self._jobs)`, the `job_index` cycle check
* `hail/python/hailtop/batch/backend.py` — `LocalBackend._async_run`: `child_jobs`, `cancelled_jobs`,
  `cancel_child_jobs`, the loop over the ordered jobs
* `hail/python/hailtop/batch/job.py` — `depends_on` / `_interpolate_command` only *build* `j._dependencies`; the model
  takes the resulting sets as data.

Jobs are `0 … n-1` in creation order (`self._jobs`).  `deps j` is `j._dependencies` **in the iteration order of the
Python set** (hash order of `Job` objects, i.e. arbitrary): every theorem holds for every order, the driver is given
the order the real run iterated in.
-/
namespace HailVerif.BatchOrder

structure Pipe where
  n : Nat
  deps : Nat → List Nat
  alwaysRun : Nat → Bool

/-- `seen` (a set: modelled as a list, membership only) and `ordered_jobs` -/
structure St where
  seen : List Nat
  ord : List Nat
deriving Repr

/-- `schedule_job(j)`. Python recursion; `fuel` bounds the depth (`n + 1` suffices: every nested call on an unseen job
marks it seen first; `Proofs/BatchOrder` shows that enough fuel never runs out on batches whose dependencies are
jobs of the batch). -/
def visit (deps : Nat → List Nat) : Nat → Nat → St → St
  | 0, _, st => st
  | fuel + 1, j, st =>
    if j ∈ st.seen then st
    else
      let st' := (deps j).foldl (fun s p => visit deps fuel p s) { st with seen := j :: st.seen }
      { st' with ord := st'.ord ++ [j] }

/-- `for j in self._jobs: schedule_job(j)` -/
def dfs (g : Pipe) : St :=
  (List.range g.n).foldl (fun s j => visit g.deps (g.n + 1) j s) ⟨[], []⟩

inductive Verdict where
  | ok (ord : List Nat)      -- `self._jobs = ordered_jobs`, `j._job_id = position` (1-based)
  | assertFail               -- `assert len(seen) == len(self._jobs)`
  | keyError                 -- `job_index[d]` for a dependency that was never numbered
  | cycle                    -- `BatchException("cycle detected in dependency graph")`
deriving Repr, DecidableEq

/-- `job_index = {j: i for i, j in enumerate(ordered_jobs, start=1)}` then lookup (a later duplicate would win) -/
def jobIndex (ord : List Nat) (j : Nat) : Option Nat :=
  (ord.zipIdx 1).foldl (fun acc p => if p.1 = j then some p.2 else acc) none

/-- inner loop `for d in j._dependencies: if job_index[d] >= i: raise` (`none` = no exception for this job) -/
def checkJob (ord : List Nat) (j : Nat) : List Nat → Option Verdict
  | [] => none
  | d :: ds =>
    match jobIndex ord d, jobIndex ord j with
    | some a, some i => if a ≥ i then some .cycle else checkJob ord j ds
    | _, _ => some .keyError

/-- the check loop: the first offending `(j, d)` in `ordered_jobs` × `j._dependencies` order decides the exception -/
def checkDeps (deps : Nat → List Nat) (ord : List Nat) : List Nat → Verdict
  | [] => .ok ord
  | j :: rest =>
    match checkJob ord j (deps j) with
    | some v => v
    | none => checkDeps deps ord rest

/-- the part of `Batch._async_run` before the backend is called -/
def accept (g : Pipe) : Verdict :=
  let st := dfs g
  if st.seen.length ≠ g.n then .assertFail
  else checkDeps g.deps st.ord st.ord

/-! ## `LocalBackend._async_run` -/

/-- `cancel_child_jobs(j)`: `child_jobs[j]` = the jobs of the batch that list `j` as a dependency -/
def cancelChildren (g : Pipe) (jobs : List Nat) (j : Nat) (cancelled : List Nat) : List Nat :=
  (jobs.filter fun c => decide (j ∈ g.deps c) && !g.alwaysRun c) ++ cancelled

/-- the loop over the ordered jobs; `fails j` = the command of `j` exits non-zero when run.
state: (`cancelled_jobs`, jobs executed so far in order) -/
def runLoop (g : Pipe) (fails : Nat → Bool) (jobs : List Nat) : List Nat → List Nat × List Nat → List Nat × List Nat
  | [], st => st
  | j :: rest, (cancelled, executed) =>
    if j ∈ cancelled then
      runLoop g fails jobs rest (cancelChildren g jobs j cancelled, executed)
    else
      let cancelled' := if fails j then cancelChildren g jobs j cancelled else cancelled
      runLoop g fails jobs rest (cancelled', executed ++ [j])

/-- executed jobs in order, and whether `raise first_exc` happens -/
def runLocal (g : Pipe) (fails : Nat → Bool) (ord : List Nat) : List Nat × Bool :=
  let r := runLoop g fails ord ord ([], [])
  (r.2, r.2.any fails)

/-! ## how a job's dependency set is built (`job.py`)

`Job.depends_on`, `Job._interpolate_command` (resources mentioned in a bash command) and `PythonJob.call`
(`handle_args(args); handle_args(kwargs)` — resources anywhere in the positional **and** keyword arguments, nested in
lists, tuples and dicts) add to `j._dependencies`. -/

/-- an argument of `PythonJob.call` as `handle_args` sees it -/
inductive Arg where
  | res (src : Option Nat)    -- a `Resource`; `r.source()` is a job of the batch or `None` (an input file)
  | seq (items : List Arg)    -- `list` or `tuple`: every element is scanned
  | dict (vals : List Arg)    -- `dict`: the `.values()` are scanned (keys are not)
  | value                     -- anything else is ignored

mutual
/-- jobs whose resources `handle_args(a)` passes to `handle_arg` -/
def Arg.sources : Arg → List Nat
  | .res (some s) => [s]
  | .res none => []
  | .seq l => sourcesList l
  | .dict l => sourcesList l
  | .value => []
def sourcesList : List Arg → List Nat
  | [] => []
  | a :: t => a.sources ++ sourcesList t
end

/-- `handle_arg`: `if source != self … if source is not None: self._dependencies.add(source)` -/
def addDeps (self : Nat) (srcs : List Nat) : List Nat := srcs.filter (· ≠ self)

/-- dependencies added by one `call(f, *args, **kwargs)`: `handle_args(args); handle_args(kwargs)` (the result
resource handled last has the job itself as source and adds nothing) -/
def callDeps (self : Nat) (args : List Arg) (kwargs : List (String × Arg)) : List Nat :=
  addDeps self (sourcesList args ++ sourcesList (kwargs.map (·.2)))

/-- what a job's statements contribute -/
structure JobDecl where
  explicit : List Nat                               -- `depends_on(*jobs)`: added as they are (also the job itself)
  cmdSources : List Nat                             -- sources of the resources mentioned in its bash commands
  calls : List (List Arg × List (String × Arg))     -- its `call`s

/-- the members of `j._dependencies` -/
def jobDeps (self : Nat) (d : JobDecl) : List Nat :=
  d.explicit ++ addDeps self d.cmdSources ++ d.calls.flatMap fun c => callDeps self c.1 c.2

end HailVerif.BatchOrder

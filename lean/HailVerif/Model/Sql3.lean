/-!
MySQL scalar semantics used by the translated trigger bodies (harness/extract/sqltrig.py):
NULL = `none`; booleans are three-valued (`Option Bool`); arithmetic and comparisons propagate NULL;
`GREATEST`/`LEAST` are NULL if any argument is NULL; `COALESCE` is the first non-NULL argument;
`AND`/`OR` are Kleene's.
-/
namespace HailVerif.Sql3

def add (a b : Option Int) : Option Int := match a, b with | some x, some y => some (x + y) | _, _ => none
def sub (a b : Option Int) : Option Int := match a, b with | some x, some y => some (x - y) | _, _ => none
def mul (a b : Option Int) : Option Int := match a, b with | some x, some y => some (x * y) | _, _ => none

def greatest : List (Option Int) → Option Int
  | [] => none
  | [a] => a
  | a :: rest => match a, greatest rest with | some x, some y => some (max x y) | _, _ => none

def least : List (Option Int) → Option Int
  | [] => none
  | [a] => a
  | a :: rest => match a, least rest with | some x, some y => some (min x y) | _, _ => none

def coalesce : List (Option Int) → Option Int
  | [] => none
  | some x :: _ => some x
  | none :: rest => coalesce rest

def isNull {α : Type} (a : Option α) : Option Bool := some a.isNone
def isNotNull {α : Type} (a : Option α) : Option Bool := some a.isSome

def and3 (a b : Option Bool) : Option Bool :=
  match a, b with
  | some false, _ => some false
  | _, some false => some false
  | some true, some true => some true
  | _, _ => none

def or3 (a b : Option Bool) : Option Bool :=
  match a, b with
  | some true, _ => some true
  | _, some true => some true
  | some false, some false => some false
  | _, _ => none

def not3 (a : Option Bool) : Option Bool := a.map (!·)

/-- an integer (BOOLEAN column / variable) used as a truth value -/
def truthy (a : Option Int) : Option Bool := a.map (fun x => decide (x ≠ 0))

def cmpI (f : Int → Int → Bool) (a b : Option Int) : Option Bool :=
  match a, b with | some x, some y => some (f x y) | _, _ => none

def ltI := cmpI (fun x y => decide (x < y))
def leI := cmpI (fun x y => decide (x ≤ y))
def gtI := cmpI (fun x y => decide (x > y))
def geI := cmpI (fun x y => decide (x ≥ y))
def eqI := cmpI (fun x y => decide (x = y))
def neI := cmpI (fun x y => decide (x ≠ y))

def eqS (a b : Option String) : Option Bool :=
  match a, b with | some x, some y => some (x == y) | _, _ => none
def neS (a b : Option String) : Option Bool :=
  match a, b with | some x, some y => some (x != y) | _, _ => none

end HailVerif.Sql3

import HailVerif.Model.ExprIR
import HailVerif.Model.FnRegistry
/-!
# Typing of the value IR (property C36)

Python side: the `_compute_type(env, agg_env, deep_typecheck)` method of every node class in `hail/ir/ir.py`, and the types the
front end attaches to expressions (`Expression.dtype`, `hail/expr/expressions/typed_expressions.py`).

`inferType Γ Δ e` is "the type implied by the IR": `Γ` types the value scope, `Δ` the aggregation scope (`none`: none available).
It answers `none` where the Python method would fail an assertion / raise, or where operand types do not fit the node.  Differences
to the Python rules, all on the strict side: the Python rules often look at one operand only (`ApplyBinaryPrimOp` returns the LEFT
type, `If` asserts equal branch types, `MakeArray` takes the type of the first element) — the model demands that all operands fit.
`ascribe a T` is a function application whose declared return type `T` (`Apply._compute_type` simply returns it) is checked
against the model's own rule for that function.
-/
namespace HailVerif.ExprIR

abbrev Ctx := List (Name × HType)

def lookupT : Ctx → Name → Option HType
  | [], _ => none
  | (y, t) :: r, x => if y = x then some t else lookupT r x

def isNumeric : HType → Bool
  | .int32 | .int64 | .float32 | .float64 => true
  | _ => false

/-- types `ApplyComparisonOp` is modelled on -/
def isComparable : HType → Bool
  | .int32 | .int64 | .float32 | .float64 | .bool | .str => true
  | _ => false

/-- `ApplyBinaryPrimOp._compute_type` -/
def binResult (op : BinOp) (t : HType) : HType :=
  if op = .div then
    match t with
    | .int32 | .int64 | .float64 => .float64
    | _ => .float32
  else t

def fieldType : Fields → String → Option HType
  | .nil, _ => none
  | .cons g t r, f => if g = f then some t else fieldType r f

/-- `tstruct._insert_fields` -/
def setFieldT : Fields → String → HType → Fields
  | .nil, f, t => .cons f t .nil
  | .cons g s r, f, t => if g = f then .cons g t r else .cons g s (setFieldT r f t)

def nthType : Types → Nat → Option HType
  | .nil, _ => none
  | .cons t _, 0 => some t
  | .cons _ r, n + 1 => nthType r n

/-- element type of something that can be streamed (`ToStream`, `CastToArray`, `ToArray`) -/
def elemOfContainer : HType → Option HType
  | .array t | .set t | .stream t => some t
  | _ => none

def inferType (Γ : Ctx) (Δ : Option Ctx) : IR → Option HType
  | .i32 _ => some .int32
  | .i64 _ => some .int64
  | .f32 _ => some .float32
  | .f64 _ => some .float64
  | .str _ => some .str
  | .bool _ => some .bool
  | .na t => some t
  | .ref x => lookupT Γ x
  | .cast a t => do
    let s ← inferType Γ Δ a
    if (isNumeric s || s = .bool) && isNumeric t then some t else none
  | .ascribe a t => do
    let s ← inferType Γ Δ a
    if s = t then some t else none
  | .isNA a => do
    let _ ← inferType Γ Δ a
    some .bool
  | .un .neg a => do
    let s ← inferType Γ Δ a
    if isNumeric s then some s else none
  | .un .not a => do
    let s ← inferType Γ Δ a
    if s = .bool then some .bool else none
  | .bin op a b => do
    let s ← inferType Γ Δ a
    let s' ← inferType Γ Δ b
    if s = s' ∧ isNumeric s then some (binResult op s) else none
  | .cmp _ a b => do
    let s ← inferType Γ Δ a
    let s' ← inferType Γ Δ b
    if s = s' ∧ isComparable s then some .bool else none
  | .ite c t e => do
    let sc ← inferType Γ Δ c
    let st ← inferType Γ Δ t
    let se ← inferType Γ Δ e
    if sc = .bool ∧ st = se then some st else none
  | .let_ x v b => do
    let s ← inferType Γ Δ v
    inferType ((x, s) :: Γ) Δ b
  | .anil t => some (.array t)
  | .acons h tl => do
    let s ← inferType Γ Δ h
    let r ← inferType Γ Δ tl
    if r = .array s then some (.array s) else none
  | .arrayRef a i => do
    let s ← inferType Γ Δ a
    let si ← inferType Γ Δ i
    match s with
    | .array t => if si = .int32 then some t else none
    | _ => none
  | .arrayLen a => do
    let s ← inferType Γ Δ a
    match s with
    | .array _ => some .int32
    | _ => none
  | .toArray a => do
    let s ← inferType Γ Δ a
    let t ← elemOfContainer s
    some (.array t)
  | .toStream a => do
    let s ← inferType Γ Δ a
    match s with
    | .array t | .set t => some (.stream t)
    | _ => none
  | .streamMap x a b => do
    let s ← inferType Γ Δ a
    match s with
    | .stream t => do
      let u ← inferType ((x, t) :: Γ) Δ b
      some (.stream u)
    | _ => none
  | .streamFilter x a b => do
    let s ← inferType Γ Δ a
    match s with
    | .stream t => do
      let u ← inferType ((x, t) :: Γ) Δ b
      if u = .bool then some (.stream t) else none
    | _ => none
  | .streamFold acc v a z b => do
    let s ← inferType Γ Δ a
    let u ← inferType Γ Δ z
    match s with
    | .stream t => do
      let u' ← inferType ((v, t) :: (acc, u) :: Γ) Δ b
      if u' = u then some u else none
    | _ => none
  | .streamScan acc v a z b => do
    let s ← inferType Γ Δ a
    let u ← inferType Γ Δ z
    match s with
    | .stream t => do
      let u' ← inferType ((v, t) :: (acc, u) :: Γ) Δ b
      if u' = u then some (.stream u) else none
    | _ => none
  | .snil => some (.struct .nil)
  | .scons f e rest => do
    let t ← inferType Γ Δ e
    let r ← inferType Γ Δ rest
    match r with
    | .struct fs => some (.struct (.cons f t fs))
    | _ => none
  | .getField o f => do
    let s ← inferType Γ Δ o
    match s with
    | .struct fs => fieldType fs f
    | _ => none
  | .insertField old f e => do
    let s ← inferType Γ Δ old
    let t ← inferType Γ Δ e
    match s with
    | .struct fs => some (.struct (setFieldT fs f t))
    | _ => none
  | .tnil => some (.tuple .nil)
  | .tcons e rest => do
    let t ← inferType Γ Δ e
    let r ← inferType Γ Δ rest
    match r with
    | .tuple ts => some (.tuple (.cons t ts))
    | _ => none
  | .getTupleElement o i => do
    let s ← inferType Γ Δ o
    match s with
    | .tuple ts => nthType ts i
    | _ => none
  | .toSet a => do
    let s ← inferType Γ Δ a
    match s with
    | .stream t => some (.set t)
    | _ => none
  | .toDict a => do
    let s ← inferType Γ Δ a
    match s with
    | .stream (.tuple (.cons k (.cons v .nil))) => some (.dict k v)
    | .stream (.struct (.cons _ k (.cons _ v .nil))) => some (.dict k v)
    | _ => none
  | .applyFn fn args ret => do
    -- `Apply fn () ret args…`: the engine's `lookupFunction` must find a registered signature that unifies
    let s ← inferType Γ Δ args
    match s with
    | .tuple ts => if FnRegistry.applyOk fn (FnRegistry.typesToList ts) ret then some ret else none
    | _ => none
  | .dictGet d k => do
    let s ← inferType Γ Δ d
    let sk ← inferType Γ Δ k
    match s with
    | .dict kt vt => if sk = kt then some vt else none
    | _ => none
  | .streamAgg x a q => do
    let s ← inferType Γ Δ a
    match s with
    | .stream t => inferType Γ (some ((x, t) :: Γ)) q
    | _ => none
  | .aggLet x v b =>
    match Δ with
    | some D => do
      let s ← inferType D none v
      inferType Γ (some ((x, s) :: D)) b
    | none => none
  | .aggFilter c b =>
    match Δ with
    | some D => do
      let s ← inferType D none c
      if s = .bool then inferType Γ (some D) b else none
    | none => none
  | .agg .max a =>
    match Δ with
    | some D => do
      let s ← inferType D none a
      if s = .int32 then some .int32 else none
    | none => none
  | .agg .collect a =>
    match Δ with
    | some D => do
      let s ← inferType D none a
      some (.array s)
    | none => none
  | .aggExplode x e b =>
    match Δ with
    | some D => do
      let s ← inferType D none e
      match s with
      | .stream u => inferType Γ (some ((x, u) :: D)) b
      | _ => none
    | none => none
  | .aggGroupBy k b =>
    match Δ with
    | some D => do
      let kt ← inferType D none k
      let bt ← inferType Γ (some D) b
      some (.dict kt bt)
    | none => none

/-! ## Values inhabiting a type

`na` (missing) and `err` (a failed operation such as an out-of-bounds index) inhabit every type: type soundness is stated modulo
failures.  Streams are arrays. -/

def inRange32 (n : Int) : Prop := -2147483648 ≤ n ∧ n ≤ 2147483647
def inRange64 (n : Int) : Prop := -9223372036854775808 ≤ n ∧ n ≤ 9223372036854775807

mutual
inductive HasType : Val → HType → Prop
  | na : HasType .na t
  | err : HasType .err t
  | i32 : inRange32 n → HasType (.i32 n) .int32
  | i64 : inRange64 n → HasType (.i64 n) .int64
  | f32 : HasType (.f32 n) .float32
  | f64 : HasType (.f64 n) .float64
  | bool : HasType (.bool b) .bool
  | str : HasType (.str s) .str
  | arr : (∀ v ∈ vs, HasType v t) → HasType (.arr vs) (.array t)
  | stream : (∀ v ∈ vs, HasType v t) → HasType (.arr vs) (.stream t)
  | set : (∀ v ∈ vs, HasType v t) → HasType (.set vs) (.set t)
  | dict : (∀ p ∈ kvs, HasType p.1 k) → (∀ p ∈ kvs, HasType p.2 v) → HasType (.dict kvs) (.dict k v)
  | struct : FieldsTyped fs gs → HasType (.struct fs) (.struct gs)
  | tuple : TupleTyped vs ts → HasType (.tuple vs) (.tuple ts)
inductive FieldsTyped : List (String × Val) → Fields → Prop
  | nil : FieldsTyped [] .nil
  | cons : HasType v t → FieldsTyped fs gs → FieldsTyped ((n, v) :: fs) (.cons n t gs)
inductive TupleTyped : List Val → Types → Prop
  | nil : TupleTyped [] .nil
  | cons : HasType v t → TupleTyped vs ts → TupleTyped (v :: vs) (.cons t ts)
end

/-- the environment `ρ` matches the context `Γ` -/
def EnvTyped (ρ : Env) (Γ : Ctx) : Prop := ∀ x t, lookupT Γ x = some t → HasType (lookup ρ x) t

/-- every element environment of the aggregation scope matches `Δ` -/
def AggTyped (A : List Env) : Option Ctx → Prop
  | none => True
  | some D => ∀ σ ∈ A, EnvTyped σ D

end HailVerif.ExprIR

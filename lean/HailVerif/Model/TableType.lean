import HailVerif.Model.ExprIR
/-!
# Table types as transformed by the Table API (property C36, table half)

Python side: `hail/table.py` (`annotate`, `select`, `drop`, `key_by`, `filter`, `annotate_globals`, `rename`, `explode`, `order_by`,
`transmute`) and the `_compute_type` methods of the table IR nodes they emit (`hail/ir/table_ir.py`: `TableRange`, `TableMapRows`,
`TableMapGlobals`, `TableKeyBy`, `TableFilter`, `TableRename`, `TableExplode`, `TableOrderBy`).

A table type is `ttable(global_type, row_type, row_key)`.  Each operation is the type transformer the documented API promises;
`none` = the front end refuses the call.  The types of the expressions a call adds are inputs (they are the `dtype`s the
expression half of C36 checks).
-/
namespace HailVerif.TableType
open HailVerif.ExprIR (HType)

abbrev FieldList := List (String × HType)

structure TType where
  globals : FieldList
  row : FieldList
  key : List String
  deriving DecidableEq

def names (fs : FieldList) : List String := fs.map (·.1)

def lookupF : FieldList → String → Option HType
  | [], _ => none
  | (m, t) :: r, n => if m = n then some t else lookupF r n

/-- one field of `tstruct._insert_fields`: replace in place, or append -/
def setF : FieldList → String → HType → FieldList
  | [], n, t => [(n, t)]
  | (m, u) :: r, n, t => if m = n then (m, t) :: r else (m, u) :: setF r n t

/-- `tstruct._insert_fields(**named)` -/
def insertFields (fs : FieldList) : FieldList → FieldList
  | [] => fs
  | (n, t) :: r => insertFields (setF fs n t) r

/-- every field name of the table (globals and row fields share one namespace) -/
def allNames (t : TType) : List String := names t.globals ++ names t.row

/-- `hl.utils.range_table(n)` / `TableRange` -/
def range : TType := ⟨[], [("idx", .int32)], ["idx"]⟩

/-- `Table.annotate(**named)`: `TableMapRows(InsertFields(row, named))`; key fields cannot be assigned, global names cannot be reused -/
def annotate (t : TType) (named : FieldList) : Option TType :=
  if (names named).any (fun n => t.key.contains n || (names t.globals).contains n) then none
  else some { t with row := insertFields t.row named }

/-- `Table.annotate_globals(**named)` -/
def annotateGlobals (t : TType) (named : FieldList) : Option TType :=
  if (names named).any (fun n => (names t.row).contains n) then none
  else some { t with globals := insertFields t.globals named }

/-- `Table.select(*fields, **named)`: the key fields IN KEY ORDER, then the selected non-key row fields in the order given, then the
new fields -/
def select (t : TType) (keep : List String) (named : FieldList) : Option TType :=
  if keep.any (fun n => t.key.contains n || (lookupF t.row n).isNone) then none
  else if (names named).any (fun n => t.key.contains n || keep.contains n || (names t.globals).contains n) then none
  else
    let keyFields := t.key.filterMap (fun k => (lookupF t.row k).map (fun ty => (k, ty)))
    let kept := keep.filterMap (fun n => (lookupF t.row n).map (fun ty => (n, ty)))
    some { t with row := keyFields ++ kept ++ named }

/-- `Table.drop(*fields)` of non-key row fields and of globals -/
def drop (t : TType) (fields : List String) : Option TType :=
  if fields.any (fun n => t.key.contains n || !(allNames t).contains n) then none
  else some { t with row := t.row.filter (fun p => !fields.contains p.1), globals := t.globals.filter (fun p => !fields.contains p.1) }

/-- `Table.key_by(*fields)` on existing row fields: `TableKeyBy` changes the key only -/
def keyBy (t : TType) (fields : List String) : Option TType :=
  if fields.any (fun n => (lookupF t.row n).isNone) then none
  else some { t with key := fields }

/-- `Table.filter(cond)` -/
def filter (t : TType) : TType := t

/-- `Table.order_by(...)`: the result has no key -/
def orderBy (t : TType) : TType := { t with key := [] }

/-- `Table.rename({old: new})` (row fields, key fields and globals) -/
def rename (t : TType) (m : List (String × String)) : Option TType :=
  let f := fun (n : String) => ((m.find? (fun p => p.1 == n)).map (·.2)).getD n
  let t' : TType := ⟨t.globals.map (fun p => (f p.1, p.2)), t.row.map (fun p => (f p.1, p.2)), t.key.map f⟩
  if m.any (fun p => !(allNames t).contains p.1) then none
  else if (allNames t').eraseDups.length != (allNames t').length then none
  else some t'

/-- `Table.explode(field)`: a non-key row field of type array<T> or set<T> becomes T -/
def explode (t : TType) (n : String) : Option TType :=
  if t.key.contains n then none else
  match lookupF t.row n with
  | some (.array e) | some (.set e) => some { t with row := t.row.map (fun p => if p.1 == n then (n, e) else p) }
  | _ => none

/-- the type of `t.key` (a struct expression): the key fields with their row types -/
def keyFields (row : FieldList) : List String → Option FieldList
  | [] => some []
  | k :: r =>
    match lookupF row k, keyFields row r with
    | some ty, some fs => some ((k, ty) :: fs)
    | _, _ => none

def keyType (t : TType) : Option FieldList := keyFields t.row t.key

/-- every key field is a row field -/
def WellKeyed (t : TType) : Prop := ∀ k ∈ t.key, (lookupF t.row k).isSome = true

end HailVerif.TableType

import HailVerif.Model.ExprIR
/-!
# Table types as transformed by the Table API (property C36, table half)

Python side: `hail/table.py` (`annotate`, `select`, `drop`, `key_by`, `filter`, `annotate_globals`, `rename`, `explode`, `order_by`,
`transmute`) and the `_compute_type` methods of the table IR nodes they emit (`hail/ir/table_ir.py`: `TableRange`, `TableMapRows`,
`TableMapGlobals`, `TableKeyBy`, `TableFilter`, `TableRename`, `TableExplode`, `TableOrderBy`).

A table type is `ttable(global_type, row_type, row_key)`.  Each operation is the type transformer the documented API promises;
`none` = the front end refuses the call.  The types of the expressions a call adds are inputs (they are the `dtype`s the
expression half of C36 checks).
-/
namespace HailVerif.TableType
open HailVerif.ExprIR (HType)

abbrev FieldList := List (String × HType)

structure TType where
  globals : FieldList
  row : FieldList
  key : List String
  deriving DecidableEq

def names (fs : FieldList) : List String := fs.map (·.1)

def lookupF : FieldList → String → Option HType
  | [], _ => none
  | (m, t) :: r, n => if m = n then some t else lookupF r n

/-- one field of `tstruct._insert_fields`: replace in place, or append -/
def setF : FieldList → String → HType → FieldList
  | [], n, t => [(n, t)]
  | (m, u) :: r, n, t => if m = n then (m, t) :: r else (m, u) :: setF r n t

/-- `tstruct._insert_fields(**named)` -/
def insertFields (fs : FieldList) : FieldList → FieldList
  | [] => fs
  | (n, t) :: r => insertFields (setF fs n t) r

/-- every field name of the table (globals and row fields share one namespace) -/
def allNames (t : TType) : List String := names t.globals ++ names t.row

/-- `hl.utils.range_table(n)` / `TableRange` -/
def range : TType := ⟨[], [("idx", .int32)], ["idx"]⟩

/-- `Table.annotate(**named)`: `TableMapRows(InsertFields(row, named))`; key fields cannot be assigned, global names cannot be reused -/
def annotate (t : TType) (named : FieldList) : Option TType :=
  if (names named).any (fun n => t.key.contains n || (names t.globals).contains n) then none
  else some { t with row := insertFields t.row named }

/-- `Table.annotate_globals(**named)` -/
def annotateGlobals (t : TType) (named : FieldList) : Option TType :=
  if (names named).any (fun n => (names t.row).contains n) then none
  else some { t with globals := insertFields t.globals named }

/-- `Table.select(*fields, **named)`: the key fields IN KEY ORDER, then the selected non-key row fields in the order given, then the
new fields -/
def select (t : TType) (keep : List String) (named : FieldList) : Option TType :=
  if keep.any (fun n => t.key.contains n || (lookupF t.row n).isNone) then none
  else if (names named).any (fun n => t.key.contains n || keep.contains n || (names t.globals).contains n) then none
  else
    let keyFields := t.key.filterMap (fun k => (lookupF t.row k).map (fun ty => (k, ty)))
    let kept := keep.filterMap (fun n => (lookupF t.row n).map (fun ty => (n, ty)))
    some { t with row := keyFields ++ kept ++ named }

/-- `Table.drop(*fields)` of non-key row fields and of globals -/
def drop (t : TType) (fields : List String) : Option TType :=
  if fields.any (fun n => t.key.contains n || !(allNames t).contains n) then none
  else some { t with row := t.row.filter (fun p => !fields.contains p.1), globals := t.globals.filter (fun p => !fields.contains p.1) }

/-- `Table.key_by(*fields)` on existing row fields: `TableKeyBy` changes the key only -/
def keyBy (t : TType) (fields : List String) : Option TType :=
  if fields.any (fun n => (lookupF t.row n).isNone) then none
  else some { t with key := fields }

/-- `Table.filter(cond)` -/
def filter (t : TType) : TType := t

/-- `Table.order_by(...)`: the result has no key -/
def orderBy (t : TType) : TType := { t with key := [] }

/-- `Table.rename({old: new})` (row fields, key fields and globals) -/
def rename (t : TType) (m : List (String × String)) : Option TType :=
  let f := fun (n : String) => ((m.find? (fun p => p.1 == n)).map (·.2)).getD n
  let t' : TType := ⟨t.globals.map (fun p => (f p.1, p.2)), t.row.map (fun p => (f p.1, p.2)), t.key.map f⟩
  if m.any (fun p => !(allNames t).contains p.1) then none
  else if (allNames t').eraseDups.length != (allNames t').length then none
  else some t'

/-- `Table.explode(field)`: a non-key row field of type array<T> or set<T> becomes T -/
def explode (t : TType) (n : String) : Option TType :=
  if t.key.contains n then none else
  match lookupF t.row n with
  | some (.array e) | some (.set e) => some { t with row := t.row.map (fun p => if p.1 == n then (n, e) else p) }
  | _ => none

/-- the type of `t.key` (a struct expression): the key fields with their row types -/
def keyFields (row : FieldList) : List String → Option FieldList
  | [] => some []
  | k :: r =>
    match lookupF row k, keyFields row r with
    | some ty, some fs => some ((k, ty) :: fs)
    | _, _ => none

def keyType (t : TType) : Option FieldList := keyFields t.row t.key

/-! ## Combinators: `Table.union(*tables, unify=…)` and `Table.join`

`TableUnion._compute_type` (hail/ir/table_ir.py) returns the type of child 0 and checks nothing; the engine (`TypeCheck.scala`)
requires every child to have the row type and key of child 0.  The model keeps the two apart: `unionChildren` is what the front
end passes to `TableUnion` (after the `select` it inserts for `unify=True` whenever the ROW types are not all equal),
`unionReported` is the type the `Table` reports, `unionIR` is the type the IR implies — `none` if the children disagreed
(`Props/C36.lean::union_well_typed`: they never do). -/

def valueFields (t : TType) : FieldList := t.row.filter (fun p => !t.key.contains p.1)

/-- numeric promotion of `unify_exprs` (a type among the given ones that all others coerce to): bool < int32 < int64 < float32 < float64 -/
def numRankH : HType → Option Nat
  | .bool => some 0
  | .int32 => some 1
  | .int64 => some 2
  | .float32 => some 3
  | .float64 => some 4
  | _ => none

/-- `unify_exprs` on field types: all equal, or all numeric (then the widest); anything else is refused.  (Containers of
different numeric element types are also coercible in the real code; the generated pipelines do not mix them.) -/
def unifyFieldTypes : List HType → Option HType
  | [] => none
  | t0 :: r =>
    if r.all (· == t0) then some t0
    else if (t0 :: r).all (fun t => (numRankH t).isSome) then
      (t0 :: r).foldl (fun (best : Option HType) t => match best with
        | none => some t
        | some b => if (numRankH b).getD 0 < (numRankH t).getD 0 then some t else some b) none
    else none

/-- field names of the value fields of all tables, in order of first appearance -/
def discovered (ts : List TType) : List String := (ts.flatMap fun t => names (valueFields t)).eraseDups

/-- the tables the front end hands to `TableUnion`; `none` = it refuses the call -/
def unionChildren (unify : Bool) : List TType → Option (List TType)
  | [] => none
  | t0 :: rest =>
    if rest.any (fun t => keyType t != keyType t0) || (keyType t0).isNone then none
    else if !unify then (if rest.all (fun t => t.row == t0.row) then some (t0 :: rest) else none)
    else if rest.all (fun t => t.row == t0.row) then some (t0 :: rest)      -- all row types equal: passed on as they are
    else
      let ts := t0 :: rest
      let fields := (discovered ts).mapM fun n =>
        (unifyFieldTypes (ts.filterMap fun t => lookupF (valueFields t) n)).map fun u => (n, u)
      match fields with
      | none => none
      | some fs => some (ts.map fun t => { t with row := ((keyType t).getD []) ++ fs })

def unionReported (unify : Bool) (ts : List TType) : Option TType := (unionChildren unify ts).bind List.head?

/-- the type the emitted `TableUnion` implies: that of the children, which must agree on row type and key -/
def unionIR (unify : Bool) (ts : List TType) : Option TType :=
  match unionChildren unify ts with
  | some (c0 :: cs) => if cs.all (fun c => c.row == c0.row && c.key == c0.key) then some c0 else none
  | _ => none

/-! ### `Table.join(right)`

The front end (`hail/table.py::Table.join`) first renames every non-key field of the right table — row-value fields AND globals —
that clashes with ANY field name of the left table (`hail.utils.deduplicate`: `n`, `n_1`, `n_2`, … up to 100 attempts), then
emits `TableJoin`.  `TableJoin._compute_type` (Python) combines the global structs and the row structs with `tstruct._concat`, a
dict update that silently merges equal names; the engine (`TableJoin.typ`: `left.globalType ++ right.globalType`,
`leftKeyType ++ leftValueType ++ rightValueType`) uses the struct concatenation that is fatal on a duplicate name.  The model
keeps the two apart: `joinReported` (dict update) is what the `Table` reports, `joinIR` (strict) what the IR implies;
`Props/C36.lean::join_well_typed`: after the renaming they agree.

(`deduplicate` walks a Python `set`, in hash order; the order only matters when some name already has the form `n_i` of another
one.  The model walks value fields, then globals; the generated names never have that form.) -/

def candidates (n : String) : List String := (List.range 100).map fun i => n ++ "_" ++ toString (i + 1)

/-- one step of `deduplicate(…, max_attempts=100)`: the name itself when unused, else the first unused `n_i` -/
def dedupName (used : List String) (n : String) : Option String :=
  if !used.contains n then some n else (candidates n).find? fun c => !used.contains c

/-- `deduplicate(ids, already_used=used)`: the new name of every id, in order; each chosen name becomes used -/
def dedupAll : List String → List String → Option (List String)
  | _, [] => some []
  | used, n :: r => match dedupName used n with
    | none => none
    | some m => (dedupAll (m :: used) r).map (m :: ·)

def renameFields (fs : FieldList) (new : List String) : FieldList := (fs.zip new).map fun p => (p.2, p.1.2)

/-- the right table's value fields and globals after the renaming of `Table.join` -/
def renameRight (l r : TType) : Option (FieldList × FieldList) :=
  let vs := valueFields r
  (dedupAll (allNames l) (names vs ++ names r.globals)).map fun new =>
    (renameFields vs (new.take vs.length), renameFields r.globals (new.drop vs.length))

/-- `tstruct._concat`: a dict update -/
def concatPy (a b : FieldList) : Option FieldList := some (insertFields a b)

/-- the engine's `TStruct.++`: fatal on a duplicate field name -/
def concatStrict (a b : FieldList) : Option FieldList :=
  if (names b).any (fun n => (names a).contains n) || !(names b).Nodup then none else some (a ++ b)

/-- `TableJoin` after the renaming, with the given struct concatenation: globals combined; the left key fields, the left value
fields, the right value fields; the key is the left key.  The key TYPES (not the names) must agree. -/
def joinWith (concat : FieldList → FieldList → Option FieldList) (l r : TType) : Option TType :=
  match keyType l, keyType r, renameRight l r with
  | some kl, some kr, some (vs, gs) =>
    if kl.map (·.2) != kr.map (·.2) then none
    else match concat l.globals gs, concat (kl ++ valueFields l) vs with
      | some g, some row => some ⟨g, row, l.key⟩
      | _, _ => none
  | _, _, _ => none

/-- the type the joined `Table` reports (`TableJoin._compute_type`) -/
def joinReported : TType → TType → Option TType := joinWith concatPy

/-- the type the emitted `TableJoin` implies under the engine's rule; `none` when a struct concatenation would be fatal -/
def joinIR : TType → TType → Option TType := joinWith concatStrict

/-- a front end that does NOT rename the right table's globals (only its row-value fields): the seeded defect, kept as a
counter-model for `Props/C36.lean::join_globals_must_be_renamed` -/
def renameRightRowOnly (l r : TType) : Option (FieldList × FieldList) :=
  let vs := valueFields r
  (dedupAll (allNames l) (names vs)).map fun new => (renameFields vs new, r.globals)

/-! ### Keyed lookups: `right[exprs]` / `right.index(*exprs, all_matches=…)` used in an annotation of another table

`Table._index` reports, for the looked-up value, the right table's row-value struct — an ARRAY of it with `all_matches=True` — and
emits one of three join nodes, whose `typ` in the engine inserts the root field:
* `TableLeftJoinRightDistinct(left, right, root)`: `root : right.valueType`;
* `TableIntervalJoin(left, right, root, product)`: `root : right.valueType`, `array<right.valueType>` when `product`;
* with `all_matches=True` and a point key: `TableLeftJoinRightDistinct` on `right.collect_by_key(uid)` (value type
  `struct{uid: array<right.valueType>}`), the result projected at `uid`.
`MatrixAnnotateRowsTable(child, table, root, product)` / `MatrixAnnotateColsTable(child, table, root)` follow the same two rules. -/

def structFields : FieldList → HailVerif.ExprIR.Fields
  | [] => .nil
  | (n, t) :: r => .cons n t (structFields r)

/-- the right table's row-value struct type -/
def valueStruct (r : TType) : HType := .struct (structFields (valueFields r))

/-- the join node the front end emits for a lookup -/
inductive IndexNode where
  | leftJoinRightDistinct (collected : Bool)   -- `collected`: on `right.collect_by_key(uid)`, projected at `uid`
  | intervalJoin (product : Bool)
  deriving DecidableEq

/-- `is_interval`: one expression, of the point type of the right table's first (interval) key field -/
def isIntervalIndex (r : TType) (exprTypes : List HType) : Bool :=
  match exprTypes, keyType r with
  | [e], some ((_, .interval p) :: _) => e == p
  | _, _ => false

/-- `Table._index`: which node is emitted (`none`: `TableIndexKeyError`) -/
def chooseNode (r : TType) (exprTypes : List HType) (allMatches : Bool) : Option IndexNode :=
  match keyType r with
  | none => none
  | some kr =>
    let iv := isIntervalIndex r exprTypes
    if !(kr.map (·.2) == exprTypes) && !iv then none
    else if allMatches && !iv then some (.leftJoinRightDistinct true)
    else if iv then some (.intervalJoin allMatches)
    else some (.leftJoinRightDistinct false)

/-- the type the front end attaches to the looked-up value (`new_schema`) -/
def rootReported (r : TType) (exprTypes : List HType) (allMatches : Bool) : Option HType :=
  (chooseNode r exprTypes allMatches).map fun _ => if allMatches then .array (valueStruct r) else valueStruct r

/-- the type of the root field the emitted node inserts, by the engine's rule for that node -/
def nodeRoot (r : TType) : IndexNode → HType
  | .leftJoinRightDistinct false => valueStruct r
  | .leftJoinRightDistinct true => .array (valueStruct r)
  | .intervalJoin product => if product then .array (valueStruct r) else valueStruct r

def rootIR (r : TType) (exprTypes : List HType) (allMatches : Bool) : Option HType :=
  (chooseNode r exprTypes allMatches).map (nodeRoot r)

/-- how the looked-up value is used in the annotation: as it is, or under `hl.len` (an array is required) -/
def useRoot (len : Bool) (t : HType) : Option HType :=
  if !len then some t else match t with
    | .array _ => some .int32
    | _ => none

/-- `left.annotate(m = use(right.index(exprs, all_matches)))`: reported type / type implied by the emitted IR (`none` of `some`:
ill-typed) -/
def indexAnnotate (root : TType → List HType → Bool → Option HType) (l r : TType) (exprTypes : List HType) (allMatches len : Bool)
    (m : String) : Option TType :=
  match root r exprTypes allMatches with
  | none => none
  | some t => match useRoot len t with
    | none => none
    | some u => annotate l [(m, u)]

/-- every key field is a row field -/
def WellKeyed (t : TType) : Prop := ∀ k ∈ t.key, (lookupF t.row k).isSome = true

end HailVerif.TableType

import HailVerif.Generated.AttemptsTrigger
/-!
Model of how the three billing triggers bill ONE attempt (`batch/sql`):

* `attempts_before_update`          — `Generated.AttemptsTrigger.attemptsBeforeUpdate` (the row MySQL stores for a proposed row);
* `attempts_after_update`           — `SET msec_diff_rollup = …` = `Generated.AttemptsTrigger.msecDiffRollup OLD NEW` (NEW is the row
                                      the BEFORE trigger accepted), then `IF msec_diff_rollup != 0 THEN INSERT … SELECT …,
                                      msec_diff_rollup * quantity FROM attempt_resources WHERE <this attempt> ON DUPLICATE KEY UPDATE
                                      usage = usage + msec_diff_rollup * quantity` into each of the four `aggregated_*_v3` tables;
* `attempt_resources_after_insert`  — `SET msec_diff_rollup = …` = `Generated.AttemptsTrigger.billedAtInsert` of the attempt's current
                                      times, then `IF msec_diff_rollup != 0 THEN INSERT … NEW.quantity * msec_diff_rollup …`.

The three generated definitions are re-translated from the SQL text of the working tree on every run (harness/props/c03.py).
`Res.usage` is the usage recorded for one resource of the attempt, summed over token shards (each of the four aggregated tables
receives the same amounts).  Tied to the real triggers by harness/props/c03.py: the trigger texts executed by minisql on one attempt
(`bill` lines of Driver/C03.lean) and the real procedures over the full schema (`delta` / `ins` lines).
-/
namespace HailVerif.AttemptBilling
open HailVerif.Generated.AttemptsTrigger

/-- amount added to a resource's usage: `IF msec_diff_rollup != 0 THEN … msec_diff_rollup * quantity`.  A NULL difference makes the
`IF` condition NULL, which is not TRUE: nothing is inserted; a zero difference adds nothing either. -/
def added (quantity : Int) : Option Int → Int
  | some d => d * quantity
  | none => 0

/-- one `attempt_resources` row of the attempt together with the usage the aggregated tables hold for it -/
structure Res where
  quantity : Int
  usage : Int
deriving Repr, DecidableEq

structure Att where
  /-- the stored `attempts` row -/
  row : Row
  res : List Res
deriving Repr, DecidableEq

inductive Ev where
  /-- `UPDATE attempts SET …` proposing `new` (any procedure, the billing heartbeat, …) -/
  | report (new : Row)
  /-- `INSERT INTO attempt_resources … quantity` of a resource the attempt does not have yet (`add_attempt_resources`) -/
  | addResource (quantity : Int)
deriving Repr, DecidableEq

def Att.step (a : Att) : Ev → Att
  | .report new =>
    let acc := attemptsBeforeUpdate a.row new
    let d := msecDiffRollup a.row.start_time a.row.rollup_time acc.start_time acc.rollup_time
    { row := acc, res := a.res.map fun r => { r with usage := r.usage + added r.quantity d } }
  | .addResource q =>
    { a with res := a.res ++ [⟨q, added q (billedAtInsert a.row.start_time a.row.rollup_time)⟩] }

/-- the attempt `add_attempt` inserts: all times NULL, no resources -/
def fresh : Att := ⟨⟨none, none, none, none⟩, []⟩

def run (a : Att) (evs : List Ev) : Att := evs.foldl Att.step a

end HailVerif.AttemptBilling

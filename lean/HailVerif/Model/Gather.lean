/-
Model of the bounded-parallelism gather helpers of hail/python/hailtop/utils/utils.py:
`bounded_gather`, `bounded_gather2`, `bounded_gather2_return_exceptions`, `bounded_gather2_raise_exceptions`
(with and without `cancel_on_error`), `WithoutSemaphore`, `OnlineBoundedGather2`.

The partial functions `pfs` are tasks with a scripted outcome (`ret v | raise e`); each blocks on a gate owned by the
environment.  asyncio code is atomic between awaits, so one model step is everything that happens between two quiescent states
of the event loop:
* `start …`   — the helper is called and the loop runs until everything is blocked (tasks created, the helper's own permit
                released by `WithoutSemaphore.__aenter__`, the first tasks grantted by the semaphore);
* `finish i`  — the gate of running task `i` opens: its body ends with its scripted outcome, `async with sema` releases the
                permit, the semaphore wakes the next waiter, `asyncio.gather` / the pool react, the helper possibly returns;
* `cancelCaller` — `task.cancel()` on the coroutine that is suspended inside the helper (in `await asyncio.gather(…)`, in the body
                of the `async with pool:` block, or in the pool's `__aexit__`);
* `body`      — (`OnlineBoundedGather2` only) the body of the `async with pool:` block, which submitted every task and then
                waited on its own gate, ends with its scripted outcome and `__aexit__` runs.

Modelled from documented behaviour, not verified (C20 is partial in this sense): `asyncio.Semaphore` (FIFO wake-ups, a permit
is handed to the waiter at `release` time, a cancelled waiter gives nothing back), `asyncio.gather(*tasks)` (results in argument
order; the first exception to occur is propagated and the other tasks keep running), `asyncio.wait`, `asyncio.shield`,
`Task.cancel` (a task blocked on a future is resumed with `CancelledError` at its next step), `asyncio.Event`.
A cancelled task body ends in the step in which it is cancelled (the harness bodies have no awaits in their clean-up).
-/
namespace HailVerif.Gather

/-- an exception a helper can raise: a task's / the body's exception `e`, or `asyncio.CancelledError` -/
inductive Exn where
  | code (e : Nat)
  | cancelled
  deriving DecidableEq, Repr

/-- a value a partial function can RETURN that is easily confused with a failure: `None`, or an exception INSTANCE handed back
as an ordinary value (`return SomeError(...)`, not `raise`) -/
inductive Obj where
  | none
  | exn (x : Exn)
  deriving DecidableEq, Repr

/-- scripted outcome of a partial function -/
inductive Outcome where
  | ret (v : Nat)
  | raise (e : Nat)
  /-- the body itself ends in `asyncio.CancelledError` (an inner timeout / cancel scope) -/
  | cancel
  /-- the body RETURNS `None` or an exception instance as its value -/
  | retObj (o : Obj)
  deriving DecidableEq, Repr

/-- how a task body ended -/
inductive Res where
  | ok (v : Nat)
  | err (e : Nat)
  | cancelled
  /-- returned `None` / an exception instance as a value: for `return_exceptions` the pair `(obj, None)`, NOT `(None, obj)` -/
  | okObj (o : Obj)
  deriving DecidableEq, Repr

inductive TSt where
  /-- task created; waiting in `sema.acquire()` (or not yet run at all) -/
  | queued
  /-- inside `pf()` -/
  | running
  | done (r : Res)
  deriving DecidableEq, Repr

inductive Flavour where
  /-- `bounded_gather2_return_exceptions` -/
  | returnExceptions
  /-- `bounded_gather2_raise_exceptions(cancel_on_error=False)` -/
  | raiseFirst
  /-- `bounded_gather2_raise_exceptions(cancel_on_error=True)` -/
  | raiseCancel
  /-- `async with OnlineBoundedGather2(sema) as pool: [pool.call(pf) for pf in pfs]; await body_gate` -/
  | online
  deriving DecidableEq, Repr

/-- the coroutine that called the helper -/
inductive HSt where
  /-- suspended in `await asyncio.gather(*tasks)` (online: in the body of the `async with`) -/
  | active
  /-- online: suspended in `__aexit__` on `self._done_event.wait()` -/
  | exiting
  /-- the helper returned; one entry per task, in submission order (`ok v` = value, `err e` = the pair `(None, e)`) -/
  | returned (slots : List Res)
  /-- the helper raised exception `x` -/
  | raised (x : Exn)
  /-- online: the caller was cancelled while `__aexit__` was waiting for the tasks: `__aexit__` raised `CancelledError` after
  shutting the pool down (since the repair 316170afa; before it the tasks were abandoned), without re-acquiring the caller's permit -/
  | exitCancelled
  deriving DecidableEq, Repr

/-- how the helper was entered -/
inductive Entry where
  /-- `bounded_gather2(sema, …)` / `OnlineBoundedGather2(sema)` called by a coroutine that holds one permit of
  `sema = asyncio.Semaphore(n)` (the convention `WithoutSemaphore` is written for) -/
  | holdingPermit
  /-- `bounded_gather(*pfs, parallelism=n)`: `sema = asyncio.Semaphore(n); async with sema: return await bounded_gather2(sema, …)`
  — since the repair b83b6cc09 the same situation as `holdingPermit` (before it: `bounded_gather2(asyncio.Semaphore(n), …)`, nobody
  held a permit) -/
  | boundedGather
  deriving DecidableEq, Repr

/-- `sema._value` when `bounded_gather2` / the pool is entered, for a semaphore created with `n` permits: the caller holds one -/
def valueAtCall (n : Nat) : Entry → Nat
  | .holdingPermit => n - 1
  | .boundedGather => n - 1

/-- before the repair b83b6cc09 `bounded_gather` passed a fresh semaphore nobody held a permit of -/
def valueAtCallOld (n : Nat) : Entry → Nat
  | .holdingPermit => n - 1
  | .boundedGather => n

structure State where
  flavour : Flavour
  entry : Entry
  /-- scripted outcomes, in submission order -/
  outs : List Outcome
  /-- task states, in submission order -/
  st : List TSt
  /-- `sema._value` -/
  free : Nat
  helper : HSt
  /-- online: `self._exception` (set ⇔ the pool is shut down, `self._pending is None`) -/
  exc : Option Exn
  /-- number of tasks that were not finished at the moment the helper returned / raised (`asyncio.all_tasks()` seen from the
  caller's continuation) -/
  pendingAtReturn : Nat
  deriving DecidableEq, Repr

inductive Op where
  | finish (i : Nat)
  | body (o : Outcome)
  | cancelCaller
  deriving DecidableEq, Repr

def resOf : Outcome → Res
  | .ret v => .ok v
  | .raise e => .err e
  | .cancel => .cancelled
  | .retObj o => .okObj o

/-- what `asyncio.gather(*tasks)` sees when a task ends like this: a cancelled child counts as raising `CancelledError` -/
def failureOf : Outcome → Option Exn
  | .ret _ => none
  | .raise e => some (.code e)
  | .cancel => some .cancelled
  | .retObj _ => none               -- a returned object is a value, whatever its type

/-- what the online pool sees: `run_and_cleanup` swallows `CancelledError` ("the task is considered complete") -/
def poolFailureOf : Outcome → Option Exn
  | .raise e => some (.code e)
  | _ => none

def isDone : TSt → Bool
  | .done _ => true
  | _ => false

def nRunning : List TSt → Nat
  | [] => 0
  | .running :: r => nRunning r + 1
  | _ :: r => nRunning r

def nNotDone : List TSt → Nat
  | [] => 0
  | .done _ :: r => nNotDone r
  | _ :: r => nNotDone r + 1

def allDone (l : List TSt) : Bool := l.all isDone

/-- what the helper hands back for a finished task -/
def slotOf : TSt → Res
  | .done r => r
  | _ => .cancelled

/-- the semaphore grants waiting tasks in FIFO (= submission) order while permits are free:
`async with sema:` in `run_with_sema` / `run_and_cleanup` -/
def grant : Nat → List TSt → Nat × List TSt
  | 0, l => (0, l)
  | f + 1, [] => (f + 1, [])
  | f + 1, .queued :: r => let p := grant f r; (p.1, .running :: p.2)
  | f + 1, x :: r => let p := grant (f + 1) r; (p.1, x :: p.2)

/-- `task.cancel()` on every unfinished task among the first `j`: a running body ends with `CancelledError` and releases its
permit, a task still waiting for the semaphore ends without ever having held one.  Returns (permits released, new states). -/
def cancelBelow : Nat → List TSt → Nat × List TSt
  | 0, l => (0, l)
  | _ + 1, [] => (0, [])
  | j + 1, .running :: r => let p := cancelBelow j r; (p.1 + 1, .done .cancelled :: p.2)
  | j + 1, .queued :: r => let p := cancelBelow j r; (p.1, .done .cancelled :: p.2)
  | j + 1, x :: r => let p := cancelBelow j r; (p.1, x :: p.2)

def cancelAll (l : List TSt) : Nat × List TSt := cancelBelow l.length l

/-- the coroutine that called the helper (`bounded_gather` itself for that entry) leaves its `async with sema:` block, releasing
"its" permit, as soon as the helper has returned or raised -/
def leave (s : State) : State :=
  let p := grant (s.free + 1) s.st
  { s with st := p.2, free := p.1 }

/-- the helper is called for a semaphore created with `n` permits and the loop runs to quiescence -/
def start (fl : Flavour) (en : Entry) (n : Nat) (outs : List Outcome) : State :=
  let v0 := valueAtCall n en
  let q := outs.map fun _ => TSt.queued
  match fl with
  | .online =>
    -- `__aenter__` releases nothing: during the body the caller keeps its permit
    let p := grant v0 q
    ⟨fl, en, outs, p.2, p.1, .active, none, 0⟩
  | _ =>
    -- `WithoutSemaphore.__aenter__`: `self._sema.release()`, then `await asyncio.gather(*tasks)`
    if outs.isEmpty then leave ⟨fl, en, outs, [], v0, .returned [], none, 0⟩     -- `gather()` of nothing returns `[]` at once
    else
      let p := grant (v0 + 1) q
      ⟨fl, en, outs, p.2, p.1, .active, none, 0⟩

/-- the body of running task `i` ends with its scripted outcome, `async with sema` releases the permit and the semaphore wakes
the next waiter -/
def complete (s : State) (i : Nat) (o : Outcome) : State :=
  let p := grant (s.free + 1) (s.st.set i (.done (resOf o)))
  { s with st := p.2, free := p.1 }

/-- `task.cancel()` on the unfinished tasks among the first `j`; their permits go back to the semaphore, which grants waiters -/
def cancelFirst (s : State) (j : Nat) : State :=
  let c := cancelBelow j s.st
  let p := grant (s.free + c.1) c.2
  { s with st := p.2, free := p.1 }

/-- `WithoutSemaphore.__aenter__`: `self._sema.release()` -/
def releaseOwn (s : State) : State :=
  let p := grant (s.free + 1) s.st
  { s with st := p.2, free := p.1 }

/-- online: `self._exception = e` (the pool is shut down) -/
def withExc (s : State) (x : Exn) : State := { s with exc := some x }

/-- the helper returns the results in submission order; `WithoutSemaphore.__aexit__` has re-acquired the caller's permit; the
caller leaves its block -/
def returnNow (s : State) : State :=
  leave { s with helper := .returned (s.st.map slotOf), free := s.free - 1, pendingAtReturn := 0 }

/-- the helper raises `e` with `pend` tasks unfinished at that instant (`reacquired`: whether a `WithoutSemaphore.__aexit__`
took the caller's permit back first — it does not when an exception is propagating); the caller leaves its block -/
def raiseNow (s : State) (x : Exn) (pend : Nat) (reacquired : Bool) : State :=
  leave { s with helper := .raised x, free := if reacquired then s.free - 1 else s.free, pendingAtReturn := pend }

/-- online: the body of the `async with pool:` block ends (`f` = its exception, if any) and `__aexit__` runs -/
def bodyEnds (s : State) (f : Option Exn) : State :=
  match f, s.exc with
  | some x, none =>
    -- `__aexit__(exc_val)`: `self._exception = exc_val; await self._shutdown()` cancels every pending task and waits for
    -- them (`await asyncio.wait(cancelled)`), then `__aexit__` raises
    raiseNow (withExc (cancelFirst s s.st.length) x) x 0 false
  | _, some x0 =>
    -- a task failed during the body: the pool is already shut down; a body exception is logged and discarded
    raiseNow s x0 0 false
  | none, none =>
    -- `async with WithoutSemaphore(self._sema): await self._done_event.wait()`
    let s1 := releaseOwn s
    if allDone s1.st then returnNow s1 else { s1 with helper := .exiting }

/-- online: the wait inside `__aexit__` is interrupted by the cancellation of the caller (code since 316170afa) -/
def exitCancel (s : State) : State :=
  leave { withExc (cancelFirst s s.st.length) .cancelled with helper := .exitCancelled, pendingAtReturn := 0 }

/-- the same before the repair 316170afa (finding F5): `__aexit__` had no clean-up around the wait — it raised and the tasks were
neither cancelled nor awaited -/
def exitCancelOld (s : State) : State :=
  leave { s with helper := .exitCancelled, pendingAtReturn := nNotDone s.st }

/-- one step.  `none` = not a behaviour (only a running task can finish; only a running body can end; only a caller that is still
inside the helper can be cancelled there). -/
def step (s : State) : Op → Option State
  | .finish i =>
    match s.st[i]?, s.outs[i]? with
    | some .running, some o =>
      let s1 := complete s i o
      match s.flavour with
      | .returnExceptions =>
        -- `except: return (None, exc)` catches everything, `CancelledError` included;
        -- `return await asyncio.gather(*tasks)` once every task is done
        if s.helper = .active ∧ allDone s1.st then some (returnNow s1) else some s1
      | .raiseFirst =>
        match s.helper, failureOf o with
        | .active, some x =>
          -- gather propagates the first exception (a cancelled child counts as `CancelledError`);
          -- `WithoutSemaphore.__aexit__` does NOT re-acquire on error; the other tasks keep running
          some (raiseNow s1 x (nNotDone s1.st) false)
        | .active, none => if allDone s1.st then some (returnNow s1) else some s1
        | _, _ => some s1
      | .raiseCancel =>
        match s.helper, failureOf o with
        | .active, some x =>
          -- `finally:` (for ANY exception, `CancelledError` included) `for task in tasks: if not task.done(): task.cancel()`, then
          -- `async with WithoutSemaphore(sema): await asyncio.wait(tasks)` (releases and re-acquires one permit: net nothing),
          -- then the original exception propagates: every task is finished when the helper raises
          some (raiseNow (cancelFirst s1 s1.st.length) x 0 false)
        | .active, none => if allDone s1.st then some (returnNow s1) else some s1
        | _, _ => some s1
      | .online =>
        match poolFailureOf o with
        | none =>
          -- `del self._pending[id]; if not self._pending: self._done_event.set()`
          if s.helper = .exiting ∧ allDone s1.st then some (returnNow s1) else some s1
        | some x =>
          -- `self._exception = exc; await asyncio.shield(self._shutdown())`: every pending task (this one included) is
          -- cancelled and awaited, `self._pending = None`, `self._done_event.set()`
          let s2 := withExc (cancelFirst s1 s1.st.length) x
          match s.helper with
          | .exiting =>
            -- `__aexit__` wakes after the cancelled tasks have run, re-acquires and raises `self._exception`
            some (raiseNow s2 x 0 true)
          | _ => some s2
    | _, _ => none
  | .body o =>
    match s.flavour, s.helper, o with
    | .online, .active, .ret _ => some (bodyEnds s none)
    | .online, .active, .raise e => some (bodyEnds s (some (.code e)))
    | _, _, _ => none
  | .cancelCaller =>
    match s.flavour, s.helper with
    | .online, .active =>
      -- the body is resumed with `CancelledError`
      some (bodyEnds s (some .cancelled))
    | .online, .exiting =>
      -- `await self._done_event.wait()` inside `__aexit__` is resumed with `CancelledError`: `WithoutSemaphore.__aexit__` does not
      -- re-acquire; `except BaseException: self._exception = exc; await self._shutdown(); raise` cancels every pending task and
      -- waits for them before the `CancelledError` leaves `__aexit__`
      some (exitCancel s)
    | _, .active =>
      -- `outer.cancel()` of `asyncio.gather` cancels every child; the helper is resumed with `CancelledError` when they are done
      -- (`cancel_on_error`'s `finally:` finds nothing left to cancel)
      some (raiseNow (cancelFirst s s.st.length) .cancelled 0 false)
    | _, _ => none

/-! ### the code before the repairs b83b6cc09 (F1), 2f78d4573 (F2), 426463a22 (F3), 316170afa (F5) — kept to document the repaired
defects -/

/-- F1: `bounded_gather` handed `bounded_gather2` a fresh `Semaphore(n)` nobody held a permit of -/
def startOld (fl : Flavour) (en : Entry) (n : Nat) (outs : List Outcome) : State :=
  let v0 := valueAtCallOld n en
  let q := outs.map fun _ => TSt.queued
  match fl with
  | .online => let p := grant v0 q; ⟨fl, en, outs, p.2, p.1, .active, none, 0⟩
  | _ =>
    if outs.isEmpty then ⟨fl, en, outs, [], v0, .returned [], none, 0⟩
    else let p := grant (v0 + 1) q; ⟨fl, en, outs, p.2, p.1, .active, none, 0⟩

/-- F2: the clean-up loop of `cancel_on_error=True` was `for task in tasks: if task.done() and not task.cancelled(): exc =
task.exception(); if exc: raise exc  else: task.cancel()` — it cancelled only the unfinished tasks BEFORE the failed one, re-raised
at the failed task and never reached `asyncio.wait(tasks)`.
F3: `OnlineBoundedGather2._shutdown` cancelled the pending tasks without waiting for them, so when the body raised `__aexit__`
raised without yielding to the loop. -/
def stepOld (s : State) : Op → Option State
  | .finish i =>
    match s.st[i]?, s.outs[i]?, s.flavour, s.helper with
    | some .running, some (.raise e), .raiseCancel, .active =>
      let s1 := complete s i (.raise e)
      some (raiseNow (cancelFirst s1 i) (.code e) (nNotDone s1.st) false)
    | _, _, _, _ => step s (.finish i)
  | .body (.raise e) =>
    match s.flavour, s.helper, s.exc with
    | .online, .active, none => some (raiseNow (withExc (cancelFirst s s.st.length) (.code e)) (.code e) (nNotDone s.st) false)
    | _, _, _ => step s (.body (.raise e))
  | .cancelCaller =>
    match s.flavour, s.helper with
    | .online, .exiting => some (exitCancelOld s)      -- F5
    | _, _ => step s .cancelCaller
  | op => step s op

def runFromWith (f : State → Op → Option State) : State → List Op → Option State
  | s, [] => some s
  | s, op :: ops =>
    match f s op with
    | none => none
    | some s' => runFromWith f s' ops

def runFrom : State → List Op → Option State
  | s, [] => some s
  | s, op :: ops =>
    match step s op with
    | none => none
    | some s' => runFrom s' ops

/-- the exception, if any, that the end of a task body means to helper `fl` -/
def taskFailure (fl : Flavour) (o : Outcome) : Option Exn :=
  match fl with
  | .returnExceptions => none
  | .online => poolFailureOf o
  | _ => failureOf o

/-- the first exception in schedule order that helper `fl` gets to see: of the finished task bodies, of the `async with` body
(online), or the cancellation of its caller -/
def firstErr (fl : Flavour) (outs : List Outcome) : List Op → Option Exn
  | [] => none
  | .finish i :: r =>
    match (outs[i]?).bind (taskFailure fl) with
    | some x => some x
    | none => firstErr fl outs r
  | .body o :: r =>
    match poolFailureOf o with      -- the body's own exception (its cancellation is the op `cancelCaller`)
    | some x => some x
    | none => firstErr fl outs r
  | .cancelCaller :: _ => some .cancelled

end HailVerif.Gather

import HailVerif.Model.Value
/-!
# Model of the JSON conversion of values (property C32)

`/repo/hail/python/hail/expr/types.py`: `HailType._convert_to_json_na` / `_convert_to_json` / `_convert_from_json_na` /
`_convert_from_json` of every type class, with the wrappers `_to_json` (`json.dumps`) and `_from_json` (`json.loads`) in
between.  The JSON text layer is the identity on the tree `Json` (CPython's `repr`/`float` of a finite float being inverse
to each other is an assumption, not modelled).  `none` = the real method raises.

Outside the model (`none`): `float(x)` of a JSON integer or of a string other than the three spellings the encoder emits,
`int(s)` of anything but ASCII digits, numpy conversions of JSON numbers of the wrong kind.
-/
namespace HailVerif.ValueJson
open HailVerif.TypeStr HailVerif.Values

/-- a parsed JSON document (`json.loads`): numbers are Python `int`s or `float`s (`NaN`, `Infinity` included) -/
inductive Json where
  | null
  | bool (b : Bool)
  | num (i : Int)
  | flt (f : Flt)
  | str (s : Str)
  | arr (xs : List Json)
  | obj (kvs : List (Str × Json))
deriving Repr, Inhabited

/-! ## to JSON -/

/-- `str(call)` (`Call.__str__`) -/
def callStr (alleles : List Nat) (phased : Bool) : Option Str :=
  match alleles, phased with
  | [], true => some (cp% "|-")
  | [], false => some (cp% "-")
  | [a], true => some (124 :: natDigits a)
  | [a], false => some (natDigits a)
  | [a, b], true => some (natDigits a ++ 124 :: natDigits b)
  | [a, b], false => some (natDigits a ++ 47 :: natDigits b)
  | _, _ => none

/-- `_convert_to_json(None)`: no caller passes `None` any more (before commit 1824f18d5 `tdict` did, for missing keys and
values — see `dictEntryToJsonOld`); this is what the converters do with it.  The base class is the identity (`None` → `null`), `tcall` is `str(None)`, a struct
or tuple type without fields never touches the value; every other class raises `TypeError` / `AttributeError`. -/
def toJsonNone : HType → Option Json
  | .int32 | .int64 | .bool | .str | .void | .rngState => some .null
  | .call => some (.str (cp% "None"))
  | .struct [] => some (.obj [])
  | .tuple [] => some (.arr [])
  | _ => none

/-- `math.isfinite(x)` ? `x` : `str(x)` -/
def fltToJson : Flt → Json
  | .fin b => .flt (.fin b)
  | .nan => .str (cp% "nan")
  | .inf => .str (cp% "inf")
  | .ninf => .str (cp% "-inf")

/-- `_convert_to_json_na`: `None` ↦ `null`, anything else through the type's converter -/
def naOr (x : Value) (conv : Value → Option Json) : Option Json :=
  match x with
  | .na => some .null
  | _ => conv x

/-- `{'key': key_type._convert_to_json_na(k), 'value': value_type._convert_to_json_na(v)}` (since /repo commit 1824f18d5) -/
def dictEntryToJson (convK convV : Value → Option Json) (p : Value × Value) : Option Json :=
  match naOr p.1 convK, naOr p.2 convV with
  | some jk, some jv => some (.obj [(cp% "key", jk), (cp% "value", jv)])
  | _, _ => none

/-- the entry conversion BEFORE commit 1824f18d5 (repaired defect, kept for the record): `_convert_to_json` without the `None`
check, so a missing key / value reached the type's converter (`toJson t .na = toJsonNone t`) -/
def dictEntryToJsonOld (convK convV : Value → Option Json) (p : Value × Value) : Option Json :=
  match convK p.1, convV p.2 with
  | some jk, some jv => some (.obj [(cp% "key", jk), (cp% "value", jv)])
  | _, _ => none

mutual
/-- an element of `x.flatten("C").tolist()` as `json.dumps` sees it: the elements are NOT converted by the element type, so
only what `json.dumps` accepts by itself gets through (numbers, `bool`, `str`, `tuple`s of those); `Call`, `Locus`,
`Interval`, `Struct` and the frozen containers raise `TypeError: Object of type … is not JSON serializable` -/
def rawToJson : Value → Option Json
  | .int i => some (.num i)
  | .bool b => some (.bool b)
  | .flt f => some (.flt f)
  | .str s => some (.str s)
  | .tup xs => (rawToJsonList xs).map .arr
  | _ => none
def rawToJsonList : List Value → Option (List Json)
  | [] => some []
  | x :: xs => match (match x with | .na => some Json.null | _ => rawToJson x), rawToJsonList xs with
    | some j, some js => some (j :: js)
    | _, _ => none
end

mutual
/-- `t._convert_to_json(x)` -/
def toJson : HType → Value → Option Json
  | t, .na => toJsonNone t
  | .int32, .int i | .int64, .int i => some (.num i)
  | .bool, .bool b => some (.bool b)
  | .str, .str s => some (.str s)
  | .float32, .flt f | .float64, .flt f => some (fltToJson f)
  | .call, .call alleles phased => (callStr alleles phased).map .str
  | .locus _, .locus contig pos => some (.obj [(cp% "contig", .str contig), (cp% "position", .num pos)])
  | .interval t, .interval s e is ie =>
    match naOr s (toJson t), naOr e (toJson t) with
    | some js, some je =>
      some (.obj [(cp% "start", js), (cp% "end", je), (cp% "includeStart", .bool is), (cp% "includeEnd", .bool ie)])
    | _, _ => none
  | .array t, .arr xs | .set t, .set xs =>
    (mapOpt (fun x => naOr x (toJson t)) xs).map .arr
  | .dict k v, .dict es =>
    (mapOpt (dictEntryToJson (toJson k) (toJson v)) es).map .arr
  | .struct fs, .struct xs => (toJsonFields fs xs).map .obj
  | .tuple ts, .tup xs => (toJsonTuple ts xs).map .arr
  | .ndarray _ _, .nd shape data _ =>
    (mapOpt rawToJson data).map fun d => .obj [(cp% "shape", .arr (shape.map fun (n : Nat) => Json.num (Int.ofNat n))), (cp% "data", .arr d)]
  | _, _ => none
/-- `{f: t._convert_to_json_na(x[f]) for f, t in self.items()}` -/
def toJsonFields : List (Str × HType) → List Value → Option (List (Str × Json))
  | [], [] => some []
  | (n, t) :: fs, x :: xs =>
    match naOr x (toJson t), toJsonFields fs xs with
    | some j, some js => some ((n, j) :: js)
    | _, _ => none
  | _, _ => none
/-- `[self.types[i]._convert_to_json_na(x[i]) for i in range(len(self.types))]` -/
def toJsonTuple : List HType → List Value → Option (List Json)
  | [], [] => some []
  | t :: ts, x :: xs =>
    match naOr x (toJson t), toJsonTuple ts xs with
    | some j, some js => some (j :: js)
    | _, _ => none
  | _, _ => none
end

/-- `t._convert_to_json_na(x)` -/
def toJsonNa (t : HType) (v : Value) : Option Json := naOr v (toJson t)

/-! ## from JSON -/

def lookup (k : Str) : List (Str × Json) → Option Json
  | [] => none
  | (n, j) :: r => if n = k then some j else lookup k r

/-- the base-class `_convert_from_json`: the identity on JSON scalars -/
def scalarOfJson : Json → Option Value
  | .null => some .na
  | .bool b => some (.bool b)
  | .num i => some (.int i)
  | .flt f => some (.flt f)
  | .str s => some (.str s)
  | _ => none

/-- `float(x)` -/
def fltOfJson : Json → Option Value
  | .flt f => some (.flt f)
  | .str s =>
    if s = cp% "nan" then some (.flt .nan) else if s = cp% "inf" then some (.flt .inf)
    else if s = cp% "-inf" then some (.flt .ninf) else none
  | _ => none

/-- `int(s)` for a string of ASCII digits -/
def parseNat (s : Str) : Option Nat :=
  match s with
  | [] => none
  | _ => if s.all asciiDigit then some (spanDigits s 0).1 else none

/-- first position of `|` or `/` -/
def splitCall : Str → Str → Option (Str × Nat × Str)
  | _, [] => none
  | acc, c :: r => if c = 124 ∨ c = 47 then some (acc.reverse, c, r) else splitCall (c :: acc) r

/-- `Call(alleles, phased)`: an unphased pair is stored sorted -/
def mkCall (alleles : List Nat) (phased : Bool) : Value :=
  match alleles, phased with
  | [a, b], false => if b < a then .call [b, a] false else .call [a, b] false
  | _, _ => .call alleles phased

/-- `_tcall._convert_from_json` -/
def callOfStr (x : Str) : Option Value :=
  if x = cp% "-" then some (mkCall [] false)
  else if x = cp% "|-" then some (mkCall [] true)
  else match x with
    | [] => none                                                  -- x[0]: IndexError
    | c :: r =>
      if c = 124 then (parseNat r).map fun a => mkCall [a] true
      else match splitCall [] x with
        | none => (parseNat x).map fun a => mkCall [a] false
        | some (l, sep, r) => match parseNat l, parseNat r with
          | some a, some b => some (mkCall [a, b] (sep == 124))
          | _, _ => none

/-- `np.array(x['data'], dtype=np_type)` element by element -/
def rawOfJson (t : HType) (j : Json) : Option Value :=
  match t, j with
  | .int32, .num i => if -2147483648 ≤ i ∧ i < 2147483648 then some (.int i) else none
  | .int64, .num i => if -9223372036854775808 ≤ i ∧ i < 9223372036854775808 then some (.int i) else none
  | .bool, .bool b => some (.bool b)
  | .float32, .flt f | .float64, .flt f => some (.flt f)
  | _, _ => none

/-- `_convert_from_json_na`: `null` ↦ `None`, anything else through the type's converter -/
def nullOr (j : Json) (conv : Json → Option Value) : Option Value :=
  match j with
  | .null => some .na
  | _ => conv j

/-- `key_type._convert_from_json_na(elt['key'])`, `value_type._convert_from_json_na(elt['value'])` -/
def dictEntryOfJson (convK convV : Json → Option Value) (j : Json) : Option (Value × Value) :=
  match j with
  | .obj kvs => match lookup (cp% "key") kvs, lookup (cp% "value") kvs with
    | some jk, some jv => match nullOr jk convK, nullOr jv convV with
      | some a, some b => some (a, b)
      | _, _ => none
    | _, _ => none                                         -- KeyError
  | _ => none

/-- a field named `self`: before /repo commit c88553592 `hl.Struct.__init__(self, **kwargs)` could not take it as a keyword, so
reading such a struct back raised (repaired defect, kept for the record: `fromJsonStructOld`) -/
def hasSelfField (fs : List (Str × HType)) : Bool := fs.any fun f => f.1 == cp% "self"

def natsOfJson : List Json → Option (List Nat)
  | [] => some []
  | .num i :: r => if 0 ≤ i then (natsOfJson r).map (i.toNat :: ·) else none
  | _ => none

mutual
/-- `t._convert_from_json(x)` for `x` that is not `None` -/
def fromJson : HType → Json → Option Value
  | .int32, j | .int64, j | .bool, j | .str, j | .void, j | .rngState, j => scalarOfJson j
  | .float32, j | .float64, j => fltOfJson j
  | .call, .str s => callOfStr s
  | .locus _, .obj kvs =>
    match lookup (cp% "contig") kvs, lookup (cp% "position") kvs with
    | some (.str c), some (.num p) => some (.locus c p)
    | _, _ => none
  | .interval t, .obj kvs =>
    match lookup (cp% "start") kvs, lookup (cp% "end") kvs, lookup (cp% "includeStart") kvs, lookup (cp% "includeEnd") kvs with
    | some js, some je, some (.bool is), some (.bool ie) =>
      match nullOr js (fromJson t), nullOr je (fromJson t) with
      | some s, some e => some (.interval s e is ie)
      | _, _ => none
    | _, _, _, _ => none
  | .array t, .arr js => (mapOpt (fun j => nullOr j (fromJson t)) js).map .arr
  | .stream t, .arr js => (mapOpt (fun j => nullOr j (fromJson t)) js).map .arr
  | .set t, .arr js => (mapOpt (fun j => nullOr j (fromJson t)) js).map .set
  | .dict k v, .arr js =>
    (mapOpt (dictEntryOfJson (fromJson k) (fromJson v)) js).map .dict
  | .struct fs, .obj kvs => (fromJsonFields fs kvs).map .struct
  | .tuple ts, .arr js => (fromJsonTuple ts js).map .tup
  | .ndarray t _, .obj kvs =>
    if isNumeric t then
      match lookup (cp% "shape") kvs, lookup (cp% "data") kvs with
      | some (.arr sh), some (.arr d) =>
        match natsOfJson sh, mapOpt (rawOfJson t) d with
        | some shape, some data =>
          let n := shape.foldl (· * ·) 1
          if data.length < n then none else some (.nd shape (data.take n) false)    -- "buffer is too small"; a longer one is cut
        | _, _ => none
      | _, _ => none
    else none                    -- TypeError("Hail cannot currently return ndarrays of non-numeric or boolean type.")
  | _, _ => none
/-- `Struct(**{f: t._convert_from_json_na(x.get(f)) for f, t in self._field_types.items()})` -/
def fromJsonFields : List (Str × HType) → List (Str × Json) → Option (List Value)
  | [], _ => some []
  | (n, t) :: fs, kvs =>
    match (match lookup n kvs with
      | none => some Value.na                        -- `x.get(f)` of an absent key is `None`
      | some j => nullOr j (fromJson t)), fromJsonFields fs kvs with
    | some x, some xs => some (x :: xs)
    | _, _ => none
/-- `tuple(self.types[i]._convert_from_json_na(x[i]) for i in range(len(self.types)))` -/
def fromJsonTuple : List HType → List Json → Option (List Value)
  | [], _ => some []
  | _ :: _, [] => none                                             -- IndexError
  | t :: ts, j :: js =>
    match nullOr j (fromJson t), fromJsonTuple ts js with
    | some x, some xs => some (x :: xs)
    | _, _ => none
end

/-- `t._convert_from_json_na(x)` -/
def fromJsonNa (t : HType) (j : Json) : Option Value := nullOr j (fromJson t)

/-! ## what the conversion supports -/

/-- the classes whose `_convert_to_json` is the identity, so that even the old `tdict` code let a `None` survive -/
def primNone : HType → Bool
  | .int32 | .int64 | .bool | .str => true
  | _ => false

mutual
/-- every n-d array has a numeric element type (the only restriction left after commits 1824f18d5 and c88553592) -/
def JsonOK : HType → Value → Prop
  | _, .na => True
  | .interval t, .interval s e _ _ => JsonOK t s ∧ JsonOK t e
  | .array t, .arr xs => ∀ x ∈ xs, JsonOK t x
  | .set t, .set xs => ∀ x ∈ xs, JsonOK t x
  | .dict k v, .dict es =>
    ∀ p ∈ es, JsonOK k p.1 ∧ JsonOK v p.2
  | .struct fs, .struct xs => JsonOKFields fs xs
  | .tuple ts, .tup xs => JsonOKTuple ts xs
  | .ndarray t _, .nd _ _ _ => isNumeric t = true
  | _, _ => True
def JsonOKFields : List (Str × HType) → List Value → Prop
  | (_, t) :: fs, x :: xs => JsonOK t x ∧ JsonOKFields fs xs
  | _, _ => True
def JsonOKTuple : List HType → List Value → Prop
  | t :: ts, x :: xs => JsonOK t x ∧ JsonOKTuple ts xs
  | _, _ => True
end

/-- the struct clause of `fromJson` BEFORE commit c88553592: `Struct(**{'self': …})` raised `TypeError` -/
def fromJsonStructOld (fs : List (Str × HType)) (kvs : List (Str × Json)) : Option Value :=
  if hasSelfField fs then none else (fromJsonFields fs kvs).map .struct

/-- `t._from_json(t._to_json(v))` -/
def roundTrip (t : HType) (v : Value) : Option Value := (toJsonNa t v).bind (fromJsonNa t)

end HailVerif.ValueJson

/-
Model of `FIFOWeightedSemaphore` (batch/batch/semaphore.py), the worker's CPU semaphore
(`Worker.cpu_sem`, used as `async with self.worker.cpu_sem(self.cpu_in_mcpu)` in batch/batch/worker/worker.py).

asyncio code is atomic between awaits, so one model step is one atomic block of the class:
* `acquire i w`  — task `i` enters `async with sem(w)`: `acquire(w)` runs up to its only await (`event.wait()`)
                    or returns at once;
* `release i`    — task `i` leaves the `async with` body: `__aexit__` → `release(w)` including the whole
                    `while self.queue:` loop.  A waiter whose event is set by that loop is *granted*: its weight
                    has ALREADY been subtracted from `value` by the loop (`self.value -= head_weight`), i.e. a woken
                    waiter owns its weight from the moment it is woken, not from the moment it runs again;
* `resume i`     — a granted task is scheduled again: `event.wait()` and `acquire` return, the body starts.
                    Nothing of the semaphore changes.
Any number of `acquire`/`release` blocks of other tasks may run between the wake-up of a waiter and its `resume`
(several releases, or a release and a new acquire, inside one event-loop iteration): op lists contain them all.
Task ids stand for the `asyncio.Event` objects of the queue entries (one per waiting task).
Cancellation of waiters is not modelled (outside C16).
-/
namespace HailVerif.FifoSem

structure State where
  /-- `self.value` -/
  value : Int
  /-- `self.queue`, head = oldest waiter; entries `(task, weight)` -/
  queue : List (Nat × Nat)
  /-- waiters whose event has been set by `release` and that have not run since; their weight is already subtracted -/
  granted : List (Nat × Nat)
  /-- tasks inside the `async with` body -/
  holders : List (Nat × Nat)
  deriving DecidableEq, Repr

inductive Op where
  | acquire (i w : Nat)
  | release (i : Nat)
  | resume (i : Nat)
  deriving DecidableEq, Repr

/-- what a step does to tasks (the observable trace) -/
inductive Ev where
  /-- `acquire` returned without waiting (first branch) -/
  | grantNow (i : Nat)
  /-- `acquire` appended `(event, weight)` to the queue and waits -/
  | enqueue (i : Nat)
  /-- the `release` loop set the event of queued task `i` (`n_notified += 1`) -/
  | grantQueued (i : Nat)
  /-- a granted task ran again and entered the body -/
  | resumed (i : Nat)
  deriving DecidableEq, Repr

/-- `FIFOWeightedSemaphore(value=cap)` -/
def init (cap : Nat) : State := ⟨cap, [], [], []⟩

def ids (l : List (Nat × Nat)) : List Nat := l.map (·.1)
def weights (l : List (Nat × Nat)) : Int := (l.map fun p => (p.2 : Int)).sum

def active (s : State) (i : Nat) : Bool :=
  (ids s.queue).contains i || (ids s.granted).contains i || (ids s.holders).contains i

/-- weight that is handed out: tasks in the body and woken tasks that have not run yet -/
def held (s : State) : Int := weights s.holders + weights s.granted

/-- remove task `i` from a holder list, returning its weight -/
def take (i : Nat) : List (Nat × Nat) → Option (Nat × List (Nat × Nat))
  | [] => none
  | (j, w) :: r =>
    if j = i then some (w, r)
    else match take i r with
      | none => none
      | some (w', r') => some (w', (j, w) :: r')

/-- the loop of `release`:
```
while self.queue:
    head_event, head_weight = self.queue[0]
    if self.value >= head_weight: head_event.set(); self.queue.popleft(); self.value -= head_weight
    else: break
```
-/
def drain (value : Int) (granted holders : List (Nat × Nat)) : List (Nat × Nat) → State × List Ev
  | [] => (⟨value, [], granted, holders⟩, [])
  | (i, w) :: q =>
    if value ≥ (w : Int) then
      let r := drain (value - w) (granted ++ [(i, w)]) holders q
      (r.1, Ev.grantQueued i :: r.2)
    else (⟨value, (i, w) :: q, granted, holders⟩, [])

/-- one atomic block.  `none` = not a behaviour of the protocol (a task id used twice at the same time, or a
release by a task that is not in the body, a resume of a task that was not woken: impossible for `async with`). -/
def step (s : State) : Op → Option (State × List Ev)
  | .acquire i w =>
    if active s i then none
    else if s.queue.isEmpty ∧ s.value ≥ (w : Int) then     -- `if not self.queue and self.value >= weight`
      some (⟨s.value - w, s.queue, s.granted, s.holders ++ [(i, w)]⟩, [Ev.grantNow i])
    else                                                    -- `self.queue.append((event, weight)); await event.wait()`
      some (⟨s.value, s.queue ++ [(i, w)], s.granted, s.holders⟩, [Ev.enqueue i])
  | .release i =>
    match take i s.holders with
    | none => none
    | some (w, rest) => some (drain (s.value + w) s.granted rest s.queue)   -- `self.value += weight` then the loop
  | .resume i =>
    match take i s.granted with
    | none => none
    | some (w, rest) => some (⟨s.value, s.queue, rest, s.holders ++ [(i, w)]⟩, [Ev.resumed i])

/-- run a list of atomic blocks, collecting the trace -/
def run : State → List Op → Option (State × List Ev)
  | s, [] => some (s, [])
  | s, op :: ops =>
    match step s op with
    | none => none
    | some (s', e) =>
      match run s' ops with
      | none => none
      | some (s'', es) => some (s'', e ++ es)

def enqueued : List Ev → List Nat
  | [] => []
  | Ev.enqueue i :: es => i :: enqueued es
  | _ :: es => enqueued es

def grantedFromQueue : List Ev → List Nat
  | [] => []
  | Ev.grantQueued i :: es => i :: grantedFromQueue es
  | _ :: es => grantedFromQueue es

/-- the blocks that run when the event loop runs to quiescence: every granted task resumes, in grant order -/
def settleOps (s : State) : List Op := s.granted.map fun p => Op.resume p.1

/-- every acquire of the op list asks for at most `cap` -/
def WeightsLe (cap : Nat) (ops : List Op) : Prop := ∀ i w, Op.acquire i w ∈ ops → w ≤ cap

end HailVerif.FifoSem

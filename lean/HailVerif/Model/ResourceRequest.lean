import HailVerif.Generated.Machines
/-
Model of the resource-request path of the batch front end:

* `batch/batch/cloud/resource_utils.py`      adjust_cores_for_packability, requested_storage_bytes_to_actual_storage_gib,
                                              round_storage_bytes_to_gib, is_valid_cores_mcpu, machine_type_to_cores_and_memory_bytes
* `batch/batch/cloud/gcp/resource_utils.py`   gcp_adjust_cores_for_memory_request, gcp_cores_mcpu_to_memory_bytes,
                                              gcp_worker_memory_per_core_mib, gcp_requested_to_actual_storage_bytes
* `batch/batch/cloud/azure/resource_utils.py` the azure_* counterparts
* `batch/batch/inst_coll_config.py`           PoolConfig.convert_requests_to_resources,
                                              JobPrivateInstanceManagerConfig.convert_requests_to_resources,
                                              InstanceCollectionConfigs.select_{cheapest_price_pool,pool_from_worker_type,job_private,inst_coll}
* `batch/batch/front_end/front_end.py`        the resource block of `_create_jobs` (docker jobs), after the strings are parsed
* `batch/batch/front_end/validate.py`         handle_deprecated_job_keys: the legacy `pvc_size` spelling of `resources.storage`

Tables come from `Generated/Machines.lean`.  Python floats are replaced by exact integer arithmetic
(`ceil((m / p) * 1000)` ↦ `⌈1000 m / p⌉`, `int((c / 1000) * p)` ↦ `⌊c p / 1000⌋`).  The price of a pool is an
uninterpreted function parameter.  A failing Python `assert` / `raise ValueError` is the explicit outcome `err`.
-/
namespace HailVerif.Resources
open HailVerif.Generated.Machines

inductive Cloud where
  | gcp | azure
deriving DecidableEq, Repr

def ceilDiv (a b : Nat) : Nat := (a + b - 1) / b

/-- `gcp_worker_memory_per_core_mib` / `azure_worker_memory_per_core_mib` × 1024², `none` = the assert fails -/
def memPerCoreBytes : Cloud → String → Option Nat
  | .gcp, wt => (gcpMemoryPerCoreMiB.lookup (gcpMachineFamily, wt)).map (· * 1024 ^ 2)
  | .azure, wt => (azureMemoryPerCoreMiB.lookup wt).map (· * 1024 ^ 2)

/-- `*_adjust_cores_for_memory_request`: `max(cores, ceil((memory / per_core) * 1000))` -/
def adjustForMemory (cores mem perCore : Nat) : Nat := max cores (ceilDiv (mem * 1000) perCore)

/-- doubling search for `adjust_cores_for_packability` -/
def packGo : Nat → Nat → Nat → Nat
  | 0, p, _ => p
  | fuel + 1, p, c => if c ≤ p then p else packGo fuel (2 * p) c

/-- `adjust_cores_for_packability`: `2 ** max(-2, ceil(log2(max(1, c) / 1000))) * 1000`, the least `250·2^k ≥ c` -/
def packable (c : Nat) : Nat := packGo c 250 c

/-- `*_cores_mcpu_to_memory_bytes`: `int((mcpu / 1000) * per_core_bytes)` -/
def coresToMemory (mcpu perCore : Nat) : Nat := mcpu * perCore / 1000

/-- `is_valid_cores_mcpu` -/
def isValidCoresMcpu (c : Nat) : Bool :=
  if c = 0 then false
  else if (c * 4) % 1000 ≠ 0 then false
  else
    let q := c * 4 / 1000
    q &&& (q - 1) == 0

def maxStorageBytes : Cloud → Nat
  | .gcp => gcpMaxPersistentSsdGiB * 1024 ^ 3
  | .azure => azureMaxPersistentSsdGiB * 1024 ^ 3

def minStorageBytes : Cloud → Nat
  | .gcp => gcpMinStorageBytes
  | .azure => azureMinStorageBytes

/-- `requested_storage_bytes_to_actual_storage_gib(cloud, storage_bytes, allow_zero_storage)`; `none` = over the limit -/
def storageGiB (cloud : Cloud) (bytes : Nat) (allowZero : Bool) : Option Nat :=
  if bytes > maxStorageBytes cloud then none
  else if allowZero && bytes == 0 then some 0
  else some (ceilDiv (max (minStorageBytes cloud) bytes) (1024 ^ 3))

/-- the fields of `PoolConfig` that the selection reads -/
structure Pool where
  name : String
  cloud : Cloud
  workerType : String
  workerCores : Nat
  preemptible : Bool
  label : String
deriving Repr, DecidableEq

/-- `(inst_coll_name, cores_mcpu, memory_bytes, storage_gib)` -/
structure Granted where
  coll : String
  coresMcpu : Nat
  memBytes : Nat
  storageGiB : Nat
deriving Repr, DecidableEq

/-- result of a Python function that may return `None` or trip an assert -/
inductive Res (α : Type) where
  | err            -- AssertionError / ValueError
  | none           -- `None`
  | some (a : α)
deriving Repr, DecidableEq

/-- `PoolConfig.convert_requests_to_resources(cores_mcpu, memory_bytes, storage_bytes)` -/
def Pool.convert (p : Pool) (cores mem storage : Nat) : Res (Nat × Nat × Nat) :=
  match storageGiB p.cloud storage true with
  | none => .none
  | some sg =>
    match memPerCoreBytes p.cloud p.workerType with
    | none => .err
    | some pc =>
      let c := packable (adjustForMemory cores mem pc)
      let m := coresToMemory c pc
      if c ≤ p.workerCores * 1000 then .some (c, m, sg) else .none

/-- the `continue` filter of `select_cheapest_price_pool` -/
def Pool.matchesReq (p : Pool) (cloud : Cloud) (label : String) (preemptible : Bool) : Bool :=
  p.cloud == cloud && p.preemptible == preemptible && p.label == label

/-- `max_regional_maybe_price`: maximum over `possible_cloud_locations`, `None` when there is no location -/
def maxRegional (locs : List String) (priceAt : String → Nat) : Option Nat :=
  locs.foldl (fun acc l => match acc with
    | none => some (priceAt l)
    | some m => if priceAt l > m then some (priceAt l) else some m) none

/-- `optimal_price is None or (max_regional_maybe_price is not None and max_regional_maybe_price < optimal_price)` -/
def isBetter : Option Nat → Option Nat → Bool
  | none, _ => true
  | some _, none => false
  | some o, some m => m < o

/-- loop of `select_cheapest_price_pool`; state = `(optimal_price, optimal_result)` -/
def cheapestGo (price : Pool → String → Nat × Nat × Nat → Nat) (locs : List String)
    (cloud : Cloud) (label : String) (preemptible : Bool) (cores mem storage : Nat) :
    List Pool → Option Nat → Option Granted → Res Granted
  | [], _, none => .none
  | [], _, some g => .some g
  | p :: ps, optPrice, optRes =>
    if p.matchesReq cloud label preemptible then
      match p.convert cores mem storage with
      | .err => .err
      | .none => cheapestGo price locs cloud label preemptible cores mem storage ps optPrice optRes
      | .some r =>
        let mp := maxRegional locs (fun l => price p l r)
        if isBetter optPrice mp then
          cheapestGo price locs cloud label preemptible cores mem storage ps mp (some ⟨p.name, r.1, r.2.1, r.2.2⟩)
        else
          cheapestGo price locs cloud label preemptible cores mem storage ps optPrice optRes
    else cheapestGo price locs cloud label preemptible cores mem storage ps optPrice optRes

/-- `select_cheapest_price_pool` -/
def selectCheapest (price : Pool → String → Nat × Nat × Nat → Nat) (locs : List String) (pools : List Pool)
    (cloud : Cloud) (label : String) (preemptible : Bool) (cores mem storage : Nat) : Res Granted :=
  cheapestGo price locs cloud label preemptible cores mem storage pools none none

/-- `select_pool_from_worker_type`: the first matching pool that can hold the request -/
def selectByWorkerType (cloud : Cloud) (label workerType : String) (preemptible : Bool) (cores mem storage : Nat) :
    List Pool → Res Granted
  | [] => .none
  | p :: ps =>
    if p.matchesReq cloud label preemptible && p.workerType == workerType then
      match p.convert cores mem storage with
      | .err => .err
      | .some r => .some ⟨p.name, r.1, r.2.1, r.2.2⟩
      | .none => selectByWorkerType cloud label workerType preemptible cores mem storage ps
    else selectByWorkerType cloud label workerType preemptible cores mem storage ps

/-- `machine_type_to_cores_and_memory_bytes(cloud, machine_type)`; `none` = `ValueError` -/
def machineCoresMem : Cloud → String → Option (Nat × Nat)
  | .gcp, mt => (gcpMachineTypes.lookup mt).map fun x => (x.2.2.1, x.2.2.2.1)
  | .azure, mt => (azureMachineTypes.lookup mt).map fun x => (x.2.1, x.2.2)

/-- `valid_machine_types(cloud)` membership -/
def validMachineType (cloud : Cloud) (mt : String) : Bool := (machineCoresMem cloud mt).isSome

/-- the job-private instance manager: `(name, cloud)` -/
structure Jpim where
  name : String
  cloud : Cloud
deriving Repr, DecidableEq

/-- `select_job_private` + `JobPrivateInstanceManagerConfig.convert_requests_to_resources` -/
def selectJobPrivate (j : Jpim) (cloud : Cloud) (machineType : String) (storage : Nat) : Res Granted :=
  if j.cloud ≠ cloud then .none
  else match storageGiB j.cloud storage false with
    | none => .none
    | some sg =>
      match machineCoresMem j.cloud machineType with
      | none => .err
      | some (cores, mem) => .some ⟨j.name, cores * 1000, mem, sg⟩

/-- `select_inst_coll(cloud, machine_type, pool_label, preemptible, worker_type, cores, memory, storage)`.
`cores`/`mem` are only read when `machineType = none`. -/
def selectInstColl (price : Pool → String → Nat × Nat × Nat → Nat) (locs : List String) (pools : List Pool) (j : Jpim)
    (cloud : Cloud) (machineType : Option String) (label : String) (preemptible : Bool) (workerType : Option String)
    (cores mem storage : Nat) : Res Granted :=
  match workerType, machineType with
  | some wt, none => selectByWorkerType cloud label wt preemptible cores mem storage pools
  | none, none => selectCheapest price locs pools cloud label preemptible cores mem storage
  | none, some mt =>
    if mt ≠ "" ∧ validMachineType cloud mt then selectJobPrivate j cloud mt storage else .err
  | some _, some _ => .err

/-! ### the resource block of `_create_jobs` (strings already parsed by `hailtop.batch_client.parse`) -/

/-- `resources['memory']`: one of `memory_types` or a parsed byte count -/
inductive MemReq where
  | sym (name : String)
  | bytes (b : Nat)
deriving Repr, DecidableEq

/-- the `resources` dict of a job spec; `none` = key absent -/
structure Request where
  machineType : Option String
  poolLabel : Option String
  preemptible : Option Bool
  cpuMcpu : Option Nat
  memory : Option MemReq
  storageBytes : Option Nat
deriving Repr, DecidableEq

/-- `BATCH_JOB_DEFAULT_{CPU,MEMORY,STORAGE,PREEMPTIBLE}` (deployment configuration), parsed -/
structure Defaults where
  cpuMcpu : Nat
  memory : MemReq
  storageBytes : Nat
  preemptible : Bool
deriving Repr, DecidableEq

inductive Answer where
  | placed (g : Granted)
  | invalid          -- HTTPBadRequest for a malformed combination
  | unsatisfiable    -- HTTPBadRequest 'resource requests … are unsatisfiable'
  | err              -- an assert fired (HTTP 500)
deriving Repr, DecidableEq

/-- `if exc … if result is None: raise HTTPBadRequest('… unsatisfiable …')` after `select_inst_coll` -/
def finish (res : Res Granted) : Answer :=
  match res with
  | .err => .err
  | .none => .unsatisfiable
  | .some g => .placed g

def memoryToWorkerType : Cloud → String → Option String
  | .gcp, m => gcpMemoryToWorkerType.lookup m
  | .azure, m => azureMemoryToWorkerType.lookup m

/-- the `machine_type is None` half of the block: cpu validity, memory resolution, selection -/
def poolRequest (price : Pool → String → Nat × Nat × Nat → Nat) (locs : List String) (pools : List Pool) (j : Jpim)
    (cloud : Cloud) (label : String) (preemptible : Bool) (cores : Nat) (memReq : MemReq) (storage : Nat) : Answer :=
  if ¬ isValidCoresMcpu cores then .invalid
  else
    match memReq with
    | .sym name =>
      match memoryToWorkerType cloud name with
      | some wt =>
        match memPerCoreBytes cloud wt with
        | none => .err
        | some pc =>
          finish (selectInstColl price locs pools j cloud none label preemptible (some wt) cores (coresToMemory cores pc) storage)
      | none => .err   -- parse_memory_in_bytes('lowmem'…) cannot happen: the schema admits only memory_types or the regex
    | .bytes b =>
      finish (selectInstColl price locs pools j cloud none label preemptible none cores b storage)

/-- resource block of `_create_jobs` for a docker job (`cloud = CLOUD`), as of repo commit 2e6787788
(`if machine_type is not None and machine_type not in valid_machine_types(cloud)`) -/
def frontEnd (price : Pool → String → Nat × Nat × Nat → Nat) (locs : List String) (pools : List Pool) (j : Jpim)
    (d : Defaults) (cloud : Cloud) (r : Request) : Answer :=
  let label := r.poolLabel.getD ""                       -- `resources.get('pool_label') or ''`
  let preemptible := r.preemptible.getD d.preemptible
  let storage := r.storageBytes.getD d.storageBytes
  match r.machineType with
  | none =>
    poolRequest price locs pools j cloud label preemptible (r.cpuMcpu.getD d.cpuMcpu) (r.memory.getD d.memory) storage
  | some mt =>
    if ¬ validMachineType cloud mt then .invalid                              -- `machine_type is not None and … not in …`
    else if mt ≠ "" ∧ (r.cpuMcpu.isSome ∨ r.memory.isSome) then .invalid       -- `if machine_type and (…)`: '' is falsy
    else if mt ≠ "" ∧ label ≠ "" then .invalid                                 -- `if machine_type and pool_label`
    else finish (selectInstColl price locs pools j cloud (some mt) label preemptible none 0 0 storage)

/-- `validate.py: handle_deprecated_job_keys`, the `pvc_size -> resources/storage` rewrite that runs (inside
`validate_and_clean_jobs`) before `_create_jobs`: the legacy key becomes `resources['storage']` of the job — also when the job
has no `resources` key or an empty one; both spellings at once are a `ValidationError` (`none`) -/
def withPvcSize (pvcSize : Option Nat) (r : Request) : Option Request :=
  match pvcSize with
  | none => some r
  | some s => if r.storageBytes.isSome then none else some { r with storageBytes := some s }

/-- `validate_and_clean_jobs` (storage spelling) followed by the resource block of `_create_jobs` -/
def frontEndJob (price : Pool → String → Nat × Nat × Nat → Nat) (locs : List String) (pools : List Pool) (j : Jpim)
    (d : Defaults) (cloud : Cloud) (pvcSize : Option Nat) (r : Request) : Answer :=
  match withPvcSize pvcSize r with
  | none => .invalid
  | some r' => frontEnd price locs pools j d cloud r'

/-- the block BEFORE commit 2e6787788 (`if machine_type and machine_type not in …`): kept only to document the repaired
defect (`Props/C12.lean: empty_machine_type_is_internal_error_old`); not tied to the current code -/
def frontEndOld (price : Pool → String → Nat × Nat × Nat → Nat) (locs : List String) (pools : List Pool) (j : Jpim)
    (d : Defaults) (cloud : Cloud) (r : Request) : Answer :=
  let label := r.poolLabel.getD ""
  let preemptible := r.preemptible.getD d.preemptible
  let storage := r.storageBytes.getD d.storageBytes
  match r.machineType with
  | none =>
    poolRequest price locs pools j cloud label preemptible (r.cpuMcpu.getD d.cpuMcpu) (r.memory.getD d.memory) storage
  | some mt =>
    if mt = "" then
      -- '' is falsy: it passed every `if machine_type and …` guard, but it is not None, so cpu/memory were not read and
      -- select_inst_coll reached `assert machine_type and machine_type in valid_machine_types(cloud)`
      finish (selectInstColl price locs pools j cloud (some mt) label preemptible none 0 0 storage)
    else if ¬ validMachineType cloud mt then .invalid
    else if r.cpuMcpu.isSome ∨ r.memory.isSome then .invalid
    else if label ≠ "" then .invalid
    else finish (selectInstColl price locs pools j cloud (some mt) label preemptible none 0 0 storage)

end HailVerif.Resources

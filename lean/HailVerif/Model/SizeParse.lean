import HailVerif.Generated.SizeGrammar
/-
Model of `hail/python/hailtop/batch_client/parse.py`:
`parse_cpu_in_mcpu`, `parse_memory_in_bytes`, `parse_storage_in_bytes`.

The three patterns have the shape `[+]?((?:[0-9]*[.])?[0-9]+)(SUFFIX)?B?` (cpu: no `B?`), checked by the generator;
the suffix alternatives, the presence of `B?` and the table `conv_factor` are data re-extracted from the source on
every run (`Generated/SizeGrammar.lean`).  `fullmatch` of that shape is modelled by the deterministic matcher
`matchSize`; `fractions.Fraction` by `Frac` (numerator / positive denominator on `Nat` — every value here is ≥ 0).
-/
namespace HailVerif.SizeParse
open HailVerif.Generated

/-- `[0-9]` (an explicit range in a `str` pattern: ASCII digits only) -/
def isDigit (c : Char) : Bool := 48 ≤ c.toNat && c.toNat ≤ 57

/-- value of a string of ASCII digits read in base 10 (`""` ↦ 0) -/
def digitsVal (ds : List Char) : Nat := ds.foldl (fun acc c => acc * 10 + (c.toNat - 48)) 0

/-! ### `fractions.Fraction`, non-negative values only -/
structure Frac where
  num : Nat
  den : Nat          -- always positive here

/-- `Fraction(group1)` for `group1 = ip` or `ip + "." + fp` (`fp = []` when there is no point) -/
def Frac.ofDecimal (ip fp : List Char) : Frac := ⟨digitsVal (ip ++ fp), 10 ^ fp.length⟩
/-- `q * n` -/
def Frac.mulNat (q : Frac) (n : Nat) : Frac := ⟨q.num * n, q.den⟩
/-- `q / n` -/
def Frac.divNat (q : Frac) (n : Nat) : Frac := ⟨q.num, q.den * n⟩
/-- `int(q)` (truncation = floor for q ≥ 0) -/
def Frac.floor (q : Frac) : Nat := q.num / q.den
/-- `math.ceil(q)` -/
def Frac.ceil (q : Frac) : Nat := (q.num + q.den - 1) / q.den

/-! ### `REGEX.fullmatch` -/

/-- `[+]?` -/
def stripPlus : List Char → List Char
  | c :: r => if c = '+' then r else c :: r
  | [] => []

/-- what is left after the number must be exactly `(SUFFIX)?B?`; answers group 2 -/
def matchTail (sufs : List String) (allowB : Bool) (rest : List Char) : Option (Option String) :=
  if rest = [] then some none
  else if allowB && rest = ['B'] then some none
  else match sufs.find? (fun sf => rest = sf.toList || (allowB && rest = sf.toList ++ ['B'])) with
    | some sf => some (some sf)
    | none => none

/-- the groups of a successful `fullmatch`: digits before the point, digits after it (`[]` = no point), group 2 -/
structure Groups where
  ip : List Char
  fp : List Char
  suffix : Option String
deriving DecidableEq, Repr

def matchSize (sufs : List String) (allowB : Bool) (s : List Char) : Option Groups :=
  let s := stripPlus s
  let d1 := s.takeWhile isDigit
  match s.dropWhile isDigit with
  | c :: r2 =>
    if c = '.' then
      let d2 := r2.takeWhile isDigit
      if d2 = [] then none          -- "12." / "." : `[0-9]+` has nothing to match
      else (matchTail sufs allowB (r2.dropWhile isDigit)).map fun sf => ⟨d1, d2, sf⟩
    else if d1 = [] then none
    else (matchTail sufs allowB (c :: r2)).map fun sf => ⟨d1, [], sf⟩
  | [] => if d1 = [] then none else some ⟨d1, [], none⟩

/-! ### the three functions -/

inductive Outcome where
  | noMatch               -- Python returns `None`
  | value (n : Nat)
  | keyError              -- `conv_factor[suffix]` raised (cannot happen for the extracted tables: `C25.no_key_error`)
deriving DecidableEq, Repr

/-- `parse_cpu_in_mcpu` -/
def parseCpu (s : List Char) : Outcome :=
  match matchSize SizeGrammar.cpuSuffixes SizeGrammar.cpuTrailingB s with
  | none => .noMatch
  | some g =>
    let number := Frac.ofDecimal g.ip g.fp
    let number := if g.suffix = some "m" then number.divNat 1000 else number
    .value (number.mulNat 1000).floor

/-- the common body of `parse_memory_in_bytes` and `parse_storage_in_bytes` -/
def parseBytes (sufs : List String) (allowB : Bool) (s : List Char) : Outcome :=
  match matchSize sufs allowB s with
  | none => .noMatch
  | some g =>
    let number := Frac.ofDecimal g.ip g.fp
    match g.suffix with
    | some sf =>
      match SizeGrammar.convFactor.lookup sf with
      | some f => .value (number.mulNat f).ceil
      | none => .keyError
    | none => .value number.ceil

/-- `parse_memory_in_bytes` -/
def parseMemory (s : List Char) : Outcome := parseBytes SizeGrammar.memorySuffixes SizeGrammar.memoryTrailingB s
/-- `parse_storage_in_bytes` -/
def parseStorage (s : List Char) : Outcome := parseBytes SizeGrammar.storageSuffixes SizeGrammar.storageTrailingB s

/-! ### the server side: `batch/batch/front_end/validate.py`, `job_validator['resources']`

`'cpu': regex(CPU_REGEXPAT, CPU_REGEX)`, `'storage': regex(STORAGE_REGEXPAT, STORAGE_REGEX)`,
`'memory': anyof(regex(MEMORY_REGEXPAT, MEMORY_REGEX), oneof(*memory_types))`; `RegexValidator.validate` is
`re_obj.fullmatch(obj)` on the compiled objects imported from `parse.py`. -/

def serverAcceptsCpu (s : List Char) : Bool := (matchSize SizeGrammar.cpuSuffixes SizeGrammar.cpuTrailingB s).isSome
def serverAcceptsStorage (s : List Char) : Bool :=
  (matchSize SizeGrammar.storageSuffixes SizeGrammar.storageTrailingB s).isSome
def serverAcceptsMemory (s : List Char) : Bool :=
  (matchSize SizeGrammar.memorySuffixes SizeGrammar.memoryTrailingB s).isSome
    || SizeGrammar.memoryTypes.any (fun w => w.toList == s)

/-! ### the third party: `hailctl config` (`hail/python/hailtop/hailctl/config/config_variables.py`)

`query/batch_driver_cores`, `query/batch_worker_cores`: `re.fullmatch(CPU_REGEXPAT, x) is not None`;
`query/batch_driver_memory`, `query/batch_worker_memory`:
`re.fullmatch(MEMORY_REGEXPAT, x) is not None or x in ('standard', 'lowmem', 'highmem')`. -/

def configAcceptsCores (s : List Char) : Bool := (matchSize SizeGrammar.cpuSuffixes SizeGrammar.cpuTrailingB s).isSome
def configAcceptsMemory (s : List Char) : Bool :=
  (matchSize SizeGrammar.memorySuffixes SizeGrammar.memoryTrailingB s).isSome
    || ["standard", "lowmem", "highmem"].any (fun w => w.toList == s)

end HailVerif.SizeParse

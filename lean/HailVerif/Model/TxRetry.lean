import HailVerif.Generated.SqlTimer
/-
Model of the transaction / retry layer of `gear/gear/database.py`:

* `retryable`            — `exception_log_level_if_retryable(exc) is not None`
                           (`operational_error_retry_codes`, `internal_error_retry_codes`);
* `Conn`                 — one pooled connection inside `async with db.start() as tx`: the server keeps the last committed
                           state and the working state of the open transaction; `Transaction._aexit_1` calls
                           `conn.rollback()` when the body raised and `conn.commit()` otherwise;
* `timed`                — `Transaction.execute_and_fetchone / execute_and_fetchall / execute_insertone / execute_update /
                           execute_many` called WITH a `query_name`: the `cursor.execute` runs inside
                           `async with PrometheusSQLTimer(query_name):` (`gear/gear/metrics.py`); whether an exception raised in that
                           block propagates is decided by the truth value of what `PrometheusSQLTimer.__aexit__` returns, which is
                           re-read from the source on every run (`Generated.SqlTimer.aexitTruthy`); without a `query_name`
                           (`named = false`) `cursor.execute` is called directly;
* `exec`                 — the statements of one attempt (each with its `query_name` flag), run in order on the working state, with
                           at most one injected fault `(i, e)`: error `e` is raised by `cursor.execute` instead of executing
                           statement number `i` (`i = body.length` is the COMMIT, which is never instrumented); a statement may
                           also fail by itself (`step … = .error e`);
* `attempt`              — `async with db.start() as tx: return await fun(tx, …)`;
* `runFrom` / `run`      — `retry_transient_mysql_errors.wrapper`: `while True: try: return await f() except Exception as exc:
                           if retryable: (log) else: raise; tries += 1; await sleep_before_try(tries)`.
                           The list argument holds the fault script of each successive attempt; when it is exhausted the
                           following attempt is fault free (the real loop is unbounded).  A statement's own error is
                           deterministic; should it be classified retryable the real loop would never end, the model
                           stops after that fault-free attempt.

The database is abstract: any state type `σ`, statement type `W` and statement semantics `step : σ → W → Except Err σ`.
`KV` below is the concrete instance driven by `Driver/C27.lean` against the real code.
-/
namespace HailVerif.TxRetry

/-- the exception classes the classifier distinguishes (`pymysql.err.*`; `other` = any non-pymysql exception) -/
inductive ErrClass where
  | operational | internal | integrity | programming | data | notSupported | interface | other
  /-- a `BaseException` that is not an `Exception` (`asyncio.CancelledError`, `GeneratorExit`, `KeyboardInterrupt`, …): the
  `except Exception` of the retry wrapper does not even catch it -/
  | base
  deriving DecidableEq, Repr

structure Err where
  cls : ErrClass
  /-- `exc.args[0]` -/
  code : Nat
  deriving DecidableEq, Repr

/-- `asyncio.CancelledError` delivered to the task that runs the operation (client disconnect, timeout, shutdown) while the
statement at the fault position is in flight -/
def cancelled : Err := ⟨.base, 0⟩

/-- `operational_error_retry_codes = (1040, 1205, 1213, 2003, 2013)` -/
def operationalRetryCodes : List Nat := [1040, 1205, 1213, 2003, 2013]
/-- `internal_error_retry_codes = (1205,)` -/
def internalRetryCodes : List Nat := [1205]

/-- `exception_log_level_if_retryable(exc) is not None` -/
def retryable (e : Err) : Bool :=
  match e.cls with
  | .internal => internalRetryCodes.contains e.code
  | .operational => operationalRetryCodes.contains e.code
  | _ => false

/-- `pymysql.err.error_map` of PyMySQL 1.1.2 followed by the default rule of `raise_mysql_exception`
(`InternalError if errno < 1000 else OperationalError`) -/
def pymysqlClass (code : Nat) : ErrClass :=
  if [1007, 1149, 1064, 1146, 1102, 1103, 1110, 1111, 1112, 1113, 1179, 1166].contains code then .programming
  else if [1265, 1263, 1264, 1230, 1171, 1406, 1441, 1366, 1367].contains code then .data
  else if [1062, 1216, 1452, 1217, 1451, 1215, 1048].contains code then .integrity
  else if [1196, 1235, 1289, 1286].contains code then .notSupported
  else if [1044, 1045, 1040, 1142, 1143, 4025, 1213].contains code then .operational
  else if code < 1000 then .internal else .operational

/-- the transient conditions named by the property: deadlock 1213, lock wait timeout 1205, lost connection 2013,
cannot (re)connect 2003, too many connections 1040 -/
def transientCodes : List Nat := [1213, 1205, 2013, 2003, 1040]

section generic
variable {σ W : Type} (step : σ → W → Except Err σ)
/- what the transaction body does with an exception raised by statement `w` before it leaves the body: the body may wrap the
`Transaction.execute_*` call in `try: … except pymysql.err.MySQLError as e:` and raise its own application error (`raise AppError()
from e`, or without `from`), re-raise, or (no handler) let it pass: `handler w e` is the exception that escapes.  The retry wrapper
classifies THAT exception object (`exception_log_level_if_retryable(exc)` looks at `exc` itself, never at `exc.__cause__` /
`exc.__context__`). -/
variable (handler : W → Err → Err)

/-- server side of one connection -/
structure Conn (σ : Type) where
  committed : σ
  working : σ

/-- `START TRANSACTION` on a fresh connection -/
def Conn.begin (db : σ) : Conn σ := ⟨db, db⟩
/-- `conn.commit()`: the committed state becomes the working state -/
def Conn.commit (c : Conn σ) : σ := c.working
/-- `conn.rollback()`: the working state is dropped -/
def Conn.rollback (c : Conn σ) : σ := c.committed

/-- one `cursor.execute` / `executemany` of `Transaction.execute_*` whose outcome on the working state `cur` is `r`.
`named = true`: the call sits inside `async with PrometheusSQLTimer(query_name):`; Python suppresses an exception raised in
the block exactly when `__aexit__` returns a truthy value (`Generated.SqlTimer.aexitTruthy`), in which case the method
carries on as if the statement had returned (the statement itself did not execute: working state `cur`).
`named = false`: the `query_name is None` branch, no context manager around the call. -/
def timed (named : Bool) (cur : σ) (r : Except Err σ) : Except Err σ :=
  match r with
  | .ok s => .ok s
  | .error e => if named && Generated.SqlTimer.aexitTruthy then .ok cur else .error e

/-- run the remaining statements on the working state `cur`; a statement is `(issued with a query_name?, statement)`;
`fault = some (i, e)`: `e` is raised by the `i`-th remaining statement's `cursor.execute` instead of executing it
(by `conn.commit()` when `i` equals their number) -/
def exec (cur : σ) : List (Bool × W) → Option (Nat × Err) → Except Err σ
  | [], some (0, e) => .error e
  | [], _ => .ok cur
  | (q, w) :: ws, some (0, e) =>
    match timed q cur (.error e) with
    | .error e' => .error (handler w e')
    | .ok cur' => exec cur' ws none
  | (q, w) :: ws, some (i + 1, e) =>
    match timed q cur (step cur w) with
    | .error e' => .error (handler w e')
    | .ok cur' => exec cur' ws (some (i, e))
  | (q, w) :: ws, none =>
    match timed q cur (step cur w) with
    | .error e' => .error (handler w e')
    | .ok cur' => exec cur' ws none

/-- one `async with db.start() as tx: await fun(tx)`: the new database state and the exception that escaped, if any.
`Transaction._aexit_1(exc_type)`: `if exc_type: await conn.rollback() else: await conn.commit()` — ANY exception leaving the body,
`BaseException`s included, rolls back.  `Transaction._aexit` runs it as `await asyncio.shield(self._aexit_1(exc_type))`: a task
cancelled while the COMMIT is in flight (fault `(body.length, cancelled)`) sees `CancelledError`, but the shielded commit completes. -/
def attempt (db : σ) (body : List (Bool × W)) (fault : Option (Nat × Err)) : σ × Option Err :=
  let c := Conn.begin db
  if fault = some (body.length, cancelled) then
    match exec step handler c.working body none with
    | .ok cur => (Conn.commit { c with working := cur }, some cancelled)
    | .error e => (Conn.rollback c, some e)
  else
    match exec step handler c.working body fault with
    | .ok cur => (Conn.commit { c with working := cur }, none)
    | .error e => (Conn.rollback c, some e)

structure Result (σ : Type) where
  db : σ
  /-- `none`: the call returned; `some e`: the wrapper re-raised `e` -/
  error : Option Err
  /-- number of times the body was entered -/
  attempts : Nat
  deriving DecidableEq, Repr

/-- the retry loop, having already made `n` attempts -/
def runFrom (n : Nat) (db : σ) (body : List (Bool × W)) : List (Option (Nat × Err)) → Result σ
  | [] =>
    match attempt step handler db body none with
    | (db', err) => ⟨db', err, n + 1⟩
  | f :: fs =>
    match attempt step handler db body f with
    | (db', none) => ⟨db', none, n + 1⟩
    | (db', some e) => if retryable e then runFrom (n + 1) db' body fs else ⟨db', some e, n + 1⟩

def run (db : σ) (body : List (Bool × W)) (scripts : List (Option (Nat × Err))) : Result σ := runFrom step handler 0 db body scripts

end generic

/-! ### the concrete database of the correspondence check: two tables of `key → value` -/
namespace KV

abbrev DB := List (Nat × Int)

inductive Stmt where
  /-- acquiring the connection / `START TRANSACTION` (no effect on the tables) -/
  | nop
  /-- `INSERT INTO t (k, v) VALUES (k, d) ON DUPLICATE KEY UPDATE v = v + VALUES(v)` -/
  | upsert (k : Nat) (d : Int)
  /-- `INSERT INTO t (k, v) VALUES (k, v)`: fails with IntegrityError 1062 when the key exists -/
  | insert (k : Nat) (v : Int)
  /-- `UPDATE t SET v = v + d WHERE k = k` -/
  | update (k : Nat) (d : Int)
  /-- `SELECT v FROM t WHERE k = k` (`execute_and_fetchone` / `execute_and_fetchall`): no effect on the tables -/
  | select (k : Nat)
  /-- `execute_many` of the upsert statement with `n` argument rows `(k + j % 2, d)`, `j < n`: aiomysql sends ONE multi-row
  `INSERT … VALUES (…), (…), … ON DUPLICATE KEY UPDATE v = v + VALUES(v)` -/
  | upsertMany (k : Nat) (d : Int) (n : Nat)
  /-- `try: <stmt> except pymysql.err.MySQLError as e: raise AppError() [from e]` (`wrap = true`) or `… : raise` (`wrap = false`) -/
  | guarded (wrap : Bool) (s : Stmt)
  deriving DecidableEq, Repr

def get (db : DB) (k : Nat) : Option Int := (db.find? fun p => p.1 = k).map (·.2)

/-- set key `k`, keeping the list sorted by key -/
def put (k : Nat) (v : Int) : DB → DB
  | [] => [(k, v)]
  | (j, w) :: r => if k < j then (k, v) :: (j, w) :: r else if k = j then (k, v) :: r else (j, w) :: put k v r

/-- `isinstance(e, pymysql.err.MySQLError)`: every pymysql class; not a foreign exception, not a `BaseException` -/
def isMySQLError (e : Err) : Bool :=
  match e.cls with
  | .other | .base => false
  | _ => true

/-- the application error a guarded statement raises instead of the MySQL error it caught (an `Exception` that is not a pymysql one) -/
def appError : Err := ⟨.other, 0⟩

def handler : Stmt → Err → Err
  | .guarded true _, e => if isMySQLError e then appError else e
  | _, e => e

def step (db : DB) : Stmt → Except Err DB
  | .guarded _ s => step db s
  | .nop => .ok db
  | .upsert k d => .ok (put k ((get db k).getD 0 + d) db)
  | .insert k v => match get db k with
    | some _ => .error ⟨.integrity, 1062⟩
    | none => .ok (put k v db)
  | .update k d => match get db k with
    | some v => .ok (put k (v + d) db)
    | none => .ok db
  | .select _ => .ok db
  | .upsertMany k d n => .ok ((List.range n).foldl (fun acc j => put (k + j % 2) ((get acc (k + j % 2)).getD 0 + d) acc) db)

end KV

end HailVerif.TxRetry

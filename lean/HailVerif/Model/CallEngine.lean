import HailVerif.Model.CallPack
import HailVerif.Generated.ScalaCall
/-!
# The engine's call constructor / accessor dispatch on top of the generated Scala functions (C34)

`Generated/ScalaCall.lean` holds the `Int`-level functions of `Call.scala` / `Genotype.scala`.  The two
sequence-level entry points are transcribed here by hand; `harness/extract/scala_call.py` checks on every run that
the Scala text of `CallN.apply` and `Call.alleles` still is the dispatch written here (TieBroken otherwise).
Front-end alleles are passed to the engine as the JVM `Int`s of the same value.
-/
namespace HailVerif.CallEngine
open HailVerif.CallPack HailVerif.Jvm HailVerif.Generated.ScalaCall

/-- `CallN.apply(alleles: IndexedSeq[Int], phased)`:
`0 => Call0(phased) | 1 => Call1(alleles(0), phased) | 2 => Call2(alleles(0), alleles(1), phased) | _ => throw` -/
def enginePack (c : Call) : Option I32 :=
  match c.alleles with
  | [] => Call0_apply c.phased
  | [a] => Call1_apply (BitVec.ofNat 32 a) c.phased
  | [j, k] => Call2_apply (BitVec.ofNat 32 j) (BitVec.ofNat 32 k) c.phased
  | _ => none

/-- `Call.alleles(c)` with `Call.isPhased(c)`:
`0 => ArraySeq() | 1 => ArraySeq(alleleByIndex(c, 0))` (= `alleleRepr(c)`) `| 2 => AllelePair.alleleIndices(allelePair(c))`
(= `j(p), k(p)`) `| _ => throw`.  Alleles are read as the non-negative values of the JVM `Int`s. -/
def engineUnpack (w : I32) : Option Call :=
  let ph := Call_isPhased w
  let p := (Call_ploidy w).toNat
  if p = 0 then some ⟨[], ph⟩
  else if p = 1 then some ⟨[(Call_alleleRepr w).toNat], ph⟩
  else if p = 2 then
    (Call_allelePair w).bind fun q => some ⟨[(AllelePair_j q).toNat, (AllelePair_k q).toNat], ph⟩
  else none

end HailVerif.CallEngine

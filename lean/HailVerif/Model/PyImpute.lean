import HailVerif.Model.ExprIR
/-!
# Model of `impute_type` (property C36, literal half)

Python side: `hail/expr/expressions/base_expression.py` — `impute_type`, `_impute_type`, `raise_for_holes`,
`unify_types_limited`, `super_unify_types`; `hail/expr/types.py` — `_typecheck_one_level` of each type (what `hl.literal` checks)
and `_convert_to_encoding` (what has to succeed when the literal is rendered).

`impute` is written to give the SAME answer as the Python function, including its lossy corners:
* `super_unify_types` returns `None` both for "only holes" and for "the element types clash"; one level up the clash has become a
  hole (`tarray(None)`) that a sibling can fill;
* struct types are unified to the UNION of their fields;
* `if not unified_type` treats the empty struct / empty tuple type as a failure (they define `__len__`).
`HasTypePy t v` is the strict notion "the Python value `v` can be stored at type `t`" (every field of a struct type present,
integers in range, Python `bool`/`int` acceptable where a wider numeric type is expected, `None` everywhere).
Not modelled: `partial_type` arguments, numpy values, Locus / Interval / Call, expressions inside the value.
-/
namespace HailVerif.PyImpute
open HailVerif.ExprIR (HType Fields Types)

/-! ## Python values -/

mutual
inductive PyVal where
  | none
  | bool (b : Bool)
  | int (n : Int)
  | float (n : Int)            -- payload irrelevant
  | str (s : String)
  | list (xs : PyVals)
  | tuple (xs : PyVals)
  | set (xs : PyVals)
  | dict (kvs : PyPairs)
  | struct (fs : PyFields)      -- `hl.Struct`
  deriving DecidableEq
inductive PyVals where
  | nil
  | cons (v : PyVal) (r : PyVals)
  deriving DecidableEq
inductive PyPairs where
  | nil
  | cons (k v : PyVal) (r : PyPairs)
  deriving DecidableEq
inductive PyFields where
  | nil
  | cons (n : String) (v : PyVal) (r : PyFields)
  deriving DecidableEq
end

/-! ## Types with holes (`None` inside a type) -/

inductive PT where
  | hole
  | bool | int32 | int64 | float64 | str
  | array (t : PT)
  | set (t : PT)
  | dict (k v : PT)
  | struct (fs : List (String × PT))
  | tuple (ts : List PT)

/-- structural equality of partial types (a `BEq`; `PT` is a nested inductive, so it is written out) -/
def PT.beq : PT → PT → Bool
  | .hole, .hole | .bool, .bool | .int32, .int32 | .int64, .int64 | .float64, .float64 | .str, .str => true
  | .array a, .array b | .set a, .set b => PT.beq a b
  | .dict a b, .dict c d => PT.beq a c && PT.beq b d
  | .struct fs, .struct gs => beqFields fs gs
  | .tuple ts, .tuple us => beqList ts us
  | _, _ => false
where
  beqFields : List (String × PT) → List (String × PT) → Bool
    | [], [] => true
    | (n, t) :: r, (m, u) :: s => n == m && PT.beq t u && beqFields r s
    | _, _ => false
  beqList : List PT → List PT → Bool
    | [], [] => true
    | t :: r, u :: s => PT.beq t u && beqList r s
    | _, _ => false

/-- `is_numeric` (`_numeric_types` contains `tbool`) with the promotion order of `unify_types_limited` -/
def numRank : PT → Option Nat
  | .bool => some 0
  | .int32 => some 1
  | .int64 => some 2
  | .float64 => some 4
  | _ => none

def ofRank : Nat → PT
  | 0 => .bool
  | 1 => .int32
  | 2 => .int64
  | _ => .float64

def isHole : PT → Bool
  | .hole => true
  | _ => false

/-- `isinstance(t, type(t0))` for the type classes that occur -/
def sameKind : PT → PT → Bool
  | .hole, .hole | .bool, .bool | .int32, .int32 | .int64, .int64 | .float64, .float64 | .str, .str => true
  | .array _, .array _ | .set _, .set _ | .dict _ _, .dict _ _ | .struct _, .struct _ | .tuple _, .tuple _ => true
  | _, _ => false

/-- `not t` is true for a type with `__len__() == 0` -/
def falsy : PT → Bool
  | .struct [] | .tuple [] => true
  | _ => false

def elemOf : PT → PT
  | .array t | .set t => t
  | _ => .hole
def keyOf : PT → PT
  | .dict k _ => k
  | _ => .hole
def valueOf : PT → PT
  | .dict _ v => v
  | _ => .hole
def fieldsOf : PT → List (String × PT)
  | .struct fs => fs
  | _ => []
/-- `t.get(k, None)` -/
def fieldOr (k : String) (t : PT) : PT :=
  match (fieldsOf t).find? (fun p => p.1 == k) with
  | some p => p.2
  | none => .hole

def dedup : List String → List String
  | [] => []
  | k :: r => k :: (dedup r).filter (· != k)

/-- `None` ↦ hole -/
def orHole : Option PT → PT
  | some t => t
  | none => .hole

/-- `super_unify_types(*ts)`; `none` is Python's `None`.  `fuel` bounds the nesting depth (callers pass more than enough). -/
def superUnify : Nat → List PT → Option PT
  | 0, _ => none
  | fuel + 1, ts0 =>
    let ts := ts0.filter (fun t => !isHole t)
    match ts with
    | [] => none
    | t0 :: _ =>
      if ts.all (fun t => (numRank t).isSome) then
        -- unify_types_limited: one distinct type, or the widest numeric type present
        if ts.all (fun t => PT.beq t t0) then some t0
        else some (ofRank (ts.foldl (fun m t => max m ((numRank t).getD 0)) 0))
      else if ts.any (fun t => !sameKind t t0) then none
      else match t0 with
        | .array _ => some (.array (orHole (superUnify fuel (ts.map elemOf))))
        | .set _ => some (.set (orHole (superUnify fuel (ts.map elemOf))))
        | .dict _ _ => some (.dict (orHole (superUnify fuel (ts.map keyOf))) (orHole (superUnify fuel (ts.map valueOf))))
        | .struct _ =>
          let keys := dedup (ts.flatMap fun t => (fieldsOf t).map (·.1))
          some (.struct (keys.map fun k => (k, orHole (superUnify fuel (ts.map (fieldOr k))))))
        | _ => if ts.all (fun t => PT.beq t t0) then some t0 else none

mutual
def PyVal.depth : PyVal → Nat
  | .list xs | .tuple xs | .set xs => xs.depth + 1
  | .dict kvs => kvs.depth + 1
  | .struct fs => fs.depth + 1
  | _ => 1
def PyVals.depth : PyVals → Nat
  | .nil => 0
  | .cons v r => max v.depth r.depth
def PyPairs.depth : PyPairs → Nat
  | .nil => 0
  | .cons k v r => max (max k.depth v.depth) r.depth
def PyFields.depth : PyFields → Nat
  | .nil => 0
  | .cons _ v r => max v.depth r.depth
end

def PyVals.isEmpty : PyVals → Bool
  | .nil => true
  | _ => false
def PyPairs.isEmpty : PyPairs → Bool
  | .nil => true
  | _ => false

mutual
/-- `_impute_type(x, None)`; `none` = the function raises -/
def impute : PyVal → Option PT
  | .none => some .hole
  | .bool _ => some .bool
  | .int n =>
    if -2147483648 ≤ n ∧ n ≤ 2147483647 then some .int32
    else if -9223372036854775808 ≤ n ∧ n ≤ 9223372036854775807 then some .int64
    else none
  | .float _ => some .float64
  | .str _ => some .str
  | .struct fs => (imputeFields fs).map .struct
  | .tuple xs => (imputeAll xs).map .tuple
  | .list xs =>
    if xs.isEmpty then some (.array .hole)
    else (imputeAll xs).bind fun ts =>
      match superUnify (xs.depth + 2) ts with
      | some u => some (.array u)
      | none => none
  | .set xs =>
    if xs.isEmpty then some (.set .hole)
    else (imputeAll xs).bind fun ts =>
      match superUnify (xs.depth + 2) ts with
      | some u => if falsy u then none else some (.set u)
      | none => none
  | .dict kvs =>
    if kvs.isEmpty then some (.dict .hole .hole)
    else (imputeKeys kvs).bind fun kts => (imputeValues kvs).bind fun vts =>
      match superUnify (kvs.depth + 2) kts with
      | none => none
      | some uk =>
        match superUnify (kvs.depth + 2) vts with
        | some uv =>
          if falsy uv then (if PT.beq uk .str then (structOfDict kvs).map .struct else none)
          else some (.dict uk uv)
        | none => if PT.beq uk .str then (structOfDict kvs).map .struct else none
def imputeAll : PyVals → Option (List PT)
  | .nil => some []
  | .cons v r => (impute v).bind fun t => (imputeAll r).map (t :: ·)
def imputeFields : PyFields → Option (List (String × PT))
  | .nil => some []
  | .cons n v r => (impute v).bind fun t => (imputeFields r).map ((n, t) :: ·)
def imputeKeys : PyPairs → Option (List PT)
  | .nil => some []
  | .cons k _ r => (impute k).bind fun t => (imputeKeys r).map (t :: ·)
def imputeValues : PyPairs → Option (List PT)
  | .nil => some []
  | .cons _ v r => (impute v).bind fun t => (imputeValues r).map (t :: ·)
/-- `tstruct(**{k: _impute_type(x[k], None) for k in x})` for a dict whose keys are all `str` (a `None` key raises) -/
def structOfDict : PyPairs → Option (List (String × PT))
  | .nil => some []
  | .cons (.str k) v r => (impute v).bind fun t => (structOfDict r).map ((k, t) :: ·)
  | .cons _ _ _ => none
end

/-- `raise_for_holes`: a complete type, or `none` -/
def fill : PT → Option HType
  | .hole => none
  | .bool => some .bool
  | .int32 => some .int32
  | .int64 => some .int64
  | .float64 => some .float64
  | .str => some .str
  | .array t => (fill t).map .array
  | .set t => (fill t).map .set
  | .dict k v => (fill k).bind fun k' => (fill v).map (.dict k')
  | .struct fs => (fillFields fs).map .struct
  | .tuple ts => (fillList ts).map .tuple
where
  fillFields : List (String × PT) → Option Fields
    | [] => some .nil
    | (n, t) :: r => (fill t).bind fun t' => (fillFields r).map (.cons n t')
  fillList : List PT → Option Types
    | [] => some .nil
    | t :: r => (fill t).bind fun t' => (fillList r).map (.cons t')

/-- `impute_type(x)` -/
def imputeType (v : PyVal) : Option HType := (impute v).bind fill

/-! ## "the value can be stored at the type" -/

def PyVals.toList : PyVals → List PyVal
  | .nil => []
  | .cons v r => v :: r.toList
def PyPairs.toList : PyPairs → List (PyVal × PyVal)
  | .nil => []
  | .cons k v r => (k, v) :: r.toList
def PyFields.toList : PyFields → List (String × PyVal)
  | .nil => []
  | .cons n v r => (n, v) :: r.toList

def pyField (fs : List (String × PyVal)) (n : String) : Option PyVal := (fs.find? (fun p => p.1 == n)).map (·.2)

/-- the mapping view of a value used where a struct is expected: an `hl.Struct`, or a dict with `str` keys -/
def asMapping : PyVal → Option (List (String × PyVal))
  | .struct fs => some fs.toList
  | .dict kvs => kvs.toList.mapM fun p => match p.1 with
    | .str k => some (k, p.2)
    | _ => none
  | _ => none

mutual
/-- executable check, by recursion on the type -/
def checkPy : HType → PyVal → Bool
  | _, .none => true
  | .bool, .bool _ => true
  | .int32, .bool _ => true
  | .int32, .int n => decide (-2147483648 ≤ n ∧ n ≤ 2147483647)
  | .int64, .bool _ => true
  | .int64, .int n => decide (-9223372036854775808 ≤ n ∧ n ≤ 9223372036854775807)
  | .float32, .bool _ | .float32, .int _ | .float32, .float _ => true
  | .float64, .bool _ | .float64, .int _ | .float64, .float _ => true
  | .str, .str _ => true
  | .array t, .list xs => xs.toList.all (checkPy t)
  | .set t, .set xs => xs.toList.all (checkPy t)
  | .dict k v, .dict kvs => kvs.toList.all fun p => checkPy k p.1 && checkPy v p.2
  | .struct gs, v =>
    match asMapping v with
    | some fs => checkFields gs fs && decide (fs.length = fieldCount gs)
    | none => false
  | .tuple ts, .tuple xs => checkTuple ts xs.toList
  | _, _ => false
def checkFields : Fields → List (String × PyVal) → Bool
  | .nil, _ => true
  | .cons n t r, fs =>
    (match pyField fs n with
     | some v => checkPy t v
     | none => false) && checkFields r fs
def checkTuple : Types → List PyVal → Bool
  | .nil, [] => true
  | .cons t r, v :: vs => checkPy t v && checkTuple r vs
  | _, _ => false
def fieldCount : Fields → Nat
  | .nil => 0
  | .cons _ _ r => fieldCount r + 1
end

/-- the value can be stored at the type -/
def HasTypePy (t : HType) (v : PyVal) : Prop := checkPy t v = true

/-- sorted-by-name copy of a struct type's fields at every level (the field order of a unified struct type depends on the
iteration order of a Python `set`; comparisons in the correspondence are made on this normal form) -/
def insertField (n : String) (t : HType) : Fields → Fields
  | .nil => .cons n t .nil
  | .cons m u r => if n < m then .cons n t (.cons m u r) else .cons m u (insertField n t r)

mutual
def normType : HType → HType
  | .array t => .array (normType t)
  | .stream t => .stream (normType t)
  | .set t => .set (normType t)
  | .dict k v => .dict (normType k) (normType v)
  | .struct fs => .struct (normFields fs)
  | .tuple ts => .tuple (normTypes ts)
  | t => t
def normFields : Fields → Fields
  | .nil => .nil
  | .cons n t r => insertField n (normType t) (normFields r)
def normTypes : Types → Types
  | .nil => .nil
  | .cons t r => .cons (normType t) (normTypes r)
end

end HailVerif.PyImpute

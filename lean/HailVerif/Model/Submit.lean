import HailVerif.Model.Bunch
/-
Model of the pending-spec buffers of `hailtop.batch_client.aioclient.Batch`
(hail/python/hailtop/batch_client/aioclient.py): `_create_job_group` / `_create_job` append to them, `submit()` hands
them to `_create_bunches`, puts the bunches on the wire and resets them.

Only what decides WHICH specs are posted is modelled: the two spec lists, the two object lists (as their lengths —
`_update_spec` announces `len(self._jobs)` / `len(self._job_groups)`, `_batch_spec` announces the lengths of the spec
lists) and `is_created`.  The HTTP exchange itself (ids returned by the server, the fast / slow route) is not part of
the state; the driver renders the route from the number of bunches.
-/
namespace HailVerif.Submit
open HailVerif.Bunch

/-- `SpecType` -/
inductive Typ where
  | group | job
deriving DecidableEq, Repr

structure St (α : Type) where
  groupSpecs : List α       -- self._job_group_specs
  nGroups : Nat             -- len(self._job_groups)
  jobSpecs : List α         -- self._job_specs
  nJobs : Nat               -- len(self._jobs)
  created : Bool            -- self.is_created

/-- a fresh `Batch(client, None)` -/
def St.init {α : Type} : St α := ⟨[], 0, [], 0, false⟩

/-- what one `submit()` puts on the wire -/
structure Wire (α : Type) where
  announcedGroups : Nat                 -- `n_job_groups` of the batch / update spec sent to the server
  announcedJobs : Nat                   -- `n_jobs`
  bunches : List (List (Typ × α))       -- the posted bunches, in order

inductive Result (α : Type) where
  | raised                              -- an assertion of `submit` / `_create_bunches` fired; nothing was sent or reset
  | quiet                               -- update with nothing to send: "Doing nothing."
  | sent (w : Wire α)
  | failed                              -- a request of this submit was answered with an error (413, 500, connection reset):
                                        -- the exception propagates out of submit(), the reset block is not reached

inductive Op (α : Type) where
  | createGroup (spec : α)              -- `_create_job_group`: spec appended, JobGroup object appended
  | createJob (spec : α)                -- `_create_job`
  | submit (maxBytes maxN : Nat)        -- `submit(max_bunch_bytesize, max_bunch_size)`
  | submitFailing (maxBytes maxN k : Nat)   -- the same call, but the k-th request it makes (1-based) is answered with an error

/-- `self._create_bunches(self._job_group_specs, self._job_specs, …)` on the typed `SpecBytes` -/
def bunchesOf {α : Type} (size : α → Nat) (s : St α) (maxBytes maxN : Nat) : Option (List (List (Typ × α))) :=
  createBunches (fun p => size p.2) (s.groupSpecs.map fun x => (Typ.group, x)) (s.jobSpecs.map fun x => (Typ.job, x))
    maxBytes maxN

/-- the number of HTTP requests a submit makes for these bunches: nothing for an empty update; one request on the fast
route (no bunch on a new batch = `batches/create`, one bunch = `create-fast` / `update-fast`); otherwise create (batch or
update) + one `job-groups/create` per bunch holding job groups + one `jobs/create` per bunch holding jobs + commit -/
def nRequests {α : Type} (created : Bool) (bs : List (List (Typ × α))) : Nat :=
  match bs with
  | [] => if created then 0 else 1
  | [_] => 1
  | _ => 1 + (bs.filter fun b => b.any fun p => p.1 == Typ.group).length
           + (bs.filter fun b => b.any fun p => p.1 == Typ.job).length + 1

/-- the normal end of `submit()` for bunches `bs` -/
def finish {α : Type} (s : St α) (bs : List (List (Typ × α))) : St α × Option (Result α) :=
  let res : Result α :=
    if !s.created then .sent ⟨s.groupSpecs.length, s.jobSpecs.length, bs⟩      -- `_batch_spec()` (also when there is no bunch)
    else if bs.isEmpty then .quiet
    else .sent ⟨s.nGroups, s.nJobs, bs⟩                                          -- `_update_spec()`
  -- the reset block at the end of submit(): all six fields
  (⟨[], 0, [], 0, true⟩, some res)

def step {α : Type} (size : α → Nat) (s : St α) : Op α → St α × Option (Result α)
  | .createGroup x => ({ s with groupSpecs := s.groupSpecs ++ [x], nGroups := s.nGroups + 1 }, none)
  | .createJob x => ({ s with jobSpecs := s.jobSpecs ++ [x], nJobs := s.nJobs + 1 }, none)
  | .submit maxBytes maxN =>
    match bunchesOf size s maxBytes maxN with
    | none => (s, some .raised)
    | some bs => finish s bs
  | .submitFailing maxBytes maxN k =>
    match bunchesOf size s maxBytes maxN with          -- the bunches are computed afresh by every call, from the pending specs
    | none => (s, some .raised)
    | some bs =>
      if k = 0 ∨ nRequests s.created bs < k then finish s bs       -- there is no k-th request: the submit goes through
      else
        -- nothing is reset.  On the slow route of a new batch `batches/create` has already succeeded when a later
        -- request fails: the batch exists (`self._id` is set), the specs are still pending
        ({ s with created := s.created || (decide (2 ≤ k) && decide (2 ≤ bs.length)) }, some .failed)

/-- run a script; the results of its submits, oldest first -/
def run {α : Type} (size : α → Nat) : St α → List (Op α) → St α × List (Result α)
  | s, [] => (s, [])
  | s, op :: ops =>
    let (s', r) := step size s op
    let (s'', rs) := run size s' ops
    (s'', r.toList ++ rs)

def Wire.groups {α : Type} (w : Wire α) : List α := (w.bunches.flatten.filter fun p => p.1 == Typ.group).map Prod.snd
def Wire.jobs {α : Type} (w : Wire α) : List α := (w.bunches.flatten.filter fun p => p.1 == Typ.job).map Prod.snd

def Result.groups {α : Type} : Result α → List α
  | .sent w => w.groups
  | _ => []
def Result.jobs {α : Type} : Result α → List α
  | .sent w => w.jobs
  | _ => []

/-- the specs a script creates, in creation order -/
def createdGroups {α : Type} : List (Op α) → List α
  | [] => []
  | .createGroup x :: ops => x :: createdGroups ops
  | _ :: ops => createdGroups ops
def createdJobs {α : Type} : List (Op α) → List α
  | [] => []
  | .createJob x :: ops => x :: createdJobs ops
  | _ :: ops => createdJobs ops

end HailVerif.Submit

/-!
# Model for C14 (time dimension) — the authenticator in front of every batch route and its userinfo cache

`gear/gear/auth.py: AuthServiceAuthenticator._fetch_userdata` asks the auth service who a session belongs to through
`TimeLimitedMaxSizeCache(load, lifetime = 10 s, …)` (`gear/gear/time_limited_max_size_cache.py`).  One session (one cache key):

* `advance dt`   — `time.monotonic_ns()` moves forward;
* `setSvc s`     — the auth service changes its answer for the session (`active`, `inactive` account, `revoked` = 401 → `None`);
* `request`      — a request passes `authenticated_users_only`: `lookup(k)` removes the entry when `expiry <= now`, answers from
                   the cache on a hit (WITHOUT touching the expiry), otherwise loads from the auth service and `_put`s the answer
                   (also `None`) with `expiry = now + lifetime`.
`sliding = true` is NOT the code: it is the variant in which a hit re-inserts the entry (lifetime counted from the last use),
kept to show what the theorem excludes.
-/
namespace HailVerif.SessionCache

/-- what the auth service says about the session -/
inductive Svc where
  | active | inactive | revoked
deriving DecidableEq, Repr

structure State where
  now : Nat
  svc : Svc
  /-- time since which the auth service has continuously NOT answered `active` (`none`: it answers `active`) -/
  badSince : Option Nat
  /-- the cache entry of the session: cached answer and `_expiry_time` -/
  entry : Option (Svc × Nat)
deriving DecidableEq, Repr

def init : State := { now := 0, svc := .active, badSince := none, entry := none }

inductive Op where
  | advance (dt : Nat)
  | setSvc (s : Svc)
  | request
deriving DecidableEq, Repr

/-- `authenticated_users_only` on an `/api/` path: userdata None → 401, state inactive → 403, else the handler runs -/
def outcome : Svc → Nat
  | .active => 200
  | .inactive => 403
  | .revoked => 401

/-- one step; a `request` also yields the HTTP status -/
def step (sliding : Bool) (lifetime : Nat) (st : State) : Op → State × Option Nat
  | .advance dt => ({ st with now := st.now + dt }, none)
  | .setSvc s =>
    ({ st with svc := s,
               badSince := if s == .active then none else (match st.badSince with | some b => some b | none => some st.now) }, none)
  | .request =>
    -- `if self._expiry_time[k] <= time.monotonic_ns(): self._remove(k)`
    let entry := match st.entry with
      | some (v, e) => if e ≤ st.now then none else some (v, e)
      | none => none
    match entry with
    | some (v, e) =>
      -- hit: `return self._cache[k]`
      ({ st with entry := if sliding then some (v, st.now + lifetime) else some (v, e) }, some (outcome v))
    | none =>
      -- miss: load from the auth service, `_put(k, v)`
      ({ st with entry := some (st.svc, st.now + lifetime) }, some (outcome st.svc))

def run (sliding : Bool) (lifetime : Nat) (st : State) : List Op → State × List Nat
  | [] => (st, [])
  | op :: ops =>
    let r := step sliding lifetime st op
    let rs := run sliding lifetime r.1 ops
    (rs.1, (match r.2 with | some o => [o] | none => []) ++ rs.2)

end HailVerif.SessionCache

/-
Model of `hailtop.batch_client.aioclient.Batch._create_bunches`
(hail/python/hailtop/batch_client/aioclient.py).

The algorithm only looks at the byte size of each spec, so the model is
parametric in the spec type `α` and a size function.  The Python loop carries
`(byte_specs_bunches, bunch, bunch_n_bytes)`; here the accumulated bunches are
kept in order, and the loop is structural recursion on the remaining specs.
The Python `assert n_bytes < max_bunch_bytesize` is the `none` outcome.
-/
namespace HailVerif.Bunch

/-- loop body + tail; `done` = finished bunches (oldest first), `cur` = current bunch, `n` = its byte size -/
def go {α : Type} (size : α → Nat) (maxBytes maxN : Nat) :
    List α → List (List α) → List α → Nat → Option (List (List α))
  | [], done, cur, _ => some (if cur.isEmpty then done else done ++ [cur])
  | x :: xs, done, cur, n =>
    if size x < maxBytes then
      if n + size x < maxBytes ∧ cur.length < maxN then
        go size maxBytes maxN xs done (cur ++ [x]) (n + size x)
      else
        go size maxBytes maxN xs (done ++ [cur]) [x] (size x)
    else none

/-- `_create_bunches(job_group_specs, job_specs, max_bunch_bytesize, max_bunch_size)` -/
def createBunches {α : Type} (size : α → Nat) (groups jobs : List α) (maxBytes maxN : Nat) :
    Option (List (List α)) :=
  if maxBytes = 0 ∨ maxN = 0 then none      -- the two leading asserts
  else go size maxBytes maxN (groups ++ jobs) [] [] 0

def bytes {α : Type} (size : α → Nat) (b : List α) : Nat := (b.map size).sum

end HailVerif.Bunch

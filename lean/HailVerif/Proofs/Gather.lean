import HailVerif.Model.Gather
/-! Helper lemmas for C20: permit accounting and the other invariants of `Gather.step`. -/
namespace HailVerif.Gather

/-! ### lists of task states -/

theorem grant_conserve : ∀ (l : List TSt) (f : Nat), (grant f l).1 + nRunning (grant f l).2 = f + nRunning l := by
  intro l
  induction l with
  | nil => intro f; cases f <;> simp [grant, nRunning]
  | cons x r ih =>
    intro f
    cases f with
    | zero => simp [grant]
    | succ f =>
      cases x with
      | queued => have := ih f; simp [grant, nRunning]; omega
      | running => have := ih (f + 1); simp [grant, nRunning]; omega
      | done q => have := ih (f + 1); simp [grant, nRunning]; omega

theorem set_running : ∀ (l : List TSt) (i : Nat) (q : Res), l[i]? = some .running →
    nRunning (l.set i (.done q)) + 1 = nRunning l := by
  intro l
  induction l with
  | nil => intro i q h; simp at h
  | cons x r ih =>
    intro i q h
    cases i with
    | zero => simp at h; subst h; simp [nRunning]
    | succ i =>
      simp at h
      have := ih i q h
      cases x <;> simp [nRunning] <;> omega

theorem cancelBelow_conserve : ∀ (l : List TSt) (j : Nat),
    nRunning (cancelBelow j l).2 + (cancelBelow j l).1 = nRunning l := by
  intro l
  induction l with
  | nil => intro j; cases j <;> simp [cancelBelow, nRunning]
  | cons x r ih =>
    intro j
    cases j with
    | zero => simp [cancelBelow]
    | succ j =>
      have := ih j
      cases x <;> simp [cancelBelow, nRunning] <;> omega

theorem allDone_nRunning : ∀ (l : List TSt), allDone l = true → nRunning l = 0 := by
  intro l
  induction l with
  | nil => simp [nRunning]
  | cons x r ih =>
    intro h
    simp [allDone] at h ih
    cases x <;> simp [isDone] at h
    simp [nRunning]; exact ih h

/-! ### permit accounting -/

/-- permits in the hands of the tasks or free -/
def total (s : State) : Nat := nRunning s.st + s.free

/-- what `total` must be, for a semaphore created with `n` permits of which the caller holds one -/
def budget (n : Nat) (s : State) : Nat :=
  match s.flavour, s.helper with
  | .online, .active => n - 1      -- the body keeps the caller's permit
  | .online, _ => n
  | _, .raised _ => n + 1          -- finding F4: released twice, acquired once
  | _, _ => n

@[simp] theorem leave_entry (s : State) : (leave s).entry = s.entry := rfl
@[simp] theorem leave_flavour (s : State) : (leave s).flavour = s.flavour := rfl
@[simp] theorem leave_helper (s : State) : (leave s).helper = s.helper := rfl
@[simp] theorem leave_outs (s : State) : (leave s).outs = s.outs := rfl
@[simp] theorem leave_exc (s : State) : (leave s).exc = s.exc := rfl
@[simp] theorem leave_pending (s : State) : (leave s).pendingAtReturn = s.pendingAtReturn := rfl

theorem total_leave (s : State) : total (leave s) = total s + 1 := by
  unfold leave total
  have := grant_conserve s.st (s.free + 1); simp only []; omega

theorem total_complete (s : State) (i : Nat) (o : Outcome) (h : s.st[i]? = some .running) :
    total (complete s i o) = total s := by
  have h1 := set_running s.st i (resOf o) h
  have h2 := grant_conserve (s.st.set i (.done (resOf o))) (s.free + 1)
  simp only [total, complete]; omega

theorem total_cancelFirst (s : State) (j : Nat) : total (cancelFirst s j) = total s := by
  have h1 := cancelBelow_conserve s.st j
  have h2 := grant_conserve (cancelBelow j s.st).2 (s.free + (cancelBelow j s.st).1)
  simp only [total, cancelFirst]; omega

theorem total_releaseOwn (s : State) : total (releaseOwn s) = total s + 1 := by
  have h2 := grant_conserve s.st (s.free + 1)
  simp only [total, releaseOwn]; omega

theorem total_returnNow (s : State) (h : 1 ≤ s.free) : total (returnNow s) + 1 = total s + 1 := by
  unfold returnNow
  rw [total_leave]
  simp only [total]; omega

theorem total_raiseNow (s : State) (e p : Nat) (b : Bool) (h : 1 ≤ s.free) :
    total (raiseNow s e p b) + (if b then 1 else 0) = total s + 1 := by
  unfold raiseNow
  rw [total_leave]
  cases b <;> simp only [total] <;> simp <;> omega

theorem total_raiseNow_false (s : State) (e p : Nat) : total (raiseNow s e p false) = total s + 1 := by
  unfold raiseNow
  rw [total_leave]
  simp [total]

@[simp] theorem complete_entry (s : State) (i : Nat) (o : Outcome) : (complete s i o).entry = s.entry := rfl
@[simp] theorem complete_flavour (s : State) (i : Nat) (o : Outcome) : (complete s i o).flavour = s.flavour := rfl
@[simp] theorem complete_helper (s : State) (i : Nat) (o : Outcome) : (complete s i o).helper = s.helper := rfl
@[simp] theorem complete_exc (s : State) (i : Nat) (o : Outcome) : (complete s i o).exc = s.exc := rfl
@[simp] theorem complete_outs (s : State) (i : Nat) (o : Outcome) : (complete s i o).outs = s.outs := rfl
@[simp] theorem complete_pending (s : State) (i : Nat) (o : Outcome) :
    (complete s i o).pendingAtReturn = s.pendingAtReturn := rfl
@[simp] theorem cancelFirst_entry (s : State) (j : Nat) : (cancelFirst s j).entry = s.entry := rfl
@[simp] theorem cancelFirst_flavour (s : State) (j : Nat) : (cancelFirst s j).flavour = s.flavour := rfl
@[simp] theorem cancelFirst_helper (s : State) (j : Nat) : (cancelFirst s j).helper = s.helper := rfl
@[simp] theorem cancelFirst_exc (s : State) (j : Nat) : (cancelFirst s j).exc = s.exc := rfl
@[simp] theorem cancelFirst_outs (s : State) (j : Nat) : (cancelFirst s j).outs = s.outs := rfl
@[simp] theorem withExc_entry (s : State) (e : Nat) : (withExc s e).entry = s.entry := rfl
@[simp] theorem withExc_flavour (s : State) (e : Nat) : (withExc s e).flavour = s.flavour := rfl
@[simp] theorem withExc_helper (s : State) (e : Nat) : (withExc s e).helper = s.helper := rfl
@[simp] theorem withExc_exc (s : State) (e : Nat) : (withExc s e).exc = some e := rfl
@[simp] theorem withExc_outs (s : State) (e : Nat) : (withExc s e).outs = s.outs := rfl
@[simp] theorem withExc_st (s : State) (e : Nat) : (withExc s e).st = s.st := rfl
@[simp] theorem withExc_free (s : State) (e : Nat) : (withExc s e).free = s.free := rfl
@[simp] theorem withExc_pending (s : State) (e : Nat) : (withExc s e).pendingAtReturn = s.pendingAtReturn := rfl
@[simp] theorem total_withExc (s : State) (e : Nat) : total (withExc s e) = total s := rfl
@[simp] theorem releaseOwn_entry (s : State) : (releaseOwn s).entry = s.entry := rfl
@[simp] theorem releaseOwn_flavour (s : State) : (releaseOwn s).flavour = s.flavour := rfl
@[simp] theorem releaseOwn_helper (s : State) : (releaseOwn s).helper = s.helper := rfl
@[simp] theorem releaseOwn_exc (s : State) : (releaseOwn s).exc = s.exc := rfl
@[simp] theorem releaseOwn_outs (s : State) : (releaseOwn s).outs = s.outs := rfl
@[simp] theorem returnNow_entry (s : State) : (returnNow s).entry = s.entry := by simp [returnNow]
@[simp] theorem returnNow_flavour (s : State) : (returnNow s).flavour = s.flavour := by simp [returnNow]
@[simp] theorem returnNow_helper (s : State) : (returnNow s).helper = .returned (s.st.map slotOf) := by simp [returnNow]
@[simp] theorem returnNow_exc (s : State) : (returnNow s).exc = s.exc := by simp [returnNow]
@[simp] theorem returnNow_outs (s : State) : (returnNow s).outs = s.outs := by simp [returnNow]
@[simp] theorem returnNow_pending (s : State) : (returnNow s).pendingAtReturn = 0 := by simp [returnNow]
@[simp] theorem raiseNow_entry (s : State) (e p : Nat) (b : Bool) : (raiseNow s e p b).entry = s.entry := by simp [raiseNow]
@[simp] theorem raiseNow_flavour (s : State) (e p : Nat) (b : Bool) : (raiseNow s e p b).flavour = s.flavour := by
  simp [raiseNow]
@[simp] theorem raiseNow_helper (s : State) (e p : Nat) (b : Bool) : (raiseNow s e p b).helper = .raised e := by
  simp [raiseNow]
@[simp] theorem raiseNow_exc (s : State) (e p : Nat) (b : Bool) : (raiseNow s e p b).exc = s.exc := by simp [raiseNow]
@[simp] theorem raiseNow_outs (s : State) (e p : Nat) (b : Bool) : (raiseNow s e p b).outs = s.outs := by simp [raiseNow]
@[simp] theorem raiseNow_pending (s : State) (e p : Nat) (b : Bool) : (raiseNow s e p b).pendingAtReturn = p := by
  simp [raiseNow]

/-- when every task is finished all permits are free -/
theorem free_of_allDone (s : State) (h : allDone s.st = true) : s.free = total s := by
  have := allDone_nRunning s.st h; simp [total]; omega

theorem cancelBelow_allDone : ∀ (l : List TSt) (j : Nat), l.length ≤ j → allDone (cancelBelow j l).2 = true := by
  intro l
  induction l with
  | nil => intro j _; cases j <;> simp [cancelBelow, allDone]
  | cons x r ih =>
    intro j hj
    cases j with
    | zero => simp at hj
    | succ j =>
      have := ih j (by simp at hj; omega)
      cases x <;> simp_all [cancelBelow, allDone, isDone]

theorem grant_allDone : ∀ (l : List TSt) (f : Nat), allDone l = true → (grant f l).2 = l := by
  intro l
  induction l with
  | nil => intro f _; cases f <;> simp [grant]
  | cons x r ih =>
    intro f h
    simp [allDone] at h ih
    cases f with
    | zero => simp [grant]
    | succ f =>
      cases x <;> simp [isDone] at h
      simp [grant]; exact ih (f + 1) h

theorem cancelFirst_allDone (s : State) (j : Nat) (h : s.st.length ≤ j) : allDone (cancelFirst s j).st = true := by
  have h1 := cancelBelow_allDone s.st j h
  simp only [cancelFirst]
  rw [grant_allDone _ _ h1]; exact h1

theorem budget_step {n : Nat} (hn : 1 ≤ n) {s s' : State} {op : Op} (hb : total s = budget n s)
    (h : step s op = some s') : total s' = budget n s' := by
  cases op with
  | finish i =>
    simp only [step] at h
    split at h
    · next o hst hout =>
      have hc := total_complete s i o hst
      have hfree := free_of_allDone (complete s i o)
      split at h
      · -- return_exceptions
        next hfl =>
        split at h
        · next had =>
          simp at h; subst h
          have := total_returnNow (complete s i o) (by
            have := hfree had.2
            simp [budget, hfl, had.1] at hb <;> omega)
          simp [budget, hfl, had.1] at hb this ⊢ <;> omega
        · simp at h; subst h
          cases hh : s.helper <;> simp [budget, hfl, hh] at hb ⊢ <;> omega
      · -- raise, no cancel
        next hfl =>
        split at h
        · next e hh =>
          simp at h; subst h
          have := total_raiseNow_false (complete s i (.raise e)) e (nNotDone (complete s i (.raise e)).st)
          simp [budget, hfl, hh] at hb this ⊢ <;> omega
        · next v hh =>
          split at h
          · next had =>
            simp at h; subst h
            have := total_returnNow (complete s i (.ret v)) (by
              have := hfree had
              simp [budget, hfl, hh] at hb <;> omega)
            simp [budget, hfl, hh] at hb this ⊢ <;> omega
          · simp at h; subst h
            simp [budget, hfl, hh] at hb ⊢ <;> omega
        · simp at h; subst h
          cases hh : s.helper <;> simp [budget, hfl, hh] at hb ⊢ <;> omega
      · -- raise, cancel_on_error
        next hfl =>
        split at h
        · next e hh =>
          simp at h; subst h
          have h1 := total_cancelFirst (complete s i (.raise e)) (complete s i (.raise e)).st.length
          have := total_raiseNow_false (cancelFirst (complete s i (.raise e)) (complete s i (.raise e)).st.length) e 0
          simp [budget, hfl, hh] at hb this ⊢ <;> omega
        · next v hh =>
          split at h
          · next had =>
            simp at h; subst h
            have := total_returnNow (complete s i (.ret v)) (by
              have := hfree had
              simp [budget, hfl, hh] at hb <;> omega)
            simp [budget, hfl, hh] at hb this ⊢ <;> omega
          · simp at h; subst h
            simp [budget, hfl, hh] at hb ⊢ <;> omega
        · simp at h; subst h
          cases hh : s.helper <;> simp [budget, hfl, hh] at hb ⊢ <;> omega
      · -- online
        next hfl =>
        split at h
        · next v =>
          split at h
          · next had =>
            simp at h; subst h
            have := total_returnNow (complete s i (.ret v)) (by
              have := hfree had.2
              simp [budget, hfl, had.1] at hb <;> omega)
            simp [budget, hfl, had.1] at hb this ⊢ <;> omega
          · simp at h; subst h
            cases hh : s.helper <;> simp [budget, hfl, hh] at hb ⊢ <;> omega
        · next e =>
          have h1 := total_cancelFirst (complete s i (.raise e)) (complete s i (.raise e)).st.length
          have h2 := cancelFirst_allDone (complete s i (.raise e)) (complete s i (.raise e)).st.length (Nat.le_refl _)
          split at h
          · next hh =>
            simp at h; subst h
            have h3 := free_of_allDone (withExc (cancelFirst (complete s i (.raise e)) (complete s i (.raise e)).st.length) e) h2
            have := total_raiseNow (withExc (cancelFirst (complete s i (.raise e)) (complete s i (.raise e)).st.length) e) e 0 true (by
              simp only [total, withExc_st, withExc_free] at h3 h1 hc hb ⊢
              simp [budget, hfl, hh] at hb <;> omega)
            simp only [total, withExc_st, withExc_free] at this h1 hc hb ⊢
            simp [budget, hfl, hh] at hb this ⊢ <;> omega
          · simp at h; subst h
            simp only [total, withExc_st, withExc_free] at h1 hc hb ⊢
            cases hh : s.helper <;> simp_all [budget] <;> omega
    · simp at h
  | body o =>
    simp only [step] at h
    split at h
    · next hfl hh =>
      split at h
      · next e hexc =>
        simp at h; subst h
        have h1 := total_cancelFirst s s.st.length
        have := total_raiseNow_false (withExc (cancelFirst s s.st.length) e) e 0
        simp only [total, withExc_st, withExc_free] at this h1 hb ⊢
        simp [budget, hfl, hh] at hb this ⊢ <;> omega
      · next e0 hexc =>
        simp at h; subst h
        have := total_raiseNow_false s e0 0
        simp [budget, hfl, hh] at hb this ⊢ <;> omega
      · next v hexc =>
        have h1 := total_releaseOwn s
        split at h
        · next had =>
          simp at h; subst h
          have h3 := free_of_allDone (releaseOwn s) had
          have := total_returnNow (releaseOwn s) (by omega)
          simp [budget, hfl, hh] at hb this ⊢ <;> omega
        · simp at h; subst h
          simp only [total] at h1 hb ⊢
          simp [budget, hfl, hh] at hb ⊢ <;> omega
    · simp at h

/-! ### more list lemmas -/

theorem grant_length : ∀ (l : List TSt) (f : Nat), (grant f l).2.length = l.length := by
  intro l
  induction l with
  | nil => intro f; cases f <;> simp [grant]
  | cons x r ih =>
    intro f
    cases f with
    | zero => simp [grant]
    | succ f => cases x <;> simp [grant, ih]

theorem grant_done : ∀ (l : List TSt) (f i : Nat) (q : Res), (grant f l).2[i]? = some (.done q) ↔ l[i]? = some (.done q) := by
  intro l
  induction l with
  | nil => intro f i q; cases f <;> simp [grant]
  | cons x r ih =>
    intro f i q
    cases f with
    | zero => simp [grant]
    | succ f =>
      cases i with
      | zero => cases x <;> simp [grant]
      | succ i => cases x <;> simp [grant, ih]

theorem cancelBelow_length : ∀ (l : List TSt) (j : Nat), (cancelBelow j l).2.length = l.length := by
  intro l
  induction l with
  | nil => intro j; cases j <;> simp [cancelBelow]
  | cons x r ih =>
    intro j
    cases j with
    | zero => simp [cancelBelow]
    | succ j => cases x <;> simp [cancelBelow, ih]

theorem cancelBelow_done : ∀ (l : List TSt) (j i : Nat) (q : Res), (cancelBelow j l).2[i]? = some (.done q) →
    q = .cancelled ∨ l[i]? = some (.done q) := by
  intro l
  induction l with
  | nil => intro j i q; cases j <;> simp [cancelBelow]
  | cons x r ih =>
    intro j i q
    cases j with
    | zero => simp only [cancelBelow]; intro h; exact Or.inr h
    | succ j =>
      cases i with
      | zero => cases x <;> simp [cancelBelow] <;> intro h <;> simp [h]
      | succ i => cases x <;> simp [cancelBelow] <;> exact ih j i q

/-- the tasks before `j` are all finished after `cancelBelow j` -/
theorem cancelBelow_below : ∀ (l : List TSt) (j i : Nat), i < j → i < l.length → ∃ q, (cancelBelow j l).2[i]? = some (.done q) := by
  intro l
  induction l with
  | nil => intro j i _ h; simp at h
  | cons x r ih =>
    intro j i hij hi
    cases j with
    | zero => omega
    | succ j =>
      cases i with
      | zero => cases x <;> simp [cancelBelow]
      | succ i =>
        have := ih j i (by omega) (by simp at hi; omega)
        cases x <;> simp [cancelBelow] <;> exact this

theorem allDone_get : ∀ (l : List TSt) (i : Nat), allDone l = true → l[i]? ≠ some .running := by
  intro l
  induction l with
  | nil => simp
  | cons x r ih =>
    intro i h
    simp [allDone] at h ih
    cases i with
    | zero => cases x <;> simp [isDone] at h ⊢
    | succ i => simpa using ih i h.2

theorem allDone_iff (l : List TSt) : allDone l = true ↔ ∀ i, i < l.length → ∃ q, l[i]? = some (.done q) := by
  induction l with
  | nil => simp [allDone]
  | cons x r ih =>
    simp only [allDone, List.all_cons, Bool.and_eq_true] at ih ⊢
    constructor
    · intro ⟨h1, h2⟩ i hi
      cases i with
      | zero => cases x <;> simp [isDone] at h1 ⊢
      | succ i => simpa using ih.mp h2 i (by simpa using hi)
    · intro h
      constructor
      · have := h 0 (by simp)
        cases x <;> simp [isDone] at this ⊢
      · apply ih.mpr
        intro i hi
        simpa using h (i + 1) (by simpa using hi)


/-! ### the shapes a step can take -/

inductive StepCase (s : State) : Op → State → Prop
  /-- a task finishes and the helper does not react -/
  | plain (i : Nat) (o : Outcome) (hst : s.st[i]? = some .running) (hout : s.outs[i]? = some o)
      (hside : s.flavour = .returnExceptions ∨
        ((s.flavour = .raiseFirst ∨ s.flavour = .raiseCancel) ∧ (s.helper ≠ .active ∨ ∃ v, o = .ret v)) ∨
        (s.flavour = .online ∧ ∃ v, o = .ret v)) :
      StepCase s (.finish i) (complete s i o)
  /-- the last task finishes and the helper returns -/
  | ret (i : Nat) (o : Outcome) (hst : s.st[i]? = some .running) (hout : s.outs[i]? = some o)
      (had : allDone (complete s i o).st = true)
      (hside : (s.flavour ≠ .online ∧ s.helper = .active ∧ (s.flavour = .returnExceptions ∨ ∃ v, o = .ret v)) ∨
        (s.flavour = .online ∧ s.helper = .exiting ∧ ∃ v, o = .ret v)) :
      StepCase s (.finish i) (returnNow (complete s i o))
  | raiseF (i e : Nat) (hst : s.st[i]? = some .running) (hout : s.outs[i]? = some (.raise e))
      (hfl : s.flavour = .raiseFirst) (hh : s.helper = .active) :
      StepCase s (.finish i) (raiseNow (complete s i (.raise e)) e (nNotDone (complete s i (.raise e)).st) false)
  | raiseC (i e : Nat) (hst : s.st[i]? = some .running) (hout : s.outs[i]? = some (.raise e))
      (hfl : s.flavour = .raiseCancel) (hh : s.helper = .active) :
      StepCase s (.finish i)
        (raiseNow (cancelFirst (complete s i (.raise e)) (complete s i (.raise e)).st.length) e 0 false)
  | onlineFailExit (i e : Nat) (hst : s.st[i]? = some .running) (hout : s.outs[i]? = some (.raise e))
      (hfl : s.flavour = .online) (hh : s.helper = .exiting) :
      StepCase s (.finish i)
        (raiseNow (withExc (cancelFirst (complete s i (.raise e)) (complete s i (.raise e)).st.length) e) e 0 true)
  | onlineFail (i e : Nat) (hst : s.st[i]? = some .running) (hout : s.outs[i]? = some (.raise e))
      (hfl : s.flavour = .online) (hh : s.helper ≠ .exiting) :
      StepCase s (.finish i)
        (withExc (cancelFirst (complete s i (.raise e)) (complete s i (.raise e)).st.length) e)
  | bodyRaise (e : Nat) (hfl : s.flavour = .online) (hh : s.helper = .active) (hexc : s.exc = none) :
      StepCase s (.body (.raise e)) (raiseNow (withExc (cancelFirst s s.st.length) e) e 0 false)
  | bodyLate (o : Outcome) (e0 : Nat) (hfl : s.flavour = .online) (hh : s.helper = .active) (hexc : s.exc = some e0) :
      StepCase s (.body o) (raiseNow s e0 0 false)
  | bodyRet (v : Nat) (hfl : s.flavour = .online) (hh : s.helper = .active) (hexc : s.exc = none)
      (had : allDone (releaseOwn s).st = true) :
      StepCase s (.body (.ret v)) (returnNow (releaseOwn s))
  | bodyWait (v : Nat) (hfl : s.flavour = .online) (hh : s.helper = .active) (hexc : s.exc = none) :
      StepCase s (.body (.ret v)) { releaseOwn s with helper := .exiting }

theorem step_cases {s s' : State} {op : Op} (h : step s op = some s') : StepCase s op s' := by
  cases op with
  | finish i =>
    simp only [step] at h
    split at h
    · next o hst hout =>
      split at h
      · next hfl =>
        split at h
        · next had =>
          simp at h; subst h
          exact .ret i o hst hout had.2 (Or.inl ⟨by simp [hfl], had.1, Or.inl hfl⟩)
        · simp at h; subst h
          exact .plain i o hst hout (Or.inl hfl)
      · next hfl =>
        split at h
        · next e hh => simp at h; subst h; exact .raiseF i e hst hout hfl hh
        · next v hh =>
          split at h
          · next had =>
            simp at h; subst h
            exact .ret i _ hst hout had (Or.inl ⟨by simp [hfl], hh, Or.inr ⟨v, rfl⟩⟩)
          · simp at h; subst h
            exact .plain i _ hst hout (Or.inr (Or.inl ⟨Or.inl hfl, Or.inr ⟨v, rfl⟩⟩))
        · next o' _ _ hne1 hne2 =>
          simp at h; subst h
          refine .plain i o' hst hout (Or.inr (Or.inl ⟨Or.inl hfl, ?_⟩))
          cases o' with
          | ret v => left; intro hh; exact hne2 v hh rfl
          | raise e => left; intro hh; exact hne1 e hh rfl
      · next hfl =>
        split at h
        · next e hh => simp at h; subst h; exact .raiseC i e hst hout hfl hh
        · next v hh =>
          split at h
          · next had =>
            simp at h; subst h
            exact .ret i _ hst hout had (Or.inl ⟨by simp [hfl], hh, Or.inr ⟨v, rfl⟩⟩)
          · simp at h; subst h
            exact .plain i _ hst hout (Or.inr (Or.inl ⟨Or.inr hfl, Or.inr ⟨v, rfl⟩⟩))
        · next o' _ _ hne1 hne2 =>
          simp at h; subst h
          refine .plain i o' hst hout (Or.inr (Or.inl ⟨Or.inr hfl, ?_⟩))
          cases o' with
          | ret v => left; intro hh; exact hne2 v hh rfl
          | raise e => left; intro hh; exact hne1 e hh rfl
      · next hfl =>
        split at h
        · next v =>
          split at h
          · next had =>
            simp at h; subst h
            exact .ret i _ hst hout had.2 (Or.inr ⟨hfl, had.1, v, rfl⟩)
          · simp at h; subst h
            exact .plain i _ hst hout (Or.inr (Or.inr ⟨hfl, v, rfl⟩))
        · next e =>
          split at h
          · next hh => simp at h; subst h; exact .onlineFailExit i e hst hout hfl hh
          · next hne => simp at h; subst h; exact .onlineFail i e hst hout hfl (fun hh => hne hh)
    · simp at h
  | body o =>
    simp only [step] at h
    split at h
    · next hfl hh =>
      split at h
      · next e hexc => simp at h; subst h; exact .bodyRaise e hfl hh hexc
      · next e0 hexc => simp at h; subst h; exact .bodyLate _ e0 hfl hh hexc
      · next v hexc =>
        split at h
        · next had => simp at h; subst h; exact .bodyRet v hfl hh hexc had
        · simp at h; subst h; exact .bodyWait v hfl hh hexc
    · simp at h

/-! ### what the building blocks do to the finished tasks -/

theorem resOf_ne_cancelled (o : Outcome) : resOf o ≠ .cancelled := by cases o <;> simp [resOf]

theorem complete_len (s : State) (i : Nat) (o : Outcome) : (complete s i o).st.length = s.st.length := by
  simp [complete, grant_length]

theorem complete_done (s : State) (i : Nat) (o : Outcome) (k : Nat) (q : Res) :
    (complete s i o).st[k]? = some (.done q) ↔
      (k = i ∧ i < s.st.length ∧ q = resOf o) ∨ (k ≠ i ∧ s.st[k]? = some (.done q)) := by
  simp only [complete, grant_done, List.getElem?_set]
  by_cases hk : i = k
  · subst hk
    by_cases hl : i < s.st.length
    · simp [hl]; constructor <;> intro h <;> exact h.symm
    · simp [hl]
  · have : k ≠ i := fun h => hk h.symm
    simp [hk, this]

theorem leave_len (s : State) : (leave s).st.length = s.st.length := by
  simp [leave, grant_length]

theorem leave_done (s : State) (k : Nat) (q : Res) : (leave s).st[k]? = some (.done q) ↔ s.st[k]? = some (.done q) := by
  simp [leave, grant_done]

theorem leave_st_allDone (s : State) (h : allDone s.st = true) : (leave s).st = s.st := by
  simp [leave, grant_allDone _ _ h]

theorem cancelFirst_len (s : State) (j : Nat) : (cancelFirst s j).st.length = s.st.length := by
  simp [cancelFirst, grant_length, cancelBelow_length]

theorem cancelFirst_done (s : State) (j k : Nat) (q : Res) (h : (cancelFirst s j).st[k]? = some (.done q)) :
    q = .cancelled ∨ s.st[k]? = some (.done q) := by
  simp only [cancelFirst, grant_done] at h
  exact cancelBelow_done _ _ _ _ h

theorem releaseOwn_len (s : State) : (releaseOwn s).st.length = s.st.length := by simp [releaseOwn, grant_length]

theorem releaseOwn_done (s : State) (k : Nat) (q : Res) :
    (releaseOwn s).st[k]? = some (.done q) ↔ s.st[k]? = some (.done q) := by simp [releaseOwn, grant_done]

theorem returnNow_len (s : State) : (returnNow s).st.length = s.st.length := by simp [returnNow, leave_len]
theorem returnNow_done (s : State) (k : Nat) (q : Res) :
    (returnNow s).st[k]? = some (.done q) ↔ s.st[k]? = some (.done q) := by simp [returnNow, leave_done]
theorem returnNow_st (s : State) (h : allDone s.st = true) : (returnNow s).st = s.st := by
  simp only [returnNow]; exact leave_st_allDone _ h
theorem raiseNow_len (s : State) (e p : Nat) (b : Bool) : (raiseNow s e p b).st.length = s.st.length := by
  simp [raiseNow, leave_len]
theorem raiseNow_done (s : State) (e p : Nat) (b : Bool) (k : Nat) (q : Res) :
    (raiseNow s e p b).st[k]? = some (.done q) ↔ s.st[k]? = some (.done q) := by simp [raiseNow, leave_done]
theorem raiseNow_st (s : State) (e p : Nat) (b : Bool) (h : allDone s.st = true) : (raiseNow s e p b).st = s.st := by
  simp only [raiseNow]; exact leave_st_allDone _ h

/-- finished tasks in submission order are the scripted outcomes in submission order -/
theorem map_slotOf_eq (st : List TSt) (outs : List Outcome) (hlen : st.length = outs.length) (had : allDone st = true)
    (hag : ∀ (i : Nat) (q : Res), st[i]? = some (TSt.done q) → q = .cancelled ∨ ∃ o, outs[i]? = some o ∧ q = resOf o)
    (hnc : ∀ i : Nat, st[i]? ≠ some (TSt.done Res.cancelled)) : st.map slotOf = outs.map resOf := by
  apply List.ext_getElem?
  intro i
  by_cases hi : i < st.length
  · obtain ⟨q, hq⟩ := (allDone_iff st).mp had i hi
    rcases hag i q hq with rfl | ⟨o, ho, rfl⟩
    · exact absurd hq (hnc i)
    · simp [hq, ho, slotOf]
  · have h1 : st[i]? = none := by simp; omega
    have h2 : outs[i]? = none := by simp; omega
    simp [h1, h2]

/-! ### control invariant -/

structure Ctrl (s : State) : Prop where
  len : s.st.length = s.outs.length
  /-- a finished task ended with its scripted outcome, or was cancelled -/
  agree : ∀ (i : Nat) (q : Res), s.st[i]? = some (TSt.done q) → q = .cancelled ∨ ∃ o, s.outs[i]? = some o ∧ q = resOf o
  /-- nothing is cancelled before an exception has occurred -/
  nocancel : s.exc = none → (∀ e, s.helper ≠ .raised e) → ∀ i : Nat, s.st[i]? ≠ some (TSt.done Res.cancelled)
  ret : ∀ sl, s.helper = .returned sl → sl = s.st.map slotOf ∧ allDone s.st = true ∧ s.exc = none
  exiting : s.helper = .exiting → s.flavour = .online ∧ s.exc = none
  excOnline : ∀ e, s.exc = some e → s.flavour = .online ∧ allDone s.st = true
  raisedExc : s.flavour = .online → ∀ e, s.helper = .raised e → s.exc = some e
  rxNoRaise : s.flavour = .returnExceptions → ∀ e, s.helper ≠ .raised e
  /-- `cancel_on_error=True`: once the helper has raised, every task is finished -/
  rcRaised : s.flavour = .raiseCancel → ∀ e, s.helper = .raised e → allDone s.st = true

/-- while a task is running nothing is shut down and the helper has not returned -/
theorem ctrl_running {s : State} (hC : Ctrl s) {i : Nat} (hst : s.st[i]? = some .running) :
    s.exc = none ∧ ∀ sl, s.helper ≠ .returned sl := by
  constructor
  · cases hexc : s.exc with
    | none => rfl
    | some e => exact absurd hst (allDone_get _ _ (hC.excOnline e hexc).2)
  · intro sl hh
    exact absurd hst (allDone_get _ _ (hC.ret sl hh).2.1)

theorem ctrl_complete {s : State} (hC : Ctrl s) {i : Nat} {o : Outcome} (hst : s.st[i]? = some .running)
    (hout : s.outs[i]? = some o) :
    (complete s i o).st.length = s.outs.length ∧
    (∀ (k : Nat) (q : Res), (complete s i o).st[k]? = some (TSt.done q) →
      q = .cancelled ∨ ∃ o', s.outs[k]? = some o' ∧ q = resOf o') ∧
    ((∀ k : Nat, s.st[k]? ≠ some (TSt.done Res.cancelled)) →
      ∀ k : Nat, (complete s i o).st[k]? ≠ some (TSt.done Res.cancelled)) := by
  refine ⟨by rw [complete_len]; exact hC.len, ?_, ?_⟩
  · intro k q h
    rcases (complete_done s i o k q).mp h with ⟨rfl, _, rfl⟩ | ⟨_, h2⟩
    · exact Or.inr ⟨o, hout, rfl⟩
    · exact hC.agree k q h2
  · intro hnc k h
    rcases (complete_done s i o k _).mp h with ⟨_, _, h3⟩ | ⟨_, h2⟩
    · exact resOf_ne_cancelled o h3.symm
    · exact hnc k h2

theorem ctrl_step {s s' : State} {op : Op} (hC : Ctrl s) (h : StepCase s op s') : Ctrl s' := by
  cases h with
  | plain i o hst hout hside =>
    obtain ⟨hexc, hnr⟩ := ctrl_running hC hst
    obtain ⟨h1, h2, h3⟩ := ctrl_complete hC hst hout
    refine ⟨h1, h2, ?_, ?_, ?_, ?_, ?_, ?_, ?_⟩
    · intro he hr; exact h3 (hC.nocancel hexc hr)
    · intro sl hh; exact absurd hh (hnr sl)
    · intro hh; exact hC.exiting hh
    · intro e he; simp [hexc] at he
    · intro hfl e hh; have := hC.raisedExc hfl e hh; simp [hexc] at this
    · exact hC.rxNoRaise
    · intro hfl e hh; exact absurd hst (allDone_get _ _ (hC.rcRaised hfl e hh))
  | ret i o hst hout had hside =>
    obtain ⟨hexc, hnr⟩ := ctrl_running hC hst
    obtain ⟨h1, h2, h3⟩ := ctrl_complete hC hst hout
    have hst' := returnNow_st (complete s i o) had
    refine ⟨by rw [returnNow_len]; simpa using h1, ?_, ?_, ?_, ?_, ?_, ?_, ?_, ?_⟩
    · intro k q hk; simpa using h2 k q ((returnNow_done _ k q).mp hk)
    · intro he hr k hk
      refine h3 (hC.nocancel hexc ?_) k ((returnNow_done _ k _).mp hk)
      intro e hh
      rcases hside with ⟨_, ha, _⟩ | ⟨_, ha, _⟩ <;> simp [ha] at hh
    · intro sl hh
      simp at hh; subst hh
      exact ⟨by rw [hst'], by rw [hst']; exact had, by simpa using hexc⟩
    · intro hh; simp at hh
    · intro e he; simp [hexc] at he
    · intro hfl e hh; simp at hh
    · intro hfl e hh; simp at hh
    · intro hfl e hh; simp at hh
  | raiseF i e hst hout hfl hh =>
    obtain ⟨hexc, hnr⟩ := ctrl_running hC hst
    obtain ⟨h1, h2, h3⟩ := ctrl_complete hC hst hout
    refine ⟨by rw [raiseNow_len]; simpa using h1, ?_, ?_, ?_, ?_, ?_, ?_, ?_, ?_⟩
    · intro k q hk; simpa using h2 k q ((raiseNow_done _ _ _ _ k q).mp hk)
    · intro _ hr; exact absurd (raiseNow_helper _ e _ false) (hr e)
    · intro sl hh'; simp at hh'
    · intro hh'; simp at hh'
    · intro e' he; simp [hexc] at he
    · intro hfl' e' _; simp [hfl] at hfl'
    · intro hfl' e' _; simp [hfl] at hfl'
    · intro hfl' e' _; simp [hfl] at hfl'
  | raiseC i e hst hout hfl hh =>
    obtain ⟨hexc, hnr⟩ := ctrl_running hC hst
    obtain ⟨h1, h2, h3⟩ := ctrl_complete hC hst hout
    refine ⟨by rw [raiseNow_len, cancelFirst_len]; simpa using h1, ?_, ?_, ?_, ?_, ?_, ?_, ?_, ?_⟩
    · intro k q hk
      rcases cancelFirst_done _ _ k q ((raiseNow_done _ _ _ _ k q).mp hk) with hq | hq
      · exact Or.inl hq
      · simpa using h2 k q hq
    · intro _ hr; exact absurd (raiseNow_helper _ e _ false) (hr e)
    · intro sl hh'; simp at hh'
    · intro hh'; simp at hh'
    · intro e' he; simp [hexc] at he
    · intro hfl' e' _; simp [hfl] at hfl'
    · intro hfl' e' _; simp [hfl] at hfl'
    · intro _ e' _
      have had := cancelFirst_allDone (complete s i (.raise e)) (complete s i (.raise e)).st.length (Nat.le_refl _)
      rw [raiseNow_st _ _ _ _ had]; exact had
  | onlineFailExit i e hst hout hfl hh =>
    obtain ⟨hexc, hnr⟩ := ctrl_running hC hst
    obtain ⟨h1, h2, h3⟩ := ctrl_complete hC hst hout
    have had : allDone (withExc (cancelFirst (complete s i (.raise e)) (complete s i (.raise e)).st.length) e).st = true :=
      cancelFirst_allDone (complete s i (.raise e)) (complete s i (.raise e)).st.length (Nat.le_refl _)
    refine ⟨by rw [raiseNow_len, withExc_st, cancelFirst_len]; simpa using h1, ?_, ?_, ?_, ?_, ?_, ?_, ?_, ?_⟩
    · intro k q hk
      have hk' := (raiseNow_done _ _ _ _ k q).mp hk
      rw [withExc_st] at hk'
      rcases cancelFirst_done (complete s i (.raise e)) _ k q hk' with hq | hq
      · exact Or.inl hq
      · simpa using h2 k q hq
    · intro _ hr; exact absurd (raiseNow_helper _ e _ true) (hr e)
    · intro sl hh'; simp at hh'
    · intro hh'; simp at hh'
    · intro e' he
      refine ⟨by simpa using hfl, ?_⟩
      rw [raiseNow_st _ _ _ _ had]; exact had
    · intro _ e' hh'; simp at hh'; simp [hh']
    · intro hfl' e' _; simp [hfl] at hfl'
    · intro hfl' e' _; simp [hfl] at hfl'
  | onlineFail i e hst hout hfl hh =>
    obtain ⟨hexc, hnr⟩ := ctrl_running hC hst
    obtain ⟨h1, h2, h3⟩ := ctrl_complete hC hst hout
    have had : allDone (withExc (cancelFirst (complete s i (.raise e)) (complete s i (.raise e)).st.length) e).st = true :=
      cancelFirst_allDone (complete s i (.raise e)) (complete s i (.raise e)).st.length (Nat.le_refl _)
    refine ⟨by rw [withExc_st, cancelFirst_len]; simpa using h1, ?_, ?_, ?_, ?_, ?_, ?_, ?_, ?_⟩
    · intro k q hk
      rw [withExc_st] at hk
      rcases cancelFirst_done (complete s i (.raise e)) _ k q hk with hq | hq
      · exact Or.inl hq
      · simpa using h2 k q hq
    · intro he; simp at he
    · intro sl hh'; exact absurd hh' (hnr sl)
    · intro hh'; exact absurd hh' hh
    · intro e' he; exact ⟨hfl, had⟩
    · intro _ e' hh'
      have := hC.raisedExc hfl e' hh'
      simp [hexc] at this
    · intro hfl' e' _; simp [hfl] at hfl'
    · intro hfl' e' _; simp [hfl] at hfl'
  | bodyRaise e hfl hh hexc =>
    have had : allDone (withExc (cancelFirst s s.st.length) e).st = true := cancelFirst_allDone s s.st.length (Nat.le_refl _)
    refine ⟨by rw [raiseNow_len, withExc_st, cancelFirst_len]; simpa using hC.len, ?_, ?_, ?_, ?_, ?_, ?_, ?_, ?_⟩
    · intro k q hk
      have hk' := (raiseNow_done _ _ _ _ k q).mp hk
      rw [withExc_st] at hk'
      rcases cancelFirst_done s _ k q hk' with hq | hq
      · exact Or.inl hq
      · simpa using hC.agree k q hq
    · intro he; simp at he
    · intro sl hh'; simp at hh'
    · intro hh'; simp at hh'
    · intro e' he
      refine ⟨by simpa using hfl, ?_⟩
      rw [raiseNow_st _ _ _ _ had]; exact had
    · intro _ e' hh'; simp at hh'; simp [hh']
    · intro hfl' e' _; simp [hfl] at hfl'
    · intro hfl' e' _; simp [hfl] at hfl'
  | bodyLate o e0 hfl hh hexc =>
    have had := (hC.excOnline e0 hexc).2
    refine ⟨by rw [raiseNow_len]; simpa using hC.len, ?_, ?_, ?_, ?_, ?_, ?_, ?_, ?_⟩
    · intro k q hk; simpa using hC.agree k q ((raiseNow_done _ _ _ _ k q).mp hk)
    · intro he; simp [hexc] at he
    · intro sl hh'; simp at hh'
    · intro hh'; simp at hh'
    · intro e' he
      refine ⟨by simpa using hfl, ?_⟩
      rw [raiseNow_st _ _ _ _ had]; exact had
    · intro _ e' hh'; simp at hh'; simp [hh', hexc]
    · intro hfl' e' _; simp [hfl] at hfl'
    · intro hfl' e' _; simp [hfl] at hfl'
  | bodyRet v hfl hh hexc had =>
    have hst' := returnNow_st (releaseOwn s) had
    refine ⟨by rw [returnNow_len, releaseOwn_len]; simpa using hC.len, ?_, ?_, ?_, ?_, ?_, ?_, ?_, ?_⟩
    · intro k q hk; simpa using hC.agree k q ((releaseOwn_done s k q).mp ((returnNow_done _ k q).mp hk))
    · intro he hr k hk
      refine hC.nocancel hexc ?_ k ((releaseOwn_done s k _).mp ((returnNow_done _ k _).mp hk))
      intro e hh'; simp [hh] at hh'
    · intro sl hh'
      simp at hh'; subst hh'
      exact ⟨by rw [hst'], by rw [hst']; exact had, by simpa using hexc⟩
    · intro hh'; simp at hh'
    · intro e' he; simp [hexc] at he
    · intro _ e' hh'; simp at hh'
    · intro hfl' e' _; simp [hfl] at hfl'
    · intro hfl' e' _; simp [hfl] at hfl'
  | bodyWait v hfl hh hexc =>
    refine ⟨by simpa [releaseOwn_len] using hC.len, ?_, ?_, ?_, ?_, ?_, ?_, ?_, ?_⟩
    · intro k q hk; simpa using hC.agree k q ((releaseOwn_done s k q).mp hk)
    · intro he hr k hk
      refine hC.nocancel hexc ?_ k ((releaseOwn_done s k _).mp hk)
      intro e hh'; simp [hh] at hh'
    · intro sl hh'; simp at hh'
    · intro _; exact ⟨hfl, hexc⟩
    · intro e' he; simp [hexc] at he
    · intro _ e' hh'; simp at hh'
    · intro hfl' e' _; simp [hfl] at hfl'
    · intro hfl' e' _; simp [hfl] at hfl'

/-! ### the first exception -/

/-- the exception the helper has seen so far -/
def errSeen (s : State) : Option Nat :=
  match s.flavour with
  | .online => s.exc
  | .returnExceptions => none
  | _ => match s.helper with
    | .raised e => some e
    | _ => none

theorem firstErr_snoc (outs : List Outcome) (op : Op) : ∀ (ops : List Op),
    firstErr outs (ops ++ [op]) = match firstErr outs ops with
      | some e => some e
      | none => firstErr outs [op]
  | [] => by simp [firstErr]
  | x :: r => by
    have ih := firstErr_snoc outs op r
    cases x with
    | finish i =>
      simp only [List.cons_append, firstErr]
      split
      · rfl
      · exact ih
    | body o =>
      cases o with
      | ret v => simp only [List.cons_append, firstErr]; exact ih
      | raise e => simp [firstErr]

@[simp] theorem cancelFirst_pending (s : State) (j : Nat) : (cancelFirst s j).pendingAtReturn = s.pendingAtReturn := rfl
@[simp] theorem releaseOwn_pending (s : State) : (releaseOwn s).pendingAtReturn = s.pendingAtReturn := rfl

theorem seen_step {s s' : State} {op : Op} {ops : List Op} (hC : Ctrl s)
    (hS : s.flavour ≠ .returnExceptions → errSeen s = firstErr s.outs ops) (h : StepCase s op s') :
    s'.flavour ≠ .returnExceptions → errSeen s' = firstErr s'.outs (ops ++ [op]) := by
  intro hne
  rw [firstErr_snoc]
  cases h with
  | plain i o hst hout hside =>
    obtain ⟨hexc, hnr⟩ := ctrl_running hC hst
    have hS' := hS (by simpa using hne)
    simp only [complete_outs, complete_flavour] at *
    rcases hside with hfl | ⟨hfl, hside⟩ | ⟨hfl, v, rfl⟩
    · exact absurd hfl hne
    · have hes : errSeen (complete s i o) = errSeen s := by
        rcases hfl with hfl | hfl <;> simp [errSeen, hfl]
      rw [hes, ← hS']
      cases o with
      | ret v =>
        have : firstErr s.outs [Op.finish i] = none := by simp [firstErr, hout]
        rw [this]; cases errSeen s <;> rfl
      | raise e =>
        rcases hside with hna | ⟨v, hv⟩
        · cases hh : s.helper with
          | active => exact absurd hh hna
          | exiting => have := (hC.exiting hh).1; rcases hfl with hfl | hfl <;> simp [hfl] at this
          | returned sl => exact absurd hh (hnr sl)
          | raised e0 => rcases hfl with hfl | hfl <;> simp [errSeen, hfl, hh]
        · cases hv
    · have hes : errSeen (complete s i (.ret v)) = errSeen s := by simp [errSeen, hfl]
      have : firstErr s.outs [Op.finish i] = none := by simp [firstErr, hout]
      rw [hes, ← hS', this]; cases errSeen s <;> rfl
  | ret i o hst hout had hside =>
    obtain ⟨hexc, hnr⟩ := ctrl_running hC hst
    have hS' := hS (by simpa using hne)
    simp only [returnNow_outs, returnNow_flavour, complete_outs, complete_flavour] at *
    rcases hside with ⟨hno, hact, hfl | ⟨v, rfl⟩⟩ | ⟨hfl, hex, v, rfl⟩
    · exact absurd hfl hne
    · have h1 : errSeen (returnNow (complete s i (.ret v))) = none := by
        cases hfl : s.flavour <;> simp [errSeen, hfl] at hno hne ⊢
      have h2 : errSeen s = none := by
        cases hfl : s.flavour <;> simp [errSeen, hfl, hact] at hno hne ⊢
      have : firstErr s.outs [Op.finish i] = none := by simp [firstErr, hout]
      rw [h1, ← hS', h2, this]
    · have h1 : errSeen (returnNow (complete s i (.ret v))) = none := by simp [errSeen, hfl, hexc]
      have h2 : errSeen s = none := by simp [errSeen, hfl, hexc]
      have : firstErr s.outs [Op.finish i] = none := by simp [firstErr, hout]
      rw [h1, ← hS', h2, this]
  | raiseF i e hst hout hfl hh =>
    have hS' := hS (by simp [hfl])
    have h2 : errSeen s = none := by simp [errSeen, hfl, hh]
    have : firstErr s.outs [Op.finish i] = some e := by simp [firstErr, hout]
    simp only [raiseNow_outs, complete_outs]
    rw [← hS', h2, this]; simp [errSeen, hfl]
  | raiseC i e hst hout hfl hh =>
    have hS' := hS (by simp [hfl])
    have h2 : errSeen s = none := by simp [errSeen, hfl, hh]
    have : firstErr s.outs [Op.finish i] = some e := by simp [firstErr, hout]
    simp only [raiseNow_outs, cancelFirst_outs, complete_outs]
    rw [← hS', h2, this]; simp [errSeen, hfl]
  | onlineFailExit i e hst hout hfl hh =>
    obtain ⟨hexc, hnr⟩ := ctrl_running hC hst
    have hS' := hS (by simp [hfl])
    have h2 : errSeen s = none := by simp [errSeen, hfl, hexc]
    have : firstErr s.outs [Op.finish i] = some e := by simp [firstErr, hout]
    simp only [raiseNow_outs, withExc_outs, cancelFirst_outs, complete_outs]
    rw [← hS', h2, this]; simp [errSeen, hfl]
  | onlineFail i e hst hout hfl hh =>
    obtain ⟨hexc, hnr⟩ := ctrl_running hC hst
    have hS' := hS (by simp [hfl])
    have h2 : errSeen s = none := by simp [errSeen, hfl, hexc]
    have : firstErr s.outs [Op.finish i] = some e := by simp [firstErr, hout]
    simp only [withExc_outs, cancelFirst_outs, complete_outs]
    rw [← hS', h2, this]; simp [errSeen, hfl]
  | bodyRaise e hfl hh hexc =>
    have hS' := hS (by simp [hfl])
    have h2 : errSeen s = none := by simp [errSeen, hfl, hexc]
    simp only [raiseNow_outs, withExc_outs, cancelFirst_outs]
    rw [← hS', h2]; simp [errSeen, hfl, firstErr]
  | bodyLate o e0 hfl hh hexc =>
    have hS' := hS (by simp [hfl])
    have h2 : errSeen s = some e0 := by simp [errSeen, hfl, hexc]
    simp only [raiseNow_outs]
    rw [← hS', h2]; simp [errSeen, hfl, hexc]
  | bodyRet v hfl hh hexc had =>
    have hS' := hS (by simp [hfl])
    have h2 : errSeen s = none := by simp [errSeen, hfl, hexc]
    simp only [returnNow_outs, releaseOwn_outs]
    rw [← hS', h2]; simp [errSeen, hfl, hexc, firstErr]
  | bodyWait v hfl hh hexc =>
    have hS' := hS (by simp [hfl])
    have h2 : errSeen s = none := by simp [errSeen, hfl, hexc]
    simp only [releaseOwn_outs]
    rw [← hS', h2]; simp [errSeen, hfl, hexc, firstErr]

/-! ### tasks unfinished at the instant the helper finishes -/

/-- only `bounded_gather2_raise_exceptions(cancel_on_error=False)` leaves tasks unfinished when it finishes (documented: "the
remaining partial functions continue to run") -/
def Pend (s : State) : Prop :=
  s.pendingAtReturn ≠ 0 → (∃ e, s.helper = .raised e) ∧ s.flavour = .raiseFirst

theorem pend_step {s s' : State} {op : Op} (hP : Pend s) (h : StepCase s op s') : Pend s' := by
  cases h with
  | plain i o hst hout hside => exact hP
  | ret i o hst hout had hside => intro hne; simp at hne
  | raiseF i e hst hout hfl hh => intro _; exact ⟨⟨e, by simp⟩, by simpa using hfl⟩
  | raiseC i e hst hout hfl hh => intro hne; simp at hne
  | onlineFailExit i e hst hout hfl hh => intro hne; simp at hne
  | onlineFail i e hst hout hfl hh => exact hP
  | bodyRaise e hfl hh hexc => intro hne; simp at hne
  | bodyLate o e0 hfl hh hexc => intro hne; simp at hne
  | bodyRet v hfl hh hexc had => intro hne; simp at hne
  | bodyWait v hfl hh hexc =>
    intro hne
    have : s.pendingAtReturn ≠ 0 := hne
    obtain ⟨⟨e, he⟩, _⟩ := hP this
    simp [hh] at he

/-! ### reachable states -/

/-- states reachable from the call of the helper, with the schedule that led to them -/
inductive Reach (fl : Flavour) (en : Entry) (n : Nat) (outs : List Outcome) : State → List Op → Prop
  | init : Reach fl en n outs (start fl en n outs) []
  | step {s ops op s'} : Reach fl en n outs s ops → step s op = some s' → Reach fl en n outs s' (ops ++ [op])

theorem nRunning_queued : ∀ (l : List Outcome), nRunning (l.map fun _ => TSt.queued) = 0
  | [] => rfl
  | _ :: r => by simp [nRunning, nRunning_queued r]

theorem budget_init {n : Nat} (hn : 1 ≤ n) (fl : Flavour) (en : Entry) (outs : List Outcome) :
    total (start fl en n outs) = budget n (start fl en n outs) := by
  have hq := nRunning_queued outs
  have h1 := grant_conserve (outs.map fun _ => TSt.queued) (valueAtCall n en)
  have h2 := grant_conserve (outs.map fun _ => TSt.queued) (valueAtCall n en + 1)
  cases fl <;> cases en <;> simp only [start, total, valueAtCall] at * <;>
    first
    | (simp only [budget]; omega)
    | (split
       · simp [leave, grant, budget, nRunning]; try omega
       · simp only [budget]; omega)

theorem reach_budget {fl : Flavour} {en : Entry} {n : Nat} {outs : List Outcome} {s : State} {ops : List Op} (hn : 1 ≤ n)
    (h : Reach fl en n outs s ops) : total s = budget n s := by
  induction h with
  | init => exact budget_init hn fl en outs
  | step _ hs ih => exact budget_step hn ih hs

theorem queued_not_done (outs : List Outcome) (k : Nat) (q : Res) :
    (outs.map fun _ => TSt.queued)[k]? ≠ some (TSt.done q) := by
  simp only [List.getElem?_map]
  cases outs[k]? <;> simp

theorem start_consts (fl : Flavour) (en : Entry) (n : Nat) (outs : List Outcome) :
    (start fl en n outs).flavour = fl ∧ (start fl en n outs).entry = en ∧ (start fl en n outs).outs = outs := by
  cases fl <;> simp only [start] <;> (try split) <;> simp

theorem ctrl_init (fl : Flavour) (en : Entry) (n : Nat) (outs : List Outcome) : Ctrl (start fl en n outs) := by
  have hnd : ∀ (f k : Nat) (q : Res), (grant f (outs.map fun _ => TSt.queued)).2[k]? ≠ some (TSt.done q) := by
    intro f k q h; exact queued_not_done outs k q ((grant_done _ _ _ _).mp h)
  have hlen : ∀ f : Nat, (grant f (outs.map fun _ => TSt.queued)).2.length = outs.length := by
    intro f; simp [grant_length]
  have active : ∀ f : Nat, Ctrl ⟨fl, en, outs, (grant f (outs.map fun _ => TSt.queued)).2,
      (grant f (outs.map fun _ => TSt.queued)).1, .active, none, 0⟩ := by
    intro f
    refine ⟨hlen f, ?_, ?_, ?_, ?_, ?_, ?_, ?_, ?_⟩
    · intro k q h; exact absurd h (hnd f k q)
    · intro _ _ k h; exact absurd h (hnd f k _)
    · intro sl h; simp at h
    · intro h; simp at h
    · intro e h; simp at h
    · intro _ e h; simp at h
    · intro _ e h; simp at h
    · intro _ e h; simp at h
  cases fl
  case online => exact active _
  all_goals
    simp only [start]
    split
    · next hemp =>
      have : outs = [] := by simpa using hemp
      subst this
      refine ⟨by simp [leave_len], ?_, ?_, ?_, ?_, ?_, ?_, ?_, ?_⟩
      · intro k q h; rw [leave_done] at h; simp at h
      · intro _ _ k h; rw [leave_done] at h; simp at h
      · intro sl h
        simp only [leave_helper, HSt.returned.injEq] at h; subst h
        have hl : ∀ x : State, x.st = [] → (leave x).st = [] := by
          intro x hx; rw [leave_st_allDone x (by simp [hx, allDone])]; exact hx
        refine ⟨?_, ?_, by simp⟩
        · rw [hl _ rfl]; rfl
        · rw [hl _ rfl]; rfl
      · intro h; simp at h
      · intro e h; simp at h
      · intro h; simp at h
      · intro _ e h; simp at h
      · intro _ e h; simp at h
    · exact active _

theorem stepcase_consts {s s' : State} {op : Op} (h : StepCase s op s') :
    s'.flavour = s.flavour ∧ s'.entry = s.entry ∧ s'.outs = s.outs := by
  cases h <;> simp

/-- everything proved about reachable states -/
theorem reach_all {fl : Flavour} {en : Entry} {n : Nat} {outs : List Outcome} {s : State} {ops : List Op}
    (h : Reach fl en n outs s ops) :
    (s.flavour = fl ∧ s.entry = en ∧ s.outs = outs) ∧ Ctrl s ∧
      (fl ≠ .returnExceptions → errSeen s = firstErr outs ops) ∧ Pend s := by
  induction h with
  | init =>
    obtain ⟨h1, h2, h3⟩ := start_consts fl en n outs
    refine ⟨⟨h1, h2, h3⟩, ctrl_init fl en n outs, ?_, ?_⟩
    · intro hne
      have hC := ctrl_init fl en n outs
      cases hfl : fl with
      | returnExceptions => exact absurd hfl hne
      | online =>
        subst hfl; simp [errSeen, start, firstErr]
      | raiseFirst =>
        subst hfl
        simp only [errSeen, h1, firstErr]
        cases hh : (start .raiseFirst en n outs).helper with
        | raised e => simp only [start] at hh; split at hh <;> simp at hh
        | _ => rfl
      | raiseCancel =>
        subst hfl
        simp only [errSeen, h1, firstErr]
        cases hh : (start .raiseCancel en n outs).helper with
        | raised e => simp only [start] at hh; split at hh <;> simp at hh
        | _ => rfl
    · intro hne
      exfalso; apply hne
      cases fl <;> simp only [start] <;> first | rfl | (split <;> simp)
  | @step s0 ops0 op0 s1 hr hs ih =>
    obtain ⟨⟨h1, h2, h3⟩, hC, hS, hP⟩ := ih
    have hc := step_cases hs
    obtain ⟨k1, k2, k3⟩ := stepcase_consts hc
    refine ⟨⟨k1.trans h1, k2.trans h2, k3.trans h3⟩, ctrl_step hC hc, ?_, pend_step hP hc⟩
    intro hne
    have := seen_step (ops := ops0) hC (by intro hx; rw [h3]; exact hS (by rw [← h1]; exact hx)) hc
      (by rw [k1, h1]; exact hne)
    rw [k3, h3] at this
    exact this

/-- `runFrom` from a reachable state stays reachable -/
theorem runFrom_reach {fl : Flavour} {en : Entry} {n : Nat} {outs : List Outcome} : ∀ (ops : List Op) {s s' : State}
    {pre : List Op}, Reach fl en n outs s pre → runFrom s ops = some s' → Reach fl en n outs s' (pre ++ ops)
  | [], s, s', pre, hr, h => by simp [runFrom] at h; subst h; simpa using hr
  | op :: ops, s, s', pre, hr, h => by
    simp only [runFrom] at h
    split at h
    · simp at h
    · next s1 h1 =>
      have := runFrom_reach ops (Reach.step hr h1) h
      simpa [List.append_assoc] using this

end HailVerif.Gather

import HailVerif.Model.Gather
/-! Helper lemmas for C20: permit accounting and the other invariants of `Gather.step`. -/
namespace HailVerif.Gather

/-! ### lists of task states -/

theorem grant_conserve : ∀ (l : List TSt) (f : Nat), (grant f l).1 + nRunning (grant f l).2 = f + nRunning l := by
  intro l
  induction l with
  | nil => intro f; cases f <;> simp [grant, nRunning]
  | cons x r ih =>
    intro f
    cases f with
    | zero => simp [grant]
    | succ f =>
      cases x with
      | queued => have := ih f; simp [grant, nRunning]; omega
      | running => have := ih (f + 1); simp [grant, nRunning]; omega
      | done q => have := ih (f + 1); simp [grant, nRunning]; omega

theorem set_running : ∀ (l : List TSt) (i : Nat) (q : Res), l[i]? = some .running →
    nRunning (l.set i (.done q)) + 1 = nRunning l := by
  intro l
  induction l with
  | nil => intro i q h; simp at h
  | cons x r ih =>
    intro i q h
    cases i with
    | zero => simp at h; subst h; simp [nRunning]
    | succ i =>
      simp at h
      have := ih i q h
      cases x <;> simp [nRunning] <;> omega

theorem cancelBelow_conserve : ∀ (l : List TSt) (j : Nat),
    nRunning (cancelBelow j l).2 + (cancelBelow j l).1 = nRunning l := by
  intro l
  induction l with
  | nil => intro j; cases j <;> simp [cancelBelow, nRunning]
  | cons x r ih =>
    intro j
    cases j with
    | zero => simp [cancelBelow]
    | succ j =>
      have := ih j
      cases x <;> simp [cancelBelow, nRunning] <;> omega

theorem allDone_nRunning : ∀ (l : List TSt), allDone l = true → nRunning l = 0 := by
  intro l
  induction l with
  | nil => simp [nRunning]
  | cons x r ih =>
    intro h
    simp [allDone] at h ih
    cases x <;> simp [isDone] at h
    simp [nRunning]; exact ih h

/-! ### permit accounting -/

/-- permits in the hands of the tasks or free -/
def total (s : State) : Nat := nRunning s.st + s.free

/-- what `total` must be, for a semaphore created with `n` permits of which the caller holds one -/
def budget (n : Nat) (s : State) : Nat :=
  match s.flavour, s.helper with
  | _, .exitCancelled => n + 1     -- finding F4 again: the exit was cancelled, nothing re-acquired, the caller releases
  | .online, .active => n - 1      -- the body keeps the caller's permit
  | .online, _ => n
  | _, .raised _ => n + 1          -- finding F4: released twice, acquired once
  | _, _ => n

@[simp] theorem leave_entry (s : State) : (leave s).entry = s.entry := rfl
@[simp] theorem leave_flavour (s : State) : (leave s).flavour = s.flavour := rfl
@[simp] theorem leave_helper (s : State) : (leave s).helper = s.helper := rfl
@[simp] theorem leave_outs (s : State) : (leave s).outs = s.outs := rfl
@[simp] theorem leave_exc (s : State) : (leave s).exc = s.exc := rfl
@[simp] theorem leave_pending (s : State) : (leave s).pendingAtReturn = s.pendingAtReturn := rfl

theorem total_leave (s : State) : total (leave s) = total s + 1 := by
  unfold leave total
  have := grant_conserve s.st (s.free + 1); simp only []; omega

theorem total_complete (s : State) (i : Nat) (o : Outcome) (h : s.st[i]? = some .running) :
    total (complete s i o) = total s := by
  have h1 := set_running s.st i (resOf o) h
  have h2 := grant_conserve (s.st.set i (.done (resOf o))) (s.free + 1)
  simp only [total, complete]; omega

theorem total_cancelFirst (s : State) (j : Nat) : total (cancelFirst s j) = total s := by
  have h1 := cancelBelow_conserve s.st j
  have h2 := grant_conserve (cancelBelow j s.st).2 (s.free + (cancelBelow j s.st).1)
  simp only [total, cancelFirst]; omega

theorem total_releaseOwn (s : State) : total (releaseOwn s) = total s + 1 := by
  have h2 := grant_conserve s.st (s.free + 1)
  simp only [total, releaseOwn]; omega

theorem total_returnNow (s : State) (h : 1 ≤ s.free) : total (returnNow s) + 1 = total s + 1 := by
  unfold returnNow
  rw [total_leave]
  simp only [total]; omega

theorem total_raiseNow (s : State) (e : Exn) (p : Nat) (b : Bool) (h : 1 ≤ s.free) :
    total (raiseNow s e p b) + (if b then 1 else 0) = total s + 1 := by
  unfold raiseNow
  rw [total_leave]
  cases b <;> simp only [total] <;> simp <;> omega

theorem total_raiseNow_false (s : State) (e : Exn) (p : Nat) : total (raiseNow s e p false) = total s + 1 := by
  unfold raiseNow
  rw [total_leave]
  simp [total]

@[simp] theorem complete_entry (s : State) (i : Nat) (o : Outcome) : (complete s i o).entry = s.entry := rfl
@[simp] theorem complete_flavour (s : State) (i : Nat) (o : Outcome) : (complete s i o).flavour = s.flavour := rfl
@[simp] theorem complete_helper (s : State) (i : Nat) (o : Outcome) : (complete s i o).helper = s.helper := rfl
@[simp] theorem complete_exc (s : State) (i : Nat) (o : Outcome) : (complete s i o).exc = s.exc := rfl
@[simp] theorem complete_outs (s : State) (i : Nat) (o : Outcome) : (complete s i o).outs = s.outs := rfl
@[simp] theorem complete_pending (s : State) (i : Nat) (o : Outcome) :
    (complete s i o).pendingAtReturn = s.pendingAtReturn := rfl
@[simp] theorem cancelFirst_entry (s : State) (j : Nat) : (cancelFirst s j).entry = s.entry := rfl
@[simp] theorem cancelFirst_flavour (s : State) (j : Nat) : (cancelFirst s j).flavour = s.flavour := rfl
@[simp] theorem cancelFirst_helper (s : State) (j : Nat) : (cancelFirst s j).helper = s.helper := rfl
@[simp] theorem cancelFirst_exc (s : State) (j : Nat) : (cancelFirst s j).exc = s.exc := rfl
@[simp] theorem cancelFirst_outs (s : State) (j : Nat) : (cancelFirst s j).outs = s.outs := rfl
@[simp] theorem withExc_entry (s : State) (e : Exn) : (withExc s e).entry = s.entry := rfl
@[simp] theorem withExc_flavour (s : State) (e : Exn) : (withExc s e).flavour = s.flavour := rfl
@[simp] theorem withExc_helper (s : State) (e : Exn) : (withExc s e).helper = s.helper := rfl
@[simp] theorem withExc_exc (s : State) (e : Exn) : (withExc s e).exc = some e := rfl
@[simp] theorem withExc_outs (s : State) (e : Exn) : (withExc s e).outs = s.outs := rfl
@[simp] theorem withExc_st (s : State) (e : Exn) : (withExc s e).st = s.st := rfl
@[simp] theorem withExc_free (s : State) (e : Exn) : (withExc s e).free = s.free := rfl
@[simp] theorem withExc_pending (s : State) (e : Exn) : (withExc s e).pendingAtReturn = s.pendingAtReturn := rfl
@[simp] theorem total_withExc (s : State) (e : Exn) : total (withExc s e) = total s := rfl
@[simp] theorem releaseOwn_entry (s : State) : (releaseOwn s).entry = s.entry := rfl
@[simp] theorem releaseOwn_flavour (s : State) : (releaseOwn s).flavour = s.flavour := rfl
@[simp] theorem releaseOwn_helper (s : State) : (releaseOwn s).helper = s.helper := rfl
@[simp] theorem releaseOwn_exc (s : State) : (releaseOwn s).exc = s.exc := rfl
@[simp] theorem releaseOwn_outs (s : State) : (releaseOwn s).outs = s.outs := rfl
@[simp] theorem returnNow_entry (s : State) : (returnNow s).entry = s.entry := by simp [returnNow]
@[simp] theorem returnNow_flavour (s : State) : (returnNow s).flavour = s.flavour := by simp [returnNow]
@[simp] theorem returnNow_helper (s : State) : (returnNow s).helper = .returned (s.st.map slotOf) := by simp [returnNow]
@[simp] theorem returnNow_exc (s : State) : (returnNow s).exc = s.exc := by simp [returnNow]
@[simp] theorem returnNow_outs (s : State) : (returnNow s).outs = s.outs := by simp [returnNow]
@[simp] theorem returnNow_pending (s : State) : (returnNow s).pendingAtReturn = 0 := by simp [returnNow]
@[simp] theorem raiseNow_entry (s : State) (e : Exn) (p : Nat) (b : Bool) : (raiseNow s e p b).entry = s.entry := by simp [raiseNow]
@[simp] theorem raiseNow_flavour (s : State) (e : Exn) (p : Nat) (b : Bool) : (raiseNow s e p b).flavour = s.flavour := by
  simp [raiseNow]
@[simp] theorem raiseNow_helper (s : State) (e : Exn) (p : Nat) (b : Bool) : (raiseNow s e p b).helper = .raised e := by
  simp [raiseNow]
@[simp] theorem raiseNow_exc (s : State) (e : Exn) (p : Nat) (b : Bool) : (raiseNow s e p b).exc = s.exc := by simp [raiseNow]
@[simp] theorem raiseNow_outs (s : State) (e : Exn) (p : Nat) (b : Bool) : (raiseNow s e p b).outs = s.outs := by simp [raiseNow]
@[simp] theorem raiseNow_pending (s : State) (e : Exn) (p : Nat) (b : Bool) : (raiseNow s e p b).pendingAtReturn = p := by
  simp [raiseNow]

/-- when every task is finished all permits are free -/
theorem free_of_allDone (s : State) (h : allDone s.st = true) : s.free = total s := by
  have := allDone_nRunning s.st h; simp [total]; omega

theorem cancelBelow_allDone : ∀ (l : List TSt) (j : Nat), l.length ≤ j → allDone (cancelBelow j l).2 = true := by
  intro l
  induction l with
  | nil => intro j _; cases j <;> simp [cancelBelow, allDone]
  | cons x r ih =>
    intro j hj
    cases j with
    | zero => simp at hj
    | succ j =>
      have := ih j (by simp at hj; omega)
      cases x <;> simp_all [cancelBelow, allDone, isDone]

theorem grant_allDone : ∀ (l : List TSt) (f : Nat), allDone l = true → (grant f l).2 = l := by
  intro l
  induction l with
  | nil => intro f _; cases f <;> simp [grant]
  | cons x r ih =>
    intro f h
    simp [allDone] at h ih
    cases f with
    | zero => simp [grant]
    | succ f =>
      cases x <;> simp [isDone] at h
      simp [grant]; exact ih (f + 1) h

theorem cancelFirst_allDone (s : State) (j : Nat) (h : s.st.length ≤ j) : allDone (cancelFirst s j).st = true := by
  have h1 := cancelBelow_allDone s.st j h
  simp only [cancelFirst]
  rw [grant_allDone _ _ h1]; exact h1

/-! ### more list lemmas -/

theorem grant_length : ∀ (l : List TSt) (f : Nat), (grant f l).2.length = l.length := by
  intro l
  induction l with
  | nil => intro f; cases f <;> simp [grant]
  | cons x r ih =>
    intro f
    cases f with
    | zero => simp [grant]
    | succ f => cases x <;> simp [grant, ih]

theorem grant_done : ∀ (l : List TSt) (f i : Nat) (q : Res), (grant f l).2[i]? = some (.done q) ↔ l[i]? = some (.done q) := by
  intro l
  induction l with
  | nil => intro f i q; cases f <;> simp [grant]
  | cons x r ih =>
    intro f i q
    cases f with
    | zero => simp [grant]
    | succ f =>
      cases i with
      | zero => cases x <;> simp [grant]
      | succ i => cases x <;> simp [grant, ih]

theorem cancelBelow_length : ∀ (l : List TSt) (j : Nat), (cancelBelow j l).2.length = l.length := by
  intro l
  induction l with
  | nil => intro j; cases j <;> simp [cancelBelow]
  | cons x r ih =>
    intro j
    cases j with
    | zero => simp [cancelBelow]
    | succ j => cases x <;> simp [cancelBelow, ih]

theorem cancelBelow_done : ∀ (l : List TSt) (j i : Nat) (q : Res), (cancelBelow j l).2[i]? = some (.done q) →
    q = .cancelled ∨ l[i]? = some (.done q) := by
  intro l
  induction l with
  | nil => intro j i q; cases j <;> simp [cancelBelow]
  | cons x r ih =>
    intro j i q
    cases j with
    | zero => simp only [cancelBelow]; intro h; exact Or.inr h
    | succ j =>
      cases i with
      | zero => cases x <;> simp [cancelBelow] <;> intro h <;> simp [h]
      | succ i => cases x <;> simp [cancelBelow] <;> exact ih j i q

/-- the tasks before `j` are all finished after `cancelBelow j` -/
theorem cancelBelow_below : ∀ (l : List TSt) (j i : Nat), i < j → i < l.length → ∃ q, (cancelBelow j l).2[i]? = some (.done q) := by
  intro l
  induction l with
  | nil => intro j i _ h; simp at h
  | cons x r ih =>
    intro j i hij hi
    cases j with
    | zero => omega
    | succ j =>
      cases i with
      | zero => cases x <;> simp [cancelBelow]
      | succ i =>
        have := ih j i (by omega) (by simp at hi; omega)
        cases x <;> simp [cancelBelow] <;> exact this

theorem allDone_get : ∀ (l : List TSt) (i : Nat), allDone l = true → l[i]? ≠ some .running := by
  intro l
  induction l with
  | nil => simp
  | cons x r ih =>
    intro i h
    simp [allDone] at h ih
    cases i with
    | zero => cases x <;> simp [isDone] at h ⊢
    | succ i => simpa using ih i h.2

theorem allDone_iff (l : List TSt) : allDone l = true ↔ ∀ i, i < l.length → ∃ q, l[i]? = some (.done q) := by
  induction l with
  | nil => simp [allDone]
  | cons x r ih =>
    simp only [allDone, List.all_cons, Bool.and_eq_true] at ih ⊢
    constructor
    · intro ⟨h1, h2⟩ i hi
      cases i with
      | zero => cases x <;> simp [isDone] at h1 ⊢
      | succ i => simpa using ih.mp h2 i (by simpa using hi)
    · intro h
      constructor
      · have := h 0 (by simp)
        cases x <;> simp [isDone] at this ⊢
      · apply ih.mpr
        intro i hi
        simpa using h (i + 1) (by simpa using hi)


/-! ### the shapes a step can take -/

@[simp] theorem exitCancel_entry (s : State) : (exitCancel s).entry = s.entry := rfl
@[simp] theorem exitCancel_flavour (s : State) : (exitCancel s).flavour = s.flavour := rfl
@[simp] theorem exitCancel_helper (s : State) : (exitCancel s).helper = .exitCancelled := rfl
@[simp] theorem exitCancel_exc (s : State) : (exitCancel s).exc = some .cancelled := rfl
@[simp] theorem exitCancel_outs (s : State) : (exitCancel s).outs = s.outs := rfl
@[simp] theorem exitCancel_pending (s : State) : (exitCancel s).pendingAtReturn = 0 := rfl

theorem total_exitCancel (s : State) : total (exitCancel s) = total s + 1 := by
  have h1 := total_cancelFirst s s.st.length
  unfold exitCancel
  rw [total_leave]
  simp only [total, withExc_st, withExc_free] at h1 ⊢
  omega

inductive StepCase (s : State) : Op → State → Prop
  /-- a task finishes and the helper does not react -/
  | plain (i : Nat) (o : Outcome) (hst : s.st[i]? = some .running) (hout : s.outs[i]? = some o)
      (hside : s.flavour = .returnExceptions ∨
        ((s.flavour = .raiseFirst ∨ s.flavour = .raiseCancel) ∧ (s.helper ≠ .active ∨ failureOf o = none)) ∨
        (s.flavour = .online ∧ poolFailureOf o = none)) :
      StepCase s (.finish i) (complete s i o)
  /-- the last task finishes and the helper returns -/
  | ret (i : Nat) (o : Outcome) (hst : s.st[i]? = some .running) (hout : s.outs[i]? = some o)
      (had : allDone (complete s i o).st = true)
      (hside : (s.flavour ≠ .online ∧ s.helper = .active ∧ (s.flavour = .returnExceptions ∨ failureOf o = none)) ∨
        (s.flavour = .online ∧ s.helper = .exiting ∧ poolFailureOf o = none)) :
      StepCase s (.finish i) (returnNow (complete s i o))
  | raiseF (i : Nat) (o : Outcome) (x : Exn) (hst : s.st[i]? = some .running) (hout : s.outs[i]? = some o)
      (hf : failureOf o = some x) (hfl : s.flavour = .raiseFirst) (hh : s.helper = .active) :
      StepCase s (.finish i) (raiseNow (complete s i o) x (nNotDone (complete s i o).st) false)
  | raiseC (i : Nat) (o : Outcome) (x : Exn) (hst : s.st[i]? = some .running) (hout : s.outs[i]? = some o)
      (hf : failureOf o = some x) (hfl : s.flavour = .raiseCancel) (hh : s.helper = .active) :
      StepCase s (.finish i) (raiseNow (cancelFirst (complete s i o) (complete s i o).st.length) x 0 false)
  | onlineFailExit (i : Nat) (o : Outcome) (x : Exn) (hst : s.st[i]? = some .running) (hout : s.outs[i]? = some o)
      (hf : poolFailureOf o = some x) (hfl : s.flavour = .online) (hh : s.helper = .exiting) :
      StepCase s (.finish i) (raiseNow (withExc (cancelFirst (complete s i o) (complete s i o).st.length) x) x 0 true)
  | onlineFail (i : Nat) (o : Outcome) (x : Exn) (hst : s.st[i]? = some .running) (hout : s.outs[i]? = some o)
      (hf : poolFailureOf o = some x) (hfl : s.flavour = .online) (hh : s.helper ≠ .exiting) :
      StepCase s (.finish i) (withExc (cancelFirst (complete s i o) (complete s i o).st.length) x)
  /-- the online body ends with an exception (its own, or the cancellation of the caller) while the pool is live -/
  | bodyRaise (op : Op) (x : Exn) (hop : (∃ e, op = .body (.raise e) ∧ x = .code e) ∨ (op = .cancelCaller ∧ x = .cancelled))
      (hfl : s.flavour = .online) (hh : s.helper = .active) (hexc : s.exc = none) :
      StepCase s op (raiseNow (withExc (cancelFirst s s.st.length) x) x 0 false)
  /-- the online body ends (in any way) after a task has already shut the pool down -/
  | bodyLate (op : Op) (x0 : Exn) (hfl : s.flavour = .online) (hh : s.helper = .active) (hexc : s.exc = some x0) :
      StepCase s op (raiseNow s x0 0 false)
  | bodyRet (v : Nat) (hfl : s.flavour = .online) (hh : s.helper = .active) (hexc : s.exc = none)
      (had : allDone (releaseOwn s).st = true) :
      StepCase s (.body (.ret v)) (returnNow (releaseOwn s))
  | bodyWait (v : Nat) (hfl : s.flavour = .online) (hh : s.helper = .active) (hexc : s.exc = none) :
      StepCase s (.body (.ret v)) { releaseOwn s with helper := .exiting }
  /-- the caller is cancelled inside the pool's `__aexit__` -/
  | abandonExit (hfl : s.flavour = .online) (hh : s.helper = .exiting) : StepCase s .cancelCaller (exitCancel s)
  /-- the caller is cancelled inside `await asyncio.gather(…)` -/
  | cancelGather (hfl : s.flavour ≠ .online) (hh : s.helper = .active) :
      StepCase s .cancelCaller (raiseNow (cancelFirst s s.st.length) .cancelled 0 false)

theorem bodyEnds_cases {s : State} {op : Op} (f : Option Exn)
    (hop : match f with
      | some x => (∃ e, op = .body (.raise e) ∧ x = .code e) ∨ (op = .cancelCaller ∧ x = .cancelled)
      | none => ∃ v, op = .body (.ret v))
    (hfl : s.flavour = .online) (hh : s.helper = .active) : StepCase s op (bodyEnds s f) := by
  unfold bodyEnds
  split
  · next x hexc => exact .bodyRaise op x hop hfl hh hexc
  · next x0 hexc => exact .bodyLate op x0 hfl hh hexc
  · next hexc =>
    obtain ⟨v, rfl⟩ := hop
    simp only []
    split
    · next had => exact .bodyRet v hfl hh hexc had
    · exact .bodyWait v hfl hh hexc

theorem step_cases {s s' : State} {op : Op} (h : step s op = some s') : StepCase s op s' := by
  cases op with
  | finish i =>
    simp only [step] at h
    split at h
    · next o hst hout =>
      split at h
      · next hfl =>
        split at h
        · next had =>
          simp at h; subst h
          exact .ret i o hst hout had.2 (Or.inl ⟨by simp [hfl], had.1, Or.inl hfl⟩)
        · simp at h; subst h
          exact .plain i o hst hout (Or.inl hfl)
      · next hfl =>
        split at h
        · next x hh hf => simp at h; subst h; exact .raiseF i o x hst hout hf hfl hh
        · next hh hf =>
          split at h
          · next had =>
            simp at h; subst h
            exact .ret i o hst hout had (Or.inl ⟨by simp [hfl], hh, Or.inr hf⟩)
          · simp at h; subst h
            exact .plain i o hst hout (Or.inr (Or.inl ⟨Or.inl hfl, Or.inr hf⟩))
        · next hne1 hne2 =>
          simp at h; subst h
          refine .plain i o hst hout (Or.inr (Or.inl ⟨Or.inl hfl, ?_⟩))
          left; intro hh
          cases hf : failureOf o with
          | none => exact hne2 hh hf
          | some x => exact hne1 x hh hf
      · next hfl =>
        split at h
        · next x hh hf => simp at h; subst h; exact .raiseC i o x hst hout hf hfl hh
        · next hh hf =>
          split at h
          · next had =>
            simp at h; subst h
            exact .ret i o hst hout had (Or.inl ⟨by simp [hfl], hh, Or.inr hf⟩)
          · simp at h; subst h
            exact .plain i o hst hout (Or.inr (Or.inl ⟨Or.inr hfl, Or.inr hf⟩))
        · next hne1 hne2 =>
          simp at h; subst h
          refine .plain i o hst hout (Or.inr (Or.inl ⟨Or.inr hfl, ?_⟩))
          left; intro hh
          cases hf : failureOf o with
          | none => exact hne2 hh hf
          | some x => exact hne1 x hh hf
      · next hfl =>
        split at h
        · next hf =>
          split at h
          · next had =>
            simp at h; subst h
            exact .ret i o hst hout had.2 (Or.inr ⟨hfl, had.1, hf⟩)
          · simp at h; subst h
            exact .plain i o hst hout (Or.inr (Or.inr ⟨hfl, hf⟩))
        · next x hf =>
          split at h
          · next hh => simp at h; subst h; exact .onlineFailExit i o x hst hout hf hfl hh
          · next hne => simp at h; subst h; exact .onlineFail i o x hst hout hf hfl (fun hh => hne hh)
    · simp at h
  | body o =>
    simp only [step] at h
    split at h
    · next v hfl hh => simp at h; subst h; exact bodyEnds_cases none ⟨v, rfl⟩ hfl hh
    · next e hfl hh => simp at h; subst h; exact bodyEnds_cases (some (.code e)) (Or.inl ⟨e, rfl, rfl⟩) hfl hh
    · simp at h
  | cancelCaller =>
    simp only [step] at h
    split at h
    · next hfl hh => simp at h; subst h; exact bodyEnds_cases (some .cancelled) (Or.inr ⟨rfl, rfl⟩) hfl hh
    · next hfl hh => simp at h; subst h; exact .abandonExit hfl hh
    · next _ hh hne =>
      simp at h; subst h
      exact .cancelGather (fun hfl => hne hfl) hh
    · simp at h

theorem budget_step {n : Nat} (hn : 1 ≤ n) {s s' : State} {op : Op} (hb : total s = budget n s)
    (h : StepCase s op s') : total s' = budget n s' := by
  cases h with
  | plain i o hst hout hside =>
    have hc := total_complete s i o hst
    rw [hc, hb]; simp [budget]
  | ret i o hst hout had hside =>
    have hc := total_complete s i o hst
    have hfree := free_of_allDone (complete s i o) had
    have := total_returnNow (complete s i o) (by
      rcases hside with ⟨hno, ha, _⟩ | ⟨hfl, ha, _⟩
      · cases hfl : s.flavour <;> simp [budget, hfl, ha] at hb hno <;> omega
      · simp [budget, hfl, ha] at hb; omega)
    rcases hside with ⟨hno, ha, _⟩ | ⟨hfl, ha, _⟩
    · cases hfl : s.flavour <;> simp [budget, hfl, ha] at hb hno this ⊢ <;> omega
    · simp [budget, hfl, ha] at hb this ⊢; omega
  | raiseF i o x hst hout hf hfl hh =>
    have hc := total_complete s i o hst
    have := total_raiseNow_false (complete s i o) x (nNotDone (complete s i o).st)
    simp [budget, hfl, hh] at hb this ⊢; omega
  | raiseC i o x hst hout hf hfl hh =>
    have hc := total_complete s i o hst
    have h1 := total_cancelFirst (complete s i o) (complete s i o).st.length
    have := total_raiseNow_false (cancelFirst (complete s i o) (complete s i o).st.length) x 0
    simp [budget, hfl, hh] at hb this ⊢; omega
  | onlineFailExit i o x hst hout hf hfl hh =>
    have hc := total_complete s i o hst
    have h1 := total_cancelFirst (complete s i o) (complete s i o).st.length
    have h2 : allDone (withExc (cancelFirst (complete s i o) (complete s i o).st.length) x).st = true :=
      cancelFirst_allDone (complete s i o) (complete s i o).st.length (Nat.le_refl _)
    have h3 := free_of_allDone _ h2
    have := total_raiseNow (withExc (cancelFirst (complete s i o) (complete s i o).st.length) x) x 0 true (by
      simp only [total_withExc] at h3
      simp [budget, hfl, hh] at hb; omega)
    simp only [total_withExc] at this
    simp [budget, hfl, hh] at hb this ⊢; omega
  | onlineFail i o x hst hout hf hfl hh =>
    have hc := total_complete s i o hst
    have h1 := total_cancelFirst (complete s i o) (complete s i o).st.length
    simp only [total_withExc]
    rw [h1, hc, hb]
    cases hh' : s.helper <;> simp [budget, hfl, hh'] <;> exact absurd hh' hh
  | bodyRaise op x hop hfl hh hexc =>
    have h1 := total_cancelFirst s s.st.length
    have := total_raiseNow_false (withExc (cancelFirst s s.st.length) x) x 0
    simp only [total_withExc] at this
    simp [budget, hfl, hh] at hb this ⊢; omega
  | bodyLate op x0 hfl hh hexc =>
    have := total_raiseNow_false s x0 0
    simp [budget, hfl, hh] at hb this ⊢; omega
  | bodyRet v hfl hh hexc had =>
    have h1 := total_releaseOwn s
    have h3 := free_of_allDone (releaseOwn s) had
    have := total_returnNow (releaseOwn s) (by omega)
    simp [budget, hfl, hh] at hb this ⊢; omega
  | bodyWait v hfl hh hexc =>
    have h1 := total_releaseOwn s
    simp only [total] at h1 hb ⊢
    simp [budget, hfl, hh] at hb ⊢; omega
  | abandonExit hfl hh =>
    rw [total_exitCancel, hb]; simp [budget, hfl, hh]
  | cancelGather hfl hh =>
    have h1 := total_cancelFirst s s.st.length
    have := total_raiseNow_false (cancelFirst s s.st.length) .cancelled 0
    cases hfl' : s.flavour <;> simp [budget, hfl', hh] at hb this hfl ⊢ <;> omega

/-! ### what the building blocks do to the finished tasks -/

theorem complete_len (s : State) (i : Nat) (o : Outcome) : (complete s i o).st.length = s.st.length := by
  simp [complete, grant_length]

theorem complete_done (s : State) (i : Nat) (o : Outcome) (k : Nat) (q : Res) :
    (complete s i o).st[k]? = some (.done q) ↔
      (k = i ∧ i < s.st.length ∧ q = resOf o) ∨ (k ≠ i ∧ s.st[k]? = some (.done q)) := by
  simp only [complete, grant_done, List.getElem?_set]
  by_cases hk : i = k
  · subst hk
    by_cases hl : i < s.st.length
    · simp [hl]; constructor <;> intro h <;> exact h.symm
    · simp [hl]
  · have : k ≠ i := fun h => hk h.symm
    simp [hk, this]

theorem leave_len (s : State) : (leave s).st.length = s.st.length := by
  simp [leave, grant_length]

theorem leave_done (s : State) (k : Nat) (q : Res) : (leave s).st[k]? = some (.done q) ↔ s.st[k]? = some (.done q) := by
  simp [leave, grant_done]

theorem leave_st_allDone (s : State) (h : allDone s.st = true) : (leave s).st = s.st := by
  simp [leave, grant_allDone _ _ h]

theorem cancelFirst_len (s : State) (j : Nat) : (cancelFirst s j).st.length = s.st.length := by
  simp [cancelFirst, grant_length, cancelBelow_length]

theorem cancelFirst_done (s : State) (j k : Nat) (q : Res) (h : (cancelFirst s j).st[k]? = some (.done q)) :
    q = .cancelled ∨ s.st[k]? = some (.done q) := by
  simp only [cancelFirst, grant_done] at h
  exact cancelBelow_done _ _ _ _ h

theorem releaseOwn_len (s : State) : (releaseOwn s).st.length = s.st.length := by simp [releaseOwn, grant_length]

theorem releaseOwn_done (s : State) (k : Nat) (q : Res) :
    (releaseOwn s).st[k]? = some (.done q) ↔ s.st[k]? = some (.done q) := by simp [releaseOwn, grant_done]

theorem returnNow_len (s : State) : (returnNow s).st.length = s.st.length := by simp [returnNow, leave_len]
theorem returnNow_done (s : State) (k : Nat) (q : Res) :
    (returnNow s).st[k]? = some (.done q) ↔ s.st[k]? = some (.done q) := by simp [returnNow, leave_done]
theorem returnNow_st (s : State) (h : allDone s.st = true) : (returnNow s).st = s.st := by
  simp only [returnNow]; exact leave_st_allDone _ h
theorem raiseNow_len (s : State) (e : Exn) (p : Nat) (b : Bool) : (raiseNow s e p b).st.length = s.st.length := by
  simp [raiseNow, leave_len]
theorem raiseNow_done (s : State) (e : Exn) (p : Nat) (b : Bool) (k : Nat) (q : Res) :
    (raiseNow s e p b).st[k]? = some (.done q) ↔ s.st[k]? = some (.done q) := by simp [raiseNow, leave_done]
theorem raiseNow_st (s : State) (e : Exn) (p : Nat) (b : Bool) (h : allDone s.st = true) : (raiseNow s e p b).st = s.st := by
  simp only [raiseNow]; exact leave_st_allDone _ h

/-- finished tasks in submission order are the scripted outcomes in submission order -/
theorem map_slotOf_eq (st : List TSt) (outs : List Outcome) (hlen : st.length = outs.length) (had : allDone st = true)
    (hag : ∀ (i : Nat) (q : Res), st[i]? = some (TSt.done q) → ∃ o, outs[i]? = some o ∧ q = resOf o) :
    st.map slotOf = outs.map resOf := by
  apply List.ext_getElem?
  intro i
  by_cases hi : i < st.length
  · obtain ⟨q, hq⟩ := (allDone_iff st).mp had i hi
    obtain ⟨o, ho, rfl⟩ := hag i q hq
    simp [hq, ho, slotOf]
  · have h1 : st[i]? = none := by simp; omega
    have h2 : outs[i]? = none := by simp; omega
    simp [h1, h2]

theorem exitCancel_len (s : State) : (exitCancel s).st.length = s.st.length := by
  simp [exitCancel, leave_len, cancelFirst_len]
theorem exitCancel_st (s : State) : (exitCancel s).st = (cancelFirst s s.st.length).st := by
  have had := cancelFirst_allDone s s.st.length (Nat.le_refl _)
  simp only [exitCancel]
  exact leave_st_allDone _ had

/-! ### control invariant -/

structure Ctrl (s : State) : Prop where
  len : s.st.length = s.outs.length
  /-- a finished task ended with its scripted outcome, or was cancelled -/
  agree : ∀ (i : Nat) (q : Res), s.st[i]? = some (TSt.done q) → q = .cancelled ∨ ∃ o, s.outs[i]? = some o ∧ q = resOf o
  /-- before any exception every finished task ended with its scripted outcome (nothing has been cancelled by the helper) -/
  strict : s.exc = none → (∀ x, s.helper ≠ .raised x) →
    ∀ (i : Nat) (q : Res), s.st[i]? = some (TSt.done q) → ∃ o, s.outs[i]? = some o ∧ q = resOf o
  ret : ∀ sl, s.helper = .returned sl → sl = s.st.map slotOf ∧ allDone s.st = true ∧ s.exc = none
  exiting : s.helper = .exiting → s.flavour = .online ∧ s.exc = none
  excOnline : ∀ x, s.exc = some x → s.flavour = .online ∧ allDone s.st = true
  raisedExc : s.flavour = .online → ∀ x, s.helper = .raised x → s.exc = some x
  /-- `cancel_on_error=True`: once the helper has raised, every task is finished -/
  rcRaised : s.flavour = .raiseCancel → ∀ x, s.helper = .raised x → allDone s.st = true
  /-- `return_exceptions`: it raises only when cancelled, and then every task is finished -/
  rxRaised : s.flavour = .returnExceptions → ∀ x, s.helper = .raised x → allDone s.st = true ∧ x = .cancelled
  /-- a cancelled exit has shut the pool down -/
  exitCancelledDone : s.helper = .exitCancelled → s.flavour = .online ∧ allDone s.st = true

/-- while a task is running nothing is shut down and the helper has not returned -/
theorem ctrl_running {s : State} (hC : Ctrl s) {i : Nat} (hst : s.st[i]? = some .running) :
    s.exc = none ∧ ∀ sl, s.helper ≠ .returned sl := by
  constructor
  · cases hexc : s.exc with
    | none => rfl
    | some e => exact absurd hst (allDone_get _ _ (hC.excOnline e hexc).2)
  · intro sl hh
    exact absurd hst (allDone_get _ _ (hC.ret sl hh).2.1)

theorem ctrl_complete {s : State} (hC : Ctrl s) {i : Nat} {o : Outcome} (hst : s.st[i]? = some .running)
    (hout : s.outs[i]? = some o) :
    (complete s i o).st.length = s.outs.length ∧
    (∀ (k : Nat) (q : Res), (complete s i o).st[k]? = some (TSt.done q) →
      q = .cancelled ∨ ∃ o', s.outs[k]? = some o' ∧ q = resOf o') ∧
    ((∀ (k : Nat) (q : Res), s.st[k]? = some (TSt.done q) → ∃ o', s.outs[k]? = some o' ∧ q = resOf o') →
      ∀ (k : Nat) (q : Res), (complete s i o).st[k]? = some (TSt.done q) → ∃ o', s.outs[k]? = some o' ∧ q = resOf o') := by
  refine ⟨by rw [complete_len]; exact hC.len, ?_, ?_⟩
  · intro k q h
    rcases (complete_done s i o k q).mp h with ⟨rfl, _, rfl⟩ | ⟨_, h2⟩
    · exact Or.inr ⟨o, hout, rfl⟩
    · exact hC.agree k q h2
  · intro hs k q h
    rcases (complete_done s i o k q).mp h with ⟨rfl, _, rfl⟩ | ⟨_, h2⟩
    · exact ⟨o, hout, rfl⟩
    · exact hs k q h2

theorem ctrl_step {s s' : State} {op : Op} (hC : Ctrl s) (h : StepCase s op s') : Ctrl s' := by
  cases h with
  | plain i o hst hout hside =>
    obtain ⟨hexc, hnr⟩ := ctrl_running hC hst
    obtain ⟨h1, h2, h3⟩ := ctrl_complete hC hst hout
    refine ⟨h1, h2, ?_, ?_, ?_, ?_, ?_, ?_, ?_, ?_⟩
    · intro he hr; exact h3 (hC.strict hexc hr)
    · intro sl hh; exact absurd hh (hnr sl)
    · intro hh; exact hC.exiting hh
    · intro e he; simp [hexc] at he
    · intro hfl e hh; have := hC.raisedExc hfl e hh; simp [hexc] at this
    · intro hfl e hh; exact absurd hst (allDone_get _ _ (hC.rcRaised hfl e hh))
    · intro hfl e hh; exact absurd hst (allDone_get _ _ (hC.rxRaised hfl e hh).1)
    · intro hh; exact absurd hst (allDone_get _ _ (hC.exitCancelledDone hh).2)
  | ret i o hst hout had hside =>
    obtain ⟨hexc, hnr⟩ := ctrl_running hC hst
    obtain ⟨h1, h2, h3⟩ := ctrl_complete hC hst hout
    have hst' := returnNow_st (complete s i o) had
    have hnotr : ∀ x, s.helper ≠ .raised x := by
      intro e hh
      rcases hside with ⟨_, ha, _⟩ | ⟨_, ha, _⟩ <;> simp [ha] at hh
    refine ⟨by rw [returnNow_len]; simpa using h1, ?_, ?_, ?_, ?_, ?_, ?_, ?_, ?_, ?_⟩
    · intro k q hk; simpa using h2 k q ((returnNow_done _ k q).mp hk)
    · intro he hr k q hk
      simpa using h3 (hC.strict hexc hnotr) k q ((returnNow_done _ k q).mp hk)
    · intro sl hh
      simp at hh; subst hh
      exact ⟨by rw [hst'], by rw [hst']; exact had, by simpa using hexc⟩
    · intro hh; simp at hh
    · intro e he; simp [hexc] at he
    · intro hfl e hh; simp at hh
    · intro hfl e hh; simp at hh
    · intro hfl e hh; simp at hh
    · intro hh; simp at hh
  | raiseF i o x hst hout hf hfl hh =>
    obtain ⟨hexc, hnr⟩ := ctrl_running hC hst
    obtain ⟨h1, h2, h3⟩ := ctrl_complete hC hst hout
    refine ⟨by rw [raiseNow_len]; simpa using h1, ?_, ?_, ?_, ?_, ?_, ?_, ?_, ?_, ?_⟩
    · intro k q hk; simpa using h2 k q ((raiseNow_done _ _ _ _ k q).mp hk)
    · intro _ hr; exact absurd (raiseNow_helper _ x _ false) (hr x)
    · intro sl hh'; simp at hh'
    · intro hh'; simp at hh'
    · intro e' he; simp [hexc] at he
    · intro hfl' e' _; simp [hfl] at hfl'
    · intro hfl' e' _; simp [hfl] at hfl'
    · intro hfl' e' _; simp [hfl] at hfl'
    · intro hh'; simp at hh'
  | raiseC i o x hst hout hf hfl hh =>
    obtain ⟨hexc, hnr⟩ := ctrl_running hC hst
    obtain ⟨h1, h2, h3⟩ := ctrl_complete hC hst hout
    refine ⟨by rw [raiseNow_len, cancelFirst_len]; simpa using h1, ?_, ?_, ?_, ?_, ?_, ?_, ?_, ?_, ?_⟩
    · intro k q hk
      rcases cancelFirst_done _ _ k q ((raiseNow_done _ _ _ _ k q).mp hk) with hq | hq
      · exact Or.inl hq
      · simpa using h2 k q hq
    · intro _ hr; exact absurd (raiseNow_helper _ x _ false) (hr x)
    · intro sl hh'; simp at hh'
    · intro hh'; simp at hh'
    · intro e' he; simp [hexc] at he
    · intro hfl' e' _; simp [hfl] at hfl'
    · intro _ e' _
      have had := cancelFirst_allDone (complete s i o) (complete s i o).st.length (Nat.le_refl _)
      rw [raiseNow_st _ _ _ _ had]; exact had
    · intro hfl' e' _; simp [hfl] at hfl'
    · intro hh'; simp at hh'
  | onlineFailExit i o x hst hout hf hfl hh =>
    obtain ⟨hexc, hnr⟩ := ctrl_running hC hst
    obtain ⟨h1, h2, h3⟩ := ctrl_complete hC hst hout
    have had : allDone (withExc (cancelFirst (complete s i o) (complete s i o).st.length) x).st = true :=
      cancelFirst_allDone (complete s i o) (complete s i o).st.length (Nat.le_refl _)
    refine ⟨by rw [raiseNow_len, withExc_st, cancelFirst_len]; simpa using h1, ?_, ?_, ?_, ?_, ?_, ?_, ?_, ?_, ?_⟩
    · intro k q hk
      have hk' := (raiseNow_done _ _ _ _ k q).mp hk
      rw [withExc_st] at hk'
      rcases cancelFirst_done (complete s i o) _ k q hk' with hq | hq
      · exact Or.inl hq
      · simpa using h2 k q hq
    · intro _ hr; exact absurd (raiseNow_helper _ x _ true) (hr x)
    · intro sl hh'; simp at hh'
    · intro hh'; simp at hh'
    · intro e' he
      refine ⟨by simpa using hfl, ?_⟩
      rw [raiseNow_st _ _ _ _ had]; exact had
    · intro _ e' hh'; simp at hh'; simp [hh']
    · intro hfl' e' _; simp [hfl] at hfl'
    · intro hfl' e' _; simp [hfl] at hfl'
    · intro hh'; simp at hh'
  | onlineFail i o x hst hout hf hfl hh =>
    obtain ⟨hexc, hnr⟩ := ctrl_running hC hst
    obtain ⟨h1, h2, h3⟩ := ctrl_complete hC hst hout
    have had : allDone (withExc (cancelFirst (complete s i o) (complete s i o).st.length) x).st = true :=
      cancelFirst_allDone (complete s i o) (complete s i o).st.length (Nat.le_refl _)
    refine ⟨by rw [withExc_st, cancelFirst_len]; simpa using h1, ?_, ?_, ?_, ?_, ?_, ?_, ?_, ?_, ?_⟩
    · intro k q hk
      rw [withExc_st] at hk
      rcases cancelFirst_done (complete s i o) _ k q hk with hq | hq
      · exact Or.inl hq
      · simpa using h2 k q hq
    · intro he; simp at he
    · intro sl hh'; exact absurd hh' (hnr sl)
    · intro hh'; exact absurd hh' hh
    · intro e' he; exact ⟨hfl, had⟩
    · intro _ e' hh'
      have := hC.raisedExc hfl e' hh'
      simp [hexc] at this
    · intro hfl' e' _; simp [hfl] at hfl'
    · intro hfl' e' _; simp [hfl] at hfl'
    · intro hh'; exact absurd hst (allDone_get _ _ (hC.exitCancelledDone hh').2)
  | bodyRaise op x hop hfl hh hexc =>
    have had : allDone (withExc (cancelFirst s s.st.length) x).st = true := cancelFirst_allDone s s.st.length (Nat.le_refl _)
    refine ⟨by rw [raiseNow_len, withExc_st, cancelFirst_len]; simpa using hC.len, ?_, ?_, ?_, ?_, ?_, ?_, ?_, ?_, ?_⟩
    · intro k q hk
      have hk' := (raiseNow_done _ _ _ _ k q).mp hk
      rw [withExc_st] at hk'
      rcases cancelFirst_done s _ k q hk' with hq | hq
      · exact Or.inl hq
      · simpa using hC.agree k q hq
    · intro he; simp at he
    · intro sl hh'; simp at hh'
    · intro hh'; simp at hh'
    · intro e' he
      refine ⟨by simpa using hfl, ?_⟩
      rw [raiseNow_st _ _ _ _ had]; exact had
    · intro _ e' hh'; simp at hh'; simp [hh']
    · intro hfl' e' _; simp [hfl] at hfl'
    · intro hfl' e' _; simp [hfl] at hfl'
    · intro hh'; simp at hh'
  | bodyLate op x0 hfl hh hexc =>
    have had := (hC.excOnline x0 hexc).2
    refine ⟨by rw [raiseNow_len]; simpa using hC.len, ?_, ?_, ?_, ?_, ?_, ?_, ?_, ?_, ?_⟩
    · intro k q hk; simpa using hC.agree k q ((raiseNow_done _ _ _ _ k q).mp hk)
    · intro he; simp [hexc] at he
    · intro sl hh'; simp at hh'
    · intro hh'; simp at hh'
    · intro e' he
      refine ⟨by simpa using hfl, ?_⟩
      rw [raiseNow_st _ _ _ _ had]; exact had
    · intro _ e' hh'; simp at hh'; simp [hh', hexc]
    · intro hfl' e' _; simp [hfl] at hfl'
    · intro hfl' e' _; simp [hfl] at hfl'
    · intro hh'; simp at hh'
  | bodyRet v hfl hh hexc had =>
    have hst' := returnNow_st (releaseOwn s) had
    have hnotr : ∀ x, s.helper ≠ .raised x := by intro e hh'; simp [hh] at hh'
    refine ⟨by rw [returnNow_len, releaseOwn_len]; simpa using hC.len, ?_, ?_, ?_, ?_, ?_, ?_, ?_, ?_, ?_⟩
    · intro k q hk; simpa using hC.agree k q ((releaseOwn_done s k q).mp ((returnNow_done _ k q).mp hk))
    · intro he hr k q hk
      simpa using hC.strict hexc hnotr k q ((releaseOwn_done s k q).mp ((returnNow_done _ k q).mp hk))
    · intro sl hh'
      simp at hh'; subst hh'
      exact ⟨by rw [hst'], by rw [hst']; exact had, by simpa using hexc⟩
    · intro hh'; simp at hh'
    · intro e' he; simp [hexc] at he
    · intro _ e' hh'; simp at hh'
    · intro hfl' e' _; simp [hfl] at hfl'
    · intro hfl' e' _; simp [hfl] at hfl'
    · intro hh'; simp at hh'
  | bodyWait v hfl hh hexc =>
    have hnotr : ∀ x, s.helper ≠ .raised x := by intro e hh'; simp [hh] at hh'
    refine ⟨by simpa [releaseOwn_len] using hC.len, ?_, ?_, ?_, ?_, ?_, ?_, ?_, ?_, ?_⟩
    · intro k q hk; simpa using hC.agree k q ((releaseOwn_done s k q).mp hk)
    · intro he hr k q hk
      simpa using hC.strict hexc hnotr k q ((releaseOwn_done s k q).mp hk)
    · intro sl hh'; simp at hh'
    · intro _; exact ⟨hfl, hexc⟩
    · intro e' he; simp [hexc] at he
    · intro _ e' hh'; simp at hh'
    · intro hfl' e' _; simp [hfl] at hfl'
    · intro hfl' e' _; simp [hfl] at hfl'
    · intro hh'; simp at hh'
  | abandonExit hfl hh =>
    have had := cancelFirst_allDone s s.st.length (Nat.le_refl _)
    have hst' := exitCancel_st s
    refine ⟨by rw [exitCancel_len]; simpa using hC.len, ?_, ?_, ?_, ?_, ?_, ?_, ?_, ?_, ?_⟩
    · intro k q hk
      rw [hst'] at hk
      rcases cancelFirst_done s _ k q hk with hq | hq
      · exact Or.inl hq
      · simpa using hC.agree k q hq
    · intro he; simp at he
    · intro sl hh'; simp at hh'
    · intro hh'; simp at hh'
    · intro e' _; exact ⟨by simpa using hfl, by rw [hst']; exact had⟩
    · intro _ e' hh'; simp at hh'
    · intro hfl' e' _; simp [hfl] at hfl'
    · intro hfl' e' _; simp [hfl] at hfl'
    · intro _; exact ⟨by simpa using hfl, by rw [hst']; exact had⟩
  | cancelGather hfl hh =>
    have had := cancelFirst_allDone s s.st.length (Nat.le_refl _)
    refine ⟨by rw [raiseNow_len, cancelFirst_len]; simpa using hC.len, ?_, ?_, ?_, ?_, ?_, ?_, ?_, ?_, ?_⟩
    · intro k q hk
      rcases cancelFirst_done s _ k q ((raiseNow_done _ _ _ _ k q).mp hk) with hq | hq
      · exact Or.inl hq
      · simpa using hC.agree k q hq
    · intro _ hr; exact absurd (raiseNow_helper _ .cancelled _ false) (hr .cancelled)
    · intro sl hh'; simp at hh'
    · intro hh'; simp at hh'
    · intro e' he
      have := (hC.excOnline e' (by simpa using he)).1
      exact absurd this hfl
    · intro hfl' e' _; exact absurd (by simpa using hfl') hfl
    · intro _ e' _; rw [raiseNow_st _ _ _ _ had]; exact had
    · intro _ e' he'
      refine ⟨by rw [raiseNow_st _ _ _ _ had]; exact had, ?_⟩
      simp at he'; exact he'.symm
    · intro hh'; simp at hh'

/-! ### the first exception -/

/-- the exception the helper has seen so far -/
def errSeen (s : State) : Option Exn :=
  match s.helper with
  | .raised x => some x
  | .exitCancelled => some .cancelled
  | _ => match s.flavour with
    | .online => s.exc
    | _ => none

theorem firstErr_snoc (fl : Flavour) (outs : List Outcome) (op : Op) : ∀ (ops : List Op),
    firstErr fl outs (ops ++ [op]) = match firstErr fl outs ops with
      | some e => some e
      | none => firstErr fl outs [op]
  | [] => by simp [firstErr]
  | x :: r => by
    have ih := firstErr_snoc fl outs op r
    cases x with
    | finish i =>
      simp only [List.cons_append, firstErr]
      split
      · rfl
      · exact ih
    | body o =>
      simp only [List.cons_append, firstErr]
      split
      · rfl
      · exact ih
    | cancelCaller => simp [firstErr]

@[simp] theorem cancelFirst_pending (s : State) (j : Nat) : (cancelFirst s j).pendingAtReturn = s.pendingAtReturn := rfl
@[simp] theorem releaseOwn_pending (s : State) : (releaseOwn s).pendingAtReturn = s.pendingAtReturn := rfl

theorem firstErr_finish (fl : Flavour) (outs : List Outcome) (i : Nat) (o : Outcome) (h : outs[i]? = some o) :
    firstErr fl outs [Op.finish i] = taskFailure fl o := by
  simp only [firstErr, h, Option.bind_some]
  cases taskFailure fl o <;> rfl

/-- bookkeeping: if the helper's view of "the exception so far" does not change and the new op brings no exception unless one
was already seen, the invariant is kept -/
theorem seen_keep {s s' : State} {op : Op} {ops : List Op} (hS : errSeen s = firstErr s.flavour s.outs ops)
    (h1 : errSeen s' = errSeen s) (h2 : errSeen s = none → firstErr s.flavour s.outs [op] = none) :
    errSeen s' = firstErr s.flavour s.outs (ops ++ [op]) := by
  rw [firstErr_snoc, ← hS, h1]
  cases h : errSeen s with
  | none => simp [h2 h]
  | some x => rfl

theorem seen_new {s s' : State} {op : Op} {ops : List Op} {x : Exn} (hS : errSeen s = firstErr s.flavour s.outs ops)
    (h0 : errSeen s = none) (h1 : errSeen s' = some x) (h2 : firstErr s.flavour s.outs [op] = some x) :
    errSeen s' = firstErr s.flavour s.outs (ops ++ [op]) := by
  rw [firstErr_snoc, ← hS, h0, h1, h2]

theorem seen_step {s s' : State} {op : Op} {ops : List Op} (hC : Ctrl s)
    (hS : errSeen s = firstErr s.flavour s.outs ops) (h : StepCase s op s') :
    errSeen s' = firstErr s.flavour s.outs (ops ++ [op]) := by
  cases h with
  | plain i o hst hout hside =>
    obtain ⟨hexc, hnr⟩ := ctrl_running hC hst
    refine seen_keep hS (by simp [errSeen, complete]) ?_
    intro hnone
    rw [firstErr_finish _ _ i o hout]
    rcases hside with hfl | ⟨hfl, hside⟩ | ⟨hfl, hf⟩
    · simp [taskFailure, hfl]
    · rcases hside with hna | hf
      · cases hh : s.helper with
        | active => exact absurd hh hna
        | exiting => have := (hC.exiting hh).1; rcases hfl with hfl | hfl <;> simp [hfl] at this
        | returned sl => exact absurd hh (hnr sl)
        | raised x => simp [errSeen, hh] at hnone
        | exitCancelled => simp [errSeen, hh] at hnone
      · rcases hfl with hfl | hfl <;> simp [taskFailure, hfl, hf]
    · simp [taskFailure, hfl, hf]
  | ret i o hst hout had hside =>
    obtain ⟨hexc, hnr⟩ := ctrl_running hC hst
    have h0 : errSeen s = none := by
      rcases hside with ⟨hno, ha, _⟩ | ⟨hfl, ha, _⟩
      · cases hfl : s.flavour <;> simp [errSeen, ha, hfl] at hno ⊢
      · simp [errSeen, ha, hfl, hexc]
    refine seen_keep hS ?_ ?_
    · rw [h0]
      cases hfl : s.flavour <;> simp [errSeen, hfl, hexc]
    · intro _
      rw [firstErr_finish _ _ i o hout]
      rcases hside with ⟨hno, ha, hrx | hf⟩ | ⟨hfl, ha, hf⟩
      · simp [taskFailure, hrx]
      · cases hfl : s.flavour <;> simp [taskFailure, hfl, hf] at hno ⊢
      · simp [taskFailure, hfl, hf]
  | raiseF i o x hst hout hf hfl hh =>
    exact seen_new (x := x) hS (by simp [errSeen, hh, hfl]) (by simp [errSeen])
      (by rw [firstErr_finish _ _ i o hout]; simp [taskFailure, hfl, hf])
  | raiseC i o x hst hout hf hfl hh =>
    exact seen_new (x := x) hS (by simp [errSeen, hh, hfl]) (by simp [errSeen])
      (by rw [firstErr_finish _ _ i o hout]; simp [taskFailure, hfl, hf])
  | onlineFailExit i o x hst hout hf hfl hh =>
    obtain ⟨hexc, hnr⟩ := ctrl_running hC hst
    exact seen_new (x := x) hS (by simp [errSeen, hh, hfl, hexc]) (by simp [errSeen])
      (by rw [firstErr_finish _ _ i o hout]; simp [taskFailure, hfl, hf])
  | onlineFail i o x hst hout hf hfl hh =>
    obtain ⟨hexc, hnr⟩ := ctrl_running hC hst
    cases hh' : s.helper with
    | active =>
      exact seen_new (x := x) hS (by simp [errSeen, hh', hfl, hexc]) (by simp [errSeen, hh', hfl])
        (by rw [firstErr_finish _ _ i o hout]; simp [taskFailure, hfl, hf])
    | exiting => exact absurd hh' hh
    | returned sl => exact absurd hh' (hnr sl)
    | raised x' => have := hC.raisedExc hfl x' hh'; simp [hexc] at this
    | exitCancelled =>
      exact seen_keep hS (by simp [errSeen, hh']) (by intro hn; simp [errSeen, hh'] at hn)
  | bodyRaise op x hop hfl hh hexc =>
    refine seen_new (x := x) hS (by simp [errSeen, hh, hfl, hexc]) (by simp [errSeen]) ?_
    rcases hop with ⟨e, rfl, rfl⟩ | ⟨rfl, rfl⟩ <;> simp [firstErr, poolFailureOf]
  | bodyLate op x0 hfl hh hexc =>
    exact seen_keep hS (by simp [errSeen, hh, hfl, hexc]) (by intro hn; simp [errSeen, hh, hfl, hexc] at hn)
  | bodyRet v hfl hh hexc had =>
    exact seen_keep hS (by simp [errSeen, hh, hfl, hexc]) (by intro _; simp [firstErr, poolFailureOf])
  | bodyWait v hfl hh hexc =>
    exact seen_keep hS (by simp [errSeen, hh, hfl, hexc]) (by intro _; simp [firstErr, poolFailureOf])
  | abandonExit hfl hh =>
    exact seen_new (x := .cancelled) hS (by simp [errSeen, hh, hfl, (hC.exiting hh).2]) (by simp [errSeen]) (by simp [firstErr])
  | cancelGather hfl hh =>
    exact seen_new (x := .cancelled) hS (by cases hf : s.flavour <;> simp [errSeen, hh, hf] at hfl ⊢) (by simp [errSeen]) (by simp [firstErr])

/-! ### tasks unfinished at the instant the helper finishes -/

/-- only `bounded_gather2_raise_exceptions(cancel_on_error=False)` — by its documentation ("the remaining partial functions
continue to run") — leaves tasks unfinished when it finishes -/
def Pend (s : State) : Prop :=
  s.pendingAtReturn ≠ 0 → (∃ x, s.helper = .raised x) ∧ s.flavour = .raiseFirst

theorem pend_step {s s' : State} {op : Op} (hP : Pend s) (h : StepCase s op s') : Pend s' := by
  cases h with
  | plain i o hst hout hside => exact hP
  | ret i o hst hout had hside => intro hne; simp at hne
  | raiseF i o x hst hout hf hfl hh => intro _; exact ⟨⟨x, by simp⟩, by simpa using hfl⟩
  | raiseC i o x hst hout hf hfl hh => intro hne; simp at hne
  | onlineFailExit i o x hst hout hf hfl hh => intro hne; simp at hne
  | onlineFail i o x hst hout hf hfl hh => exact hP
  | bodyRaise op x hop hfl hh hexc => intro hne; simp at hne
  | bodyLate op x0 hfl hh hexc => intro hne; simp at hne
  | bodyRet v hfl hh hexc had => intro hne; simp at hne
  | bodyWait v hfl hh hexc =>
    intro hne
    have : s.pendingAtReturn ≠ 0 := hne
    obtain ⟨⟨e, he⟩, _⟩ := hP this
    simp [hh] at he
  | abandonExit hfl hh => intro hne; simp at hne
  | cancelGather hfl hh => intro hne; simp at hne

/-! ### reachable states -/

/-- states reachable from the call of the helper, with the schedule that led to them -/
inductive Reach (fl : Flavour) (en : Entry) (n : Nat) (outs : List Outcome) : State → List Op → Prop
  | init : Reach fl en n outs (start fl en n outs) []
  | step {s ops op s'} : Reach fl en n outs s ops → step s op = some s' → Reach fl en n outs s' (ops ++ [op])

theorem nRunning_queued : ∀ (l : List Outcome), nRunning (l.map fun _ => TSt.queued) = 0
  | [] => rfl
  | _ :: r => by simp [nRunning, nRunning_queued r]

theorem budget_init {n : Nat} (hn : 1 ≤ n) (fl : Flavour) (en : Entry) (outs : List Outcome) :
    total (start fl en n outs) = budget n (start fl en n outs) := by
  have hq := nRunning_queued outs
  have h1 := grant_conserve (outs.map fun _ => TSt.queued) (valueAtCall n en)
  have h2 := grant_conserve (outs.map fun _ => TSt.queued) (valueAtCall n en + 1)
  cases fl <;> cases en <;> simp only [start, total, valueAtCall] at * <;>
    first
    | (simp only [budget]; omega)
    | (split
       · simp [leave, grant, budget, nRunning]; try omega
       · simp only [budget]; omega)

theorem reach_budget {fl : Flavour} {en : Entry} {n : Nat} {outs : List Outcome} {s : State} {ops : List Op} (hn : 1 ≤ n)
    (h : Reach fl en n outs s ops) : total s = budget n s := by
  induction h with
  | init => exact budget_init hn fl en outs
  | step _ hs ih => exact budget_step hn ih (step_cases hs)

theorem queued_not_done (outs : List Outcome) (k : Nat) (q : Res) :
    (outs.map fun _ => TSt.queued)[k]? ≠ some (TSt.done q) := by
  simp only [List.getElem?_map]
  cases outs[k]? <;> simp

theorem start_consts (fl : Flavour) (en : Entry) (n : Nat) (outs : List Outcome) :
    (start fl en n outs).flavour = fl ∧ (start fl en n outs).entry = en ∧ (start fl en n outs).outs = outs := by
  cases fl <;> simp only [start] <;> (try split) <;> simp

theorem ctrl_init (fl : Flavour) (en : Entry) (n : Nat) (outs : List Outcome) : Ctrl (start fl en n outs) := by
  have hnd : ∀ (f k : Nat) (q : Res), (grant f (outs.map fun _ => TSt.queued)).2[k]? ≠ some (TSt.done q) := by
    intro f k q h; exact queued_not_done outs k q ((grant_done _ _ _ _).mp h)
  have hlen : ∀ f : Nat, (grant f (outs.map fun _ => TSt.queued)).2.length = outs.length := by
    intro f; simp [grant_length]
  have active : ∀ f : Nat, Ctrl ⟨fl, en, outs, (grant f (outs.map fun _ => TSt.queued)).2,
      (grant f (outs.map fun _ => TSt.queued)).1, .active, none, 0⟩ := by
    intro f
    refine ⟨hlen f, ?_, ?_, ?_, ?_, ?_, ?_, ?_, ?_, ?_⟩
    · intro k q h; exact absurd h (hnd f k q)
    · intro _ _ k q h; exact absurd h (hnd f k q)
    · intro sl h; simp at h
    · intro h; simp at h
    · intro e h; simp at h
    · intro _ e h; simp at h
    · intro _ e h; simp at h
    · intro _ e h; simp at h
    · intro h; simp at h
  cases fl
  case online => exact active _
  all_goals
    simp only [start]
    split
    · next hemp =>
      have : outs = [] := by simpa using hemp
      subst this
      refine ⟨by simp [leave_len], ?_, ?_, ?_, ?_, ?_, ?_, ?_, ?_, ?_⟩
      · intro k q h; rw [leave_done] at h; simp at h
      · intro _ _ k q h; rw [leave_done] at h; simp at h
      · intro sl h
        simp only [leave_helper, HSt.returned.injEq] at h; subst h
        have hl : ∀ x : State, x.st = [] → (leave x).st = [] := by
          intro x hx; rw [leave_st_allDone x (by simp [hx, allDone])]; exact hx
        refine ⟨?_, ?_, by simp⟩
        · rw [hl _ rfl]; rfl
        · rw [hl _ rfl]; rfl
      · intro h; simp at h
      · intro e h; simp at h
      · intro h; simp at h
      · intro _ e h; simp at h
      · intro _ e h; simp at h
      · intro h; simp at h
    · exact active _

theorem stepcase_consts {s s' : State} {op : Op} (h : StepCase s op s') :
    s'.flavour = s.flavour ∧ s'.entry = s.entry ∧ s'.outs = s.outs := by
  cases h <;> simp

theorem errSeen_init (fl : Flavour) (en : Entry) (n : Nat) (outs : List Outcome) : errSeen (start fl en n outs) = none := by
  cases fl <;> simp only [start] <;> (try split) <;> simp [errSeen]

theorem pending_init (fl : Flavour) (en : Entry) (n : Nat) (outs : List Outcome) :
    (start fl en n outs).pendingAtReturn = 0 := by
  cases fl <;> simp only [start] <;> (try split) <;> simp

/-- everything proved about reachable states -/
theorem reach_all {fl : Flavour} {en : Entry} {n : Nat} {outs : List Outcome} {s : State} {ops : List Op}
    (h : Reach fl en n outs s ops) :
    (s.flavour = fl ∧ s.entry = en ∧ s.outs = outs) ∧ Ctrl s ∧ errSeen s = firstErr fl outs ops ∧ Pend s := by
  induction h with
  | init =>
    refine ⟨start_consts fl en n outs, ctrl_init fl en n outs, ?_, ?_⟩
    · rw [errSeen_init]; rfl
    · intro hne; exact absurd (pending_init fl en n outs) hne
  | @step s0 ops0 op0 s1 hr hs ih =>
    obtain ⟨⟨h1, h2, h3⟩, hC, hS, hP⟩ := ih
    have hc := step_cases hs
    obtain ⟨k1, k2, k3⟩ := stepcase_consts hc
    refine ⟨⟨k1.trans h1, k2.trans h2, k3.trans h3⟩, ctrl_step hC hc, ?_, pend_step hP hc⟩
    have := seen_step (ops := ops0) hC (by rw [h1, h3]; exact hS) hc
    rw [h1, h3] at this
    exact this

/-- `runFrom` from a reachable state stays reachable -/
theorem runFrom_reach {fl : Flavour} {en : Entry} {n : Nat} {outs : List Outcome} : ∀ (ops : List Op) {s s' : State}
    {pre : List Op}, Reach fl en n outs s pre → runFrom s ops = some s' → Reach fl en n outs s' (pre ++ ops)
  | [], s, s', pre, hr, h => by simp [runFrom] at h; subst h; simpa using hr
  | op :: ops, s, s', pre, hr, h => by
    simp only [runFrom] at h
    split at h
    · simp at h
    · next s1 h1 =>
      have := runFrom_reach ops (Reach.step hr h1) h
      simpa [List.append_assoc] using this

/-- in `return_exceptions` and in the online pool the only way to see `CancelledError` is the cancellation of the caller -/
theorem firstErr_cancelled_caller (fl : Flavour) (hfl : fl = .returnExceptions ∨ fl = .online) (outs : List Outcome) :
    ∀ (ops : List Op), firstErr fl outs ops = some .cancelled → Op.cancelCaller ∈ ops
  | [] => by simp [firstErr]
  | .finish i :: r => by
    intro h
    simp only [firstErr] at h
    split at h
    · next x hx =>
      exfalso
      cases ho : outs[i]? with
      | none => simp [ho] at hx
      | some o =>
        simp only [ho, Option.bind_some] at hx
        simp at h; subst h
        rcases hfl with rfl | rfl
        · simp [taskFailure] at hx
        · cases o <;> simp [taskFailure, poolFailureOf] at hx
    · simp [firstErr_cancelled_caller fl hfl outs r h]
  | .body o :: r => by
    intro h
    simp only [firstErr] at h
    split at h
    · next x hx =>
      simp at h; subst h
      cases o <;> simp [poolFailureOf] at hx
    · simp [firstErr_cancelled_caller fl hfl outs r h]
  | .cancelCaller :: r => by simp

end HailVerif.Gather

import HailVerif.Model.Gather
/-! Helper lemmas for C20: permit accounting and the other invariants of `Gather.step`. -/
namespace HailVerif.Gather

/-! ### lists of task states -/

theorem admit_conserve : ∀ (l : List TSt) (f : Nat), (admit f l).1 + nRunning (admit f l).2 = f + nRunning l := by
  intro l
  induction l with
  | nil => intro f; cases f <;> simp [admit, nRunning]
  | cons x r ih =>
    intro f
    cases f with
    | zero => simp [admit]
    | succ f =>
      cases x with
      | queued => have := ih f; simp [admit, nRunning]; omega
      | running => have := ih (f + 1); simp [admit, nRunning]; omega
      | done q => have := ih (f + 1); simp [admit, nRunning]; omega

theorem set_running : ∀ (l : List TSt) (i : Nat) (q : Res), l[i]? = some .running →
    nRunning (l.set i (.done q)) + 1 = nRunning l := by
  intro l
  induction l with
  | nil => intro i q h; simp at h
  | cons x r ih =>
    intro i q h
    cases i with
    | zero => simp at h; subst h; simp [nRunning]
    | succ i =>
      simp at h
      have := ih i q h
      cases x <;> simp [nRunning] <;> omega

theorem cancelBelow_conserve : ∀ (l : List TSt) (j : Nat),
    nRunning (cancelBelow j l).2 + (cancelBelow j l).1 = nRunning l := by
  intro l
  induction l with
  | nil => intro j; cases j <;> simp [cancelBelow, nRunning]
  | cons x r ih =>
    intro j
    cases j with
    | zero => simp [cancelBelow]
    | succ j =>
      have := ih j
      cases x <;> simp [cancelBelow, nRunning] <;> omega

theorem allDone_nRunning : ∀ (l : List TSt), allDone l = true → nRunning l = 0 := by
  intro l
  induction l with
  | nil => simp [nRunning]
  | cons x r ih =>
    intro h
    simp [allDone] at h ih
    cases x <;> simp [isDone] at h
    simp [nRunning]; exact ih h

/-! ### permit accounting -/

/-- permits in the hands of the tasks or free -/
def total (s : State) : Nat := nRunning s.st + s.free

/-- what the caller's `async with sema:` block gives back when it ends -/
def bonus : Entry → Nat
  | .holdingPermit => 1
  | .boundedGather => 0

/-- what `total` must be, for a semaphore created with `n` permits -/
def budget (n : Nat) (s : State) : Nat :=
  match s.entry, s.flavour, s.helper with
  | .holdingPermit, .online, .active => n - 1      -- the body keeps the caller's permit
  | .holdingPermit, .online, _ => n
  | .holdingPermit, _, .raised _ => n + 1          -- released twice, acquired once
  | .holdingPermit, _, _ => n
  | .boundedGather, .online, .active => n
  | .boundedGather, .online, .exiting => n + 1
  | .boundedGather, .online, _ => n
  | .boundedGather, _, .returned _ => n
  | .boundedGather, _, _ => n + 1                  -- a permit nobody held was released

@[simp] theorem leave_entry (s : State) : (leave s).entry = s.entry := by unfold leave; split <;> rfl
@[simp] theorem leave_flavour (s : State) : (leave s).flavour = s.flavour := by unfold leave; split <;> rfl
@[simp] theorem leave_helper (s : State) : (leave s).helper = s.helper := by unfold leave; split <;> rfl
@[simp] theorem leave_outs (s : State) : (leave s).outs = s.outs := by unfold leave; split <;> rfl
@[simp] theorem leave_exc (s : State) : (leave s).exc = s.exc := by unfold leave; split <;> rfl
@[simp] theorem leave_pending (s : State) : (leave s).pendingAtReturn = s.pendingAtReturn := by unfold leave; split <;> rfl

theorem total_leave (s : State) : total (leave s) = total s + bonus s.entry := by
  unfold leave total
  cases h : s.entry
  · have := admit_conserve s.st (s.free + 1); simp only [bonus]; omega
  · simp [bonus]

theorem total_complete (s : State) (i : Nat) (o : Outcome) (h : s.st[i]? = some .running) :
    total (complete s i o) = total s := by
  have h1 := set_running s.st i (resOf o) h
  have h2 := admit_conserve (s.st.set i (.done (resOf o))) (s.free + 1)
  simp only [total, complete]; omega

theorem total_cancelFirst (s : State) (j : Nat) : total (cancelFirst s j) = total s := by
  have h1 := cancelBelow_conserve s.st j
  have h2 := admit_conserve (cancelBelow j s.st).2 (s.free + (cancelBelow j s.st).1)
  simp only [total, cancelFirst]; omega

theorem total_releaseOwn (s : State) : total (releaseOwn s) = total s + 1 := by
  have h2 := admit_conserve s.st (s.free + 1)
  simp only [total, releaseOwn]; omega

theorem total_returnNow (s : State) (h : 1 ≤ s.free) : total (returnNow s) + 1 = total s + bonus s.entry := by
  unfold returnNow
  rw [total_leave]
  simp only [total]; omega

theorem total_raiseNow (s : State) (e p : Nat) (b : Bool) (h : 1 ≤ s.free) :
    total (raiseNow s e p b) + (if b then 1 else 0) = total s + bonus s.entry := by
  unfold raiseNow
  rw [total_leave]
  cases b <;> simp only [total] <;> simp <;> omega

theorem total_raiseNow_false (s : State) (e p : Nat) : total (raiseNow s e p false) = total s + bonus s.entry := by
  unfold raiseNow
  rw [total_leave]
  simp [total]

@[simp] theorem complete_entry (s : State) (i : Nat) (o : Outcome) : (complete s i o).entry = s.entry := rfl
@[simp] theorem complete_flavour (s : State) (i : Nat) (o : Outcome) : (complete s i o).flavour = s.flavour := rfl
@[simp] theorem complete_helper (s : State) (i : Nat) (o : Outcome) : (complete s i o).helper = s.helper := rfl
@[simp] theorem complete_exc (s : State) (i : Nat) (o : Outcome) : (complete s i o).exc = s.exc := rfl
@[simp] theorem complete_outs (s : State) (i : Nat) (o : Outcome) : (complete s i o).outs = s.outs := rfl
@[simp] theorem complete_pending (s : State) (i : Nat) (o : Outcome) :
    (complete s i o).pendingAtReturn = s.pendingAtReturn := rfl
@[simp] theorem cancelFirst_entry (s : State) (j : Nat) : (cancelFirst s j).entry = s.entry := rfl
@[simp] theorem cancelFirst_flavour (s : State) (j : Nat) : (cancelFirst s j).flavour = s.flavour := rfl
@[simp] theorem cancelFirst_helper (s : State) (j : Nat) : (cancelFirst s j).helper = s.helper := rfl
@[simp] theorem cancelFirst_exc (s : State) (j : Nat) : (cancelFirst s j).exc = s.exc := rfl
@[simp] theorem cancelFirst_outs (s : State) (j : Nat) : (cancelFirst s j).outs = s.outs := rfl
@[simp] theorem releaseOwn_entry (s : State) : (releaseOwn s).entry = s.entry := rfl
@[simp] theorem releaseOwn_flavour (s : State) : (releaseOwn s).flavour = s.flavour := rfl
@[simp] theorem releaseOwn_helper (s : State) : (releaseOwn s).helper = s.helper := rfl
@[simp] theorem releaseOwn_exc (s : State) : (releaseOwn s).exc = s.exc := rfl
@[simp] theorem releaseOwn_outs (s : State) : (releaseOwn s).outs = s.outs := rfl
@[simp] theorem returnNow_entry (s : State) : (returnNow s).entry = s.entry := by simp [returnNow]
@[simp] theorem returnNow_flavour (s : State) : (returnNow s).flavour = s.flavour := by simp [returnNow]
@[simp] theorem returnNow_helper (s : State) : (returnNow s).helper = .returned (s.st.map slotOf) := by simp [returnNow]
@[simp] theorem returnNow_exc (s : State) : (returnNow s).exc = s.exc := by simp [returnNow]
@[simp] theorem returnNow_outs (s : State) : (returnNow s).outs = s.outs := by simp [returnNow]
@[simp] theorem returnNow_pending (s : State) : (returnNow s).pendingAtReturn = 0 := by simp [returnNow]
@[simp] theorem raiseNow_entry (s : State) (e p : Nat) (b : Bool) : (raiseNow s e p b).entry = s.entry := by simp [raiseNow]
@[simp] theorem raiseNow_flavour (s : State) (e p : Nat) (b : Bool) : (raiseNow s e p b).flavour = s.flavour := by
  simp [raiseNow]
@[simp] theorem raiseNow_helper (s : State) (e p : Nat) (b : Bool) : (raiseNow s e p b).helper = .raised e := by
  simp [raiseNow]
@[simp] theorem raiseNow_exc (s : State) (e p : Nat) (b : Bool) : (raiseNow s e p b).exc = s.exc := by simp [raiseNow]
@[simp] theorem raiseNow_outs (s : State) (e p : Nat) (b : Bool) : (raiseNow s e p b).outs = s.outs := by simp [raiseNow]
@[simp] theorem raiseNow_pending (s : State) (e p : Nat) (b : Bool) : (raiseNow s e p b).pendingAtReturn = p := by
  simp [raiseNow]

/-- when every task is finished all permits are free -/
theorem free_of_allDone (s : State) (h : allDone s.st = true) : s.free = total s := by
  have := allDone_nRunning s.st h; simp [total]; omega

theorem cancelBelow_allDone : ∀ (l : List TSt) (j : Nat), l.length ≤ j → allDone (cancelBelow j l).2 = true := by
  intro l
  induction l with
  | nil => intro j _; cases j <;> simp [cancelBelow, allDone]
  | cons x r ih =>
    intro j hj
    cases j with
    | zero => simp at hj
    | succ j =>
      have := ih j (by simp at hj; omega)
      cases x <;> simp_all [cancelBelow, allDone, isDone]

theorem admit_allDone : ∀ (l : List TSt) (f : Nat), allDone l = true → (admit f l).2 = l := by
  intro l
  induction l with
  | nil => intro f _; cases f <;> simp [admit]
  | cons x r ih =>
    intro f h
    simp [allDone] at h ih
    cases f with
    | zero => simp [admit]
    | succ f =>
      cases x <;> simp [isDone] at h
      simp [admit]; exact ih (f + 1) h

theorem cancelFirst_allDone (s : State) (j : Nat) (h : s.st.length ≤ j) : allDone (cancelFirst s j).st = true := by
  have h1 := cancelBelow_allDone s.st j h
  simp only [cancelFirst]
  rw [admit_allDone _ _ h1]; exact h1

theorem budget_step {n : Nat} (hn : 1 ≤ n) {s s' : State} {op : Op} (hb : total s = budget n s)
    (h : step s op = some s') : total s' = budget n s' := by
  cases op with
  | finish i =>
    simp only [step] at h
    split at h
    · next o hst hout =>
      have hc := total_complete s i o hst
      have hfree := free_of_allDone (complete s i o)
      split at h
      · -- return_exceptions
        next hfl =>
        split at h
        · next had =>
          simp at h; subst h
          have := total_returnNow (complete s i o) (by
            have := hfree had.2
            cases hen : s.entry <;> simp [budget, hen, hfl, had.1] at hb <;> omega)
          cases hen : s.entry <;> simp [budget, hen, hfl, had.1, bonus] at hb this ⊢ <;> omega
        · simp at h; subst h
          cases hen : s.entry <;> cases hh : s.helper <;> simp [budget, hen, hfl, hh] at hb ⊢ <;> omega
      · -- raise, no cancel
        next hfl =>
        split at h
        · next e hh =>
          simp at h; subst h
          have := total_raiseNow_false (complete s i (.raise e)) e (nNotDone (complete s i (.raise e)).st)
          cases hen : s.entry <;> simp [budget, hen, hfl, hh, bonus] at hb this ⊢ <;> omega
        · next v hh =>
          split at h
          · next had =>
            simp at h; subst h
            have := total_returnNow (complete s i (.ret v)) (by
              have := hfree had
              cases hen : s.entry <;> simp [budget, hen, hfl, hh] at hb <;> omega)
            cases hen : s.entry <;> simp [budget, hen, hfl, hh, bonus] at hb this ⊢ <;> omega
          · simp at h; subst h
            cases hen : s.entry <;> simp [budget, hen, hfl, hh] at hb ⊢ <;> omega
        · simp at h; subst h
          cases hen : s.entry <;> cases hh : s.helper <;> simp [budget, hen, hfl, hh] at hb ⊢ <;> omega
      · -- raise, cancel_on_error
        next hfl =>
        split at h
        · next e hh =>
          simp at h; subst h
          have h1 := total_cancelFirst (complete s i (.raise e)) i
          have := total_raiseNow_false (cancelFirst (complete s i (.raise e)) i) e (nNotDone (complete s i (.raise e)).st)
          cases hen : s.entry <;> simp [budget, hen, hfl, hh, bonus] at hb this ⊢ <;> omega
        · next v hh =>
          split at h
          · next had =>
            simp at h; subst h
            have := total_returnNow (complete s i (.ret v)) (by
              have := hfree had
              cases hen : s.entry <;> simp [budget, hen, hfl, hh] at hb <;> omega)
            cases hen : s.entry <;> simp [budget, hen, hfl, hh, bonus] at hb this ⊢ <;> omega
          · simp at h; subst h
            cases hen : s.entry <;> simp [budget, hen, hfl, hh] at hb ⊢ <;> omega
        · simp at h; subst h
          cases hen : s.entry <;> cases hh : s.helper <;> simp [budget, hen, hfl, hh] at hb ⊢ <;> omega
      · -- online
        next hfl =>
        split at h
        · next v =>
          split at h
          · next had =>
            simp at h; subst h
            have := total_returnNow (complete s i (.ret v)) (by
              have := hfree had.2
              cases hen : s.entry <;> simp [budget, hen, hfl, had.1] at hb <;> omega)
            cases hen : s.entry <;> simp [budget, hen, hfl, had.1, bonus] at hb this ⊢ <;> omega
          · simp at h; subst h
            cases hen : s.entry <;> cases hh : s.helper <;> simp [budget, hen, hfl, hh] at hb ⊢ <;> omega
        · next e =>
          have h1 := total_cancelFirst (complete s i (.raise e)) (complete s i (.raise e)).st.length
          have h2 := cancelFirst_allDone (complete s i (.raise e)) (complete s i (.raise e)).st.length (Nat.le_refl _)
          split at h
          · next hh =>
            simp at h; subst h
            have h3 := free_of_allDone { cancelFirst (complete s i (.raise e)) (complete s i (.raise e)).st.length with exc := some e } h2
            have := total_raiseNow { cancelFirst (complete s i (.raise e)) (complete s i (.raise e)).st.length with exc := some e } e 0 true (by
              simp only [total] at h3 h1 hc hb ⊢
              cases hen : s.entry <;> simp [budget, hen, hfl, hh] at hb <;> omega)
            simp only [total] at this h1 hc hb ⊢
            cases hen : s.entry <;> simp [budget, hen, hfl, hh, bonus] at hb this ⊢ <;> omega
          · simp at h; subst h
            simp only [total] at h1 hc hb ⊢
            cases hen : s.entry <;> cases hh : s.helper <;> simp_all [budget] <;> omega
    · simp at h
  | body o =>
    simp only [step] at h
    split at h
    · next hfl hh =>
      split at h
      · next e hexc =>
        simp at h; subst h
        have h1 := total_cancelFirst s s.st.length
        have := total_raiseNow_false { cancelFirst s s.st.length with exc := some e } e (nNotDone s.st)
        simp only [total] at this h1 hb ⊢
        cases hen : s.entry <;> simp [budget, hen, hfl, hh, bonus] at hb this ⊢ <;> omega
      · next e0 hexc =>
        simp at h; subst h
        have := total_raiseNow_false s e0 0
        cases hen : s.entry <;> simp [budget, hen, hfl, hh, bonus] at hb this ⊢ <;> omega
      · next v hexc =>
        have h1 := total_releaseOwn s
        split at h
        · next had =>
          simp at h; subst h
          have h3 := free_of_allDone (releaseOwn s) had
          have := total_returnNow (releaseOwn s) (by omega)
          cases hen : s.entry <;> simp [budget, hen, hfl, hh, bonus] at hb this ⊢ <;> omega
        · simp at h; subst h
          simp only [total] at h1 hb ⊢
          cases hen : s.entry <;> simp [budget, hen, hfl, hh] at hb ⊢ <;> omega
    · simp at h

/-! ### reachable states -/

/-- states reachable from the call of the helper, with the schedule that led to them -/
inductive Reach (fl : Flavour) (en : Entry) (n : Nat) (outs : List Outcome) : State → List Op → Prop
  | init : Reach fl en n outs (start fl en n outs) []
  | step {s ops op s'} : Reach fl en n outs s ops → step s op = some s' → Reach fl en n outs s' (ops ++ [op])

theorem nRunning_queued : ∀ (l : List Outcome), nRunning (l.map fun _ => TSt.queued) = 0
  | [] => rfl
  | _ :: r => by simp [nRunning, nRunning_queued r]

theorem budget_init {n : Nat} (hn : 1 ≤ n) (fl : Flavour) (en : Entry) (outs : List Outcome) :
    total (start fl en n outs) = budget n (start fl en n outs) := by
  have hq := nRunning_queued outs
  have h1 := admit_conserve (outs.map fun _ => TSt.queued) (valueAtCall n en)
  have h2 := admit_conserve (outs.map fun _ => TSt.queued) (valueAtCall n en + 1)
  cases fl <;> cases en <;> simp only [start, total, valueAtCall] at * <;>
    first
    | (simp only [budget]; omega)
    | (split
       · simp [leave, admit, budget, nRunning]; try omega
       · simp only [budget]; omega)

theorem reach_budget {fl : Flavour} {en : Entry} {n : Nat} {outs : List Outcome} {s : State} {ops : List Op} (hn : 1 ≤ n)
    (h : Reach fl en n outs s ops) : total s = budget n s := by
  induction h with
  | init => exact budget_init hn fl en outs
  | step _ hs ih => exact budget_step hn ih hs

end HailVerif.Gather

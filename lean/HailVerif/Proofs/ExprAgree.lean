import HailVerif.Model.ExprIR
/-!
# Agreement lemmas for the full expression IR, aggregation nodes included (C35)

* `eval_agree` (coincidence): the value only depends on the bindings of the free variables `fv` in the value scope and of the
  free aggregation variables `fva` in every element environment of the aggregation scope;
* `eval_A_irrel`: a term without ambient aggregation nodes (`usesAgg = false`) does not depend on the aggregation scope.
-/
namespace HailVerif.ExprIR

theorem lookup_cons' (y : Name) (w : Val) (ρ : Env) (z : Name) :
    lookup ((y, w) :: ρ) z = if y = z then w else lookup ρ z := rfl

/-- two environments give the variables of `L` the same values -/
def Agree (L : List Name) (ρ ρ' : Env) : Prop := ∀ z ∈ L, lookup ρ z = lookup ρ' z

theorem Agree.mono {L L' : List Name} {ρ ρ' : Env} (h : Agree L ρ ρ') (hs : ∀ z ∈ L', z ∈ L) : Agree L' ρ ρ' :=
  fun z hz => h z (hs z hz)

theorem Agree.cons {L : List Name} {ρ ρ' : Env} (h : Agree L ρ ρ') (y : Name) (w : Val) : Agree L ((y, w) :: ρ) ((y, w) :: ρ') := by
  intro z hz
  simp only [lookup_cons']
  split
  · rfl
  · exact h z hz

/-- pointwise relation between two aggregation scopes -/
inductive Rel2 (R : Env → Env → Prop) : List Env → List Env → Prop
  | nil : Rel2 R [] []
  | cons {a b : Env} {as bs : List Env} : R a b → Rel2 R as bs → Rel2 R (a :: as) (b :: bs)

theorem Rel2.mono {R S : Env → Env → Prop} (h : ∀ a b, R a b → S a b) {A B : List Env} (r : Rel2 R A B) : Rel2 S A B := by
  induction r with
  | nil => exact .nil
  | cons hab _ ih => exact .cons (h _ _ hab) ih

theorem Rel2.map {R S : Env → Env → Prop} (f g : Env → Env) (h : ∀ a b, R a b → S (f a) (g b)) {A B : List Env}
    (r : Rel2 R A B) : Rel2 S (A.map f) (B.map g) := by
  induction r with
  | nil => exact .nil
  | cons hab _ ih => exact .cons (h _ _ hab) ih

theorem Rel2.filter {R : Env → Env → Prop} (p q : Env → Bool) (h : ∀ a b, R a b → p a = q b) {A B : List Env}
    (r : Rel2 R A B) : Rel2 R (A.filter p) (B.filter q) := by
  induction r with
  | nil => exact .nil
  | @cons a b as bs hab _ ih =>
    simp only [List.filter_cons]
    rw [h a b hab]
    split
    · exact .cons hab ih
    · exact ih

theorem Rel2.append {R : Env → Env → Prop} {A B C D : List Env} (h1 : Rel2 R A B) (h2 : Rel2 R C D) :
    Rel2 R (A ++ C) (B ++ D) := by
  induction h1 with
  | nil => exact h2
  | cons hab _ ih => exact .cons hab ih

theorem Rel2.flatMap {R S : Env → Env → Prop} (f g : Env → List Env) (h : ∀ a b, R a b → Rel2 S (f a) (g b)) {A B : List Env}
    (r : Rel2 R A B) : Rel2 S (A.flatMap f) (B.flatMap g) := by
  induction r with
  | nil => exact .nil
  | cons hab _ ih => simp only [List.flatMap_cons]; exact (h _ _ hab).append ih

theorem Rel2.map_eq {α : Type} {R : Env → Env → Prop} (f g : Env → α) (h : ∀ a b, R a b → f a = g b) {A B : List Env}
    (r : Rel2 R A B) : A.map f = B.map g := by
  induction r with
  | nil => rfl
  | cons hab _ ih => simp [h _ _ hab, ih]

theorem Rel2.of_map {α : Type} {R : Env → Env → Prop} (f g : α → Env) (h : ∀ w, R (f w) (g w)) (vs : List α) :
    Rel2 R (vs.map f) (vs.map g) := by
  induction vs with
  | nil => exact .nil
  | cons w r ih => exact .cons (h w) ih

theorem Rel2.refl {R : Env → Env → Prop} (h : ∀ a, R a a) (A : List Env) : Rel2 R A A := by
  induction A with
  | nil => exact .nil
  | cons a r ih => exact .cons (h a) ih

abbrev AgreeA (L : List Name) (A A' : List Env) : Prop := Rel2 (Agree L) A A'

theorem AgreeA.mono {L L' : List Name} {A A' : List Env} (h : AgreeA L A A') (hs : ∀ z ∈ L', z ∈ L) : AgreeA L' A A' :=
  Rel2.mono (fun _ _ hab => hab.mono hs) h

theorem mem_remove {x y : Name} {l : List Name} : y ∈ remove x l ↔ y ∈ l ∧ y ≠ x := by
  simp [remove]

theorem Agree.cons_remove {L : List Name} {ρ ρ' : Env} {y : Name} (h : Agree (remove y L) ρ ρ') (w : Val) :
    Agree L ((y, w) :: ρ) ((y, w) :: ρ') := by
  intro z hz
  simp only [lookup_cons']
  split
  · rfl
  · rename_i hne; exact h z (mem_remove.2 ⟨hz, fun e => hne e.symm⟩)

theorem Rel2.map_right {R : Env → Env → Prop} (f : Env → Env) (h : ∀ a, R a (f a)) (A : List Env) : Rel2 R A (A.map f) := by
  induction A with
  | nil => exact .nil
  | cons a r ih => exact .cons (h a) ih

/-- **Coincidence**: the value only depends on the value-scope bindings of the free variables (`fv`) and, in every element
environment of the aggregation scope, on the bindings of the free aggregation variables (`fva`) -/
theorem eval_agree (t : IR) : ∀ (ρ ρ' : Env) (A A' : List Env), Agree (fv t) ρ ρ' → AgreeA (fva t) A A' →
    eval ρ A t = eval ρ' A' t := by
  induction t
  case ref x => intro ρ ρ' A A' h _; simpa [eval] using h x (by simp [fv])
  case i32 | i64 | f32 | f64 | str | bool | na | anil | snil | tnil => intros; simp [eval]
  case cast | ascribe | isNA | un | arrayLen | toArray | toStream | getField | getTupleElement | toSet | toDict | applyFn =>
    rename_i ih
    intro ρ ρ' A A' h hA
    simp only [eval]
    rw [ih ρ ρ' A A' (by simpa [fv] using h) (by simpa [fva] using hA)]
  case bin | cmp | acons | arrayRef | scons | insertField | tcons | dictGet =>
    rename_i iha ihb
    intro ρ ρ' A A' h hA
    simp only [fv] at h
    simp only [fva] at hA
    simp only [eval]
    have e1 := iha ρ ρ' A A' (h.mono (by simp +contextual)) (hA.mono (by simp +contextual))
    have e2 := ihb ρ ρ' A A' (h.mono (by simp +contextual)) (hA.mono (by simp +contextual))
    simp only [e1, e2]
  case ite iha ihb ihc =>
    intro ρ ρ' A A' h hA
    simp only [fv] at h
    simp only [fva] at hA
    simp only [eval]
    rw [iha ρ ρ' A A' (h.mono (by simp +contextual)) (hA.mono (by simp +contextual)),
      ihb ρ ρ' A A' (h.mono (by simp +contextual)) (hA.mono (by simp +contextual)),
      ihc ρ ρ' A A' (h.mono (by simp +contextual)) (hA.mono (by simp +contextual))]
  case let_ x v b ihv ihb =>
    intro ρ ρ' A A' h hA
    simp only [fv] at h
    simp only [fva] at hA
    simp only [eval]
    rw [ihv ρ ρ' A A' (h.mono (by simp +contextual)) (hA.mono (by simp +contextual))]
    exact ihb _ _ A A' ((h.mono (by simp +contextual)).cons_remove _) (hA.mono (by simp +contextual))
  case streamMap x a b iha ihb =>
    intro ρ ρ' A A' h hA
    simp only [fv] at h
    simp only [fva] at hA
    simp only [eval]
    rw [iha ρ ρ' A A' (h.mono (by simp +contextual)) (hA.mono (by simp +contextual))]
    have hb : ∀ w, eval ((x, w) :: ρ) A b = eval ((x, w) :: ρ') A' b := fun w =>
      ihb _ _ A A' ((h.mono (by simp +contextual)).cons_remove _) (hA.mono (by simp +contextual))
    simp only [hb]
  case streamFilter x a b iha ihb =>
    intro ρ ρ' A A' h hA
    simp only [fv] at h
    simp only [fva] at hA
    simp only [eval]
    rw [iha ρ ρ' A A' (h.mono (by simp +contextual)) (hA.mono (by simp +contextual))]
    have hb : ∀ w, eval ((x, w) :: ρ) A b = eval ((x, w) :: ρ') A' b := fun w =>
      ihb _ _ A A' ((h.mono (by simp +contextual)).cons_remove _) (hA.mono (by simp +contextual))
    simp only [hb]
  case streamFold acc v a z b iha ihz ihb =>
    intro ρ ρ' A A' h hA
    simp only [fv] at h
    simp only [fva] at hA
    simp only [eval]
    rw [iha ρ ρ' A A' (h.mono (by simp +contextual)) (hA.mono (by simp +contextual)),
      ihz ρ ρ' A A' (h.mono (by simp +contextual)) (hA.mono (by simp +contextual))]
    have hb : ∀ s w, eval ((v, w) :: (acc, s) :: ρ) A b = eval ((v, w) :: (acc, s) :: ρ') A' b := fun s w =>
      ihb _ _ A A' (((h.mono (by simp +contextual)).cons_remove _).cons_remove _) (hA.mono (by simp +contextual))
    simp only [hb]
  case streamScan acc v a z b iha ihz ihb =>
    intro ρ ρ' A A' h hA
    simp only [fv] at h
    simp only [fva] at hA
    simp only [eval]
    rw [iha ρ ρ' A A' (h.mono (by simp +contextual)) (hA.mono (by simp +contextual)),
      ihz ρ ρ' A A' (h.mono (by simp +contextual)) (hA.mono (by simp +contextual))]
    have hb : ∀ s w, eval ((v, w) :: (acc, s) :: ρ) A b = eval ((v, w) :: (acc, s) :: ρ') A' b := fun s w =>
      ihb _ _ A A' (((h.mono (by simp +contextual)).cons_remove _).cons_remove _) (hA.mono (by simp +contextual))
    simp only [hb]
  case streamAgg x a q iha ihq =>
    intro ρ ρ' A A' h hA
    simp only [fv] at h
    simp only [fva] at hA
    simp only [eval]
    rw [iha ρ ρ' A A' (h.mono (by simp +contextual)) hA]
    have hq : ∀ vs : List Val, eval ρ (vs.map fun w => (x, w) :: ρ) q = eval ρ' (vs.map fun w => (x, w) :: ρ') q := by
      intro vs
      apply ihq _ _ _ _ (h.mono (by simp +contextual))
      exact Rel2.of_map _ _ (fun w => (h.mono (by simp +contextual)).cons_remove _) vs
    simp only [hq]
  case aggLet x v b ihv ihb =>
    intro ρ ρ' A A' h hA
    simp only [fv] at h
    simp only [fva] at hA
    simp only [eval]
    apply ihb _ _ _ _ h
    refine Rel2.map _ _ ?_ hA
    intro σ σ' hσ
    have : eval σ [] v = eval σ' [] v := ihv σ σ' [] [] (hσ.mono (by simp +contextual)) .nil
    rw [this]
    exact (hσ.mono (by simp +contextual)).cons_remove _
  case aggFilter c b ihc ihb =>
    intro ρ ρ' A A' h hA
    simp only [fv] at h
    simp only [fva] at hA
    simp only [eval]
    apply ihb _ _ _ _ h
    refine (Rel2.filter _ _ ?_ hA).mono (fun _ _ hab => hab.mono (by simp +contextual))
    intro σ σ' hσ
    rw [ihc σ σ' [] [] (hσ.mono (by simp +contextual)) .nil]
  case agg op a iha =>
    intro ρ ρ' A A' _ hA
    simp only [fva] at hA
    have : A.map (fun σ => eval σ [] a) = A'.map (fun σ => eval σ [] a) :=
      Rel2.map_eq _ _ (fun σ σ' hσ => iha σ σ' [] [] hσ .nil) hA
    cases op <;> simp only [eval, this]
  case aggExplode x e b ihe ihb =>
    intro ρ ρ' A A' h hA
    simp only [fv] at h
    simp only [fva] at hA
    simp only [eval]
    apply ihb _ _ _ _ h
    refine Rel2.flatMap _ _ ?_ hA
    intro σ σ' hσ
    rw [ihe σ σ' [] [] (hσ.mono (by simp +contextual)) .nil]
    cases asArr (eval σ' [] e) with
    | error o => exact .nil
    | ok vs => exact Rel2.of_map _ _ (fun w => (hσ.mono (by simp +contextual)).cons_remove w) vs
  case aggGroupBy k b ihk ihb =>
    intro ρ ρ' A A' h hA
    simp only [fv] at h
    simp only [fva] at hA
    simp only [eval]
    have hk : ∀ σ σ', Agree (fv k ++ fva b) σ σ' → eval σ [] k = eval σ' [] k :=
      fun σ σ' hσ => ihk σ σ' [] [] (hσ.mono (by simp +contextual)) .nil
    rw [Rel2.map_eq _ _ hk hA]
    congr 1
    apply List.map_congr_left
    intro kv _
    congr 1
    apply ihb _ _ _ _ h
    refine (Rel2.filter _ _ ?_ hA).mono (fun _ _ hab => hab.mono (by simp +contextual))
    intro σ σ' hσ
    rw [hk σ σ' hσ]

/-- the same term in two value scopes that agree on its free variables, same aggregation scope -/
theorem eval_agree_env (t : IR) (ρ ρ' : Env) (A : List Env) (h : ∀ z ∈ fv t, lookup ρ z = lookup ρ' z) :
    eval ρ A t = eval ρ' A t :=
  eval_agree t ρ ρ' A A h (Rel2.refl (fun _ _ _ => rfl) A)

/-- a term without ambient aggregation nodes does not depend on the aggregation scope -/
theorem eval_A_irrel (t : IR) : ∀ (ρ : Env) (A A' : List Env), usesAgg t = false → eval ρ A t = eval ρ A' t := by
  induction t
  case agg | aggFilter | aggExplode | aggGroupBy => intro _ _ _ h; simp [usesAgg] at h
  case aggLet x v b _ ihb =>
    intro ρ A A' h
    simp only [usesAgg] at h
    simp only [eval]
    -- the body does not look at its aggregation scope either
    exact ihb ρ _ _ h
  case ref | i32 | i64 | f32 | f64 | str | bool | na | anil | snil | tnil => intros; simp [eval]
  case cast | ascribe | isNA | un | arrayLen | toArray | toStream | getField | getTupleElement | toSet | toDict | applyFn =>
    rename_i ih
    intro ρ A A' h
    simp only [usesAgg] at h
    simp only [eval]
    rw [ih ρ A A' h]
  case bin | cmp | acons | arrayRef | scons | insertField | tcons | dictGet =>
    rename_i iha ihb
    intro ρ A A' h
    simp only [usesAgg, Bool.or_eq_false_iff] at h
    simp only [eval]
    have e1 := iha ρ A A' h.1
    have e2 := ihb ρ A A' h.2
    simp only [e1, e2]
  case ite iha ihb ihc =>
    intro ρ A A' h
    simp only [usesAgg, Bool.or_eq_false_iff] at h
    simp only [eval]
    rw [iha ρ A A' h.1.1, ihb ρ A A' h.1.2, ihc ρ A A' h.2]
  case let_ x v b ihv ihb =>
    intro ρ A A' h
    simp only [usesAgg, Bool.or_eq_false_iff] at h
    simp only [eval]
    rw [ihv ρ A A' h.1, ihb _ A A' h.2]
  case streamMap x a b iha ihb =>
    intro ρ A A' h
    simp only [usesAgg, Bool.or_eq_false_iff] at h
    simp only [eval]
    rw [iha ρ A A' h.1]
    have hb : ∀ w, eval ((x, w) :: ρ) A b = eval ((x, w) :: ρ) A' b := fun w => ihb _ A A' h.2
    simp only [hb]
  case streamFilter x a b iha ihb =>
    intro ρ A A' h
    simp only [usesAgg, Bool.or_eq_false_iff] at h
    simp only [eval]
    rw [iha ρ A A' h.1]
    have hb : ∀ w, eval ((x, w) :: ρ) A b = eval ((x, w) :: ρ) A' b := fun w => ihb _ A A' h.2
    simp only [hb]
  case streamFold acc v a z b iha ihz ihb =>
    intro ρ A A' h
    simp only [usesAgg, Bool.or_eq_false_iff] at h
    simp only [eval]
    rw [iha ρ A A' h.1.1, ihz ρ A A' h.1.2]
    have hb : ∀ s w, eval ((v, w) :: (acc, s) :: ρ) A b = eval ((v, w) :: (acc, s) :: ρ) A' b := fun s w => ihb _ A A' h.2
    simp only [hb]
  case streamScan acc v a z b iha ihz ihb =>
    intro ρ A A' h
    simp only [usesAgg, Bool.or_eq_false_iff] at h
    simp only [eval]
    rw [iha ρ A A' h.1.1, ihz ρ A A' h.1.2]
    have hb : ∀ s w, eval ((v, w) :: (acc, s) :: ρ) A b = eval ((v, w) :: (acc, s) :: ρ) A' b := fun s w => ihb _ A A' h.2
    simp only [hb]
  case streamAgg x a q iha _ =>
    intro ρ A A' h
    simp only [usesAgg] at h
    simp only [eval]
    rw [iha ρ A A' h]

end HailVerif.ExprIR

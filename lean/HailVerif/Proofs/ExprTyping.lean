import HailVerif.Model.ExprTyping
/-!
# Type soundness of the expression IR model (C36): `inferType Γ Δ e = some t → HasType (eval ρ A e) t`
-/
namespace HailVerif.ExprIR

theorem wrap32_inRange (n : Int) : inRange32 (wrap32 n) := by
  unfold inRange32 wrap32; omega

theorem wrap64_inRange (n : Int) : inRange64 (wrap64 n) := by
  unfold inRange64 wrap64; omega

theorem hasType_i32_wrap (n : Int) : HasType (.i32 (wrap32 n)) .int32 := .i32 (wrap32_inRange n)
theorem hasType_i64_wrap (n : Int) : HasType (.i64 (wrap64 n)) .int64 := .i64 (wrap64_inRange n)

/-! ## environments -/

theorem envTyped_cons {ρ : Env} {Γ : Ctx} (h : EnvTyped ρ Γ) {w : Val} {t : HType} (hw : HasType w t) (x : Name) :
    EnvTyped ((x, w) :: ρ) ((x, t) :: Γ) := by
  intro y s hy
  simp only [lookupT] at hy
  simp only [lookup]
  split at hy
  · rename_i e; simp only [Option.some.injEq] at hy; subst hy; simp [e, hw]
  · rename_i e; simp [e, h y s hy]

/-! ## primitive operations -/

theorem ofOpt_typed {mk : Int → Val} {t : HType} (h : ∀ n, HasType (mk n) t) (o : Option Int) : HasType (ofOpt mk o) t := by
  cases o <;> simp [ofOpt, h, HasType.err]

theorem binop_typed (op : BinOp) {a b : Val} {t : HType} (ha : HasType a t) (hb : HasType b t) (hn : isNumeric t = true) :
    HasType (binop op a b) (binResult op t) := by
  cases ha <;> cases hb <;> simp only [isNumeric, Bool.false_eq_true] at hn <;>
    first
    | exact .err
    | exact .na
    | (simp only [binop]; first | exact .err | exact .na)
    | skip
  all_goals
    simp only [binop, binResult]
    split
    · first
      | exact ofOpt_typed (fun _ => .f64) _
      | exact .f32
      | exact .f64
    · first
      | exact ofOpt_typed (fun n => hasType_i32_wrap n) _
      | exact ofOpt_typed (fun n => hasType_i64_wrap n) _
      | exact .f32
      | exact .f64

theorem unop_neg_typed {a : Val} {t : HType} (ha : HasType a t) (hn : isNumeric t = true) : HasType (unop .neg a) t := by
  cases ha <;> simp only [isNumeric, Bool.false_eq_true] at hn <;> simp only [unop, if_true] <;>
    first
    | exact .err
    | exact .na
    | exact hasType_i32_wrap _
    | exact hasType_i64_wrap _
    | exact .f32
    | exact .f64

theorem unop_not_typed {a : Val} (ha : HasType a .bool) : HasType (unop .not a) .bool := by
  cases ha <;> simp only [unop, if_true] <;> first | exact .err | exact .na | exact .bool

theorem cmpop_typed (op : CmpOp) {a b : Val} {t : HType} (ha : HasType a t) (hb : HasType b t) (hc : isComparable t = true) :
    HasType (cmpop op a b) .bool := by
  cases ha <;> cases hb <;> simp only [isComparable, Bool.false_eq_true] at hc <;> simp only [cmpop] <;>
    first
    | exact .err
    | exact .na
    | exact .bool
    | (cases op <;> exact .bool)

theorem castVal_typed {a : Val} {s t : HType} (ha : HasType a s) (hs : (isNumeric s || decide (s = .bool)) = true)
    (ht : isNumeric t = true) : HasType (castVal t a) t := by
  cases ha <;> simp [isNumeric] at hs <;> cases t <;> simp only [isNumeric, Bool.false_eq_true] at ht <;>
    simp only [castVal] <;>
    first
    | exact .err
    | exact .na
    | exact hasType_i32_wrap _
    | exact hasType_i64_wrap _
    | exact .f32
    | exact .f64
    | exact .i32 (by unfold inRange32; rename_i b; cases b <;> simp)
    | exact .i64 (by unfold inRange64; rename_i b; cases b <;> simp)

theorem nthVal_typed {vs : List Val} {t : HType} (h : ∀ v ∈ vs, HasType v t) (n : Nat) : HasType (nthVal vs n) t := by
  induction vs generalizing n with
  | nil => exact .err
  | cons v r ih =>
    cases n with
    | zero => exact h v (by simp)
    | succ n => exact ih (fun w hw => h w (by simp [hw])) n

theorem indexVal_typed {a i : Val} {t : HType} (ha : HasType a (.array t)) (hi : HasType i .int32) :
    HasType (indexVal a i) t := by
  cases ha <;> cases hi <;> simp only [indexVal] <;>
    first
    | exact .err
    | exact .na
    | (split <;> first | exact .err | exact nthVal_typed (by assumption) _)

theorem lenVal_typed {a : Val} {t : HType} (ha : HasType a (.array t)) : HasType (lenVal a) .int32 := by
  cases ha <;> simp only [lenVal] <;> first | exact .err | exact .na | exact hasType_i32_wrap _

/-- what `asArr` gives for a value of a container type: the elements, all of the element type, or an outcome of every type -/
theorem asArr_typed {v : Val} {s t : HType} (hv : HasType v s) (hs : elemOfContainer s = some t) :
    (∃ vs, asArr v = .ok vs ∧ (v = .arr vs ∨ v = .set vs) ∧ ∀ w ∈ vs, HasType w t) ∨
      (∃ o, asArr v = .error o ∧ ∀ u, HasType o u) := by
  cases hv <;> simp only [elemOfContainer, Option.some.injEq, reduceCtorEq] at hs
  case na => exact Or.inr ⟨.na, rfl, fun _ => .na⟩
  case err => exact Or.inr ⟨.err, rfl, fun _ => .err⟩
  case arr vs _ h => subst hs; exact Or.inl ⟨vs, rfl, Or.inl rfl, h⟩
  case stream vs _ h => subst hs; exact Or.inl ⟨vs, rfl, Or.inl rfl, h⟩
  case set vs _ h => subst hs; exact Or.inr ⟨.err, rfl, fun _ => .err⟩

theorem fieldVal_typed {fs : List (String × Val)} {gs : Fields} (h : FieldsTyped fs gs) {f : String} {t : HType}
    (hf : fieldType gs f = some t) : HasType (fieldVal fs f) t := by
  induction fs generalizing gs with
  | nil => cases h; simp [fieldType] at hf
  | cons p r ih =>
    cases h
    rename_i v s gs' n hv hr
    simp only [fieldType] at hf
    simp only [fieldVal]
    split at hf
    · rename_i e; simp only [Option.some.injEq] at hf; subst hf; simp [e, hv]
    · rename_i e; simp only [e, if_false]; exact ih hr hf

theorem setField_typed {fs : List (String × Val)} {gs : Fields} (h : FieldsTyped fs gs) (f : String) {v : Val} {t : HType}
    (hv : HasType v t) : FieldsTyped (setField fs f v) (setFieldT gs f t) := by
  induction fs generalizing gs with
  | nil => cases h; exact .cons hv .nil
  | cons p r ih =>
    cases h
    rename_i w s gs' n hw hr
    simp only [setField, setFieldT]
    split
    · exact .cons hv hr
    · exact .cons hw (ih hr)

theorem nthVal_tuple_typed {vs : List Val} {ts : Types} (h : TupleTyped vs ts) {i : Nat} {t : HType}
    (hi : nthType ts i = some t) : HasType (nthVal vs i) t := by
  induction vs generalizing ts i with
  | nil => cases h; simp [nthType] at hi
  | cons v r ih =>
    cases h
    rename_i s ts' hv hr
    cases i with
    | zero => simp only [nthType, Option.some.injEq] at hi; subst hi; exact hv
    | succ i => exact ih hr (by simpa [nthType] using hi)

theorem maxVals_typed {vs : List Val} (h : ∀ v ∈ vs, HasType v .int32) : HasType (maxVals vs) .int32 := by
  induction vs with
  | nil => exact .na
  | cons v r ih =>
    have hr := ih (fun w hw => h w (by simp [hw]))
    have hv := h v (by simp)
    simp only [maxVals]
    generalize maxVals r = m at hr
    cases hv <;> cases hr <;> (try simp only []) <;>
      first
      | exact .err
      | exact .na
      | exact .i32 (by assumption)
      | (split <;> exact .i32 (by assumption))

theorem foldl_typed {α : Type} {P : Val → Prop} (f : Val → α → Val) (hf : ∀ s w, P s → P (f s w)) (vs : List α) (z : Val)
    (hz : P z) : P (vs.foldl f z) := by
  induction vs generalizing z with
  | nil => exact hz
  | cons w r ih => exact ih _ (hf z w hz)

theorem scanVals_typed {P Q : Val → Prop} (f : Val → Val → Val) (hf : ∀ s w, P s → Q w → P (f s w)) :
    ∀ (vs : List Val) (z : Val), P z → (∀ w ∈ vs, Q w) → ∀ v ∈ scanVals f z vs, P v := by
  intro vs
  induction vs with
  | nil => intro z hz _ v hv; simp only [scanVals, List.mem_singleton] at hv; subst hv; exact hz
  | cons w r ih =>
    intro z hz hq v hv
    simp only [scanVals, List.mem_cons] at hv
    rcases hv with rfl | hv
    · exact hz
    · exact ih (f z w) (hf z w hz (hq w (by simp))) (fun w' hw' => hq w' (by simp [hw'])) v hv

/-- `toDict` on an array of pairs -/
theorem mapM_pairOf_typed_tuple {vs : List Val} {k v : HType}
    (h : ∀ w ∈ vs, HasType w (.tuple (.cons k (.cons v .nil)))) {kvs : List (Val × Val)} (hm : vs.mapM pairOf = some kvs) :
    (∀ p ∈ kvs, HasType p.1 k) ∧ (∀ p ∈ kvs, HasType p.2 v) := by
  induction vs generalizing kvs with
  | nil => simp at hm; subst hm; simp
  | cons w r ih =>
    simp only [List.mapM_cons, Option.pure_def, Option.bind_eq_bind, Option.bind_eq_some_iff, Option.some.injEq] at hm
    obtain ⟨p, hp, rest, hrest, rfl⟩ := hm
    have hw := h w (by simp)
    have ⟨i1, i2⟩ := ih (fun u hu => h u (by simp [hu])) hrest
    have : HasType p.1 k ∧ HasType p.2 v := by
      cases hw <;> simp only [pairOf, reduceCtorEq] at hp
      rename_i vs' ht
      cases ht with
      | cons h1 ht2 =>
        cases ht2 with
        | cons h2 ht3 =>
          cases ht3
          simp only [Option.some.injEq] at hp
          subst hp; exact ⟨h1, h2⟩
    constructor
    · intro q hq; simp only [List.mem_cons] at hq; rcases hq with rfl | hq; exact this.1; exact i1 q hq
    · intro q hq; simp only [List.mem_cons] at hq; rcases hq with rfl | hq; exact this.2; exact i2 q hq

theorem mapM_pairOf_typed_struct {vs : List Val} {k v : HType} {n1 n2 : String}
    (h : ∀ w ∈ vs, HasType w (.struct (.cons n1 k (.cons n2 v .nil)))) {kvs : List (Val × Val)} (hm : vs.mapM pairOf = some kvs) :
    (∀ p ∈ kvs, HasType p.1 k) ∧ (∀ p ∈ kvs, HasType p.2 v) := by
  induction vs generalizing kvs with
  | nil => simp at hm; subst hm; simp
  | cons w r ih =>
    simp only [List.mapM_cons, Option.pure_def, Option.bind_eq_bind, Option.bind_eq_some_iff, Option.some.injEq] at hm
    obtain ⟨p, hp, rest, hrest, rfl⟩ := hm
    have hw := h w (by simp)
    have ⟨i1, i2⟩ := ih (fun u hu => h u (by simp [hu])) hrest
    have : HasType p.1 k ∧ HasType p.2 v := by
      cases hw <;> simp only [pairOf, reduceCtorEq] at hp
      rename_i fs' ht
      cases ht with
      | cons h1 ht2 =>
        cases ht2 with
        | cons h2 ht3 =>
          cases ht3
          simp only [Option.some.injEq] at hp
          subst hp; exact ⟨h1, h2⟩
    constructor
    · intro q hq; simp only [List.mem_cons] at hq; rcases hq with rfl | hq; exact this.1; exact i1 q hq
    · intro q hq; simp only [List.mem_cons] at hq; rcases hq with rfl | hq; exact this.2; exact i2 q hq

/-! ## type soundness -/

/-- inversion of `do`-blocks in `inferType` -/
syntax "inv_bind" " at " ident : tactic
macro_rules
  | `(tactic| inv_bind at $h) =>
    `(tactic| simp only [inferType, Option.bind_eq_bind, Option.bind_eq_some_iff, Option.pure_def, Option.some.injEq,
        Option.ite_none_right_eq_some, Bool.and_eq_true, Bool.or_eq_true, decide_eq_true_eq] at $h:ident)

theorem dedupKeys_subset (l : List Val) : ∀ k ∈ dedupKeys l, k ∈ l := by
  induction l with
  | nil => intro k hk; simp [dedupKeys] at hk
  | cons a r ih =>
    intro k hk
    simp only [dedupKeys, List.mem_cons, List.mem_filter] at hk
    rcases hk with hk | hk
    · exact hk ▸ List.mem_cons_self
    · exact List.mem_cons_of_mem _ (ih k hk.1)

theorem infer_sound (e : IR) : ∀ (Γ : Ctx) (Δ : Option Ctx) (ρ : Env) (A : List Env) (t : HType),
    inferType Γ Δ e = some t → EnvTyped ρ Γ → AggTyped A Δ → HasType (eval ρ A e) t := by
  induction e
  case i32 n => intro Γ Δ ρ A t h _ _; inv_bind at h; subst h; exact hasType_i32_wrap n
  case i64 n => intro Γ Δ ρ A t h _ _; inv_bind at h; subst h; exact hasType_i64_wrap n
  case f32 n => intro Γ Δ ρ A t h _ _; inv_bind at h; subst h; exact .f32
  case f64 n => intro Γ Δ ρ A t h _ _; inv_bind at h; subst h; exact .f64
  case str s => intro Γ Δ ρ A t h _ _; inv_bind at h; subst h; exact .str
  case bool b => intro Γ Δ ρ A t h _ _; inv_bind at h; subst h; exact .bool
  case na u => intro Γ Δ ρ A t h _ _; exact .na
  case ref x => intro Γ Δ ρ A t h hρ _; simp only [inferType] at h; exact hρ x t h
  case cast a u ih =>
    intro Γ Δ ρ A t h hρ hA
    inv_bind at h
    obtain ⟨s, hs, ⟨h1, h2⟩, rfl⟩ := h
    exact castVal_typed (ih Γ Δ ρ A s hs hρ hA) (by simpa using h1) h2
  case ascribe a u ih =>
    intro Γ Δ ρ A t h hρ hA
    inv_bind at h
    obtain ⟨s, hs, h1, rfl⟩ := h
    subst h1
    exact ih Γ Δ ρ A s hs hρ hA
  case isNA a ih =>
    intro Γ Δ ρ A t h hρ hA
    inv_bind at h
    obtain ⟨s, hs, rfl⟩ := h
    simp only [eval]
    split <;> first | exact .bool | exact .err
  case un op a ih =>
    intro Γ Δ ρ A t h hρ hA
    cases op
    · inv_bind at h
      obtain ⟨s, hs, h1, rfl⟩ := h
      exact unop_neg_typed (ih Γ Δ ρ A s hs hρ hA) h1
    · inv_bind at h
      obtain ⟨s, hs, h1, rfl⟩ := h
      subst h1
      exact unop_not_typed (ih Γ Δ ρ A _ hs hρ hA)
  case bin op a b iha ihb =>
    intro Γ Δ ρ A t h hρ hA
    inv_bind at h
    obtain ⟨s, hs, s', hs', ⟨rfl, hn⟩, rfl⟩ := h
    exact binop_typed op (iha Γ Δ ρ A s hs hρ hA) (ihb Γ Δ ρ A s hs' hρ hA) hn
  case cmp op a b iha ihb =>
    intro Γ Δ ρ A t h hρ hA
    inv_bind at h
    obtain ⟨s, hs, s', hs', ⟨rfl, hn⟩, rfl⟩ := h
    exact cmpop_typed op (iha Γ Δ ρ A s hs hρ hA) (ihb Γ Δ ρ A s hs' hρ hA) hn
  case ite c a b ihc iha ihb =>
    intro Γ Δ ρ A t h hρ hA
    inv_bind at h
    obtain ⟨sc, hsc, st, hst, se, hse, ⟨rfl, rfl⟩, rfl⟩ := h
    simp only [eval]
    have hc := ihc Γ Δ ρ A _ hsc hρ hA
    split
    · exact iha Γ Δ ρ A _ hst hρ hA
    · exact ihb Γ Δ ρ A _ hse hρ hA
    · exact .na
    · exact .err
  case let_ x v b ihv ihb =>
    intro Γ Δ ρ A t h hρ hA
    inv_bind at h
    obtain ⟨s, hs, h⟩ := h
    simp only [eval]
    exact ihb _ Δ _ A t h (envTyped_cons hρ (ihv Γ Δ ρ A s hs hρ hA) x) hA
  case anil u => intro Γ Δ ρ A t h _ _; inv_bind at h; subst h; exact .arr (by simp)
  case acons a b iha ihb =>
    intro Γ Δ ρ A t h hρ hA
    inv_bind at h
    obtain ⟨s, hs, r, hr, rfl, rfl⟩ := h
    simp only [eval]
    have htl := ihb Γ Δ ρ A _ hr hρ hA
    have hh := iha Γ Δ ρ A _ hs hρ hA
    generalize eval ρ A b = w at htl
    cases htl <;> try exact .err
    rename_i vs hvs
    refine .arr ?_
    intro u hu
    simp only [List.mem_cons] at hu
    rcases hu with rfl | hu
    · exact hh
    · exact hvs u hu
  case arrayRef a i iha ihi =>
    intro Γ Δ ρ A t h hρ hA
    inv_bind at h
    obtain ⟨s, hs, si, hsi, h⟩ := h
    cases s <;> simp only [reduceCtorEq] at h
    rename_i u
    inv_bind at h
    obtain ⟨rfl, rfl⟩ := h
    exact indexVal_typed (iha Γ Δ ρ A _ hs hρ hA) (ihi Γ Δ ρ A _ hsi hρ hA)
  case arrayLen a iha =>
    intro Γ Δ ρ A t h hρ hA
    inv_bind at h
    obtain ⟨s, hs, h⟩ := h
    cases s <;> simp only [reduceCtorEq, Option.some.injEq] at h
    subst h
    exact lenVal_typed (iha Γ Δ ρ A _ hs hρ hA)
  case toArray a iha =>
    intro Γ Δ ρ A t h hρ hA
    inv_bind at h
    obtain ⟨s, hs, u, hu, rfl⟩ := h
    simp only [eval]
    rcases asArr_typed (iha Γ Δ ρ A _ hs hρ hA) hu with ⟨vs, h1, _, h3⟩ | ⟨o, h1, h2⟩
    · rw [h1]; exact .arr h3
    · rw [h1]; exact h2 _
  case toStream a iha =>
    intro Γ Δ ρ A t h hρ hA
    inv_bind at h
    obtain ⟨s, hs, h⟩ := h
    have key : ∀ u, elemOfContainer s = some u → HasType (eval ρ A (.toStream a)) (.stream u) := by
      intro u hu
      simp only [eval]
      rcases asArr_typed (iha Γ Δ ρ A _ hs hρ hA) hu with ⟨vs, h1, _, h3⟩ | ⟨o, h1, h2⟩
      · rw [h1]; exact .stream h3
      · rw [h1]; exact h2 _
    cases s <;> simp only [reduceCtorEq, Option.some.injEq] at h <;> subst h <;> exact key _ rfl
  case streamMap x a b iha ihb =>
    intro Γ Δ ρ A t h hρ hA
    inv_bind at h
    obtain ⟨s, hs, h⟩ := h
    cases s <;> simp only [reduceCtorEq] at h
    rename_i u
    inv_bind at h
    obtain ⟨u', hu', rfl⟩ := h
    simp only [eval]
    rcases asArr_typed (iha Γ Δ ρ A _ hs hρ hA) (t := u) rfl with ⟨vs, h1, _, h3⟩ | ⟨o, h1, h2⟩
    · rw [h1]
      refine .stream ?_
      intro w hw
      simp only [List.mem_map] at hw
      obtain ⟨w0, hw0, rfl⟩ := hw
      exact ihb _ Δ _ A _ hu' (envTyped_cons hρ (h3 w0 hw0) x) hA
    · rw [h1]; exact h2 _
  case streamFilter x a b iha ihb =>
    intro Γ Δ ρ A t h hρ hA
    inv_bind at h
    obtain ⟨s, hs, h⟩ := h
    cases s <;> simp only [reduceCtorEq] at h
    rename_i u
    inv_bind at h
    obtain ⟨u', hu', rfl, rfl⟩ := h
    simp only [eval]
    rcases asArr_typed (iha Γ Δ ρ A _ hs hρ hA) (t := u) rfl with ⟨vs, h1, _, h3⟩ | ⟨o, h1, h2⟩
    · rw [h1]
      refine .stream ?_
      intro w hw
      exact h3 w (List.mem_filter.mp hw).1
    · rw [h1]; exact h2 _
  case streamFold acc v a z b iha ihz ihb =>
    intro Γ Δ ρ A t h hρ hA
    inv_bind at h
    obtain ⟨s, hs, u, hu, h⟩ := h
    cases s <;> simp only [reduceCtorEq] at h
    rename_i et
    inv_bind at h
    obtain ⟨u', hu', rfl, rfl⟩ := h
    simp only [eval]
    rcases asArr_typed (iha Γ Δ ρ A _ hs hρ hA) (t := et) rfl with ⟨vs, h1, -, h3⟩ | ⟨o, h1, h2⟩
    · rw [h1]
      simp only []
      have hz := ihz Γ Δ ρ A _ hu hρ hA
      generalize eval ρ A z = z0 at hz
      clear h1
      induction vs generalizing z0 with
      | nil => exact hz
      | cons w r ihr =>
        simp only [List.foldl_cons]
        apply ihr (fun w' hw' => h3 w' (by simp [hw']))
        exact ihb _ Δ _ A _ hu' (envTyped_cons (envTyped_cons hρ hz acc) (h3 w (by simp)) v) hA
    · rw [h1]; exact h2 _
  case streamScan acc v a z b iha ihz ihb =>
    intro Γ Δ ρ A t h hρ hA
    inv_bind at h
    obtain ⟨s, hs, u, hu, h⟩ := h
    cases s <;> simp only [reduceCtorEq] at h
    rename_i et
    inv_bind at h
    obtain ⟨u', hu', rfl, rfl⟩ := h
    simp only [eval]
    rcases asArr_typed (iha Γ Δ ρ A _ hs hρ hA) (t := et) rfl with ⟨vs, h1, -, h3⟩ | ⟨o, h1, h2⟩
    · rw [h1]
      refine .stream ?_
      exact scanVals_typed (P := fun x => HasType x u') (Q := fun x => HasType x et) _
        (fun s w hs' hw => ihb _ Δ _ A _ hu' (envTyped_cons (envTyped_cons hρ hs' acc) hw v) hA)
        vs _ (ihz Γ Δ ρ A _ hu hρ hA) h3
    · rw [h1]; exact h2 _
  case snil => intro Γ Δ ρ A t h _ _; inv_bind at h; subst h; exact .struct .nil
  case scons f e r ihe ihr =>
    intro Γ Δ ρ A t h hρ hA
    inv_bind at h
    obtain ⟨s, hs, r', hr', h⟩ := h
    cases r' <;> simp only [reduceCtorEq, Option.some.injEq] at h
    subst h
    simp only [eval]
    have h1 := ihr Γ Δ ρ A _ hr' hρ hA
    have h2 := ihe Γ Δ ρ A _ hs hρ hA
    generalize eval ρ A r = w at h1
    cases h1 <;> try exact .err
    rename_i fs hfs
    exact .struct (.cons h2 hfs)
  case getField o f iho =>
    intro Γ Δ ρ A t h hρ hA
    inv_bind at h
    obtain ⟨s, hs, h⟩ := h
    cases s <;> simp only [reduceCtorEq] at h
    simp only [eval]
    have h1 := iho Γ Δ ρ A _ hs hρ hA
    generalize eval ρ A o = w at h1
    cases h1 <;> first | exact .err | exact .na | skip
    rename_i fs hfs
    exact fieldVal_typed hfs h
  case insertField o f e iho ihe =>
    intro Γ Δ ρ A t h hρ hA
    inv_bind at h
    obtain ⟨s, hs, u, hu, h⟩ := h
    cases s <;> simp only [reduceCtorEq, Option.some.injEq] at h
    subst h
    simp only [eval]
    have h1 := iho Γ Δ ρ A _ hs hρ hA
    have h2 := ihe Γ Δ ρ A _ hu hρ hA
    generalize eval ρ A o = w at h1
    cases h1 <;> first | exact .err | exact .na | skip
    rename_i fs hfs
    exact .struct (setField_typed hfs f h2)
  case tnil => intro Γ Δ ρ A t h _ _; inv_bind at h; subst h; exact .tuple .nil
  case tcons e r ihe ihr =>
    intro Γ Δ ρ A t h hρ hA
    inv_bind at h
    obtain ⟨s, hs, r', hr', h⟩ := h
    cases r' <;> simp only [reduceCtorEq, Option.some.injEq] at h
    subst h
    simp only [eval]
    have h1 := ihr Γ Δ ρ A _ hr' hρ hA
    have h2 := ihe Γ Δ ρ A _ hs hρ hA
    generalize eval ρ A r = w at h1
    cases h1 <;> try exact .err
    rename_i vs hvs
    exact .tuple (.cons h2 hvs)
  case getTupleElement o i iho =>
    intro Γ Δ ρ A t h hρ hA
    inv_bind at h
    obtain ⟨s, hs, h⟩ := h
    cases s <;> simp only [reduceCtorEq] at h
    simp only [eval]
    have h1 := iho Γ Δ ρ A _ hs hρ hA
    generalize eval ρ A o = w at h1
    cases h1 <;> first | exact .err | exact .na | skip
    rename_i vs hvs
    exact nthVal_tuple_typed hvs h
  case toSet a iha =>
    intro Γ Δ ρ A t h hρ hA
    inv_bind at h
    obtain ⟨s, hs, h⟩ := h
    cases s <;> simp only [reduceCtorEq, Option.some.injEq] at h
    rename_i u
    subst h
    simp only [eval]
    rcases asArr_typed (iha Γ Δ ρ A _ hs hρ hA) (t := u) rfl with ⟨vs, h1, _, h3⟩ | ⟨o, h1, h2⟩
    · rw [h1]; exact .set h3
    · rw [h1]; exact h2 _
  case toDict a iha =>
    intro Γ Δ ρ A t h hρ hA
    inv_bind at h
    obtain ⟨s, hs, h⟩ := h
    have h0 := iha Γ Δ ρ A _ hs hρ hA
    simp only [eval]
    split at h <;> simp only [reduceCtorEq, Option.some.injEq] at h
    · subst h
      rcases asArr_typed h0 rfl with ⟨vs, h1, _, h3⟩ | ⟨o, h1, h2⟩
      · rw [h1]; simp only []
        split
        · rename_i kvs hk
          have := mapM_pairOf_typed_tuple h3 hk
          exact .dict this.1 this.2
        · exact .err
      · rw [h1]; exact h2 _
    · subst h
      rcases asArr_typed h0 rfl with ⟨vs, h1, _, h3⟩ | ⟨o, h1, h2⟩
      · rw [h1]; simp only []
        split
        · rename_i kvs hk
          have := mapM_pairOf_typed_struct h3 hk
          exact .dict this.1 this.2
        · exact .err
      · rw [h1]; exact h2 _
  case dictGet d k ihd ihk =>
    intro Γ Δ ρ A t h hρ hA
    inv_bind at h
    obtain ⟨s, hs, sk, hsk, h⟩ := h
    cases s <;> simp only [reduceCtorEq] at h
    inv_bind at h
    obtain ⟨rfl, rfl⟩ := h
    simp only [eval]
    have h1 := ihd Γ Δ ρ A _ hs hρ hA
    generalize eval ρ A d = w at h1
    cases h1 <;> first | exact .err | exact .na | skip
    rename_i kvs hk hv
    cases kvs with
    | nil => exact .err
    | cons p r => exact hv p (by simp)
  case applyFn fn a u _ =>
    intro Γ Δ ρ A t _ _ _
    simp only [eval, applyVal]
    exact .err
  case streamAgg x a q iha ihq =>
    intro Γ Δ ρ A t h hρ hA
    inv_bind at h
    obtain ⟨s, hs, h⟩ := h
    cases s <;> simp only [reduceCtorEq] at h
    rename_i u
    simp only [eval]
    rcases asArr_typed (iha Γ Δ ρ A _ hs hρ hA) (t := u) rfl with ⟨vs, h1, _, h3⟩ | ⟨o, h1, h2⟩
    · rw [h1]
      refine ihq Γ _ ρ _ t h hρ ?_
      intro σ hσ
      simp only [List.mem_map] at hσ
      obtain ⟨w, hw, rfl⟩ := hσ
      exact envTyped_cons hρ (h3 w hw) x
    · rw [h1]; exact h2 _
  case aggLet x v b ihv ihb =>
    intro Γ Δ ρ A t h hρ hA
    cases Δ with
    | none => simp [inferType] at h
    | some D =>
      inv_bind at h
      obtain ⟨s, hs, h⟩ := h
      simp only [eval]
      refine ihb Γ _ ρ _ t h hρ ?_
      intro σ hσ
      simp only [List.mem_map] at hσ
      obtain ⟨σ0, hσ0, rfl⟩ := hσ
      exact envTyped_cons (hA σ0 hσ0) (ihv D none σ0 [] s hs (hA σ0 hσ0) trivial) x
  case aggFilter c b ihc ihb =>
    intro Γ Δ ρ A t h hρ hA
    cases Δ with
    | none => simp [inferType] at h
    | some D =>
      inv_bind at h
      obtain ⟨s, hs, -, h⟩ := h
      simp only [eval]
      refine ihb Γ _ ρ _ t h hρ ?_
      intro σ hσ
      exact hA σ (List.mem_filter.mp hσ).1
  case agg op a iha =>
    intro Γ Δ ρ A t h hρ hA
    cases Δ with
    | none => cases op <;> simp [inferType] at h
    | some D =>
      cases op
      · inv_bind at h
        obtain ⟨s, hs, rfl, rfl⟩ := h
        simp only [eval]
        apply maxVals_typed
        intro w hw
        simp only [List.mem_map] at hw
        obtain ⟨σ, hσ, rfl⟩ := hw
        exact iha D none σ [] _ hs (hA σ hσ) trivial
      · inv_bind at h
        obtain ⟨s, hs, rfl⟩ := h
        simp only [eval]
        refine .arr ?_
        intro w hw
        simp only [List.mem_map] at hw
        obtain ⟨σ, hσ, rfl⟩ := hw
        exact iha D none σ [] _ hs (hA σ hσ) trivial
  case aggExplode x e b ihe ihb =>
    intro Γ Δ ρ A t h hρ hA
    cases Δ with
    | none => simp [inferType] at h
    | some D =>
      inv_bind at h
      obtain ⟨st, hs, h⟩ := h
      cases st <;> simp only [reduceCtorEq] at h
      rename_i u
      simp only [eval]
      refine ihb Γ _ ρ _ t h hρ ?_
      intro σ hσ
      simp only [List.mem_flatMap] at hσ
      obtain ⟨σ0, hσ0, hσ⟩ := hσ
      rcases asArr_typed (ihe D none σ0 [] _ hs (hA σ0 hσ0) trivial) (t := u) rfl with ⟨vs, h1, _, h3⟩ | ⟨o, h1, h2⟩
      · rw [h1] at hσ
        simp only [explodeEnv, List.mem_map] at hσ
        obtain ⟨w, hw, rfl⟩ := hσ
        exact envTyped_cons (hA σ0 hσ0) (h3 w hw) x
      · rw [h1] at hσ
        simp [explodeEnv] at hσ
  case aggGroupBy k b ihk ihb =>
    intro Γ Δ ρ A t h hρ hA
    cases Δ with
    | none => simp [inferType] at h
    | some D =>
      inv_bind at h
      obtain ⟨kt, hk, bt, hb, rfl⟩ := h
      simp only [eval]
      refine .dict ?_ ?_
      · intro p hp
        simp only [List.mem_map] at hp
        obtain ⟨kv, hkv, rfl⟩ := hp
        have := dedupKeys_subset _ kv hkv
        simp only [List.mem_map] at this
        obtain ⟨σ, hσ, rfl⟩ := this
        exact ihk D none σ [] _ hk (hA σ hσ) trivial
      · intro p hp
        simp only [List.mem_map] at hp
        obtain ⟨kv, hkv, rfl⟩ := hp
        refine ihb Γ _ ρ _ _ hb hρ ?_
        intro σ hσ
        exact hA σ (List.mem_filter.mp hσ).1

end HailVerif.ExprIR

import HailVerif.Proofs.BatchDBCancel
import HailVerif.Proofs.JobsTrigger
/-!
Helper lemmas for C01: the scheduler counters (`user_inst_coll_resources`), the per-group cancellable counters
(`job_group_inst_coll_cancellable_resources`) and the staging rows (`job_groups_inst_coll_staging`) equal the
recomputation from the job rows.

* `w s k j` — the weight with which job row `j` is counted by the tracked counter key `k` in state `s`;
* `CountersInv s` — every tracked counter equals `sumBy (w s k) s.jobs` (cancellable keys: groups that are not
  cancelled; staging keys: updates that are not committed — the other rows are garbage awaiting the cleanup loops);
* `Struct s` — the structural invariants the argument needs (ancestor lists form a forest, jobs reference existing
  groups / batches, jobs of uncommitted updates are untouched);
* `OpOK s op` — the explicit, decidable hypotheses on (pre-state, transaction) that exclude the paths on which the
  SQL (and therefore the model) does break the equality;
* `inv_step` — `Struct ∧ CountersInv` is preserved by every transaction satisfying `OpOK`.
-/
namespace HailVerif.BatchDB
open HailVerif.Generated.JobsTrigger
set_option linter.unusedSimpArgs false

/-! ## weights -/

/-- `is_job_group_cancelled` for the job's group -/
def gcOf (s : State) (j : Job) : Bool := groupCancelled s j.batch j.group

/-- a `user_inst_coll_resources` row (user `u`, inst_coll `ic`) counts the jobs of the user's COMMITTED updates -/
def scopeU (s : State) (u ic : Nat) (j : Job) : Bool :=
  decide (userOf s j.batch = u) && decide (j.ic = ic) && updCommitted s j.batch j.update

/-- a cancellable / staging row (batch `b`, update `u`, group `g`, inst_coll `ic`) counts the jobs of that update in `g`
and its descendants -/
def scopeG (s : State) (b u g ic : Nat) (j : Job) : Bool :=
  decide (j.batch = b) && decide (j.update = u) && decide (g ∈ ancestorsOf s b j.group) && decide (j.ic = ic)

def uw (s : State) (u ic : Nat) (j : Job) (v : Int) : Int := if scopeU s u ic j then v else 0
def gw (s : State) (b u g ic : Nat) (j : Job) (v : Int) : Int := if scopeG s b u g ic j then v else 0

/-- not cancelled: always_run OR NOT (cancelled OR group cancelled) -/
def liveB (s : State) (j : Job) : Bool := !cancelledW j.alwaysRun j.cancelled (gcOf s j)
/-- cancelled: NOT always_run AND (cancelled OR group cancelled)  (= `jobCancelled`) -/
def cancB (s : State) (j : Job) : Bool := cancelledW j.alwaysRun j.cancelled (gcOf s j)
/-- cancellable: NOT always_run AND NOT (cancelled OR group cancelled) -/
def cblB (s : State) (j : Job) : Bool := cancellableW j.alwaysRun j.cancelled (gcOf s j)

/-- the weight of job row `j` in the counter `k`, recomputed from the row's state, cancellation marks and flags -/
def w (s : State) : CKey → Job → Int
  | .uReady u ic, j => uw s u ic j (ind j.state .Ready (liveB s j))
  | .uReadyCores u ic, j => uw s u ic j (ind j.state .Ready (liveB s j) * j.cores)
  | .uRunning u ic, j => uw s u ic j (ind j.state .Running (liveB s j))
  | .uRunningCores u ic, j => uw s u ic j (ind j.state .Running (liveB s j) * j.cores)
  | .uCreating u ic, j => uw s u ic j (ind j.state .Creating (liveB s j))
  | .uCancReady u ic, j => uw s u ic j (ind j.state .Ready (cancB s j))
  | .uCancRunning u ic, j => uw s u ic j (ind j.state .Running (cancB s j))
  | .uCancCreating u ic, j => uw s u ic j (ind j.state .Creating (cancB s j))
  | .cReady b u g ic, j => gw s b u g ic j (ind j.state .Ready (cblB s j))
  | .cReadyCores b u g ic, j => gw s b u g ic j (ind j.state .Ready (cblB s j) * j.cores)
  | .cCreating b u g ic, j => gw s b u g ic j (ind j.state .Creating (cblB s j))
  | .cRunning b u g ic, j => gw s b u g ic j (ind j.state .Running (cblB s j))
  | .cRunningCores b u g ic, j => gw s b u g ic j (ind j.state .Running (cblB s j) * j.cores)
  | .sJobs b u g ic, j => gw s b u g ic j 1
  | .sReady b u g ic, j => gw s b u g ic j (ind j.state .Ready true)
  | .sReadyCores b u g ic, j => gw s b u g ic j (ind j.state .Ready true * j.cores)
  | _, _ => 0

/-- which keys are tracked and when the row is meaningful (not garbage awaiting a cleanup loop) -/
def Live (s : State) : CKey → Prop
  | .uReady _ _ | .uReadyCores _ _ | .uRunning _ _ | .uRunningCores _ _ | .uCreating _ _
  | .uCancReady _ _ | .uCancRunning _ _ | .uCancCreating _ _ => True
  | .cReady b _ g _ | .cReadyCores b _ g _ | .cCreating b _ g _ | .cRunning b _ g _ | .cRunningCores b _ g _ =>
    groupCancelled s b g = false
  | .sJobs b u _ _ | .sReady b u _ _ | .sReadyCores b u _ _ => updCommitted s b u = false
  | _ => False

instance (s : State) (k : CKey) : Decidable (Live s k) := by cases k <;> unfold Live <;> infer_instance

/-- C01, full strength: every live tracked counter equals the recomputation over the job rows -/
def CountersInv (s : State) : Prop := ∀ k, Live s k → get s.ctr k = sumBy (w s k) s.jobs

/-- the tracked keys (all but the billing aggregates) -/
def Tracked : CKey → Prop
  | .aJob _ _ _ | .aGroup _ _ _ | .aBpUser _ _ _ | .aByDate _ _ _ _ => False
  | _ => True

theorem Live.tracked {s : State} {k : CKey} (h : Live s k) : Tracked k := by
  cases k <;> trivial

/-! ## list / counter algebra -/

theorem sum_map_zero {α : Type} (l : List α) : (l.map fun _ => (0 : Int)).sum = 0 := by
  induction l with
  | nil => rfl
  | cons _ _ ih => simp [ih]

theorem sumBy_zero' {α : Type} (l : List α) : sumBy (fun _ => (0 : Int)) l = 0 := sum_map_zero l

theorem sumBy_add {α : Type} (f g : α → Int) (l : List α) : sumBy (fun x => f x + g x) l = sumBy f l + sumBy g l := by
  induction l with
  | nil => rfl
  | cons x l ih => simp only [sumBy_cons, ih]; omega

theorem sumBy_neg {α : Type} (f : α → Int) (l : List α) : sumBy (fun x => - f x) l = - sumBy f l := by
  induction l with
  | nil => rfl
  | cons x l ih => simp only [sumBy_cons, ih]; omega

theorem sumBy_sub {α : Type} (f g : α → Int) (l : List α) : sumBy (fun x => f x - g x) l = sumBy f l - sumBy g l := by
  induction l with
  | nil => rfl
  | cons x l ih => simp only [sumBy_cons, ih]; omega

theorem sumBy_mul_left {α : Type} (c : Int) (f : α → Int) (l : List α) : sumBy (fun x => c * f x) l = c * sumBy f l := by
  induction l with
  | nil => simp [sumBy]
  | cons x l ih => simp only [sumBy_cons, ih, Int.mul_add]

theorem sumBy_nonneg {α : Type} (f : α → Int) (l : List α) (h : ∀ x ∈ l, 0 ≤ f x) : 0 ≤ sumBy f l := by
  induction l with
  | nil => simp [sumBy]
  | cons x l ih =>
    simp only [sumBy_cons]
    have := h x (by simp)
    have := ih (fun y hy => h y (by simp [hy]))
    omega

/-- a sum of non-negative terms that is zero has only zero terms -/
theorem sumBy_eq_zero_term {α : Type} (f : α → Int) (l : List α) (h : ∀ x ∈ l, 0 ≤ f x) (h0 : sumBy f l = 0) :
    ∀ x ∈ l, f x = 0 := by
  induction l with
  | nil => intro x hx; simp at hx
  | cons y l ih =>
    simp only [sumBy_cons] at h0
    have h1 := h y (by simp)
    have h2 := sumBy_nonneg f l (fun z hz => h z (by simp [hz]))
    intro x hx
    rcases List.mem_cons.mp hx with rfl | hm
    · omega
    · exact ih (fun z hz => h z (by simp [hz])) (by omega) x hm

/-- exchanging two finite sums -/
theorem sumBy_comm {α β : Type} (f : α → β → Int) (l : List α) (m : List β) :
    sumBy (fun x => sumBy (fun y => f x y) m) l = sumBy (fun y => sumBy (fun x => f x y) l) m := by
  induction l with
  | nil => simp [sumBy, sum_map_zero]
  | cons x l ih => simp only [sumBy_cons, ih, sumBy_add]

/-- over a duplicate-free list, the indicator of one element sums to the membership indicator -/
theorem sumBy_ite_eq_nodup {α : Type} [DecidableEq α] (l : List α) (hl : l.Nodup) (a : α) (v : Int) :
    sumBy (fun x => if x = a then v else 0) l = if a ∈ l then v else 0 := by
  induction l with
  | nil => simp [sumBy]
  | cons y l ih =>
    simp only [List.nodup_cons] at hl
    simp only [sumBy_cons, ih hl.2, List.mem_cons]
    by_cases h : y = a
    · subst h; simp [hl.1]
    · have : ¬ a = y := fun e => h e.symm
      simp [h, this]

theorem get_eq_sumBy (m : List (CKey × Int)) (k : CKey) : get m k = sumBy (fun e => if e.1 = k then e.2 else 0) m := by
  induction m with
  | nil => rfl
  | cons e m ih => rw [get_cons, sumBy_cons, ih]

/-- a key without entries reads as 0 -/
theorem get_eq_zero_of_absent (m : List (CKey × Int)) (k : CKey) (h : ∀ e ∈ m, e.1 ≠ k) : get m k = 0 := by
  rw [get_eq_sumBy]; exact sumBy_zero _ _ (fun e he => by simp [h e he])

/-- deleting entries of other keys does not change a counter -/
theorem get_filter (m : List (CKey × Int)) (p : CKey × Int → Bool) (k : CKey) (h : ∀ e ∈ m, e.1 = k → p e = true) :
    get (m.filter p) k = get m k := by
  induction m with
  | nil => rfl
  | cons e m ih =>
    have ih' := ih (fun x hx => h x (by simp [hx]))
    by_cases hp : p e = true
    · simp only [List.filter_cons, hp, if_true, get_cons, ih']
    · have : e.1 ≠ k := fun hk => hp (h e (by simp) hk)
      rw [List.filter_cons_of_neg hp, get_cons, if_neg this, ih']; omega

/-! ## the trigger's deltas per key -/

/-- the thirteen deltas of `jobs_after_update` for OLD = `o`, NEW = `n` -/
def trigOf (s : State) (o n : Job) : Deltas :=
  trig o.state n.state o.cancelled n.cancelled o.alwaysRun (gcOf s o) o.cores

theorem jobDeltas_eq (s : State) (o n : Job) : jobDeltas s o n =
    ((ancestorsOf s n.batch n.group).flatMap fun a =>
      [(CKey.cReady n.batch n.update a n.ic, (trigOf s o n).delta_n_ready_cancellable_jobs),
       (CKey.cReadyCores n.batch n.update a n.ic, (trigOf s o n).delta_ready_cancellable_cores_mcpu),
       (CKey.cCreating n.batch n.update a n.ic, (trigOf s o n).delta_n_creating_cancellable_jobs),
       (CKey.cRunning n.batch n.update a n.ic, (trigOf s o n).delta_n_running_cancellable_jobs),
       (CKey.cRunningCores n.batch n.update a n.ic, (trigOf s o n).delta_running_cancellable_cores_mcpu)]) ++
    [(CKey.uReady (userOf s n.batch) n.ic, (trigOf s o n).delta_n_ready_jobs),
     (CKey.uRunning (userOf s n.batch) n.ic, (trigOf s o n).delta_n_running_jobs),
     (CKey.uCreating (userOf s n.batch) n.ic, (trigOf s o n).delta_n_creating_jobs),
     (CKey.uReadyCores (userOf s n.batch) n.ic, (trigOf s o n).delta_ready_cores_mcpu),
     (CKey.uRunningCores (userOf s n.batch) n.ic, (trigOf s o n).delta_running_cores_mcpu),
     (CKey.uCancReady (userOf s n.batch) n.ic, (trigOf s o n).delta_n_cancelled_ready_jobs),
     (CKey.uCancRunning (userOf s n.batch) n.ic, (trigOf s o n).delta_n_cancelled_running_jobs),
     (CKey.uCancCreating (userOf s n.batch) n.ic, (trigOf s o n).delta_n_cancelled_creating_jobs)] := rfl

/-- selection of the delta that the trigger adds to key `k` -/
def dsel (D : Deltas) : CKey → Int
  | .uReady _ _ => D.delta_n_ready_jobs
  | .uReadyCores _ _ => D.delta_ready_cores_mcpu
  | .uRunning _ _ => D.delta_n_running_jobs
  | .uRunningCores _ _ => D.delta_running_cores_mcpu
  | .uCreating _ _ => D.delta_n_creating_jobs
  | .uCancReady _ _ => D.delta_n_cancelled_ready_jobs
  | .uCancRunning _ _ => D.delta_n_cancelled_running_jobs
  | .uCancCreating _ _ => D.delta_n_cancelled_creating_jobs
  | .cReady _ _ _ _ => D.delta_n_ready_cancellable_jobs
  | .cReadyCores _ _ _ _ => D.delta_ready_cancellable_cores_mcpu
  | .cCreating _ _ _ _ => D.delta_n_creating_cancellable_jobs
  | .cRunning _ _ _ _ => D.delta_n_running_cancellable_jobs
  | .cRunningCores _ _ _ _ => D.delta_running_cancellable_cores_mcpu
  | _ => 0

/-- does the trigger for NEW row `n` write to key `k` (ignoring the committed flag)? -/
def hits (s : State) (n : Job) : CKey → Bool
  | .uReady u ic | .uReadyCores u ic | .uRunning u ic | .uRunningCores u ic | .uCreating u ic
  | .uCancReady u ic | .uCancRunning u ic | .uCancCreating u ic => decide (userOf s n.batch = u) && decide (n.ic = ic)
  | .cReady b u g ic | .cReadyCores b u g ic | .cCreating b u g ic | .cRunning b u g ic | .cRunningCores b u g ic =>
    scopeG s b u g ic n
  | _ => false

theorem sumBy_anc_hit (anc : List Nat) (hnd : anc.Nodup) (g : Nat) (P : Prop) [Decidable P] (v : Int) :
    (anc.map fun a => if a = g ∧ P then v else 0).sum = if g ∈ anc ∧ P then v else 0 := by
  by_cases hP : P
  · simp only [hP, and_true]
    exact sumBy_ite_eq_nodup anc hnd g v
  · simp only [hP, and_false, if_false]; exact sum_map_zero anc

theorem sum_anc_key (s : State) (n : Job) (hnd : (ancestorsOf s n.batch n.group).Nodup) (b u g ic : Nat) (v : Int)
    (mk : Nat → Nat → Nat → Nat → CKey)
    (inj : ∀ a b c d a' b' c' d', (mk a b c d = mk a' b' c' d') = (a = a' ∧ b = b' ∧ c = c' ∧ d = d')) :
    ((ancestorsOf s n.batch n.group).map fun x => if mk n.batch n.update x n.ic = mk b u g ic then v else 0).sum =
      if scopeG s b u g ic n = true then v else 0 := by
  simp only [inj]
  have e : ∀ x : Nat, (n.batch = b ∧ n.update = u ∧ x = g ∧ n.ic = ic) = (x = g ∧ (n.batch = b ∧ n.update = u ∧ n.ic = ic)) := by
    intro x; apply propext; constructor
    · rintro ⟨h1, h2, h3, h4⟩; exact ⟨h3, h1, h2, h4⟩
    · rintro ⟨h3, h1, h2, h4⟩; exact ⟨h1, h2, h3, h4⟩
  simp only [e]
  rw [sumBy_anc_hit _ hnd]
  by_cases hb : n.batch = b
  · subst hb
    simp only [scopeG, Bool.and_eq_true, decide_eq_true_eq, true_and]
    congr 1
    apply propext; constructor
    · rintro ⟨h1, h2, h3⟩; exact ⟨⟨h2, h1⟩, h3⟩
    · rintro ⟨⟨h2, h1⟩, h3⟩; exact ⟨h1, h2, h3⟩
  · simp [scopeG, hb]

theorem get_jobDeltas (s : State) (o n : Job) (hnd : (ancestorsOf s n.batch n.group).Nodup) (k : CKey) :
    get (jobDeltas s o n) k = if hits s n k then dsel (trigOf s o n) k else 0 := by
  rw [jobDeltas_eq, get_append, get_flatMap]
  cases k <;>
    simp only [get_cons, get_nil, reduceCtorEq, if_false, Int.zero_add, Int.add_zero, sum_map_zero, hits, dsel,
      CKey.uReady.injEq, CKey.uReadyCores.injEq, CKey.uRunning.injEq, CKey.uRunningCores.injEq, CKey.uCreating.injEq,
      CKey.uCancReady.injEq, CKey.uCancRunning.injEq, CKey.uCancCreating.injEq, Bool.and_eq_true, decide_eq_true_eq,
      Bool.false_eq_true]
  · exact sum_anc_key s n hnd _ _ _ _ _ CKey.cReady (by intros; simp)
  · exact sum_anc_key s n hnd _ _ _ _ _ CKey.cReadyCores (by intros; simp)
  · exact sum_anc_key s n hnd _ _ _ _ _ CKey.cCreating (by intros; simp)
  · exact sum_anc_key s n hnd _ _ _ _ _ CKey.cRunning (by intros; simp)
  · exact sum_anc_key s n hnd _ _ _ _ _ CKey.cRunningCores (by intros; simp)


/-- the immutable columns agree -/
def SameCols (o n : Job) : Prop :=
  n.batch = o.batch ∧ n.update = o.update ∧ n.group = o.group ∧ n.alwaysRun = o.alwaysRun ∧ n.cores = o.cores ∧ n.ic = o.ic

theorem JobFrame.sameCols {f : Job → Job} (hf : JobFrame f) (x : Job) : SameCols x (f x) := by
  obtain ⟨a1, _, a3, a4, a5, a6, a7, _⟩ := hf x
  exact ⟨a1, a3, a4, a5, a6, a7⟩

theorem scopeG_false_of_committed {s : State} {b u g ic : Nat} {j : Job} (hk : updCommitted s b u = false)
    (hc : updCommitted s j.batch j.update = true) : scopeG s b u g ic j = false := by
  unfold scopeG
  by_cases h1 : j.batch = b
  · by_cases h2 : j.update = u
    · rw [h1, h2, hk] at hc; exact absurd hc (by simp)
    · simp [h2]
  · simp [h1]

/-- the per-row lemma in terms of weights: for a row of a committed update the trigger adds, to every live tracked
key, exactly `weight(NEW) − weight(OLD)` -/
theorem jobDeltas_w (s : State) (o n : Job) (hfr : SameCols o n) (hnd : (ancestorsOf s o.batch o.group).Nodup)
    (hc : updCommitted s o.batch o.update = true) (k : CKey) (hk : Live s k) :
    get (jobDeltas s o n) k = w s k n - w s k o := by
  obtain ⟨e1, e2, e3, e4, e5, e6⟩ := hfr
  rw [get_jobDeltas s o n (by rw [e1, e3]; exact hnd)]
  cases k
  case uReady u ic =>
    simp only [hits, dsel, w, uw, scopeU, liveB, cancB, gcOf, trigOf, e1, e2, e3, e4, e5, e6, hc, Bool.and_true, trig_ready]
    split_ifs <;> simp
  case uReadyCores u ic =>
    simp only [hits, dsel, w, uw, scopeU, liveB, cancB, gcOf, trigOf, e1, e2, e3, e4, e5, e6, hc, Bool.and_true, (trig_cores _ _ _ _ _ _ _).1, trig_ready]
    split_ifs <;> simp [Int.sub_mul]
  case uRunning u ic =>
    simp only [hits, dsel, w, uw, scopeU, liveB, cancB, gcOf, trigOf, e1, e2, e3, e4, e5, e6, hc, Bool.and_true, trig_running]
    split_ifs <;> simp
  case uRunningCores u ic =>
    simp only [hits, dsel, w, uw, scopeU, liveB, cancB, gcOf, trigOf, e1, e2, e3, e4, e5, e6, hc, Bool.and_true, (trig_cores _ _ _ _ _ _ _).2.1, trig_running]
    split_ifs <;> simp [Int.sub_mul]
  case uCreating u ic =>
    simp only [hits, dsel, w, uw, scopeU, liveB, cancB, gcOf, trigOf, e1, e2, e3, e4, e5, e6, hc, Bool.and_true, trig_creating]
    split_ifs <;> simp
  case uCancReady u ic =>
    simp only [hits, dsel, w, uw, scopeU, liveB, cancB, gcOf, trigOf, e1, e2, e3, e4, e5, e6, hc, Bool.and_true, trig_cancReady]
    split_ifs <;> simp
  case uCancRunning u ic =>
    simp only [hits, dsel, w, uw, scopeU, liveB, cancB, gcOf, trigOf, e1, e2, e3, e4, e5, e6, hc, Bool.and_true, trig_cancRunning]
    split_ifs <;> simp
  case uCancCreating u ic =>
    simp only [hits, dsel, w, uw, scopeU, liveB, cancB, gcOf, trigOf, e1, e2, e3, e4, e5, e6, hc, Bool.and_true, trig_cancCreating]
    split_ifs <;> simp
  case cReady b u g ic =>
    have hsc : scopeG s b u g ic n = scopeG s b u g ic o := by simp only [scopeG, e1, e2, e3, e6]
    simp only [hits, dsel, w, gw, hsc, cblB, gcOf, trigOf, e1, e2, e3, e4, e5, e6, trig_readyCancellable]
    cases scopeG s b u g ic o <;> simp
  case cReadyCores b u g ic =>
    have hsc : scopeG s b u g ic n = scopeG s b u g ic o := by simp only [scopeG, e1, e2, e3, e6]
    simp only [hits, dsel, w, gw, hsc, cblB, gcOf, trigOf, e1, e2, e3, e4, e5, e6, (trig_cores _ _ _ _ _ _ _).2.2.1, trig_readyCancellable]
    cases scopeG s b u g ic o <;> simp [Int.sub_mul]
  case cCreating b u g ic =>
    have hsc : scopeG s b u g ic n = scopeG s b u g ic o := by simp only [scopeG, e1, e2, e3, e6]
    simp only [hits, dsel, w, gw, hsc, cblB, gcOf, trigOf, e1, e2, e3, e4, e5, e6, trig_creatingCancellable]
    cases scopeG s b u g ic o <;> simp
  case cRunning b u g ic =>
    have hsc : scopeG s b u g ic n = scopeG s b u g ic o := by simp only [scopeG, e1, e2, e3, e6]
    simp only [hits, dsel, w, gw, hsc, cblB, gcOf, trigOf, e1, e2, e3, e4, e5, e6, trig_runningCancellable]
    cases scopeG s b u g ic o <;> simp
  case cRunningCores b u g ic =>
    have hsc : scopeG s b u g ic n = scopeG s b u g ic o := by simp only [scopeG, e1, e2, e3, e6]
    simp only [hits, dsel, w, gw, hsc, cblB, gcOf, trigOf, e1, e2, e3, e4, e5, e6, (trig_cores _ _ _ _ _ _ _).2.2.2, trig_runningCancellable]
    cases scopeG s b u g ic o <;> simp [Int.sub_mul]
  case sJobs b u g ic =>
    have h1 : scopeG s b u g ic o = false := scopeG_false_of_committed hk hc
    have h2 : scopeG s b u g ic n = false := scopeG_false_of_committed hk (by rw [e1, e2]; exact hc)
    simp [hits, w, gw, h1, h2]
  case sReady b u g ic =>
    have h1 : scopeG s b u g ic o = false := scopeG_false_of_committed hk hc
    have h2 : scopeG s b u g ic n = false := scopeG_false_of_committed hk (by rw [e1, e2]; exact hc)
    simp [hits, w, gw, h1, h2]
  case sReadyCores b u g ic =>
    have h1 : scopeG s b u g ic o = false := scopeG_false_of_committed hk hc
    have h2 : scopeG s b u g ic n = false := scopeG_false_of_committed hk (by rw [e1, e2]; exact hc)
    simp [hits, w, gw, h1, h2]
  all_goals exact absurd hk (by simp [Live])


/-! ## the environment the weights read -/

/-- `s'` agrees with `s` on everything the weights and the trigger read besides the job rows -/
structure SameEnv (s s' : State) : Prop where
  user : ∀ b, userOf s' b = userOf s b
  batch : ∀ b, (findBatch s' b).isSome = (findBatch s b).isSome
  upd : ∀ b u, updCommitted s' b u = updCommitted s b u
  anc : ∀ b g, ancestorsOf s' b g = ancestorsOf s b g
  canc : s'.cancelled = s.cancelled

theorem SameEnv.refl (s : State) : SameEnv s s := ⟨fun _ => rfl, fun _ => rfl, fun _ _ => rfl, fun _ _ => rfl, rfl⟩

theorem SameEnv.trans {a b c : State} (h1 : SameEnv a b) (h2 : SameEnv b c) : SameEnv a c :=
  ⟨fun x => (h2.user x).trans (h1.user x), fun x => (h2.batch x).trans (h1.batch x),
   fun x y => (h2.upd x y).trans (h1.upd x y), fun x y => (h2.anc x y).trans (h1.anc x y), h2.canc.trans h1.canc⟩

theorem sameEnv_gc {s s' : State} (h : SameEnv s s') (b g : Nat) : groupCancelled s' b g = groupCancelled s b g := by
  unfold groupCancelled; rw [h.anc, h.canc]

theorem sameEnv_w {s s' : State} (h : SameEnv s s') (k : CKey) (j : Job) : w s' k j = w s k j := by
  cases k <;> first | rfl | (simp only [w, uw, gw, scopeU, scopeG, liveB, cancB, cblB, gcOf, sameEnv_gc h, h.user, h.upd, h.anc]; done) | (simp only [w, uw, gw, scopeU, scopeG, liveB, cancB, cblB, gcOf, sameEnv_gc h, h.user, h.upd, h.anc]; rfl)

theorem sameEnv_live {s s' : State} (h : SameEnv s s') (k : CKey) : Live s' k ↔ Live s k := by
  cases k <;> simp only [Live, sameEnv_gc h, h.upd]

theorem SameEnv.of_eq {s s' : State} (hb : s'.batches = s.batches) (hu : s'.updates = s.updates)
    (hg : s'.groups = s.groups) (hc : s'.cancelled = s.cancelled) : SameEnv s s' := by
  refine ⟨?_, ?_, ?_, ?_, hc⟩
  · intro b; unfold userOf findBatch; rw [hb]
  · intro b; unfold findBatch; rw [hb]
  · intro b u; unfold updCommitted findUpdate; rw [hu]
  · intro b g; unfold ancestorsOf findGroup; rw [hg]

theorem sameEnv_updateJobs (s : State) (p : Job → Bool) (f : Job → Job) : SameEnv s (updateJobs s p f) :=
  SameEnv.of_eq rfl rfl rfl rfl

theorem ancestorsOf_map {s s' : State} {F : Group → Group} (hF : GroupFrame F) (e : s'.groups = s.groups.map F)
    (b g : Nat) : ancestorsOf s' b g = ancestorsOf s b g := by
  unfold ancestorsOf findGroup
  rw [e, List.find?_map]
  have : ((fun x : Group => decide (x.batch = b ∧ x.id = g)) ∘ F) = (fun x : Group => decide (x.batch = b ∧ x.id = g)) := by
    funext x; simp [(hF x).1, (hF x).2.1]
  rw [this]
  cases List.find? (fun x : Group => decide (x.batch = b ∧ x.id = g)) s.groups with
  | none => rfl
  | some x => simp [(hF x).2.2.1]

theorem findBatch_map {s s' : State} {F : Batch → Batch} (hF : ∀ x, (F x).id = x.id ∧ (F x).user = x.user)
    (e : s'.batches = s.batches.map F) (b : Nat) : findBatch s' b = (findBatch s b).map F := by
  unfold findBatch
  rw [e, List.find?_map]
  have : ((fun x : Batch => decide (x.id = b)) ∘ F) = (fun x : Batch => decide (x.id = b)) := by
    funext x; simp [(hF x).1]
  rw [this]

/-- batches and groups updated in place (identity columns kept), updates and cancellation marks untouched -/
theorem SameEnv.of_maps {s s' : State} {FB : Batch → Batch} (hFB : ∀ x, (FB x).id = x.id ∧ (FB x).user = x.user)
    (hb : s'.batches = s.batches.map FB) (hu : s'.updates = s.updates)
    {FG : Group → Group} (hFG : GroupFrame FG) (hg : s'.groups = s.groups.map FG) (hc : s'.cancelled = s.cancelled) :
    SameEnv s s' := by
  refine ⟨?_, ?_, ?_, ancestorsOf_map hFG hg, hc⟩
  · intro b; unfold userOf; rw [findBatch_map hFB hb]
    cases findBatch s b with
    | none => rfl
    | some x => simp [(hFB x).2]
  · intro b; rw [findBatch_map hFB hb]; simp
  · intro b u; unfold updCommitted findUpdate; rw [hu]

/-- a stage that touches neither the job rows, nor the environment, nor any live tracked counter -/
structure Quiet (s s' : State) : Prop where
  env : SameEnv s s'
  jobs : s'.jobs = s.jobs
  ctr : ∀ k, Live s k → get s'.ctr k = get s.ctr k

theorem Quiet.refl (s : State) : Quiet s s := ⟨SameEnv.refl s, rfl, fun _ _ => rfl⟩
theorem Quiet.trans {a b c : State} (h1 : Quiet a b) (h2 : Quiet b c) : Quiet a c :=
  ⟨h1.env.trans h2.env, h2.jobs.trans h1.jobs,
   fun k hk => (h2.ctr k ((sameEnv_live h1.env k).mpr hk)).trans (h1.ctr k hk)⟩

theorem countersInv_quiet {s s' : State} (hq : Quiet s s') (h : CountersInv s) : CountersInv s' := by
  intro k hk
  have hk' := (sameEnv_live hq.env k).mp hk
  rw [hq.ctr k hk', hq.jobs, h k hk']
  exact sumBy_congr _ _ _ (fun j _ => (sameEnv_w hq.env k j).symm)

/-! ## structural invariants -/

structure Struct (s : State) : Prop where
  ancNodup : ∀ b d, (ancestorsOf s b d).Nodup
  ancSelf : ∀ b d a, a ∈ ancestorsOf s b d → a ∈ ancestorsOf s b a
  ancTrans : ∀ b d a, a ∈ ancestorsOf s b d → ∀ x ∈ ancestorsOf s b a, x ∈ ancestorsOf s b d
  ancLinear : ∀ b d a g, a ∈ ancestorsOf s b d → g ∈ ancestorsOf s b d → a ∈ ancestorsOf s b g ∨ g ∈ ancestorsOf s b a
  ancRoot : ∀ b d, ancestorsOf s b d ≠ [] → 0 ∈ ancestorsOf s b d
  jobGroup : ∀ j ∈ s.jobs, j.group ∈ ancestorsOf s j.batch j.group
  jobBatch : ∀ j ∈ s.jobs, (findBatch s j.batch).isSome = true
  uncommitted : ∀ j ∈ s.jobs, updCommitted s j.batch j.update = false →
    j.cancelled = false ∧ (j.state = .Pending ∨ j.state = .Ready)

/-- the part of `Struct` that only reads the ancestor relation -/
theorem Struct.of_env {s s' : State} (hs : Struct s) (he : SameEnv s s')
    (hj : ∀ j ∈ s'.jobs, j.group ∈ ancestorsOf s j.batch j.group ∧ (findBatch s j.batch).isSome = true ∧
      (updCommitted s j.batch j.update = false → j.cancelled = false ∧ (j.state = .Pending ∨ j.state = .Ready))) :
    Struct s' := by
  refine ⟨?_, ?_, ?_, ?_, ?_, ?_, ?_, ?_⟩
  · intro b d; rw [he.anc]; exact hs.ancNodup b d
  · intro b d a; rw [he.anc, he.anc]; exact hs.ancSelf b d a
  · intro b d a; rw [he.anc, he.anc]; exact hs.ancTrans b d a
  · intro b d a g; rw [he.anc, he.anc, he.anc]; exact hs.ancLinear b d a g
  · intro b d; rw [he.anc]; exact hs.ancRoot b d
  · intro j hjm; rw [he.anc]; exact (hj j hjm).1
  · intro j hjm; rw [he.batch]; exact (hj j hjm).2.1
  · intro j hjm; rw [he.upd]; exact (hj j hjm).2.2

theorem struct_quiet {s s' : State} (hq : Quiet s s') (hs : Struct s) : Struct s' :=
  hs.of_env hq.env (fun j hj => by
    rw [hq.jobs] at hj
    exact ⟨hs.jobGroup j hj, hs.jobBatch j hj, hs.uncommitted j hj⟩)

/-! ## `UPDATE jobs` on rows of committed updates -/

theorem countersInv_updateJobs (s : State) (p : Job → Bool) (f : Job → Job) (hf : JobFrame f)
    (hnd : ∀ b d, (ancestorsOf s b d).Nodup)
    (hc : ∀ x ∈ s.jobs, p x = true → updCommitted s x.batch x.update = true) (h : CountersInv s) :
    CountersInv (updateJobs s p f) := by
  intro k hk
  have he := sameEnv_updateJobs s p f
  have hk' := (sameEnv_live he k).mp hk
  rw [updateJobs_get, updateJobs_jobs, sumBy_map_diff, h k hk', Int.add_comm]
  rw [sumBy_congr _ _ _ (fun j _ => sameEnv_w he k j)]
  congr 1
  apply sumBy_congr
  intro x hx
  rw [sameEnv_w he, sameEnv_w he]
  by_cases hp : p x = true
  · simp only [hp, if_true]
    exact jobDeltas_w s x (f x) (hf.sameCols x) (hnd _ _) (hc x hx hp) k hk'
  · simp [hp]

theorem struct_updateJobs (s : State) (p : Job → Bool) (f : Job → Job) (hf : JobFrame f)
    (hc : ∀ x ∈ s.jobs, p x = true → updCommitted s x.batch x.update = true) (hs : Struct s) :
    Struct (updateJobs s p f) := by
  refine hs.of_env (sameEnv_updateJobs s p f) ?_
  intro j hj
  rw [updateJobs_jobs, List.mem_map] at hj
  obtain ⟨x, hx, rfl⟩ := hj
  by_cases hp : p x = true
  · simp only [hp, if_true]
    obtain ⟨a1, _, a3, a4, _⟩ := hf x
    rw [a1, a3, a4]
    refine ⟨hs.jobGroup x hx, hs.jobBatch x hx, ?_⟩
    intro hu; rw [hc x hx hp] at hu; exact absurd hu (by simp)
  · simp only [hp]
    exact ⟨hs.jobGroup x hx, hs.jobBatch x hx, hs.uncommitted x hx⟩


/-! ## quiet stages -/

def Inv (s : State) : Prop := Struct s ∧ CountersInv s

theorem inv_quiet {s s' : State} (hq : Quiet s s') (h : Inv s) : Inv s' :=
  ⟨struct_quiet hq h.1, countersInv_quiet hq h.2⟩

theorem inv_updateJobs (s : State) (p : Job → Bool) (f : Job → Job) (hf : JobFrame f)
    (hc : ∀ x ∈ s.jobs, p x = true → updCommitted s x.batch x.update = true) (h : Inv s) : Inv (updateJobs s p f) :=
  ⟨struct_updateJobs s p f hf hc h.1, countersInv_updateJobs s p f hf h.1.ancNodup hc h.2⟩

/-- a list of deltas for billing aggregates only -/
def Untracked (l : List (CKey × Int)) : Prop := ∀ e ∈ l, ¬ Tracked e.1

theorem get_untracked {l : List (CKey × Int)} (h : Untracked l) (k : CKey) (hk : Tracked k) : get l k = 0 :=
  get_eq_zero_of_absent l k (fun e he hek => h e he (hek ▸ hk))

theorem untracked_flatMap {α : Type} (l : List α) (f : α → List (CKey × Int)) (h : ∀ x ∈ l, Untracked (f x)) :
    Untracked (l.flatMap f) := by
  intro e he
  rw [List.mem_flatMap] at he
  obtain ⟨x, hx, hex⟩ := he
  exact h x hx e hex

theorem untracked_billingDeltas (s : State) (d b j a : Nat) (diff : Int) : Untracked (billingDeltas s d b j a diff) := by
  unfold billingDeltas
  split_ifs
  · intro e he; simp at he
  · apply untracked_flatMap
    intro r _ e he
    simp only [List.mem_append, List.mem_cons, List.mem_map, List.not_mem_nil, or_false] at he
    rcases he with (rfl | rfl | rfl) | ⟨g, _, rfl⟩ <;> simp [Tracked]

theorem quiet_of_eq {s s' : State} (hb : s'.batches = s.batches) (hu : s'.updates = s.updates)
    (hg : s'.groups = s.groups) (hc : s'.cancelled = s.cancelled) (hj : s'.jobs = s.jobs) (hctr : s'.ctr = s.ctr) :
    Quiet s s' := ⟨SameEnv.of_eq hb hu hg hc, hj, fun _ _ => by rw [hctr]⟩

theorem quiet_updateAttempts (s : State) (d : Nat) (p : Attempt → Bool)
    (f : Generated.AttemptsTrigger.Row → Generated.AttemptsTrigger.Row) : Quiet s (updateAttempts s d p f) := by
  refine ⟨SameEnv.of_eq rfl rfl rfl rfl, rfl, ?_⟩
  intro k hk
  show get (addMany _ s.ctr) k = _
  rw [get_addMany, get_untracked (untracked_flatMap _ _ (fun a _ => untracked_billingDeltas _ _ _ _ _ _)) k hk.tracked]
  omega

theorem quiet_addAttempt (s : State) (b j : Nat) (a i : Option Nat) (c : Int) : Quiet s (addAttempt s b j a i c).1 :=
  quiet_of_eq (by simp) (by simp) (by simp) (by simp) (by simp) (by simp)

theorem quiet_freeAdd (s : State) (i : Option Nat) (d : Int) : Quiet s (freeAdd s i d) := quiet_of_eq rfl rfl rfl rfl rfl rfl

theorem quiet_endAttempts (s : State) (d : Nat) (p : Attempt → Bool) (ts : Int) (r : String) :
    Quiet s (endAttempts s d p ts r) := quiet_updateAttempts s d _ _

theorem quiet_schedulePrep (s : State) (b j a i : Nat) (job : Job) : Quiet s (schedulePrep s b j a i job) :=
  quiet_addAttempt s b j _ _ _

theorem quiet_startPrep (s : State) (b j a i : Nat) (ts : Int) (d : Nat) (job : Job) :
    Quiet s (startPrep s b j a i ts d job) :=
  (quiet_addAttempt s b j _ _ _).trans (quiet_updateAttempts _ d _ _)

theorem quiet_completePrep (s : State) (b j : Nat) (att inst : Option Nat) (st e : Option Int) (r : String) (d : Nat)
    (job : Job) : Quiet s (completePrep s b j att inst st e r d job) := by
  unfold completePrep
  dsimp only
  have h1 := quiet_addAttempt s b j att inst job.cores
  cases att with
  | none => dsimp only; split_ifs
            · exact h1.trans (quiet_freeAdd _ _ _)
            · exact h1
  | some a => dsimp only; split_ifs
              · exact (h1.trans (quiet_updateAttempts _ d _ _)).trans (quiet_freeAdd _ _ _)
              · exact h1.trans (quiet_updateAttempts _ d _ _)

theorem quiet_unschedulePrep (s : State) (b j a i : Nat) (e : Int) (r : String) (d : Nat) (job : Job) :
    Quiet s (unschedulePrep s b j a i e r d job) := by
  unfold unschedulePrep
  dsimp only
  split_ifs
  · exact (quiet_endAttempts s d _ e r).trans (quiet_freeAdd _ _ _)
  · exact quiet_endAttempts s d _ e r

theorem batchFrame_id : ∀ x : Batch, (id x).id = x.id ∧ (id x).user = x.user := fun _ => ⟨rfl, rfl⟩

theorem quiet_tallyGroups (s : State) (b g : Nat) (ns : JState) : Quiet s (tallyGroups s b g ns) := by
  refine ⟨SameEnv.of_maps batchFrame_id (by simp [tallyGroups]) rfl (GroupFrame.ite _ (groupFrame_tally ns)) rfl rfl,
    rfl, fun _ _ => rfl⟩

theorem quiet_markGroupsComplete (s : State) (b g : Nat) : Quiet s (markGroupsComplete s b g) := by
  refine ⟨SameEnv.of_maps batchFrame_id (by simp [markGroupsComplete]) rfl
    (GroupFrame.ite _ (F := fun x => { x with state := .complete }) (fun _ => ⟨rfl, rfl, rfl, rfl⟩)) rfl rfl,
    rfl, fun _ _ => rfl⟩

theorem quiet_completeBatchIfDone (s : State) (b : Nat) : Quiet s (completeBatchIfDone s b) := by
  refine ⟨SameEnv.of_maps (FB := fun x => if x.id = b ∧ rootCompleted s b = batchNJobs s b then { x with state := .complete } else x)
    (fun x => by split_ifs <;> exact ⟨rfl, rfl⟩) rfl rfl GroupFrame.id (by simp [completeBatchIfDone]) rfl,
    rfl, fun _ _ => rfl⟩


/-! ## driver transactions: `UPDATE jobs` on one row / on the rows of an instance / on a row and its children -/

/-- the rows selected by (batch, job id) belong to a committed update -/
def TargetCommitted (s : State) (b j : Nat) : Prop :=
  ∀ x ∈ s.jobs, isJob b j x = true → updCommitted s x.batch x.update = true

instance (s : State) (b j : Nat) : Decidable (TargetCommitted s b j) := by unfold TargetCommitted; infer_instance

theorem targetCommitted_quiet {s s' : State} (hq : Quiet s s') {b j : Nat} (h : TargetCommitted s b j) :
    TargetCommitted s' b j := by
  intro x hx hp; rw [hq.jobs] at hx; rw [hq.env.upd]; exact h x hx hp

theorem inv_schedule (s : State) (b j a i : Nat) (hok : TargetCommitted s b j) (h : Inv s) : Inv (schedule s b j a i).1 := by
  unfold schedule
  split
  · exact h
  · split_ifs
    · exact inv_updateJobs _ _ _ (jobFrame_setStateAttempt _ _) (targetCommitted_quiet (quiet_schedulePrep s b j a i _) hok)
        (inv_quiet (quiet_schedulePrep s b j a i _) h)
    · exact inv_quiet (quiet_schedulePrep s b j a i _) h

theorem inv_startLike (s : State) (b j a i : Nat) (ts : Int) (d : Nat) (need : IState) (ns : JState)
    (hok : TargetCommitted s b j) (h : Inv s) : Inv (startLike s b j a i ts d need ns).1 := by
  unfold startLike
  split
  · exact h
  · split_ifs
    · exact inv_updateJobs _ _ _ (jobFrame_setStateAttempt _ _) (targetCommitted_quiet (quiet_startPrep s b j a i ts d _) hok)
        (inv_quiet (quiet_startPrep s b j a i ts d _) h)
    · exact inv_quiet (quiet_startPrep s b j a i ts d _) h

theorem inv_unschedule (s : State) (b j a i : Nat) (e : Int) (r : String) (d : Nat)
    (hok : TargetCommitted s b j) (h : Inv s) : Inv (unschedule s b j a i e r d).1 := by
  unfold unschedule
  split
  · exact h
  · split_ifs
    · exact inv_updateJobs _ _ _ (jobFrame_setStateAttempt _ _)
        (targetCommitted_quiet (quiet_unschedulePrep s b j a i e r d _) hok)
        (inv_quiet (quiet_unschedulePrep s b j a i e r d _) h)
    · exact inv_quiet (quiet_unschedulePrep s b j a i e r d _) h

/-- a Running / Creating row belongs to a committed update (rows of uncommitted updates are Pending or Ready) -/
theorem committed_of_started {s : State} (hs : Struct s) {x : Job} (hx : x ∈ s.jobs)
    (hst : x.state = .Running ∨ x.state = .Creating) : updCommitted s x.batch x.update = true := by
  cases hu : updCommitted s x.batch x.update with
  | true => rfl
  | false =>
    obtain ⟨_, h | h⟩ := hs.uncommitted x hx hu <;> rcases hst with h' | h' <;> rw [h] at h' <;> cases h'

theorem inv_deactivate (s : State) (n : Nat) (r : String) (ts : Int) (d : Nat) (h : Inv s) :
    Inv (deactivate s n r ts d).1 := by
  unfold deactivate
  split
  · exact h
  · split_ifs
    · exact h
    · unfold deactivateApply
      have hq := quiet_endAttempts s d (fun a => a.inst = some n) ts r
      have h1 := inv_quiet hq h
      have h2 := inv_updateJobs _ (onInstance (endAttempts s d (fun a => a.inst = some n) ts r) n)
        (setStateAttempt .Ready none) (jobFrame_setStateAttempt _ _) (by
          intro x hx hp
          apply committed_of_started h1.1 hx
          unfold onInstance at hp
          simp only [Bool.and_eq_true, Bool.or_eq_true, decide_eq_true_eq] at hp
          exact hp.1) h1
      refine inv_quiet ?_ h2
      exact quiet_of_eq rfl rfl rfl rfl rfl rfl

theorem isChildOf_frame {F : Job → Job} (hF : JobFrame F) (s : State) (b j : Nat) (x : Job) :
    isChildOf s b j (F x) = isChildOf s b j x := by
  unfold isChildOf; rw [(hF x).1, (hF x).2.1]

theorem quiet_afterJobRow (s : State) (b g : Nat) (ns : JState) :
    Quiet s (markGroupsComplete (completeBatchIfDone (tallyGroups s b g ns) b) b g) :=
  ((quiet_tallyGroups s b g ns).trans (quiet_completeBatchIfDone _ b)).trans (quiet_markGroupsComplete _ b g)

theorem inv_complete (s : State) (b j : Nat) (att inst : Option Nat) (ns : JState) (st e : Option Int) (r : String)
    (d : Nat) (hok : TargetCommitted s b j)
    (hch : ∀ x ∈ s.jobs, isChildOf s b j x = true → updCommitted s x.batch x.update = true) (h : Inv s) :
    Inv (complete s b j att inst ns st e r d).1 := by
  unfold complete
  split
  · exact h
  · rename_i job _
    have hq0 := quiet_completePrep s b j att inst st e r d job
    split_ifs
    · exact inv_quiet hq0 h
    · have h0 := inv_quiet hq0 h
      have hF1 : JobFrame (fun y => if isJob b j y then setStateAttempt ns att y else y) :=
        JobFrame.ite _ (jobFrame_setStateAttempt ns att)
      have h1 := inv_updateJobs _ (isJob b j) (setStateAttempt ns att) (jobFrame_setStateAttempt _ _)
        (targetCommitted_quiet hq0 hok) h0
      have hq2 := quiet_afterJobRow (updateJobs (completePrep s b j att inst st e r d job) (isJob b j) (setStateAttempt ns att))
        b job.group ns
      have h2 := inv_quiet hq2 h1
      refine inv_updateJobs _ (isChildOf s b j) (childUpdate ns) (jobFrame_childUpdate ns) ?_ h2
      intro x hx hp
      unfold completeJob at hx
      rw [hq2.jobs, updateJobs_jobs, hq0.jobs, List.mem_map] at hx
      obtain ⟨y, hy, rfl⟩ := hx
      rw [isChildOf_frame hF1] at hp
      unfold completeJob
      rw [hq2.env.upd, (sameEnv_updateJobs _ _ _).upd, hq0.env.upd, (hF1 y).1, (hF1 y).2.2.1]
      exact hch y hy hp
    · exact inv_quiet hq0 h
    · exact inv_quiet hq0 h


/-! ## transactions that do not touch the job rows -/

theorem nodup_eraseDups {α : Type} [BEq α] [LawfulBEq α] : ∀ (n : Nat) (l : List α), l.length ≤ n → l.eraseDups.Nodup := by
  intro n
  induction n with
  | zero => intro l hl; cases l with
    | nil => simp
    | cons a as => simp at hl
  | succ n ih =>
    intro l hl
    cases l with
    | nil => simp
    | cons a as =>
      rw [List.eraseDups_cons, List.nodup_cons]
      refine ⟨?_, ih _ ?_⟩
      · rw [List.mem_eraseDups, List.mem_filter]; simp
      · have := List.length_filter_le (fun b => !b == a) as
        simp only [List.length_cons] at hl; omega

theorem eraseDups_nodup {α : Type} [BEq α] [LawfulBEq α] (l : List α) : l.eraseDups.Nodup := nodup_eraseDups _ l (Nat.le_refl _)

theorem quiet_newInstance (s : State) (n : Nat) (c : Int) (p : Bool) : Quiet s (newInstance s n c p).1 := by
  unfold newInstance; split_ifs
  · exact Quiet.refl s
  · exact quiet_of_eq rfl rfl rfl rfl rfl rfl

theorem quiet_activate (s : State) (n : Nat) : Quiet s (activate s n).1 := by
  unfold activate; model_split
  all_goals first | exact Quiet.refl s | exact quiet_of_eq rfl rfl rfl rfl rfl rfl

theorem quiet_markDeleted (s : State) (n : Nat) : Quiet s (markDeleted s n).1 := by
  unfold markDeleted; model_split
  all_goals first | exact Quiet.refl s | exact quiet_of_eq rfl rfl rfl rfl rfl rfl

theorem quiet_heartbeat (s : State) (atts : List (Nat × Nat × Nat)) (ts : Int) (d : Nat) : Quiet s (heartbeat s atts ts d).1 := by
  unfold heartbeat; dsimp only; exact quiet_updateAttempts s d _ _

theorem untracked_ite (c : Prop) [Decidable c] (a b : List (CKey × Int)) (ha : Untracked a) (hb : Untracked b) :
    Untracked (if c then a else b) := by split_ifs <;> assumption

theorem quiet_addResources (s : State) (b j a : Nat) (res : List (Nat × Int)) (d : Nat) :
    Quiet s (addResources s b j a res d).1 := by
  unfold addResources
  split_ifs
  · exact Quiet.refl s
  · refine ⟨SameEnv.of_eq rfl rfl rfl rfl, rfl, ?_⟩
    intro k hk
    have key : ∀ ds : List (CKey × Int), Untracked ds → get (addMany ds s.ctr) k = get s.ctr k :=
      fun ds h => by rw [get_addMany, get_untracked h k hk.tracked]; omega
    refine key _ ?_
    apply untracked_ite
    · intro e he; simp at he
    · apply untracked_flatMap
      intro r _ e he
      simp only [List.mem_append, List.mem_cons, List.mem_map, List.not_mem_nil, or_false] at he
      rcases he with (rfl | rfl | rfl) | ⟨g, _, rfl⟩ <;> simp [Tracked]

theorem updCommitted_append {s s' : State} {x : Update} (e : s'.updates = s.updates ++ [x]) (hx : x.committed = false)
    (b u : Nat) : updCommitted s' b u = updCommitted s b u := by
  unfold updCommitted findUpdate
  rw [e, List.find?_append]
  cases List.find? (fun x : Update => decide (x.batch = b ∧ x.id = u)) s.updates with
  | some y => rfl
  | none =>
    by_cases h : (x.batch = b ∧ x.id = u)
    · simp [List.find?_cons, h, hx]
    · simp [List.find?_cons, h]

theorem quiet_createUpdate (s : State) (b t nj ng u : Nat) : Quiet s (createUpdate s b t nj ng u).1 := by
  unfold createUpdate
  model_split
  all_goals first | exact Quiet.refl s | skip
  all_goals refine ⟨⟨fun _ => rfl, fun _ => rfl, updCommitted_append rfl rfl, fun _ _ => rfl, rfl⟩, rfl, fun _ _ => rfl⟩

theorem quiet_cleanupStaging (s : State) : Quiet s (cleanupStaging s).1 := by
  refine ⟨SameEnv.of_eq rfl rfl rfl rfl, rfl, ?_⟩
  intro k hk
  apply get_filter
  intro e _ hek
  cases k <;> simp only [hek] <;> first | rfl | (simp only [Live] at hk; simp [hk])

theorem quiet_cleanupCancellable (s : State) : Quiet s (cleanupCancellable s).1 := by
  refine ⟨SameEnv.of_eq rfl rfl rfl rfl, rfl, ?_⟩
  intro k hk
  apply get_filter
  intro e _ hek
  cases k <;> simp only [hek] <;> first | rfl | (simp only [Live] at hk; simp [hk])

theorem get_compact (m : List (CKey × Int)) (k : CKey) :
    get (((m.map (·.1)).eraseDups).map fun k => (k, get m k)) k = get m k := by
  rw [get_eq_sumBy, sumBy, List.map_map]
  show sumBy (fun x => if x = k then get m x else 0) _ = _
  rw [sumBy_congr _ (fun x => if x = k then get m k else 0) _ (fun x _ => by by_cases h : x = k <;> simp [h])]
  rw [sumBy_ite_eq_nodup _ (eraseDups_nodup _)]
  split_ifs with h
  · rfl
  · rw [List.mem_eraseDups, List.mem_map] at h
    exact (get_eq_zero_of_absent m k (fun e he hek => h ⟨e, he, hek⟩)).symm

theorem quiet_compact (s : State) : Quiet s (compact s).1 :=
  ⟨SameEnv.of_eq rfl rfl rfl rfl, rfl, fun k _ => get_compact s.ctr k⟩


/-! ## transactions that add batch / group rows -/

/-- the weight of a row only reads the environment at the row's own batch, update and group -/
theorem w_congr_at {s s' : State} (j : Job) (hu : userOf s' j.batch = userOf s j.batch)
    (hc : ∀ u, updCommitted s' j.batch u = updCommitted s j.batch u)
    (ha : ancestorsOf s' j.batch j.group = ancestorsOf s j.batch j.group) (hcc : s'.cancelled = s.cancelled) (k : CKey) :
    w s' k j = w s k j := by
  have hgc : gcOf s' j = gcOf s j := by unfold gcOf groupCancelled; rw [ha, hcc]
  have hsg : ∀ b u g ic, scopeG s' b u g ic j = scopeG s b u g ic j := by
    intro b u g ic
    unfold scopeG
    by_cases hb : j.batch = b
    · subst hb; rw [ha]
    · simp [hb]
  cases k <;> first | rfl | (simp only [w, uw, gw, scopeU, hsg, liveB, cancB, cblB, hgc, hu, hc]; done) | (simp only [w, uw, gw, scopeU, hsg, liveB, cancB, cblB, hgc, hu, hc]; rfl)

theorem ancestorsOf_append {s s' : State} {ng : List Group} (hg : s'.groups = s.groups ++ ng) (b g : Nat)
    (hne : ancestorsOf s b g ≠ []) : ancestorsOf s' b g = ancestorsOf s b g := by
  unfold ancestorsOf findGroup at *
  rw [hg, List.find?_append]
  cases h : List.find? (fun x : Group => decide (x.batch = b ∧ x.id = g)) s.groups with
  | none => rw [h] at hne; exact absurd rfl hne
  | some x => rfl

theorem findBatch_append {s s' : State} {nb : List Batch} (hb : s'.batches = s.batches ++ nb) (b : Nat)
    (h : (findBatch s b).isSome = true) : findBatch s' b = findBatch s b := by
  unfold findBatch at *
  rw [hb, List.find?_append]
  cases h' : List.find? (fun x : Batch => decide (x.id = b)) s.batches with
  | none => rw [h'] at h; exact absurd h (by simp)
  | some x => rfl

theorem groupCancelled_append {s s' : State} {ng : List Group} (hg : s'.groups = s.groups ++ ng)
    (hc : s'.cancelled = s.cancelled) (b g : Nat) (h : groupCancelled s' b g = false) : groupCancelled s b g = false := by
  cases h0 : groupCancelled s b g with
  | false => rfl
  | true =>
    have hne : ancestorsOf s b g ≠ [] := by
      intro he; unfold groupCancelled at h0; rw [he] at h0; simp at h0
    unfold groupCancelled at h h0
    rw [ancestorsOf_append hg b g hne, hc, h0] at h
    exact absurd h (by simp)

theorem countersInv_grow {s s' : State} (hs : Struct s) {nb : List Batch} (hb : s'.batches = s.batches ++ nb)
    {ng : List Group} (hg : s'.groups = s.groups ++ ng) (hu : s'.updates = s.updates) (hc : s'.cancelled = s.cancelled)
    (hj : s'.jobs = s.jobs) (hctr : s'.ctr = s.ctr) (h : CountersInv s) : CountersInv s' := by
  have hupd : ∀ b u, updCommitted s' b u = updCommitted s b u := by
    intro b u; unfold updCommitted findUpdate; rw [hu]
  intro k hk
  have hk' : Live s k := by
    cases k <;> first | exact hk | exact groupCancelled_append hg hc _ _ hk | (simp only [Live, hupd] at hk; exact hk)
  rw [hctr, hj, h k hk']
  apply sumBy_congr
  intro j hjm
  symm
  apply w_congr_at j _ (fun u => hupd _ u) _ hc
  · unfold userOf; rw [findBatch_append hb _ (hs.jobBatch j hjm)]
  · exact ancestorsOf_append hg _ _ (fun he => by have := hs.jobGroup j hjm; rw [he] at this; simp at this)

/-- `Struct` when the ancestor relation is unchanged and batches are only added -/
theorem struct_of_anc_eq {s s' : State} (hs : Struct s) {nb : List Batch} (hb : s'.batches = s.batches ++ nb)
    (ha : ∀ b g, ancestorsOf s' b g = ancestorsOf s b g) (hu : s'.updates = s.updates) (hj : s'.jobs = s.jobs) : Struct s' := by
  have hupd : ∀ b u, updCommitted s' b u = updCommitted s b u := by
    intro b u; unfold updCommitted findUpdate; rw [hu]
  refine ⟨?_, ?_, ?_, ?_, ?_, ?_, ?_, ?_⟩
  · intro b d; rw [ha]; exact hs.ancNodup b d
  · intro b d a; rw [ha, ha]; exact hs.ancSelf b d a
  · intro b d a; rw [ha, ha]; exact hs.ancTrans b d a
  · intro b d a g; rw [ha, ha, ha]; exact hs.ancLinear b d a g
  · intro b d; rw [ha]; exact hs.ancRoot b d
  · intro j hjm; rw [hj] at hjm; rw [ha]; exact hs.jobGroup j hjm
  · intro j hjm; rw [hj] at hjm; rw [findBatch_append hb _ (hs.jobBatch j hjm)]; exact hs.jobBatch j hjm
  · intro j hjm; rw [hj] at hjm; rw [hupd]; exact hs.uncommitted j hjm

/-- the ancestor relation after one group row was added -/
theorem ancestorsOf_append_one {s s' : State} {G : Group} (hg : s'.groups = s.groups ++ [G]) (b g : Nat) :
    ancestorsOf s' b g = if (findGroup s b g).isSome then ancestorsOf s b g
      else if G.batch = b ∧ G.id = g then G.ancestors else [] := by
  unfold ancestorsOf findGroup
  rw [hg, List.find?_append]
  cases List.find? (fun x : Group => decide (x.batch = b ∧ x.id = g)) s.groups with
  | some x => simp
  | none =>
    by_cases h : G.batch = b ∧ G.id = g
    · simp [List.find?_cons, h]
    · simp [List.find?_cons, h]

theorem ancestorsOf_of_not_found {s : State} {b g : Nat} (h : (findGroup s b g).isSome = false) : ancestorsOf s b g = [] := by
  unfold ancestorsOf
  cases hf : findGroup s b g with
  | none => rfl
  | some x => rw [hf] at h; simp at h

/-- adding a fresh group row whose ancestors are itself followed by the ancestors of an existing group (or nothing) -/
theorem struct_addGroup {s s' : State} (hs : Struct s) (G : Group) (hg : s'.groups = s.groups ++ [G])
    {nb : List Batch} (hb : s'.batches = s.batches ++ nb) (hu : s'.updates = s.updates) (hj : s'.jobs = s.jobs)
    (hfresh : (findGroup s G.batch G.id).isSome = false)
    (T : List Nat) (hL : G.ancestors = G.id :: T) (hT : T = [] ∨ ∃ p, T = ancestorsOf s G.batch p)
    (h0 : 0 ∈ G.ancestors) : Struct s' := by
  have hupd : ∀ b u, updCommitted s' b u = updCommitted s b u := by
    intro b u; unfold updCommitted findUpdate; rw [hu]
  have hnil : ancestorsOf s G.batch G.id = [] := ancestorsOf_of_not_found hfresh
  -- the ancestor relation of s'
  have ha : ∀ b g, ancestorsOf s' b g = if G.batch = b ∧ G.id = g then G.ancestors else ancestorsOf s b g := by
    intro b g
    rw [ancestorsOf_append_one hg]
    by_cases h : G.batch = b ∧ G.id = g
    · obtain ⟨rfl, rfl⟩ := h; simp [hfresh]
    · simp only [h, if_false]
      cases hf : (findGroup s b g).isSome with
      | true => simp
      | false => simp [ancestorsOf_of_not_found hf]
  -- no ancestor list of s mentions the new key
  have hne : ∀ b d a, a ∈ ancestorsOf s b d → ¬ (G.batch = b ∧ G.id = a) := by
    rintro b d a ha' ⟨rfl, rfl⟩
    have := hs.ancSelf _ _ _ ha'
    rw [hnil] at this; simp at this
  have hTsub : ∀ a ∈ T, ∃ p, a ∈ ancestorsOf s G.batch p := by
    intro a haT
    rcases hT with rfl | ⟨p, rfl⟩
    · simp at haT
    · exact ⟨p, haT⟩
  have hold : ∀ b a, (∃ d, a ∈ ancestorsOf s b d) → ancestorsOf s' b a = ancestorsOf s b a := by
    rintro b a ⟨d, had⟩; rw [ha, if_neg (hne b d a had)]
  refine ⟨?_, ?_, ?_, ?_, ?_, ?_, ?_, ?_⟩
  · intro b d
    rw [ha]; split_ifs with h
    · rw [hL, List.nodup_cons]
      refine ⟨?_, ?_⟩
      · intro hi
        obtain ⟨p, hp⟩ := hTsub _ hi
        exact hne _ _ _ hp ⟨rfl, rfl⟩
      · rcases hT with rfl | ⟨p, rfl⟩
        · simp
        · exact hs.ancNodup _ _
    · exact hs.ancNodup b d
  · intro b d a
    rw [ha b d]; split_ifs with h
    · obtain ⟨rfl, rfl⟩ := h
      rw [hL, List.mem_cons]
      rintro (rfl | haT)
      · rw [ha, if_pos ⟨rfl, rfl⟩, hL]; simp
      · obtain ⟨p, hp⟩ := hTsub _ haT
        rw [hold _ _ ⟨p, hp⟩]; exact hs.ancSelf _ _ _ hp
    · intro had; rw [hold _ _ ⟨d, had⟩]; exact hs.ancSelf _ _ _ had
  · intro b d a
    rw [ha b d]; split_ifs with h
    · obtain ⟨rfl, rfl⟩ := h
      rw [hL, List.mem_cons]
      rintro (rfl | haT)
      · rw [ha, if_pos ⟨rfl, rfl⟩, hL]; exact fun x hx => hx
      · rcases hT with rfl | ⟨p, rfl⟩
        · simp at haT
        · rw [hold _ _ ⟨p, haT⟩]
          intro x hx; exact List.mem_cons_of_mem _ (hs.ancTrans _ _ _ haT x hx)
    · intro had; rw [hold _ _ ⟨d, had⟩]; exact hs.ancTrans _ _ _ had
  · intro b d a g
    rw [ha b d]; split_ifs with h
    · obtain ⟨rfl, rfl⟩ := h
      rw [hL, List.mem_cons, List.mem_cons]
      rintro (rfl | haT) (rfl | hgT)
      · left; rw [ha, if_pos ⟨rfl, rfl⟩, hL]; simp
      · right; rw [ha, if_pos ⟨rfl, rfl⟩, hL]; exact List.mem_cons_of_mem _ hgT
      · left; rw [ha, if_pos ⟨rfl, rfl⟩, hL]; exact List.mem_cons_of_mem _ haT
      · rcases hT with rfl | ⟨p, rfl⟩
        · simp at haT
        · rw [hold _ _ ⟨p, haT⟩, hold _ _ ⟨p, hgT⟩]; exact hs.ancLinear _ _ _ _ haT hgT
    · intro had hgd; rw [hold _ _ ⟨d, had⟩, hold _ _ ⟨d, hgd⟩]; exact hs.ancLinear _ _ _ _ had hgd
  · intro b d
    rw [ha b d]; split_ifs with h
    · exact fun _ => h0
    · exact hs.ancRoot b d
  · intro j hjm; rw [hj] at hjm
    rw [hold _ _ ⟨_, hs.jobGroup j hjm⟩]; exact hs.jobGroup j hjm
  · intro j hjm; rw [hj] at hjm; rw [findBatch_append hb _ (hs.jobBatch j hjm)]; exact hs.jobBatch j hjm
  · intro j hjm; rw [hj] at hjm; rw [hupd]; exact hs.uncommitted j hjm


theorem inv_createBatch (s : State) (u bp t : Nat) (h : Inv s) : Inv (createBatch s u bp t).1 := by
  unfold createBatch
  split
  · exact h
  · dsimp only
    refine ⟨?_, countersInv_grow h.1 (nb := [Batch.mk s.nextBatch u bp t .complete 0 false]) rfl
      (ng := [Group.mk s.nextBatch 0 [0] none .complete 0 0 0 0 0]) rfl rfl rfl rfl rfl h.2⟩
    cases hf : (findGroup s s.nextBatch 0).isSome with
    | true =>
      refine struct_of_anc_eq h.1 (nb := [Batch.mk s.nextBatch u bp t .complete 0 false]) rfl ?_ rfl rfl
      intro b g
      rw [ancestorsOf_append_one (G := Group.mk s.nextBatch 0 [0] none .complete 0 0 0 0 0) rfl]
      cases hf' : (findGroup s b g).isSome with
      | true => simp
      | false =>
        have : ¬ (s.nextBatch = b ∧ 0 = g) := by
          rintro ⟨rfl, rfl⟩; rw [hf] at hf'; cases hf'
        simp [this, ancestorsOf_of_not_found hf']
    | false =>
      exact struct_addGroup h.1 (Group.mk s.nextBatch 0 [0] none .complete 0 0 0 0 0) rfl
        (nb := [Batch.mk s.nextBatch u bp t .complete 0 false]) rfl rfl rfl hf [] rfl (Or.inl rfl) (by simp)

theorem insertGroup_groups {s s' : State} {b upd gid parent : Nat} (h : insertGroup s b upd gid parent = some s') :
    s'.groups = s.groups ++ [Group.mk b gid (gid :: ancestorsOf s b parent) (some upd) .complete 0 0 0 0 0] := by
  unfold insertGroup at h
  split_ifs at h
  simp only [Option.some.injEq] at h; subst h; rfl

theorem inv_insertGroup {s s' : State} {b upd gid parent : Nat} (h : insertGroup s b upd gid parent = some s')
    (h0 : ∀ g ∈ s'.groups, 0 ∈ g.ancestors) (hi : Inv s) : Inv s' := by
  have hg := insertGroup_groups h
  unfold insertGroup at h
  split_ifs at h with h1 h2 h3
  simp only [Option.some.injEq] at h; subst h
  refine ⟨?_, countersInv_grow hi.1 (nb := []) (by simp) hg rfl rfl rfl rfl hi.2⟩
  refine struct_addGroup hi.1 _ hg (nb := []) (by simp) rfl rfl (by simpa using h2) (ancestorsOf s b parent) rfl
    (Or.inr ⟨parent, rfl⟩) ?_
  apply h0
  rw [hg]; simp

theorem insertGroup_sub {s s' : State} {b upd gid parent : Nat} (h : insertGroup s b upd gid parent = some s') :
    ∀ g ∈ s.groups, g ∈ s'.groups := by
  intro g hgm; rw [insertGroup_groups h]; simp [hgm]

theorem foldGroups_sub (b upd : Nat) (u : Update) (specs : List GroupSpec) :
    ∀ (s s' : State), specs.foldl (groupSpecStep b upd u) (some s) = some s' → ∀ g ∈ s.groups, g ∈ s'.groups := by
  induction specs with
  | nil => intro s s' h; simp at h; subst h; exact fun _ hg => hg
  | cons sp rest ih =>
    intro s s' h
    simp only [List.foldl_cons] at h
    cases hmid : groupSpecStep b upd u (some s) sp with
    | none => rw [hmid, foldGroups_none] at h; exact absurd h (by simp)
    | some mid =>
      rw [hmid] at h
      intro g hgm
      exact ih mid s' h g (insertGroup_sub (by simpa [groupSpecStep] using hmid) g hgm)

theorem inv_foldGroups (b upd : Nat) (u : Update) (specs : List GroupSpec) :
    ∀ (s s' : State), specs.foldl (groupSpecStep b upd u) (some s) = some s' →
      (∀ g ∈ s'.groups, 0 ∈ g.ancestors) → Inv s → Inv s' := by
  induction specs with
  | nil => intro s s' h _ hi; simp at h; subst h; exact hi
  | cons sp rest ih =>
    intro s s' h h0 hi
    simp only [List.foldl_cons] at h
    cases hmid : groupSpecStep b upd u (some s) sp with
    | none => rw [hmid, foldGroups_none] at h; exact absurd h (by simp)
    | some mid =>
      rw [hmid] at h
      have hstep := hmid
      simp only [groupSpecStep, Option.bind_some] at hstep
      exact ih mid s' h h0 (inv_insertGroup hstep (fun g hgm => h0 g (foldGroups_sub b upd u rest mid s' h g hgm)) hi)

theorem insertGroups_result (s : State) (b upd user : Nat) (specs : List GroupSpec) :
    (insertGroups s b upd user specs).1 = s ∨
    ∃ u, specs.foldl (groupSpecStep b upd u) (some s) = some (insertGroups s b upd user specs).1 := by
  unfold insertGroups
  model_split
  all_goals first | exact Or.inl rfl | skip
  next s' hr => exact Or.inr ⟨_, hr⟩

theorem inv_insertGroups (s : State) (b upd user : Nat) (specs : List GroupSpec)
    (h0 : ∀ g ∈ (insertGroups s b upd user specs).1.groups, 0 ∈ g.ancestors) (h : Inv s) :
    Inv (insertGroups s b upd user specs).1 := by
  rcases insertGroups_result s b upd user specs with e | ⟨u, hr⟩
  · rw [e]; exact h
  · exact inv_foldGroups b upd u specs s _ hr h0 h


/-! ## `_create_jobs` -/

/-- the staging and cancellable rows `_create_jobs` writes for one new job -/
def rowDeltas (s : State) (b upd : Nat) (j : Job) : List (CKey × Int) :=
  (ancestorsOf s b j.group).flatMap fun a =>
    [(CKey.sJobs b upd a j.ic, 1), (CKey.sReady b upd a j.ic, b2i (decide (j.state = .Ready))),
     (CKey.sReadyCores b upd a j.ic, b2i (decide (j.state = .Ready)) * j.cores),
     (CKey.cReady b upd a j.ic, b2i (decide (j.state = .Ready) && !j.alwaysRun)),
     (CKey.cReadyCores b upd a j.ic, b2i (decide (j.state = .Ready) && !j.alwaysRun) * j.cores)]

theorem insertJobsApply_get (s : State) (b upd : Nat) (u : Update) (specs : List JobSpec) (k : CKey) :
    get (insertJobsApply s b upd u specs).ctr k =
      sumBy (fun j => get (rowDeltas s b upd j) k) (specs.map (mkJob u b)) + get s.ctr k := by
  show get (addMany (List.flatMap _ _) s.ctr) k = _
  rw [get_addMany, get_flatMap]
  rfl

theorem get_rowDeltas (s : State) (b upd : Nat) (j : Job) (hb : j.batch = b) (hu : j.update = upd)
    (hc : j.cancelled = false) (hgc : groupCancelled s b j.group = false) (hunc : updCommitted s b upd = false)
    (hst : j.state = .Ready ∨ j.state = .Pending) (hnd : (ancestorsOf s b j.group).Nodup) (k : CKey) :
    get (rowDeltas s b upd j) k = w s k j := by
  subst hb hu
  have hsU : ∀ u ic, scopeU s u ic j = false := by intro u ic; simp [scopeU, hunc]
  have hrun : ∀ w', ind j.state .Running w' = 0 := by
    intro w'; rcases hst with h | h <;> simp [ind, h, b2i]
  have hcre : ∀ w', ind j.state .Creating w' = 0 := by
    intro w'; rcases hst with h | h <;> simp [ind, h, b2i]
  have hcbl : cblB s j = !j.alwaysRun := by simp [cblB, cancellableW, gcOf, hc, hgc]
  unfold rowDeltas
  rw [get_flatMap]
  cases k <;>
    simp only [get_cons, get_nil, reduceCtorEq, if_false, Int.zero_add, Int.add_zero, sum_map_zero, w, uw, hsU,
      Bool.false_eq_true, gw, hrun, hcre, Int.zero_mul, ite_self]
  · exact (sum_anc_key s j hnd _ _ _ _ _ CKey.cReady (by intros; simp)).trans (by simp [ind, hcbl])
  · exact (sum_anc_key s j hnd _ _ _ _ _ CKey.cReadyCores (by intros; simp)).trans (by simp [ind, hcbl])
  · exact (sum_anc_key s j hnd _ _ _ _ _ CKey.sJobs (by intros; simp)).trans (by simp)
  · exact (sum_anc_key s j hnd _ _ _ _ _ CKey.sReady (by intros; simp)).trans (by simp [ind])
  · exact (sum_anc_key s j hnd _ _ _ _ _ CKey.sReadyCores (by intros; simp)).trans (by simp [ind])


theorem mkJob_facts (u : Update) (b : Nat) (sp : JobSpec) :
    (mkJob u b sp).batch = b ∧ (mkJob u b sp).update = u.id ∧ (mkJob u b sp).cancelled = false ∧
    ((mkJob u b sp).state = .Ready ∨ (mkJob u b sp).state = .Pending) := by
  refine ⟨rfl, rfl, rfl, ?_⟩
  unfold mkJob; dsimp only; split_ifs <;> simp

theorem sameEnv_insertJobsApply (s : State) (b upd : Nat) (u : Update) (specs : List JobSpec) :
    SameEnv s (insertJobsApply s b upd u specs) := SameEnv.of_eq rfl rfl rfl rfl

theorem inv_insertJobsApply (s : State) (b upd user : Nat) (u : Update) (bt : Batch) (first : JobSpec)
    (specs : List JobSpec) (hfu : findUpdate s b upd = some u) (hfb : findBatch s b = some bt)
    (hrej : insertJobsReject s b user u bt first specs = none) (hself : GroupsSelf s) (h : Inv s) :
    Inv (insertJobsApply s b upd u specs) := by
  obtain ⟨hall, -, hunc, -, -⟩ := insertJobsReject_none hrej
  have hkey : u.batch = b ∧ u.id = upd := by
    unfold findUpdate at hfu
    simpa using List.find?_some hfu
  have hunc' : updCommitted s b upd = false := by unfold updCommitted; rw [hfu]; exact hunc
  have he := sameEnv_insertJobsApply s b upd u specs
  have hjobs : (insertJobsApply s b upd u specs).jobs = s.jobs ++ specs.map (mkJob u b) := rfl
  -- facts about the new rows
  have hnew : ∀ j ∈ specs.map (mkJob u b), j.batch = b ∧ j.update = upd ∧ j.cancelled = false ∧
      (j.state = .Ready ∨ j.state = .Pending) ∧ groupCancelled s b j.group = false ∧
      j.group ∈ ancestorsOf s b j.group := by
    intro j hj
    obtain ⟨h1, h2, -⟩ := hall j hj
    rw [List.mem_map] at hj
    obtain ⟨sp, -, rfl⟩ := hj
    obtain ⟨f1, f2, f3, f4⟩ := mkJob_facts u b sp
    refine ⟨f1, f2.trans hkey.2, f3, f4, h1, ?_⟩
    cases hg : findGroup s b (mkJob u b sp).group with
    | none => rw [hg] at h2; simp at h2
    | some grp =>
      have := self_mem_ancestors hself hg
      unfold ancestorsOf; rw [hg]; exact this
  refine ⟨?_, ?_⟩
  · refine h.1.of_env he ?_
    intro j hj
    rw [hjobs, List.mem_append] at hj
    rcases hj with hj | hj
    · exact ⟨h.1.jobGroup j hj, h.1.jobBatch j hj, h.1.uncommitted j hj⟩
    · obtain ⟨f1, f2, f3, f4, -, f6⟩ := hnew j hj
      refine ⟨by rw [f1]; exact f6, by rw [f1, hfb]; rfl, fun _ => ⟨f3, ?_⟩⟩
      rcases f4 with h' | h'
      · exact Or.inr h'
      · exact Or.inl h'
  · intro k hk
    have hk' := (sameEnv_live he k).mp hk
    rw [insertJobsApply_get, hjobs, sumBy_append, h.2 k hk', Int.add_comm]
    rw [sumBy_congr _ _ s.jobs (fun j _ => sameEnv_w he k j)]
    congr 1
    apply sumBy_congr
    intro j hj
    obtain ⟨f1, f2, f3, f4, f5, -⟩ := hnew j hj
    rw [sameEnv_w he]
    exact get_rowDeltas s b upd j f1 f2 f3 f5 hunc' f4 (h.1.ancNodup _ _) k

theorem inv_insertJobs (s : State) (b upd user : Nat) (specs : List JobSpec) (hself : GroupsSelf s) (h : Inv s) :
    Inv (insertJobs s b upd user specs).1 := by
  unfold insertJobs
  split
  · exact h
  · split
    · rename_i hfu hfb
      split
      · exact h
      · rename_i hrej
        exact inv_insertJobsApply s b upd user _ _ _ _ hfu hfb hrej hself h
    · exact h


/-! ## procedure `cancel_job_group` -/

/-- the job lies in group `g` of batch `b` or in one of its descendants -/
def under (s : State) (b g : Nat) (j : Job) : Bool := decide (j.batch = b) && decide (g ∈ ancestorsOf s b j.group)

theorem groupCancelled_cancelApply' (s : State) (b g b' d : Nat) :
    groupCancelled (cancelApply s b g) b' d =
      (groupCancelled s b' d || (decide (b' = b) && decide (g ∈ ancestorsOf s b' d))) := by
  have hanc : ancestorsOf (cancelApply s b g) b' d = ancestorsOf s b' d := rfl
  unfold groupCancelled
  rw [hanc, Bool.eq_iff_iff]
  simp only [List.any_eq_true, Bool.or_eq_true, Bool.and_eq_true, decide_eq_true_eq, cancelApply,
    List.contains_eq_mem, List.mem_append, List.mem_singleton, Prod.mk.injEq]
  constructor
  · rintro ⟨a, ha, h | ⟨h1, h2⟩⟩
    · exact Or.inl ⟨a, ha, h⟩
    · exact Or.inr ⟨h1, h2 ▸ ha⟩
  · rintro (⟨a, ha, h⟩ | ⟨h1, h2⟩)
    · exact ⟨a, ha, Or.inl h⟩
    · exact ⟨g, h2, Or.inr ⟨h1, rfl⟩⟩

theorem gcOf_cancelApply (s : State) (b g : Nat) (j : Job) :
    gcOf (cancelApply s b g) j = (gcOf s j || under s b g j) := by
  unfold gcOf under
  rw [groupCancelled_cancelApply']
  by_cases h : j.batch = b
  · subst h; rfl
  · simp [h]

theorem ind_cancel_live (st t : JState) (ar c gc un : Bool) :
    ind st t (!cancelledW ar c (gc || un)) =
      ind st t (!cancelledW ar c gc) - (if un then ind st t (cancellableW ar c gc) else 0) := by
  unfold ind cancelledW cancellableW
  cases ar <;> cases c <;> cases gc <;> cases un <;> cases (decide (st = t)) <;> decide

theorem ind_cancel_canc (st t : JState) (ar c gc un : Bool) :
    ind st t (cancelledW ar c (gc || un)) =
      ind st t (cancelledW ar c gc) + (if un then ind st t (cancellableW ar c gc) else 0) := by
  unfold ind cancelledW cancellableW
  cases ar <;> cases c <;> cases gc <;> cases un <;> cases (decide (st = t)) <;> decide

theorem ind_cancel_cbl (st t : JState) (ar c gc un : Bool) :
    ind st t (cancellableW ar c (gc || un)) =
      ind st t (cancellableW ar c gc) - (if un then ind st t (cancellableW ar c gc) else 0) := by
  unfold ind cancellableW
  cases ar <;> cases c <;> cases gc <;> cases un <;> cases (decide (st = t)) <;> decide

/-- the five cancellable counters -/
inductive CK | ready | readyCores | creating | running | runningCores
deriving DecidableEq

def CK.key : CK → Nat → Nat → Nat → Nat → CKey
  | .ready => CKey.cReady | .readyCores => CKey.cReadyCores | .creating => CKey.cCreating
  | .running => CKey.cRunning | .runningCores => CKey.cRunningCores

/-- what a cancellable counter counts per job -/
def CK.val (s : State) : CK → Job → Int
  | .ready, j => ind j.state .Ready (cblB s j)
  | .readyCores, j => ind j.state .Ready (cblB s j) * j.cores
  | .creating, j => ind j.state .Creating (cblB s j)
  | .running, j => ind j.state .Running (cblB s j)
  | .runningCores, j => ind j.state .Running (cblB s j) * j.cores

theorem w_ck (s : State) (X : CK) (b u g ic : Nat) (j : Job) : w s (X.key b u g ic) j = gw s b u g ic j (X.val s j) := by
  cases X <;> rfl

theorem live_ck (s : State) (X : CK) (b u g ic : Nat) : Live s (X.key b u g ic) ↔ groupCancelled s b g = false := by
  cases X <;> exact Iff.rfl

/-- for a user key: the sign and the cancellable counter it receives in `cancel_job_group`, with its (user, inst_coll) -/
def uSrc : CKey → Option (Int × CK × Nat × Nat)
  | .uReady u ic => some (-1, .ready, u, ic)
  | .uReadyCores u ic => some (-1, .readyCores, u, ic)
  | .uRunning u ic => some (-1, .running, u, ic)
  | .uRunningCores u ic => some (-1, .runningCores, u, ic)
  | .uCreating u ic => some (-1, .creating, u, ic)
  | .uCancReady u ic => some (1, .ready, u, ic)
  | .uCancRunning u ic => some (1, .running, u, ic)
  | .uCancCreating u ic => some (1, .creating, u, ic)
  | _ => none

/-- how the weight of a job in a user key changes when group `g` of batch `b` is cancelled -/
theorem w_cancel_user (s : State) (b g : Nat) (k : CKey) (σ : Int) (X : CK) (usr ic : Nat)
    (hk : uSrc k = some (σ, X, usr, ic)) (j : Job) :
    w (cancelApply s b g) k j = w s k j + (if under s b g j then σ * uw s usr ic j (X.val s j) else 0) := by
  have hsc : ∀ u ic, scopeU (cancelApply s b g) u ic j = scopeU s u ic j := fun _ _ => rfl
  cases k <;> simp only [uSrc, Option.some.injEq, Prod.mk.injEq, reduceCtorEq] at hk
  all_goals obtain ⟨rfl, rfl, rfl, rfl⟩ := hk
  all_goals
    simp only [w, uw, hsc, liveB, cancB, gcOf_cancelApply, ind_cancel_live, ind_cancel_canc, CK.val, cblB]
    split_ifs <;> simp [Int.sub_mul] <;> omega


theorem w_cancel_group (s : State) (b g : Nat) (X : CK) (b' u a ic : Nat) (j : Job) :
    w (cancelApply s b g) (X.key b' u a ic) j =
      w s (X.key b' u a ic) j - (if under s b g j then gw s b' u a ic j (X.val s j) else 0) := by
  have hsc : scopeG (cancelApply s b g) b' u a ic j = scopeG s b' u a ic j := rfl
  rw [w_ck, w_ck]
  cases X <;>
    simp only [gw, hsc, CK.val, cblB, gcOf_cancelApply, ind_cancel_cbl] <;>
    split_ifs <;> simp [Int.sub_mul]

theorem w_cancel_staging (s : State) (b g : Nat) (k : CKey) (hk : uSrc k = none) (hk' : ∀ X b' u a ic, k ≠ CK.key X b' u a ic)
    (j : Job) : w (cancelApply s b g) k j = w s k j := by
  have hsc : ∀ b' u a ic, scopeG (cancelApply s b g) b' u a ic j = scopeG s b' u a ic j := fun _ _ _ _ => rfl
  cases k <;> first | rfl | (simp [uSrc] at hk; done) | skip
  · exact absurd rfl (hk' .ready _ _ _ _)
  · exact absurd rfl (hk' .readyCores _ _ _ _)
  · exact absurd rfl (hk' .creating _ _ _ _)
  · exact absurd rfl (hk' .running _ _ _ _)
  · exact absurd rfl (hk' .runningCores _ _ _ _)

/-! the two `INSERT … SELECT` statements of `cancel_job_group`, row by row -/

def userRow (s : State) (b g : Nat) (r : Nat × Nat) : List (CKey × Int) :=
  [(CKey.uReady (userOf s b) r.2, - get s.ctr (.cReady b r.1 g r.2)),
   (CKey.uReadyCores (userOf s b) r.2, - get s.ctr (.cReadyCores b r.1 g r.2)),
   (CKey.uRunning (userOf s b) r.2, - get s.ctr (.cRunning b r.1 g r.2)),
   (CKey.uRunningCores (userOf s b) r.2, - get s.ctr (.cRunningCores b r.1 g r.2)),
   (CKey.uCreating (userOf s b) r.2, - get s.ctr (.cCreating b r.1 g r.2)),
   (CKey.uCancReady (userOf s b) r.2, get s.ctr (.cReady b r.1 g r.2)),
   (CKey.uCancRunning (userOf s b) r.2, get s.ctr (.cRunning b r.1 g r.2)),
   (CKey.uCancCreating (userOf s b) r.2, get s.ctr (.cCreating b r.1 g r.2))]

def groupRow (s : State) (b g a : Nat) (r : Nat × Nat) : List (CKey × Int) :=
  [(CKey.cReady b r.1 a r.2, - get s.ctr (.cReady b r.1 g r.2)),
   (CKey.cReadyCores b r.1 a r.2, - get s.ctr (.cReadyCores b r.1 g r.2)),
   (CKey.cCreating b r.1 a r.2, - get s.ctr (.cCreating b r.1 g r.2)),
   (CKey.cRunning b r.1 a r.2, - get s.ctr (.cRunning b r.1 g r.2)),
   (CKey.cRunningCores b r.1 a r.2, - get s.ctr (.cRunningCores b r.1 g r.2))]

theorem cancelDeltas_eq (s : State) (b g : Nat) : cancelDeltas s b g =
    ((cancellableRows s b g).filter fun r => updCommitted s b r.1).flatMap (userRow s b g) ++
    (ancestorsOf s b g).flatMap (fun a => (cancellableRows s b g).flatMap (groupRow s b g a)) := rfl

theorem get_userRow (s : State) (b g : Nat) (r : Nat × Nat) (k : CKey) :
    get (userRow s b g r) k = match uSrc k with
      | some (σ, X, usr, ic) => if userOf s b = usr ∧ r.2 = ic then σ * get s.ctr (X.key b r.1 g r.2) else 0
      | none => 0 := by
  unfold userRow
  cases k <;>
    simp only [get_cons, get_nil, reduceCtorEq, if_false, Int.zero_add, Int.add_zero, uSrc, CK.key,
      CKey.uReady.injEq, CKey.uReadyCores.injEq, CKey.uRunning.injEq, CKey.uRunningCores.injEq, CKey.uCreating.injEq,
      CKey.uCancReady.injEq, CKey.uCancRunning.injEq, CKey.uCancCreating.injEq, Int.one_mul, Int.neg_mul]

theorem get_groupRow (s : State) (b g a : Nat) (r : Nat × Nat) (X : CK) (b' u a' ic : Nat) :
    get (groupRow s b g a r) (X.key b' u a' ic) =
      if b = b' ∧ r.1 = u ∧ a = a' ∧ r.2 = ic then - get s.ctr (X.key b r.1 g r.2) else 0 := by
  unfold groupRow
  cases X <;>
    simp only [get_cons, get_nil, reduceCtorEq, if_false, Int.zero_add, Int.add_zero, CK.key,
      CKey.cReady.injEq, CKey.cReadyCores.injEq, CKey.cCreating.injEq, CKey.cRunning.injEq, CKey.cRunningCores.injEq]

theorem get_groupRow_other (s : State) (b g a : Nat) (r : Nat × Nat) (k : CKey) (hk' : ∀ X b' u a ic, k ≠ CK.key X b' u a ic) :
    get (groupRow s b g a r) k = 0 := by
  apply get_eq_zero_of_absent
  intro e he hek
  subst hek
  simp only [groupRow, List.mem_cons, List.not_mem_nil, or_false] at he
  rcases he with rfl | rfl | rfl | rfl | rfl
  · exact hk' .ready _ _ _ _ rfl
  · exact hk' .readyCores _ _ _ _ rfl
  · exact hk' .creating _ _ _ _ rfl
  · exact hk' .running _ _ _ _ rfl
  · exact hk' .runningCores _ _ _ _ rfl


theorem scopeG_under (s : State) (b u g ic : Nat) (j : Job) :
    scopeG s b u g ic j = (under s b g j && decide (j.update = u) && decide (j.ic = ic)) := by
  unfold scopeG under
  cases decide (j.batch = b) <;> cases decide (j.update = u) <;> cases decide (g ∈ ancestorsOf s b j.group) <;> rfl

/-- regrouping: a sum over the (update, inst_coll) rows of group `g` of per-row sums over the jobs is a sum over the jobs
under `g` -/
theorem cancel_rows_sum (s : State) (b g : Nat) (rows : List (Nat × Nat)) (hnd : rows.Nodup) (c : Nat × Nat → Int)
    (v : Job → Int) (jobs : List Job)
    (hsupp : ∀ j ∈ jobs, under s b g j = true → (j.update, j.ic) ∉ rows → v j = 0) :
    sumBy (fun r => c r * sumBy (fun j => gw s b r.1 g r.2 j (v j)) jobs) rows =
      sumBy (fun j => if under s b g j then c (j.update, j.ic) * v j else 0) jobs := by
  rw [sumBy_congr _ (fun r => sumBy (fun j => c r * gw s b r.1 g r.2 j (v j)) jobs) rows
    (fun r _ => (sumBy_mul_left _ _ _).symm), sumBy_comm]
  apply sumBy_congr
  intro j hj
  cases hu : under s b g j with
  | false =>
    simp only [Bool.false_eq_true, if_false]
    apply sumBy_zero
    intro r _
    simp [gw, scopeG_under, hu]
  | true =>
    simp only [if_true]
    rw [sumBy_congr _ (fun r => if r = (j.update, j.ic) then c (j.update, j.ic) * v j else 0) rows]
    · rw [sumBy_ite_eq_nodup rows hnd]
      split_ifs with hm
      · rfl
      · rw [hsupp j hj hu hm]; simp
    · intro r _
      by_cases hr : r = (j.update, j.ic)
      · subst hr; simp [gw, scopeG_under, hu]
      · have : ¬ (j.update = r.1 ∧ j.ic = r.2) := fun ⟨h1, h2⟩ => hr (by rw [h1, h2])
        simp only [hr, if_false, gw, scopeG_under, hu, Bool.true_and, Bool.and_eq_true, decide_eq_true_eq, this]
        simp

/-- a (update, inst_coll) pair without a cancellable row for group `g` reads 0 in all five counters -/
theorem get_of_not_row (s : State) (b g u ic : Nat) (h : (u, ic) ∉ cancellableRows s b g) (X : CK) :
    get s.ctr (X.key b u g ic) = 0 := by
  apply get_eq_zero_of_absent
  intro e he hek
  apply h
  unfold cancellableRows
  rw [List.mem_eraseDups, List.mem_filterMap]
  refine ⟨e, he, ?_⟩
  rw [hek]
  cases X <;> simp [CK.key]

theorem cancellableRows_nodup (s : State) (b g : Nat) : (cancellableRows s b g).Nodup := by
  unfold cancellableRows; exact eraseDups_nodup _

theorem ind_nonneg (st t : JState) (w' : Bool) : 0 ≤ ind st t w' := by
  unfold ind; rcases b2i_cases (decide (st = t) && w') with h | h <;> omega


/-- the invariant read at the (not yet cancelled) group `g` -/
theorem inv_at_group {s : State} (h : CountersInv s) {b g : Nat} (hnc : groupCancelled s b g = false) (X : CK) (u ic : Nat) :
    get s.ctr (X.key b u g ic) = sumBy (fun j => gw s b u g ic j (X.val s j)) s.jobs := by
  rw [h _ ((live_ck s X b u g ic).mpr hnc)]
  exact sumBy_congr _ _ _ (fun j _ => w_ck s X b u g ic j)

theorem cancel_supp {s : State} (h : CountersInv s) {b g : Nat} (hnc : groupCancelled s b g = false) (X : CK) :
    ∀ j ∈ s.jobs, under s b g j = true → (j.update, j.ic) ∉ cancellableRows s b g → X.val s j = 0 := by
  intro j hj hu hm
  have base : ∀ Y : CK, (∀ j', 0 ≤ Y.val s j') → Y.val s j = 0 := by
    intro Y hY
    have h0 := get_of_not_row s b g j.update j.ic hm Y
    rw [inv_at_group h hnc] at h0
    have := sumBy_eq_zero_term _ _ (fun j' _ => by unfold gw; split_ifs; exact hY j'; exact Int.le_refl 0) h0 j hj
    simpa [gw, scopeG_under, hu] using this
  have h1 := base .ready (fun j' => ind_nonneg _ _ _)
  have h2 := base .creating (fun j' => ind_nonneg _ _ _)
  have h3 := base .running (fun j' => ind_nonneg _ _ _)
  cases X
  · exact h1
  · simp only [CK.val] at h1 ⊢; rw [h1]; simp
  · exact h2
  · exact h3
  · simp only [CK.val] at h3 ⊢; rw [h3]; simp

theorem uSrc_key_none (X : CK) (b u a ic : Nat) : uSrc (X.key b u a ic) = none := by cases X <;> rfl

theorem get_groupPart_other (s : State) (b g : Nat) (k : CKey) (hk' : ∀ X b' u a ic, k ≠ CK.key X b' u a ic) :
    get ((ancestorsOf s b g).flatMap (fun a => (cancellableRows s b g).flatMap (groupRow s b g a))) k = 0 := by
  rw [get_flatMap]
  apply sumBy_zero
  intro a _
  rw [get_flatMap]
  apply sumBy_zero
  intro r _
  exact get_groupRow_other s b g a r k hk'

theorem uSrc_ne_key {k : CKey} {q : Int × CK × Nat × Nat} (hk : uSrc k = some q) : ∀ X b' u a ic, k ≠ CK.key X b' u a ic := by
  intro X b' u a ic e
  rw [e, uSrc_key_none] at hk; cases hk

theorem live_of_uSrc {s : State} {k : CKey} {q : Int × CK × Nat × Nat} (hk : uSrc k = some q) : Live s k := by
  cases k <;> trivial

/-- user counters after `cancel_job_group` -/
theorem cancelApply_user {s : State} (h : CountersInv s) {b g : Nat} (hnc : groupCancelled s b g = false)
    (k : CKey) (σ : Int) (X : CK) (usr ic : Nat) (hk : uSrc k = some (σ, X, usr, ic)) :
    get (cancelApply s b g).ctr k = sumBy (w (cancelApply s b g) k) (cancelApply s b g).jobs := by
  show get (addMany (cancelDeltas s b g) s.ctr) k = sumBy (w (cancelApply s b g) k) s.jobs
  rw [get_addMany, cancelDeltas_eq, get_append, get_groupPart_other s b g k (uSrc_ne_key hk), Int.add_zero,
    h k (live_of_uSrc hk), Int.add_comm]
  rw [sumBy_congr _ _ s.jobs (fun j _ => w_cancel_user s b g k σ X usr ic hk j), sumBy_add]
  congr 1
  rw [get_flatMap]
  show sumBy (fun r => get (userRow s b g r) k) _ = _
  rw [sumBy_filter_ite]
  rw [sumBy_congr _ (fun r => (if updCommitted s b r.1 = true ∧ userOf s b = usr ∧ r.2 = ic then σ else 0) *
      sumBy (fun j => gw s b r.1 g r.2 j (X.val s j)) s.jobs) (cancellableRows s b g)]
  · rw [cancel_rows_sum s b g _ (cancellableRows_nodup s b g)
      (fun r => if updCommitted s b r.1 = true ∧ userOf s b = usr ∧ r.2 = ic then σ else 0) _ _ (cancel_supp h hnc X)]
    apply sumBy_congr
    intro j _
    cases hu : under s b g j with
    | false => rfl
    | true =>
      have hb : j.batch = b := by unfold under at hu; simp at hu; exact hu.1
      simp only [if_true, uw, scopeU, hb]
      by_cases h1 : updCommitted s b j.update = true <;> by_cases h2 : userOf s b = usr <;> by_cases h3 : j.ic = ic <;>
        simp [h1, h2, h3]
  · intro r _
    rw [get_userRow, hk]
    simp only
    rw [inv_at_group h hnc]
    by_cases h1 : updCommitted s b r.1 = true <;> by_cases h2 : userOf s b = usr <;> by_cases h3 : r.2 = ic <;>
      simp [h1, h2, h3]


theorem get_userPart_key (s : State) (b g : Nat) (X : CK) (b' u a ic : Nat) :
    get (((cancellableRows s b g).filter fun r => updCommitted s b r.1).flatMap (userRow s b g)) (X.key b' u a ic) = 0 := by
  rw [get_flatMap]
  apply sumBy_zero
  intro r _
  rw [get_userRow, uSrc_key_none]

/-- cancellable counters of the groups that are still not cancelled after `cancel_job_group` -/
theorem cancelApply_group {s : State} (hs : Struct s) (h : CountersInv s) {b g : Nat} (hnc : groupCancelled s b g = false)
    (X : CK) (b' u a ic : Nat) (hk : groupCancelled (cancelApply s b g) b' a = false) :
    get (cancelApply s b g).ctr (X.key b' u a ic) =
      sumBy (w (cancelApply s b g) (X.key b' u a ic)) (cancelApply s b g).jobs := by
  rw [groupCancelled_cancelApply', Bool.or_eq_false_iff] at hk
  obtain ⟨hk1, hk2⟩ := hk
  show get (addMany (cancelDeltas s b g) s.ctr) _ = sumBy (w (cancelApply s b g) _) s.jobs
  rw [get_addMany, cancelDeltas_eq, get_append, get_userPart_key, Int.zero_add,
    h _ ((live_ck s X b' u a ic).mpr hk1)]
  rw [sumBy_congr (w (cancelApply s b g) _) _ s.jobs (fun j _ => w_cancel_group s b g X b' u a ic j), sumBy_sub]
  suffices hd : get ((ancestorsOf s b g).flatMap (fun a => (cancellableRows s b g).flatMap (groupRow s b g a)))
      (X.key b' u a ic) = - sumBy (fun j => if under s b g j then gw s b' u a ic j (X.val s j) else 0) s.jobs by
    rw [hd]; omega
  rw [get_flatMap]
  show sumBy (fun a' => get ((cancellableRows s b g).flatMap (groupRow s b g a')) (X.key b' u a ic)) _ = _
  rw [sumBy_congr _ (fun a' => sumBy (fun r => if b = b' ∧ r.1 = u ∧ a' = a ∧ r.2 = ic then
      - get s.ctr (X.key b r.1 g r.2) else 0) (cancellableRows s b g)) _
      (fun a' _ => by rw [get_flatMap]; exact sumBy_congr _ _ _ (fun r _ => get_groupRow s b g a' r X b' u a ic))]
  by_cases hb : b = b'
  · subst hb
    -- the inner sum picks the row (u, ic), the outer one the ancestor a
    have hinner : ∀ a', sumBy (fun r : Nat × Nat => if b = b ∧ r.1 = u ∧ a' = a ∧ r.2 = ic then
        - get s.ctr (X.key b r.1 g r.2) else 0) (cancellableRows s b g) =
        if a' = a then - get s.ctr (X.key b u g ic) else 0 := by
      intro a'
      rw [sumBy_congr _ (fun r => if r = (u, ic) then (if a' = a then - get s.ctr (X.key b u g ic) else 0) else 0)]
      · rw [sumBy_ite_eq_nodup _ (cancellableRows_nodup s b g)]
        split_ifs with hm ha
        · rfl
        · rfl
        · rw [get_of_not_row s b g u ic hm X]; simp
        · rfl
      · intro r _
        by_cases hr : r = (u, ic)
        · subst hr; simp
        · have : ¬ (r.1 = u ∧ r.2 = ic) := fun ⟨h1, h2⟩ => hr (by rw [← h1, ← h2])
          have : ¬ (b = b ∧ r.1 = u ∧ a' = a ∧ r.2 = ic) := fun ⟨_, h1, _, h2⟩ => this ⟨h1, h2⟩
          rw [if_neg this, if_neg hr]
    rw [sumBy_congr _ _ _ (fun a' _ => hinner a'), sumBy_ite_eq_nodup _ (hs.ancNodup b g)]
    split_ifs with ha
    · -- a is an ancestor-or-self of g: its rows lose exactly the rows of g
      rw [inv_at_group h hnc]
      congr 1
      apply sumBy_congr
      intro j _
      have : scopeG s b u g ic j = (under s b g j && scopeG s b u a ic j) := by
        rw [Bool.eq_iff_iff]
        simp only [scopeG, under, Bool.and_eq_true, decide_eq_true_eq]
        constructor
        · rintro ⟨⟨⟨h1, h2⟩, h3⟩, h4⟩
          exact ⟨⟨h1, h3⟩, ⟨⟨h1, h2⟩, hs.ancTrans b _ g h3 a ha⟩, h4⟩
        · rintro ⟨⟨h1, h3⟩, ⟨⟨_, h2⟩, _⟩, h4⟩
          exact ⟨⟨⟨h1, h2⟩, h3⟩, h4⟩
      unfold gw
      rw [this]
      cases under s b g j <;> simp
    · -- a is not above g, and not below g either (it would be cancelled now): no job is under both
      symm
      rw [Int.neg_eq_zero]
      apply sumBy_zero
      intro j _
      cases hu : under s b g j with
      | false => rfl
      | true =>
        simp only [if_true, gw]
        cases hsc : scopeG s b u a ic j with
        | false => rfl
        | true =>
          exfalso
          simp only [scopeG, under, Bool.and_eq_true, decide_eq_true_eq] at hu hsc
          rcases hs.ancLinear b j.group a g hsc.1.2 hu.2 with h1 | h1
          · exact ha h1
          · simp [h1] at hk2
  · have h0 : ∀ a', sumBy (fun r : Nat × Nat => if b = b' ∧ r.1 = u ∧ a' = a ∧ r.2 = ic then
        - get s.ctr (X.key b r.1 g r.2) else 0) (cancellableRows s b g) = 0 := by
      intro a'; apply sumBy_zero; intro r _; simp [hb]
    rw [sumBy_zero _ _ (fun a' _ => h0 a')]
    symm
    rw [Int.neg_eq_zero]
    apply sumBy_zero
    intro j _
    cases hu : under s b g j with
    | false => rfl
    | true =>
      simp only [under, Bool.and_eq_true, decide_eq_true_eq] at hu
      have : j.batch ≠ b' := fun e => hb (hu.1.symm.trans e)
      simp [gw, scopeG, this]


def cSrc : CKey → Option (CK × Nat × Nat × Nat × Nat)
  | .cReady b u g ic => some (.ready, b, u, g, ic)
  | .cReadyCores b u g ic => some (.readyCores, b, u, g, ic)
  | .cCreating b u g ic => some (.creating, b, u, g, ic)
  | .cRunning b u g ic => some (.running, b, u, g, ic)
  | .cRunningCores b u g ic => some (.runningCores, b, u, g, ic)
  | _ => none

theorem cSrc_some {k : CKey} {X : CK} {b u g ic : Nat} (h : cSrc k = some (X, b, u, g, ic)) : k = X.key b u g ic := by
  cases k <;> simp only [cSrc, Option.some.injEq, Prod.mk.injEq, reduceCtorEq] at h
  all_goals obtain ⟨rfl, rfl, rfl, rfl, rfl⟩ := h
  all_goals rfl

theorem cSrc_none {k : CKey} (h : cSrc k = none) : ∀ X b u g ic, k ≠ CK.key X b u g ic := by
  intro X b u g ic e
  subst e
  cases X <;> simp [cSrc, CK.key] at h

theorem live_cancel_other {s : State} {b g : Nat} {k : CKey} (h1 : uSrc k = none) (h2 : cSrc k = none)
    (hk : Live (cancelApply s b g) k) : Live s k := by
  cases k <;> first | exact hk | (simp [uSrc] at h1; done) | (simp [cSrc] at h2)

theorem countersInv_cancelApply {s : State} (hs : Struct s) (h : CountersInv s) {b g : Nat}
    (hnc : groupCancelled s b g = false) : CountersInv (cancelApply s b g) := by
  intro k hk
  cases h1 : uSrc k with
  | some q =>
    obtain ⟨σ, X, usr, ic⟩ := q
    exact cancelApply_user h hnc k σ X usr ic h1
  | none =>
    cases h2 : cSrc k with
    | some q =>
      obtain ⟨X, b', u, a, ic⟩ := q
      have := cSrc_some h2
      subst this
      exact cancelApply_group hs h hnc X b' u a ic ((live_ck _ X b' u a ic).mp hk)
    | none =>
      show get (addMany (cancelDeltas s b g) s.ctr) k = sumBy (w (cancelApply s b g) k) s.jobs
      rw [get_addMany, cancelDeltas_eq, get_append, get_groupPart_other s b g k (cSrc_none h2), h k (live_cancel_other h1 h2 hk)]
      rw [sumBy_congr _ _ s.jobs (fun j _ => w_cancel_staging s b g k h1 (cSrc_none h2) j)]
      have : get (((cancellableRows s b g).filter fun r => updCommitted s b r.1).flatMap (userRow s b g)) k = 0 := by
        rw [get_flatMap]; apply sumBy_zero; intro r _; rw [get_userRow, h1]
      rw [this]; omega

theorem struct_cancelApply {s : State} (hs : Struct s) (b g : Nat) : Struct (cancelApply s b g) :=
  ⟨hs.ancNodup, hs.ancSelf, hs.ancTrans, hs.ancLinear, hs.ancRoot, hs.jobGroup, hs.jobBatch, hs.uncommitted⟩

theorem inv_cancelApply {s : State} (h : Inv s) {b g : Nat} (hnc : groupCancelled s b g = false) : Inv (cancelApply s b g) :=
  ⟨struct_cancelApply h.1 b g, countersInv_cancelApply h.1 h.2 hnc⟩

theorem inv_cancelGroup (s : State) (b g : Nat) (h : Inv s) : Inv (cancelGroup s b g).1 := by
  rcases cancelGroup_cases s b g with ⟨_, h1⟩ | ⟨_, _, h1⟩ | ⟨_, hnc, h1⟩
  · rw [h1]; exact h
  · rw [h1]; exact h
  · rw [h1]; exact inv_cancelApply h hnc

theorem quiet_markBatchDeleted (s : State) (b : Nat) :
    Quiet s { s with batches := s.batches.map fun (x : Batch) => if x.id = b then { x with deleted := true } else x } :=
  ⟨SameEnv.of_maps (FB := fun x => if x.id = b then { x with deleted := true } else x)
    (fun x => by split_ifs <;> exact ⟨rfl, rfl⟩) rfl rfl GroupFrame.id (by simp) rfl, rfl, fun _ _ => rfl⟩

theorem inv_deleteBatch (s : State) (b : Nat) (h : Inv s) : Inv (deleteBatch s b).1 := by
  unfold deleteBatch
  split
  · exact h
  · split_ifs with h1 h2
    · exact h
    · exact inv_quiet (quiet_markBatchDeleted s b) h
    · exact inv_quiet (quiet_markBatchDeleted _ b) (inv_cancelApply h (by simpa using h2))


/-! ## procedure `commit_batch_update` -/

/-- `UPDATE batch_updates SET committed = 1 WHERE batch_id = b AND update_id = upd` -/
def flipU (b upd : Nat) (x : Update) : Update := if x.batch = b ∧ x.id = upd then { x with committed := true } else x

theorem updCommitted_flip {s s1 : State} {b upd : Nat} (h : s1.updates = s.updates.map (flipU b upd)) {u : Update}
    (hfu : findUpdate s b upd = some u) (b' u' : Nat) :
    updCommitted s1 b' u' = (updCommitted s b' u' || decide (b' = b ∧ u' = upd)) := by
  unfold updCommitted findUpdate at *
  rw [h, List.find?_map]
  have : ((fun x : Update => decide (x.batch = b' ∧ x.id = u')) ∘ flipU b upd) =
      (fun x : Update => decide (x.batch = b' ∧ x.id = u')) := by
    funext x; unfold flipU; simp only [Function.comp]; split_ifs <;> rfl
  rw [this]
  cases hf : List.find? (fun x : Update => decide (x.batch = b' ∧ x.id = u')) s.updates with
  | none =>
    by_cases hb : b' = b ∧ u' = upd
    · obtain ⟨rfl, rfl⟩ := hb; rw [hf] at hfu; cases hfu
    · simp [hb]
  | some x =>
    have hx := List.find?_some hf
    simp only [decide_eq_true_eq] at hx
    simp only [Option.map_some, flipU, hx.1, hx.2]
    by_cases hb : b' = b ∧ u' = upd <;> simp [hb]

/-- the staging row from which a user counter is fed at commit time -/
def srcS (b upd : Nat) : CKey → Option (Nat × CKey)
  | .uReady usr ic => some (usr, .sReady b upd 0 ic)
  | .uReadyCores usr ic => some (usr, .sReadyCores b upd 0 ic)
  | _ => none

/-- what `commit_batch_update` must add to counter `k` -/
def adj (s : State) (b upd : Nat) (k : CKey) : Int :=
  match srcS b upd k with
  | some (usr, sk) => if userOf s b = usr then get s.ctr sk else 0
  | none => 0

def extraW (s : State) (b upd : Nat) (k : CKey) (j : Job) : Int :=
  match srcS b upd k with
  | some (usr, sk) => if userOf s b = usr then w s sk j else 0
  | none => 0

/-- the state after the `UPDATE batch_updates` and the `INSERT INTO user_inst_coll_resources` of `commit_batch_update` -/
def commitCore (s : State) (b upd : Nat) (adjl : List (CKey × Int)) : State :=
  { s with updates := s.updates.map (flipU b upd), ctr := addMany adjl s.ctr }

theorem w_commit {s : State} (hs : Struct s) {b upd : Nat} {u : Update} (hfu : findUpdate s b upd = some u)
    (hunc : u.committed = false) (adjl : List (CKey × Int))
    (H2 : ∀ j ∈ s.jobs, j.batch = b → j.update = upd → jobCancelled s j = false)
    (k : CKey) (j : Job) (hj : j ∈ s.jobs) :
    w (commitCore s b upd adjl) k j = w s k j + extraW s b upd k j := by
  have hc1 := updCommitted_flip (s1 := commitCore s b upd adjl) (s := s) rfl hfu
  have hunc' : updCommitted s b upd = false := by unfold updCommitted; rw [hfu]; exact hunc
  have hgc : gcOf (commitCore s b upd adjl) j = gcOf s j := rfl
  have hsg : ∀ b' u' g ic, scopeG (commitCore s b upd adjl) b' u' g ic j = scopeG s b' u' g ic j := fun _ _ _ _ => rfl
  have hsu : ∀ usr ic, scopeU (commitCore s b upd adjl) usr ic j =
      (decide (userOf s j.batch = usr) && decide (j.ic = ic) &&
        (updCommitted s j.batch j.update || decide (j.batch = b ∧ j.update = upd))) := by
    intro usr ic; unfold scopeU; rw [hc1]; rfl
  by_cases hju : j.batch = b ∧ j.update = upd
  · obtain ⟨hb, hu⟩ := hju
    have f0 : updCommitted s j.batch j.update = false := by rw [hb, hu]; exact hunc'
    obtain ⟨f1, f2⟩ := hs.uncommitted j hj f0
    have f3 : cancB s j = false := H2 j hj hb hu
    have f4 : liveB s j = true := by unfold liveB; unfold cancB at f3; rw [f3]; rfl
    have f5 : 0 ∈ ancestorsOf s b j.group := by
      have := hs.jobGroup j hj
      rw [hb] at this
      exact hs.ancRoot b j.group (fun e => by rw [e] at this; simp at this)
    have hrun : ∀ w', ind j.state .Running w' = 0 := by
      intro w'; rcases f2 with h | h <;> simp [ind, h, b2i]
    have hcre : ∀ w', ind j.state .Creating w' = 0 := by
      intro w'; rcases f2 with h | h <;> simp [ind, h, b2i]
    have hs0 : ∀ ic, scopeG s b upd 0 ic j = decide (j.ic = ic) := by
      intro ic; simp [scopeG, hb, hu, f5]
    have hl1 : liveB (commitCore s b upd adjl) j = true := f4
    have hc1' : cancB (commitCore s b upd adjl) j = false := f3
    have hb1 : cblB (commitCore s b upd adjl) j = cblB s j := rfl
    have hsu0 : ∀ usr ic, scopeU s usr ic j = false := by intro usr ic; simp [scopeU, f0]
    have hsu1 : ∀ usr ic, scopeU (commitCore s b upd adjl) usr ic j = (decide (userOf s b = usr) && decide (j.ic = ic)) := by
      intro usr ic; rw [hsu, hb, hu, hunc']; simp
    cases k <;>
      simp only [w, uw, gw, hsu1, hsu0, hsg, hl1, hc1', hb1, f3, f4, extraW, srcS,
        Bool.false_eq_true, if_false, hs0, Int.zero_add, Int.add_zero, hrun, hcre, Int.zero_mul, ite_self]
    all_goals (split_ifs <;> simp_all [ind, b2i])
  · have hsu1 : ∀ usr ic, scopeU (commitCore s b upd adjl) usr ic j = scopeU s usr ic j := by
      intro usr ic; rw [hsu]; simp [scopeU, hju]
    have hsn : ∀ g ic, scopeG s b upd g ic j = false := by
      intro g ic
      unfold scopeG
      by_cases h1 : j.batch = b
      · have : ¬ j.update = upd := fun h2 => hju ⟨h1, h2⟩
        simp [this]
      · simp [h1]
    have hl1 : liveB (commitCore s b upd adjl) j = liveB s j := rfl
    have hc1' : cancB (commitCore s b upd adjl) j = cancB s j := rfl
    have hb1 : cblB (commitCore s b upd adjl) j = cblB s j := rfl
    cases k <;>
      simp only [w, uw, gw, hsu1, hsg, hl1, hc1', hb1, extraW, srcS, hsn, Bool.false_eq_true, if_false, ite_self,
        Int.add_zero]


theorem live_srcS {s : State} {b upd : Nat} {k : CKey} {usr : Nat} {sk : CKey} (h : srcS b upd k = some (usr, sk))
    (hunc : updCommitted s b upd = false) : Live s sk := by
  cases k <;> simp only [srcS, Option.some.injEq, Prod.mk.injEq, reduceCtorEq] at h
  all_goals obtain ⟨rfl, rfl⟩ := h
  all_goals exact hunc

theorem sum_extraW {s : State} (h : CountersInv s) {b upd : Nat} (hunc : updCommitted s b upd = false) (k : CKey) :
    sumBy (extraW s b upd k) s.jobs = adj s b upd k := by
  unfold adj
  cases hsrc : srcS b upd k with
  | none =>
    simp only
    apply sumBy_zero; intro j _; simp [extraW, hsrc]
  | some q =>
    obtain ⟨usr, sk⟩ := q
    simp only
    by_cases hu : userOf s b = usr
    · rw [if_pos hu, h sk (live_srcS hsrc hunc)]
      apply sumBy_congr; intro j _; simp [extraW, hsrc, hu]
    · rw [if_neg hu]
      apply sumBy_zero; intro j _; simp [extraW, hsrc, hu]

theorem inv_commitCore {s : State} (h : Inv s) {b upd : Nat} {u : Update} (hfu : findUpdate s b upd = some u)
    (hunc : u.committed = false) (adjl : List (CKey × Int))
    (hadj : ∀ k, get adjl k = adj s b upd k)
    (H2 : ∀ j ∈ s.jobs, j.batch = b → j.update = upd → jobCancelled s j = false) :
    Inv (commitCore s b upd adjl) := by
  have hc1 := updCommitted_flip (s1 := commitCore s b upd adjl) (s := s) rfl hfu
  have hunc' : updCommitted s b upd = false := by unfold updCommitted; rw [hfu]; exact hunc
  have hmono : ∀ b' u', updCommitted (commitCore s b upd adjl) b' u' = false → updCommitted s b' u' = false := by
    intro b' u' hf; rw [hc1, Bool.or_eq_false_iff] at hf; exact hf.1
  refine ⟨⟨h.1.ancNodup, h.1.ancSelf, h.1.ancTrans, h.1.ancLinear, h.1.ancRoot, h.1.jobGroup, h.1.jobBatch, ?_⟩, ?_⟩
  · intro j hj hf; exact h.1.uncommitted j hj (hmono _ _ hf)
  · intro k hk
    have hk' : Live s k := by
      cases k <;> first | exact hk | exact hmono _ _ hk
    show get (addMany adjl s.ctr) k = sumBy (w (commitCore s b upd adjl) k) s.jobs
    rw [get_addMany, hadj, h.2 k hk', sumBy_congr _ _ s.jobs (fun j hj => w_commit h.1 hfu hunc adjl H2 k j hj),
      sumBy_add, sum_extraW h.2 hunc', Int.add_comm]


theorem staging_nonneg {s : State} (h : CountersInv s) {b upd : Nat} (hunc : updCommitted s b upd = false) (ic : Nat) :
    0 ≤ get s.ctr (.sJobs b upd 0 ic) := by
  rw [h (.sJobs b upd 0 ic) hunc]
  apply sumBy_nonneg; intro j _; simp only [w, gw]; split_ifs <;> omega

/-- no staged job for an inst_coll: no staged ready job either -/
theorem staging_zero {s : State} (h : CountersInv s) {b upd : Nat} (hunc : updCommitted s b upd = false) (ic : Nat)
    (h0 : get s.ctr (.sJobs b upd 0 ic) = 0) :
    get s.ctr (.sReady b upd 0 ic) = 0 ∧ get s.ctr (.sReadyCores b upd 0 ic) = 0 := by
  rw [h (.sJobs b upd 0 ic) hunc] at h0
  have hz := sumBy_eq_zero_term _ _ (fun j _ => by simp only [w, gw]; split_ifs <;> omega) h0
  have hsc : ∀ j ∈ s.jobs, scopeG s b upd 0 ic j = false := by
    intro j hj
    have := hz j hj
    simp only [w, gw] at this
    cases hsg : scopeG s b upd 0 ic j with
    | false => rfl
    | true => rw [hsg] at this; simp at this
  rw [h (.sReady b upd 0 ic) hunc, h (.sReadyCores b upd 0 ic) hunc]
  constructor <;> (apply sumBy_zero; intro j hj; simp [w, gw, hsc j hj])

/-- the `INSERT INTO user_inst_coll_resources … SELECT … FROM job_groups_inst_coll_staging` of `commit_batch_update` -/
theorem get_commitDeltas {s : State} (h : CountersInv s) {b upd : Nat} (hunc : updCommitted s b upd = false)
    (ics : List Nat) (hnd : ics.Nodup) (habs : ∀ ic, ic ∉ ics → ∀ e ∈ s.ctr, e.1 ≠ .sJobs b upd 0 ic) (k : CKey) :
    get (ics.flatMap fun ic =>
      [(CKey.uReady (userOf s b) ic, get s.ctr (.sReady b upd 0 ic)),
       (CKey.uReadyCores (userOf s b) ic, get s.ctr (.sReadyCores b upd 0 ic))]) k = adj s b upd k := by
  have hz : ∀ ic, ic ∉ ics → get s.ctr (.sReady b upd 0 ic) = 0 ∧ get s.ctr (.sReadyCores b upd 0 ic) = 0 :=
    fun ic hic => staging_zero h hunc ic (get_eq_zero_of_absent _ _ (habs ic hic))
  rw [get_flatMap]
  cases k <;>
    simp only [get_cons, get_nil, reduceCtorEq, if_false, Int.zero_add, Int.add_zero, sum_map_zero, adj, srcS,
      CKey.uReady.injEq, CKey.uReadyCores.injEq]
  · rename_i usr ic0
    show sumBy (fun ic => if userOf s b = usr ∧ ic = ic0 then get s.ctr (.sReady b upd 0 ic) else 0) ics = _
    rw [sumBy_congr _ (fun ic => if ic = ic0 then (if userOf s b = usr then get s.ctr (.sReady b upd 0 ic0) else 0) else 0)]
    · rw [sumBy_ite_eq_nodup _ hnd]
      split_ifs with h1 h2 <;> first | rfl | (rw [(hz ic0 h1).1])
    · intro ic _; by_cases h1 : ic = ic0 <;> by_cases h2 : userOf s b = usr <;> simp [h1, h2]
  · rename_i usr ic0
    show sumBy (fun ic => if userOf s b = usr ∧ ic = ic0 then get s.ctr (.sReadyCores b upd 0 ic) else 0) ics = _
    rw [sumBy_congr _ (fun ic => if ic = ic0 then (if userOf s b = usr then get s.ctr (.sReadyCores b upd 0 ic0) else 0) else 0)]
    · rw [sumBy_ite_eq_nodup _ hnd]
      split_ifs with h1 h2 <;> first | rfl | (rw [(hz ic0 h1).2])
    · intro ic _; by_cases h1 : ic = ic0 <;> by_cases h2 : userOf s b = usr <;> simp [h1, h2]

/-- an update with no staged job adds nothing to the user counters -/
theorem adj_zero {s : State} (h : CountersInv s) {b upd : Nat} (hunc : updCommitted s b upd = false)
    (ics : List Nat) (habs : ∀ ic, ic ∉ ics → ∀ e ∈ s.ctr, e.1 ≠ .sJobs b upd 0 ic)
    (h0 : (ics.map fun ic => get s.ctr (.sJobs b upd 0 ic)).sum = 0) (k : CKey) : adj s b upd k = 0 := by
  have hall : ∀ ic, get s.ctr (.sJobs b upd 0 ic) = 0 := by
    intro ic
    by_cases hic : ic ∈ ics
    · exact sumBy_eq_zero_term (fun ic => get s.ctr (.sJobs b upd 0 ic)) ics (fun x _ => staging_nonneg h hunc x) h0 ic hic
    · exact get_eq_zero_of_absent _ _ (habs ic hic)
  unfold adj
  cases k <;> simp only [srcS]
  · rw [(staging_zero h hunc _ (hall _)).1]; simp
  · rw [(staging_zero h hunc _ (hall _)).2]; simp


theorem inv_commitUpdate (s : State) (b upd : Nat)
    (H2 : ∀ j ∈ s.jobs, j.batch = b → j.update = upd → jobCancelled s j = false)
    (Hr : ∀ u, findUpdate s b upd = some u → ∀ j ∈ s.jobs, j.batch = b → u.startJob ≤ j.id → j.id < u.startJob + u.nJobs →
      j.update = upd ∨ updCommitted s b j.update = true)
    (h : Inv s) : Inv (commitUpdate s b upd).1 := by
  unfold commitUpdate
  split
  · exact h
  · rename_i u hfu
    dsimp only
    generalize hics : List.eraseDups (α := Nat) (List.filterMap _ s.ctr) = ics
    have hnd : ics.Nodup := by rw [← hics]; exact eraseDups_nodup _
    have habs : ∀ ic, ic ∉ ics → ∀ e ∈ s.ctr, e.1 ≠ .sJobs b upd 0 ic := by
      intro ic hic e he hek
      apply hic
      rw [← hics, List.mem_eraseDups, List.mem_filterMap]
      exact ⟨e, he, by rw [hek]; simp⟩
    clear hics
    split_ifs with h1 h2 h3 h4
    · exact h
    · exact h
    · -- an update without jobs: only the flag changes
      have hunc : u.committed = false := by simpa using h1
      have hunc' : updCommitted s b upd = false := by unfold updCommitted; rw [hfu]; exact hunc
      have h0 : (ics.map fun ic => get s.ctr (.sJobs b upd 0 ic)).sum = 0 := by
        have : (ics.map fun ic => get s.ctr (.sJobs b upd 0 ic)).sum = (u.nJobs : Int) := by
          simpa using h2
        rw [this, h3]; rfl
      exact inv_commitCore h hfu hunc [] (fun k => by rw [adj_zero h.2 hunc' ics habs h0 k]; rfl) H2
    · have hunc : u.committed = false := by simpa using h1
      have hunc' : updCommitted s b upd = false := by unfold updCommitted; rw [hfu]; exact hunc
      refine inv_quiet (s := commitCore s b upd (ics.flatMap fun ic =>
        [(CKey.uReady (userOf s b) ic, get s.ctr (.sReady b upd 0 ic)),
         (CKey.uReadyCores (userOf s b) ic, get s.ctr (.sReadyCores b upd 0 ic))])) ?_
        (inv_commitCore h hfu hunc _ (get_commitDeltas h.2 hunc' ics hnd habs) H2)
      refine ⟨SameEnv.of_maps ?_ rfl rfl ?_ rfl rfl, rfl, fun _ _ => rfl⟩
      · intro x; split_ifs <;> exact ⟨rfl, rfl⟩
      · exact groupFrame_setStateJobs _ _ _
    · have hunc : u.committed = false := by simpa using h1
      have hunc' : updCommitted s b upd = false := by unfold updCommitted; rw [hfu]; exact hunc
      refine inv_updateJobs _ _ _ ?_ ?_ (inv_quiet (s := commitCore s b upd (ics.flatMap fun ic =>
        [(CKey.uReady (userOf s b) ic, get s.ctr (.sReady b upd 0 ic)),
         (CKey.uReadyCores (userOf s b) ic, get s.ctr (.sReadyCores b upd 0 ic))])) ?_
        (inv_commitCore h hfu hunc _ (get_commitDeltas h.2 hunc' ics hnd habs) H2))
      · intro x
        refine ⟨rfl, rfl, rfl, rfl, rfl, rfl, rfl, ?_⟩
        intro hx; dsimp only; split_ifs <;> simp_all
      · intro x hx hp
        simp only [Bool.decide_and, Bool.and_eq_true, decide_eq_true_eq] at hp
        rw [updCommitted_flip (b := b) (upd := upd) rfl hfu]
        rcases Hr u hfu x hx hp.1 hp.2.1 hp.2.2 with h5 | h5
        · simp [hp.1, h5]
        · rw [hp.1, h5]; rfl
      · refine ⟨SameEnv.of_maps ?_ rfl rfl ?_ rfl rfl, rfl, fun _ _ => rfl⟩
        · intro x; split_ifs <;> exact ⟨rfl, rfl⟩
        · exact groupFrame_setStateJobs _ _ _


/-! ## every transaction -/

/-- (H1) every child (`job_parents`) of job `j` belongs to a committed update -/
def ChildrenCommitted (s : State) (b j : Nat) : Prop :=
  ∀ x ∈ s.jobs, isChildOf s b j x = true → updCommitted s x.batch x.update = true

/-- (H2) no job of the update is cancelled (by its own mark or through a cancelled group) -/
def NoneCancelled (s : State) (b upd : Nat) : Prop :=
  ∀ j ∈ s.jobs, j.batch = b → j.update = upd → jobCancelled s j = false

/-- (H2') the rows in the job-id range reserved for the update belong to it (or to a committed update) -/
def RangeOwned (s : State) (b upd : Nat) : Prop :=
  match findUpdate s b upd with
  | some u => ∀ j ∈ s.jobs, j.batch = b → u.startJob ≤ j.id → j.id < u.startJob + u.nJobs →
      j.update = upd ∨ updCommitted s b j.update = true
  | none => True

/-- (H4) every group row present after the transaction has the root group among its ancestors, i.e. the parent named
by each group spec existed when the group was created -/
def GroupsRooted (s : State) : Prop := ∀ g ∈ s.groups, 0 ∈ g.ancestors

/-- the hypotheses on (pre-state, transaction) under which the counters stay exact -/
def OpOK (s : State) : Op → Prop
  | .schedule b j _ _ => TargetCommitted s b j
  | .creating b j _ _ _ _ => TargetCommitted s b j
  | .started b j _ _ _ _ => TargetCommitted s b j
  | .unschedule b j _ _ _ _ _ => TargetCommitted s b j
  | .complete b j _ _ _ _ _ _ _ => TargetCommitted s b j ∧ ChildrenCommitted s b j
  | .commitUpdate b upd => NoneCancelled s b upd ∧ RangeOwned s b upd
  | .insertGroups b upd usr specs => GroupsRooted (insertGroups s b upd usr specs).1
  | _ => True

instance (s : State) (b j : Nat) : Decidable (ChildrenCommitted s b j) := by unfold ChildrenCommitted; infer_instance
instance (s : State) (b upd : Nat) : Decidable (NoneCancelled s b upd) := by unfold NoneCancelled; infer_instance
instance (s : State) (b upd : Nat) : Decidable (RangeOwned s b upd) := by
  unfold RangeOwned; cases findUpdate s b upd <;> infer_instance
instance (s : State) : Decidable (GroupsRooted s) := by unfold GroupsRooted; infer_instance
instance (s : State) (op : Op) : Decidable (OpOK s op) := by cases op <;> unfold OpOK <;> infer_instance

theorem struct_init : Struct init := by
  have ha : ∀ b d, ancestorsOf init b d = [] := fun _ _ => rfl
  refine ⟨?_, ?_, ?_, ?_, ?_, ?_, ?_, ?_⟩
  · intro b d; rw [ha]; simp
  · intro b d a h; rw [ha] at h; simp at h
  · intro b d a h; rw [ha] at h; simp at h
  · intro b d a g h; rw [ha] at h; simp at h
  · intro b d h; exact absurd (ha b d) h
  · intro j hj; simp [init] at hj
  · intro j hj; simp [init] at hj
  · intro j hj; simp [init] at hj

theorem inv_init : Inv init := ⟨struct_init, fun _ _ => rfl⟩

/-- `Struct ∧ CountersInv` is preserved by every transaction that satisfies `OpOK` -/
theorem inv_step (s : State) (op : Op) (hok : OpOK s op) (hself : GroupsSelf s) (h : Inv s) : Inv (step s op).1 := by
  cases op with
  | createBatch u bp t => exact inv_createBatch s u bp t h
  | createUpdate b t nj ng u => exact inv_quiet (quiet_createUpdate s b t nj ng u) h
  | insertGroups b u usr specs => exact inv_insertGroups s b u usr specs hok h
  | insertJobs b u usr specs => exact inv_insertJobs s b u usr specs hself h
  | commitUpdate b u =>
    refine inv_commitUpdate s b u hok.1 ?_ h
    intro x hfu
    have := hok.2
    unfold RangeOwned at this
    rw [hfu] at this
    exact this
  | cancelGroup b g => exact inv_cancelGroup s b g h
  | deleteBatch b => exact inv_deleteBatch s b h
  | newInstance n c p => exact inv_quiet (quiet_newInstance s n c p) h
  | activate n => exact inv_quiet (quiet_activate s n) h
  | deactivate n r ts d => exact inv_deactivate s n r ts d h
  | markDeleted n => exact inv_quiet (quiet_markDeleted s n) h
  | schedule b j a i => exact inv_schedule s b j a i hok h
  | creating b j a i ts d => exact inv_startLike s b j a i ts d _ _ hok h
  | started b j a i ts d => exact inv_startLike s b j a i ts d _ _ hok h
  | complete b j a i st st' e r d => exact inv_complete s b j a i st st' e r d hok.1 hok.2 h
  | unschedule b j a i e r d => exact inv_unschedule s b j a i e r d hok h
  | addResources b j a res d => exact inv_quiet (quiet_addResources s b j a res d) h
  | heartbeat atts ts d => exact inv_quiet (quiet_heartbeat s atts ts d) h
  | cleanupStaging => exact inv_quiet (quiet_cleanupStaging s) h
  | cleanupCancellable => exact inv_quiet (quiet_cleanupCancellable s) h
  | compact => exact inv_quiet (quiet_compact s) h

/-- the hypotheses hold at every step of a history started in `s` -/
def HistOK : State → List Op → Prop
  | _, [] => True
  | s, op :: rest => OpOK s op ∧ HistOK (step s op).1 rest

instance : ∀ (s : State) (ops : List Op), Decidable (HistOK s ops)
  | _, [] => isTrue trivial
  | s, op :: rest => by
    unfold HistOK
    have := instDecidableHistOK (step s op).1 rest
    infer_instance

theorem inv_hist (ops : List Op) : ∀ (s : State), HistOK s ops → GroupsSelf s → Inv s →
    Inv (ops.foldl (fun s op => (step s op).1) s) := by
  induction ops with
  | nil => intro s _ _ h; exact h
  | cons op rest ih =>
    intro s hok hself h
    exact ih (step s op).1 hok.2 (groupsSelf_of_shape (shape_step s op) hself) (inv_step s op hok.1 hself h)

theorem inv_run (ops : List Op) (hok : HistOK init ops) : Inv (run ops) :=
  inv_hist ops init hok groupsSelf_init inv_init

end HailVerif.BatchDB
